"""Program generator of the C13 check.  program(k) -> {src, stops, halted, meta}:
a QBASIC program whose declaration shapes vary with k (mixed radix over the
axes below; a random.Random seeded by k only picks the VALUES), instrumented
with one `PRINT <expr>` line per probe expression.  `stops` maps the line of a
probe to the expressions the debugger is asked at that line (the first is the
line's own expression); `meta[line][i]` describes probe i: what it is (kind,
scope, how its type is declared, what the main program's symbol table says
about that name), independently of how the debugger works."""
import random

TYN = {1: 'INTEGER', 2: 'LONG', 3: 'SINGLE', 4: 'DOUBLE', 5: 'STRING'}
SFX = {1: '%', 2: '&', 3: '!', 4: '#', 5: '$'}
DEFS = [('DEFINT', 1), ('DEFLNG', 2), ('DEFDBL', 4), ('DEFSTR', 5), (None, 3)]

BINOPS = [('+', 'ADD'), ('-', 'SUB'), ('*', 'MUL'), ('/', 'DIV'), ('MOD', 'MOD'), ('\\', 'INTDIV'),
          ('^', 'EXP'), ('=', 'CMP_EQ'), ('<>', 'CMP_NE'), ('<', 'CMP_LT'), ('>', 'CMP_GT'),
          ('<=', 'CMP_LE'), ('>=', 'CMP_GE'), ('AND', 'AND'), ('OR', 'OR'), ('XOR', 'XOR'),
          ('EQV', 'EQV'), ('IMP', 'IMP')]
UNOPS = [('-', 'NEG'), ('+', 'PLUS'), ('NOT ', 'NOT')]


def lit(ty, v):
    if ty == 5:
        return '"' + v + '"'
    if ty in (1, 2):
        return str(v) + ('&' if ty == 2 else '')
    s = repr(float(v))
    if 'e' in s or 'inf' in s or 'nan' in s:
        raise ValueError(s)
    return s + ('#' if ty == 4 else '')


class Gen:
    def __init__(self, k):
        self.k = k
        self.rng = random.Random(f'c13/{k}')
        self.lines = []
        self.stops = {}
        self.meta = {}
        self.cands = []

    def emit(self, s):
        self.lines.append(s)

    def val(self, ty):
        r = self.rng
        if ty == 1:
            return r.choice([r.randint(-99, 99), r.randint(-30000, 30000), 7, -3])
        if ty == 2:
            return r.choice([r.randint(-99999, 99999), r.randint(40000, 2000000), 100000])
        if ty == 3:
            return r.choice([r.randint(-50, 50) + 0.5, r.randint(1, 9) * 0.25, 1.5, 0.1, r.randint(1, 99) / 10])
        if ty == 4:
            return r.choice([r.randint(-500, 500) + 0.25, 0.1, r.randint(1, 999) / 100, 2.5, 123456.789])
        return r.choice(['ab', 'Hello', 'x y', '', 'q' + str(r.randint(0, 99))])

    def cand(self, expr, tag, expect='value', extra=()):
        """a candidate probe of the current phase (see flush)"""
        self.cands.append((expr, tag, expect, extra))

    def flush(self, stride, indent='', extras=()):
        """emit every stride-th candidate of the phase (offset by k: over the
        programs k, k+1, ... every candidate is emitted); the first emitted
        line also carries the `extras` (expressions the program does not print)"""
        first = True
        for i, (expr, tag, expect, extra) in enumerate(self.cands):
            if (i + self.k) % stride == 0:
                self.probe(expr, tag, expect, tuple(extras) if first else (), indent)
                first = False
        self.cands = []

    def probe(self, expr, tag, expect='value', extra=(), indent=''):
        """a line PRINT <expr>; the debugger is asked <expr> (and the extra
        expressions) while stopped at that line"""
        self.emit(f'{indent}PRINT {expr}')
        ln = len(self.lines)
        self.stops[ln] = [expr] + [e for e, _t, _x in extra]
        self.meta[ln] = [{'tag': tag, 'expect': expect}] + [{'tag': t, 'expect': x} for _e, t, x in extra]
        return ln

    def multi(self, exprs, tag, indent=''):
        """one line PRINT e1; e2; ...: the debugger is asked every ei while stopped
        there; probe i is compared with the i-th value the PRINT hands over"""
        self.emit(indent + 'PRINT ' + '; '.join(exprs))
        ln = len(self.lines)
        self.stops[ln] = list(exprs)
        self.meta[ln] = [{'tag': tag, 'expect': 'value', 'ref': i} for i in range(len(exprs))]
        return ln


def arith_probes(g, frame, pool, count, start):
    """operator probes over the variables of `pool`: [(expr, type, tagpart)];
    operands are chosen so that the program itself does not trap"""
    nums = [p for p in pool if p[1] in (1, 2, 3, 4)]
    strs = [p for p in pool if p[1] == 5]
    combos = []
    for oi, (sym, name) in enumerate(BINOPS):
        for a in range(len(nums)):
            for b in range(len(nums)):
                combos.append((oi, a, b))
    n = len(combos)
    out = []
    idx = start
    guard = 0
    while len(out) < count and guard < 10 * count + 50:
        guard += 1
        oi, a, b = combos[(idx * 7919) % n]
        idx += 1
        sym, name = BINOPS[oi]
        (ea, ta, ga), (eb, tb, gb) = nums[a], nums[b]
        expr = f'{ea} {sym} {eb}'
        if name in ('DIV', 'MOD', 'INTDIV'):
            # a non-zero divisor that stays non-zero (and small) after rounding to an integer
            if tb in (1, 2):
                expr = f'{ea} {sym} ({eb} MOD 7 + 9)'
            elif name == 'DIV':
                expr = f'{ea} {sym} ({eb} * {eb} + 3)'
            else:
                expr = f'{ea} {sym} ({eb} - {eb} + 2.5)'
            tagb = f'{TYN[tb]}-expr'
        elif name == 'EXP':
            expr = f'({ea} MOD 5) {sym} 2'
            tagb = 'INTEGER-lit'
            if ta not in (1, 2):
                continue
        elif name in ('ADD', 'SUB', 'MUL') and (ta in (1, 2) or tb in (1, 2)):
            # keep integer arithmetic in range: operands reduced first
            expr = f'({ea} MOD 100) {sym} ({eb} MOD 100)'
            tagb = f'{TYN[tb]}-mod'
        elif name in ('AND', 'OR', 'XOR', 'EQV', 'IMP'):
            if ta not in (1, 2) or tb not in (1, 2):
                expr = f'({ea} MOD 1000) {sym} ({eb} MOD 1000)'
            tagb = TYN[tb]
        else:
            tagb = TYN[tb]
        out.append((expr, f'arith,frame={frame},op={name},lt={TYN[ta]},rt={tagb},l={ga},r={gb}'))
    for ui, (sym, name) in enumerate(UNOPS):
        if (start + ui) % 3 == 0 and nums:
            e, t, gtag = nums[(start + ui) % len(nums)]
            ex = f'{sym}{e}' if name != 'NOT' else f'NOT ({e} MOD 1000)'
            out.append((ex, f'arith,frame={frame},op={name},lt={TYN[t]},l={gtag}'))
    if strs:
        e, t, gtag = strs[start % len(strs)]
        out.append((f'{e} + "z"', f'arith,frame={frame},op=ADD,lt=STRING,rt=STRING-lit,l={gtag}'))
        # comparisons: not on constants (a constant comparison is folded by the
        # compiler itself and the folder raises ValueError at -O1/-O2: D03, property C02/C06)
        vstrs = [p for p in strs if not p[2].startswith('const')]
        if vstrs:
            e, t, gtag = vstrs[start % len(vstrs)]
            ops = ['=', '<', '>', '<>', '<=', '>=']
            o = ops[start % 6]
            nm = dict((s, n) for s, n in BINOPS)[o]
            out.append((f'{e} {o} "m"', f'arith,frame={frame},op={nm},lt=STRING,rt=STRING-lit,l={gtag}'))
    return out


def program(k):
    g = Gen(k)
    r = g.rng
    defkw, defty = DEFS[k % 5]
    depth = 1 + (k // 5) % 3
    shape = (k // 15) % 4
    collide = (k % 4 == 3)              # procedure locals reuse names of main with another type
    trap_end = (k % 2 == 1)
    end_stmt = (k % 3 != 0)             # END statement, or execution falls off the end of the module
    if defkw:
        g.emit(f'{defkw} I-K')
    # ---- constants
    cia, cla = g.val(1), g.val(2)
    cfa = r.randint(1, 40) + 0.5
    cda = g.val(4)
    csa = r.choice(['cst', 'K', 'two words'])
    g.emit(f'CONST cia% = {cia}')
    g.emit(f'CONST cfa = {cfa}')
    g.emit('CONST cfb = 0.1')
    g.emit(f'CONST cda# = {lit(4, cda)}')
    g.emit(f'CONST csa$ = "{csa}"')
    g.emit(f'CONST cla& = {cla}')
    g.emit('CONST cxa% = cia% MOD 50 + 1')
    # ---- types
    g.emit('TYPE pt')
    g.emit('  x AS INTEGER')
    g.emit('  y AS LONG')
    g.emit('  nm AS STRING')
    g.emit('  w AS DOUBLE')
    g.emit('END TYPE')
    g.emit('TYPE rect')
    g.emit('  a AS pt')
    g.emit('  b AS pt')
    g.emit('  s AS SINGLE')
    g.emit('END TYPE')
    # ---- shared
    g.emit('DIM SHARED gia%')
    g.emit('DIM SHARED gda AS DOUBLE')
    g.emit('DIM SHARED gta$')
    lb_g, ub_g = [(2, 4), (0, 2), (-1, 1), (5, 6)][shape]
    g.emit(f'DIM SHARED gaa({lb_g} TO {ub_g}) AS LONG')
    g.emit('DIM SHARED gpa AS pt')
    # ---- main variables
    g.emit('DIM via AS INTEGER')
    g.emit('DIM vla AS LONG')
    g.emit('DIM vsa AS SINGLE')
    g.emit('DIM vda AS DOUBLE')
    g.emit('DIM vta AS STRING')
    g.emit('DIM pa AS pt')
    g.emit('DIM ra AS rect')
    b1 = [(1, 3), (0, 2), (-2, 0), (3, 5)][shape]
    b2 = [((1, 2), (-1, 1)), ((0, 1), (2, 3)), ((-1, 0), (0, 2)), ((2, 3), (1, 2))][shape]
    b3 = [((0, 1), (1, 2), (2, 3)), ((1, 2), (0, 1), (-1, 0)), ((-1, 0), (0, 1), (1, 2)), ((1, 1), (2, 3), (0, 2))][shape]
    g.emit(f'DIM aa%({b1[0]} TO {b1[1]})')
    g.emit(f'DIM ab({b2[0][0]} TO {b2[0][1]}, {b2[1][0]} TO {b2[1][1]}) AS LONG')
    g.emit('DIM ac#(' + ', '.join(f'{l} TO {u}' for l, u in b3) + ')')
    g.emit('DIM ad$(0 TO 2)')
    g.emit('DIM qa(1 TO 3) AS pt')
    g.emit('na% = 3')
    g.emit('DIM da(1 TO na%) AS INTEGER')
    g.emit('DIM db&(0 TO na%, 1 TO 2)')
    g.emit(f'DIM qb({b2[0][0]} TO {b2[0][1]}, {b2[1][0]} TO {b2[1][1]}) AS pt')
    g.emit('DIM qc(' + ', '.join(f'{l} TO {u}' for l, u in b3) + ') AS rect')
    g.emit('DIM lpa(1 TO 2) AS LONG')
    g.emit('DIM lpr AS pt')
    # ---- values
    V = {}

    def assign(name, ty, expr=None):
        v = g.val(ty)
        V[name] = (ty, v)
        g.emit(f'{name} = {lit(ty, v)}')
    assign('gia%', 1)
    assign('gda', 4)
    assign('gta$', 5)
    g.emit(f'gaa({lb_g + 1}) = {g.val(2)}')
    g.emit(f'gpa.y = {g.val(2)}')
    g.emit(f'gpa.nm = "{g.val(5)}"')
    assign('via', 1)
    assign('vla', 2)
    assign('vsa', 3)
    assign('vda', 4)
    assign('vta', 5)
    assign('eia%', 1)
    assign('ela&', 2)
    assign('esa!', 3)
    assign('eda#', 4)
    assign('eta$', 5)
    assign('ia', defty)
    assign('ka', defty)
    assign('ua', 3)
    g.emit(f'pa.x = {g.val(1)}')
    g.emit(f'pa.y = {g.val(2)}')
    g.emit(f'pa.nm = "{g.val(5)}"')
    g.emit(f'pa.w = {lit(4, g.val(4))}')
    g.emit(f'ra.a.x = {g.val(1)}')
    g.emit(f'ra.b.y = {g.val(2)}')
    g.emit(f'ra.b.nm = "{g.val(5)}"')
    g.emit(f'ra.s = {lit(3, g.val(3))}')
    g.emit(f'aa%({b1[0]}) = {g.val(1)}')
    g.emit(f'aa%({b1[1]}) = {g.val(1)}')
    g.emit(f'ab({b2[0][1]}, {b2[1][0]}) = {g.val(2)}')
    g.emit(f'ab({b2[0][0]}, {b2[1][1]}) = {g.val(2)}')
    i3 = (b3[0][1], b3[1][0], b3[2][1])
    j3 = (b3[0][0], b3[1][1], b3[2][0])
    g.emit(f'ac#({i3[0]}, {i3[1]}, {i3[2]}) = {lit(4, g.val(4))}')
    g.emit(f'ac#({j3[0]}, {j3[1]}, {j3[2]}) = {lit(4, g.val(4))}')
    g.emit(f'ad$(1) = "{g.val(5)}"')
    g.emit(f'qa(2).x = {g.val(1)}')
    g.emit(f'qa(3).nm = "{g.val(5)}"')
    g.emit(f'qa(1).w = {lit(4, g.val(4))}')
    g.emit(f'da(2) = {g.val(1)}')
    g.emit(f'db&(3, 1) = {g.val(2)}')
    g.emit(f'db&(0, 2) = {g.val(2)}')
    # every element of the record arrays gets its own values
    sd = r.randint(1, 9)
    g.emit(f'FOR fi% = {b2[0][0]} TO {b2[0][1]}')
    g.emit(f'FOR fj% = {b2[1][0]} TO {b2[1][1]}')
    g.emit(f'qb(fi%, fj%).x = fi% * 10 + fj% + {sd}')
    g.emit(f'qb(fi%, fj%).y = fi% * 1000 + fj% * 10 + {sd}')
    g.emit('NEXT fj%')
    g.emit('NEXT fi%')
    g.emit(f'FOR fi% = {b3[0][0]} TO {b3[0][1]}')
    g.emit(f'FOR fj% = {b3[1][0]} TO {b3[1][1]}')
    g.emit(f'FOR fk% = {b3[2][0]} TO {b3[2][1]}')
    g.emit(f'qc(fi%, fj%, fk%).a.y = fi% * 10000 + fj% * 100 + fk% + {sd}')
    g.emit(f'qc(fi%, fj%, fk%).s = fi% * 4 + fj% * 2 + fk% + 0.5')
    g.emit('NEXT fk%')
    g.emit('NEXT fj%')
    g.emit('NEXT fi%')
    # main-program variables whose names are CONSTs inside SUB sa
    g.emit(f'lim% = {g.val(1)}')
    g.emit(f'tag$ = "main{sd}"')
    g.emit(f'ixc% = {b1[1]}')

    # ---- probes in main, before the calls
    def main_probes(phase):
        f = f'main{phase}'
        P = g.cand
        errs = [
            ('nosuch', f'error,frame={f},unknown-name', 'error'),
            ('nosuch%', f'error,frame={f},unknown-name', 'error'),
            (f'aa%({b1[1] + 1})', f'error,frame={f},subscript-above', 'error'),
            (f'aa%({b1[0] - 1})', f'error,frame={f},subscript-below', 'error'),
            (f'ab({b2[0][0]}, {b2[1][1] + 1})', f'error,frame={f},subscript-above-rank2', 'error'),
            (f'ab({b2[0][0]})', f'error,frame={f},wrong-rank', 'error'),
            (f'aa%({b1[0]}, 1)', f'error,frame={f},wrong-rank', 'error'),
            ('da(4)', f'error,frame={f},subscript-above-dynamic', 'error'),
            ('via.x', f'error,frame={f},field-of-scalar', 'error'),
            ('via(1)', f'error,frame={f},index-of-scalar', 'error'),
            ('pa.zz', f'error,frame={f},unknown-field', 'error'),
            ('pa.x.y', f'error,frame={f},field-of-field-scalar', 'error'),
            ('pa(1)', f'error,frame={f},index-of-record', 'error'),
            ('aa%.x', f'error,frame={f},field-of-array', 'error'),
            ('cia%(1)', f'error,frame={f},index-of-const', 'error'),
            ('aa%("a")', f'error,frame={f},string-subscript', 'error'),
            ('via + ', f'error,frame={f},syntax', 'error'),
            ('via + vta', f'error,frame={f},number-plus-string', 'error'),
            ('-vta', f'error,frame={f},negate-string', 'error'),
            ('pa + 1', f'error,frame={f},record-in-arithmetic', 'error'),
            ('via.x + 1', f'error,frame={f},field-of-scalar-in-arithmetic', 'error'),
            ('pa.zz + 1', f'error,frame={f},unknown-field-in-arithmetic', 'error'),
            ('2 ^ -1', f'error,frame={f},negative-exponent-literal', 'error'),
        ]
        P('via', f'scalar,frame={f},scope=local,decl=as,ty=INTEGER')
        P('vla', f'scalar,frame={f},scope=local,decl=as,ty=LONG')
        P('vsa', f'scalar,frame={f},scope=local,decl=as,ty=SINGLE')
        P('vda', f'scalar,frame={f},scope=local,decl=as,ty=DOUBLE')
        P('vta', f'scalar,frame={f},scope=local,decl=as,ty=STRING')
        if phase == 1:
            for n, t in (('eia%', 1), ('ela&', 2), ('esa!', 3), ('eda#', 4), ('eta$', 5)):
                P(n, f'scalar,frame={f},scope=local,decl=suffix,ty={TYN[t]}')
            P('ia', f'scalar,frame={f},scope=local,decl=deftype,ty={TYN[defty]}')
            P('ua', f'scalar,frame={f},scope=local,decl=default,ty=SINGLE')
            P('cia%', f'const,frame={f},scope=module,ty=INTEGER')
            P('cfa', f'const,frame={f},scope=module,ty=SINGLE,exact=yes')
            P('cfb', f'const,frame={f},scope=module,ty=SINGLE,exact=no')
            P('cda#', f'const,frame={f},scope=module,ty=DOUBLE')
            P('csa$', f'const,frame={f},scope=module,ty=STRING')
            P('cla&', f'const,frame={f},scope=module,ty=LONG')
            P('cxa%', f'const,frame={f},scope=module,ty=INTEGER,expr=yes')
        P('gia%', f'scalar,frame={f},scope=shared,decl=suffix,ty=INTEGER')
        P('gda', f'scalar,frame={f},scope=shared,decl=as,ty=DOUBLE')
        P('gta$', f'scalar,frame={f},scope=shared,decl=suffix,ty=STRING')
        P(f'gaa({lb_g + 1})', f'elem,frame={f},scope=shared,rank=1,ty=LONG')
        P('gpa.y', f'field,frame={f},scope=shared,ty=LONG,first=no')
        P('pa.x', f'field,frame={f},scope=local,ty=INTEGER,first=yes')
        P('pa.y', f'field,frame={f},scope=local,ty=LONG,first=no')
        if phase == 1:
            P('pa.nm', f'field,frame={f},scope=local,ty=STRING,first=no')
            P('pa.w', f'field,frame={f},scope=local,ty=DOUBLE,first=no')
            P('ra.a.x', f'field,frame={f},scope=local,nested=yes,ty=INTEGER,first=yes')
            P('ra.b.y', f'field,frame={f},scope=local,nested=yes,ty=LONG,first=no')
            P('ra.b.nm', f'field,frame={f},scope=local,nested=yes,ty=STRING,first=no')
            P('ra.s', f'field,frame={f},scope=local,nested=no,ty=SINGLE,first=no')
            P('ra.a.w', f'field,frame={f},scope=local,nested=yes,ty=DOUBLE,first=no,unset=yes')
        P(f'aa%({b1[0]})', f'elem,frame={f},scope=local,rank=1,ty=INTEGER,at=lbound')
        P(f'aa%({b1[1]})', f'elem,frame={f},scope=local,rank=1,ty=INTEGER,at=ubound')
        if phase == 1:
            P(f'aa%({b1[0] + 1})', f'elem,frame={f},scope=local,rank=1,ty=INTEGER,unset=yes')
            P(f'ab({b2[0][1]}, {b2[1][0]})', f'elem,frame={f},scope=local,rank=2,ty=LONG')
            P(f'ab({b2[0][0]}, {b2[1][1]})', f'elem,frame={f},scope=local,rank=2,ty=LONG')
            P(f'ac#({i3[0]}, {i3[1]}, {i3[2]})', f'elem,frame={f},scope=local,rank=3,ty=DOUBLE')
            P(f'ac#({j3[0]}, {j3[1]}, {j3[2]})', f'elem,frame={f},scope=local,rank=3,ty=DOUBLE')
            P('ad$(1)', f'elem,frame={f},scope=local,rank=1,ty=STRING')
            P('ad$(2)', f'elem,frame={f},scope=local,rank=1,ty=STRING,unset=yes')
            P('qa(2).x', f'elemfield,frame={f},scope=local,ty=INTEGER,first=yes')
            P('qa(3).nm', f'elemfield,frame={f},scope=local,ty=STRING,first=no')
            P('qa(1).w', f'elemfield,frame={f},scope=local,ty=DOUBLE,first=no')
            P('da(2)', f'elem,frame={f},scope=local,rank=1,dynamic=yes,ty=INTEGER')
            P('db&(3, 1)', f'elem,frame={f},scope=local,rank=2,dynamic=yes,ty=LONG')
            P('db&(0, 2)', f'elem,frame={f},scope=local,rank=2,dynamic=yes,ty=LONG')
            P(f'aa%(na% - 3 + {b1[0]})', f'elem,frame={f},scope=local,rank=1,ty=INTEGER,index=expr')
            P(f'ab({b2[0][1]}.4, {b2[1][0]})', f'elem,frame={f},scope=local,rank=2,ty=LONG,index=float')
        pool = [('via', 1, 'local'), ('vla', 2, 'local'), ('vsa', 3, 'local'), ('vda', 4, 'local'),
                ('eia%', 1, 'local'), ('gia%', 1, 'shared'), ('pa.x', 1, 'field'), (f'aa%({b1[1]})', 1, 'elem'),
                ('cia%', 1, 'const'), ('cfa', 3, 'const'), ('gda', 4, 'shared'), ('pa.y', 2, 'field'),
                ('3', 1, 'lit'), ('2.5', 3, 'lit'), ('vta', 5, 'local'), ('csa$', 5, 'const'), ('pa.nm', 5, 'field')]
        for e, t in arith_probes(g, f, pool, 8 if phase == 1 else 3, g.k * 11 + phase * 5):
            P(e, t)
        if phase == 1:
            P('(via MOD 10 + 1) * 2 - cia% MOD 7', f'arith,frame={f},op=nested,lt=INTEGER,rt=INTEGER,l=local,r=const')
            P('via > 0 AND vla > 0', f'arith,frame={f},op=AND,lt=CMP,rt=CMP,l=local,r=local')
            P('ABS(via)', f'call,frame={f},fn=ABS')
            P('LEN(vta)', f'call,frame={f},fn=LEN')
        w = (g.k * 5) % len(errs)
        g.flush(10 if phase == 1 else 7, '', (errs + errs)[w:w + 6] if phase == 1 else ())

    main_probes(1)
    rng2 = lambda b: range(b[0], b[1] + 1)
    g.multi([f'qb({i}, {j}).y' for i in rng2(b2[0]) for j in rng2(b2[1])],
            'elemfield,frame=main1,scope=local,rank=2,ty=LONG,first=no,all-indices=yes')
    g.multi([f'qb({i}, {j}).x' for i in rng2(b2[0]) for j in rng2(b2[1])],
            'elemfield,frame=main1,scope=local,rank=2,ty=INTEGER,first=yes,all-indices=yes')
    g.multi([f'qc({i}, {j}, {l}).a.y' for i in rng2(b3[0]) for j in rng2(b3[1]) for l in rng2(b3[2])],
            'elemfield,frame=main1,scope=local,rank=3,nested=yes,ty=LONG,first=no,all-indices=yes')
    g.multi([f'qc({i}, {j}, {l}).s' for i in rng2(b3[0]) for j in rng2(b3[1]) for l in rng2(b3[2])],
            'elemfield,frame=main1,scope=local,rank=3,nested=no,ty=SINGLE,first=no,all-indices=yes')
    g.multi(['lim%', 'tag$', 'aa%(ixc%)', 'lim% + 1', 'tag$ + "z"'],
            'scalar,frame=main1,scope=local,decl=suffix,same-name-as-procedure-const=yes')
    g.emit('FOR lp% = 1 TO 3')
    g.emit('lpa(1) = lpa(1) + lp% * 7')
    g.emit('lpa(2) = lpa(1) * 2')
    g.emit('lpr.y = lpr.y + lp% * 1000')
    g.emit('lpr.nm = lpr.nm + "i"')
    g.emit(f'qb({b2[0][1]}, {b2[1][0]}).y = lp%')
    g.multi(['lpa(1)', 'lpa(2)', 'lpr.y', 'lpr.nm', f'qb({b2[0][1]}, {b2[1][0]}).y', 'lp%'],
            'loop,frame=main1,same-stop-address=yes,changed-between-stops=yes')
    g.emit('NEXT lp%')
    byval_expr = 'vda + 1'
    g.emit(f'CALL sa(via, 5, aa%({b1[1]}), pa.y, {byval_expr}, vta, {depth})')
    main_probes(2)
    g.multi(['lim%', 'tag$', 'aa%(ixc%)'],
            'scalar,frame=main2,scope=local,decl=suffix,same-name-as-procedure-const=yes')
    g.emit('vla = fa&(eia%, 2.5)')
    g.probe('vla', 'scalar,frame=main3,scope=local,decl=as,ty=LONG,after=function')
    if trap_end:
        kind = (k // 2) % 4
        if kind == 0:
            g.probe('via \\ (via - via)', 'trap,frame=main3,op=INTDIV,why=zero-divisor', 'trap')
        elif kind == 1:
            g.probe('vda / (vda - vda)', 'trap,frame=main3,op=DIV,why=zero-divisor', 'trap')
        elif kind == 2:
            g.probe('(via MOD 100 + 200) * 200', 'trap,frame=main3,op=MUL,why=integer-overflow', 'trap')
        else:
            g.probe('(vla MOD 100 + 70000) * 70000', 'trap,frame=main3,op=MUL,why=long-overflow', 'trap')
    if end_stmt:
        g.emit('END')

    # ---- SUB sa
    g.emit('SUB sa(pia%, pib%, pic%, pid AS LONG, pie#, pif$, dep%)')
    g.emit('  STATIC sta%')
    g.emit('  STATIC stb$')
    lca = g.val(1)
    g.emit(f'  CONST lca% = {lca}')
    g.emit('  CONST lcs$ = "loc"')
    g.emit(f'  CONST lim% = {g.val(1)}')
    g.emit('  CONST tag$ = "const"')
    g.emit(f'  CONST ixc% = {b1[0]}')
    g.emit(f'  CONST cla& = {g.val(2)}')
    g.emit('  DIM lq AS pt')
    g.emit('  DIM lar(0 TO 2) AS LONG')
    g.emit('  DIM lda AS DOUBLE')
    g.emit('  DIM lta AS STRING')
    g.emit('  DIM lqa(1 TO 2) AS pt')
    if collide:
        g.emit('  DIM ra AS INTEGER')
        g.emit('  DIM vda AS pt')
        g.emit('  DIM aa%(1 TO 2)')
    g.emit('  sta% = sta% + dep%')
    g.emit('  stb$ = stb$ + "s"')
    g.emit(f'  lq.x = {g.val(1)}')
    g.emit(f'  lq.y = {g.val(2)}')
    g.emit(f'  lq.nm = "{g.val(5)}"')
    g.emit(f'  lar(1) = {g.val(2)}')
    g.emit(f'  lar(2) = {g.val(2)}')
    g.emit(f'  lda = {lit(4, g.val(4))}')
    g.emit(f'  lta = "{g.val(5)}"')
    g.emit(f'  lia% = {g.val(1)}')
    g.emit(f'  lsa! = {lit(3, g.val(3))}')
    g.emit(f'  ja = {lit(defty, g.val(defty))}')
    g.emit(f'  wa = {lit(3, g.val(3))}')
    g.emit(f'  lqa(2).y = {g.val(2)}')
    if collide:
        g.emit(f'  ra = {g.val(1)}')
        g.emit(f'  vda.x = {g.val(1)}')
        g.emit(f'  vda.y = {g.val(2)}')
        g.emit(f'  aa%(2) = {g.val(1)}')
    g.emit('  pia% = pia% + 1')
    g.emit('  pid = pid + 10')

    def sub_probes(phase):
        f = f'sub{phase}'
        P = g.cand
        errs = [('nosuch', f'error,frame={f},unknown-name', 'error'),
                ('lar(3)', f'error,frame={f},subscript-above', 'error'),
                ('lq.zz', f'error,frame={f},unknown-field', 'error'),
                ('pia%.x', f'error,frame={f},field-of-scalar', 'error'),
                ('lca%(1)', f'error,frame={f},index-of-const', 'error')]
        P('pia%', f'scalar,frame={f},scope=param,pass=ref,decl=suffix,ty=INTEGER')
        P('pib%', f'scalar,frame={f},scope=param,pass=value,decl=suffix,ty=INTEGER')
        P('pic%', f'scalar,frame={f},scope=param,pass=ref-element,decl=suffix,ty=INTEGER')
        P('pid', f'scalar,frame={f},scope=param,pass=ref-field,decl=as,ty=LONG')
        P('pie#', f'scalar,frame={f},scope=param,pass=value-expr,decl=suffix,ty=DOUBLE')
        P('pif$', f'scalar,frame={f},scope=param,pass=ref,decl=suffix,ty=STRING')
        P('dep%', f'scalar,frame={f},scope=param,pass=value,decl=suffix,ty=INTEGER')
        P('sta%', f'scalar,frame={f},scope=static,decl=suffix,ty=INTEGER')
        P('stb$', f'scalar,frame={f},scope=static,decl=suffix,ty=STRING')
        P('lia%', f'scalar,frame={f},scope=local,decl=suffix,ty=INTEGER,mainview=absent')
        P('lsa!', f'scalar,frame={f},scope=local,decl=suffix,ty=SINGLE,mainview=absent')
        P('lda', f'scalar,frame={f},scope=local,decl=as,ty=DOUBLE,mainview=absent')
        P('lta', f'scalar,frame={f},scope=local,decl=as,ty=STRING,mainview=absent')
        P('ja', f'scalar,frame={f},scope=local,decl=deftype,ty={TYN[defty]},mainview=absent')
        P('wa', f'scalar,frame={f},scope=local,decl=default,ty=SINGLE,mainview=absent')
        P('gia%', f'scalar,frame={f},scope=shared,decl=suffix,ty=INTEGER')
        P('gda', f'scalar,frame={f},scope=shared,decl=as,ty=DOUBLE')
        P(f'gaa({lb_g + 1})', f'elem,frame={f},scope=shared,rank=1,ty=LONG')
        P('gpa.y', f'field,frame={f},scope=shared,ty=LONG,first=no')
        P('gpa.nm', f'field,frame={f},scope=shared,ty=STRING,first=no')
        P('cia%', f'const,frame={f},scope=module,ty=INTEGER')
        P('csa$', f'const,frame={f},scope=module,ty=STRING')
        P('lca%', f'const,frame={f},scope=procedure,ty=INTEGER')
        P('lcs$', f'const,frame={f},scope=procedure,ty=STRING')
        P('cla&', f'const,frame={f},scope=procedure,ty=LONG,shadows=module')
        P('lq.x', f'field,frame={f},scope=local,ty=INTEGER,first=yes,mainview=absent')
        P('lq.y', f'field,frame={f},scope=local,ty=LONG,first=no,mainview=absent')
        P('lq.nm', f'field,frame={f},scope=local,ty=STRING,first=no,mainview=absent')
        P('lar(1)', f'elem,frame={f},scope=local,rank=1,ty=LONG,mainview=absent')
        P('lar(2)', f'elem,frame={f},scope=local,rank=1,ty=LONG,mainview=absent')
        P('lqa(2).y', f'elemfield,frame={f},scope=local,ty=LONG,first=no,mainview=absent')
        if collide:
            P('ra', f'scalar,frame={f},scope=local,decl=as,ty=INTEGER,mainview=record')
            P('vda.x', f'field,frame={f},scope=local,ty=INTEGER,first=yes,mainview=scalar')
            P('vda.y', f'field,frame={f},scope=local,ty=LONG,first=no,mainview=scalar')
            P('aa%(2)', f'elem,frame={f},scope=local,rank=1,ty=INTEGER,mainview=array-other-bounds')
        pool = [('pia%', 1, 'param-ref'), ('pib%', 1, 'param-value'), ('pid', 2, 'param-ref-as'), ('pie#', 4, 'param-value'),
                ('lia%', 1, 'local-suffix'), ('lsa!', 3, 'local-suffix'), ('gia%', 1, 'shared'), ('cia%', 1, 'const'),
                ('lca%', 1, 'const-local'), ('dep%', 1, 'param-value'), ('2', 1, 'lit'), ('1.5', 3, 'lit'),
                ('pif$', 5, 'param-ref'), ('lcs$', 5, 'const-local')]
        for e, t in arith_probes(g, f, pool, 6 if phase == 1 else 2, g.k * 13 + phase * 3):
            P(e, t)
        if phase == 1:
            P('lda * 3', f'arith,frame={f},op=MUL,lt=DOUBLE,rt=INTEGER-lit,l=local-as,r=lit')
            P('lta + "z"', f'arith,frame={f},op=ADD,lt=STRING,rt=STRING-lit,l=local-as,r=lit')
            if defty == 5:
                P('ja + "z"', f'arith,frame={f},op=ADD,lt=STRING,rt=STRING-lit,l=local-deftype,r=lit')
            else:
                P('ja + 1', f'arith,frame={f},op=ADD,lt={TYN[defty]},rt=INTEGER-lit,l=local-deftype,r=lit')
        g.flush(9 if phase == 1 else 13, '  ', errs if phase == 1 else ())

    sub_probes(1)
    g.emit('  IF dep% > 1 THEN CALL sa(pia%, pib% + 1, pic%, pid, pie# * 2, pif$, dep% - 1)')
    sub_probes(2)
    g.emit('END SUB')
    # ---- FUNCTION fa&
    g.emit('FUNCTION fa&(fx%, fy#)')
    g.emit('  DIM fl AS LONG')
    g.emit(f'  fl = {g.val(2)}')
    g.emit(f'  fz$ = "{g.val(5)}"')
    g.emit('  fa& = fl + fx% MOD 10')
    g.cand('fx%', 'scalar,frame=fun1,scope=param,pass=ref,decl=suffix,ty=INTEGER')
    g.cand('fy#', 'scalar,frame=fun1,scope=param,pass=value,decl=suffix,ty=DOUBLE')
    g.cand('fl', 'scalar,frame=fun1,scope=local,decl=as,ty=LONG,mainview=absent')
    g.cand('fz$', 'scalar,frame=fun1,scope=local,decl=suffix,ty=STRING,mainview=absent')
    g.cand('fl + fx%', 'arith,frame=fun1,op=ADD,lt=LONG,rt=INTEGER,l=local-as,r=param-ref')
    g.cand('(gia% MOD 100) * 2', 'arith,frame=fun1,op=MUL,lt=INTEGER-mod,rt=INTEGER-lit,l=shared,r=lit')
    g.flush(3, '  ')
    g.emit('END FUNCTION')
    halted = ['via', 'gia%', 'cia%', 'pa.x', f'aa%({b1[0]})', '1 + 1', 'nosuch']
    return {'k': k, 'src': '\n'.join(g.lines) + '\n', 'stops': g.stops, 'meta': g.meta,
            'halted': halted, 'trap_end': trap_end, 'end_stmt': end_stmt, 'depth': depth}
