"""C14 - spelling, spacing, comments and separators do not change the program.

Theorems: coq/Props/C14.v ([canon] is invariant under the catalogue of
rewritings and all their finite compositions).  Correspondence (T-txt), on the
REAL compiler:
  canon      : compile(t) and compile(canon t) - canon computed by the extracted
               model - have the same verdict and identical sections 1-4 at
               levels 0 and 2 (corpus + generated programs + respelled variants);
  rewrite    : seeded compositions of token-level rewritings of real texts
               (layout taken from the model's lossless lexer): sections identical;
               for the proved kinds the model must also give the same canon;
  style      : generated programs rendered under a random spelling style
               (case, blanks, comments, colon joining, LET, CALL form, NEXT v,
               relational spelling, label renaming, line renumbering, trailing
               colon): sections identical, or identical traces when only names
               of labels changed;
  data       : the DATA payload is read verbatim (D44 lives here);
  tab        : a TAB inside a string literal / DATA item / comment, blanks added
               and removed in front of it (the tab-expansion finding lives here)."""
import itertools
import json
import os
import random
import re
import vlib
from vlib import Ctx, l2s
from props import c14gen as G

PROP = 'C14'
LEVELS = [0, 2]
TIMEOUT = 6 * 3600      # per batch; only reached on a badly overloaded machine
PROVED = {'case', 'blank-add', 'blank-remove', 'comment-eol-add', 'comment-remove', 'comment-text',
          'line-add', 'line-remove', 'relop'}
STYLE_PROVED = {'case-kw', 'case-id', 'blank-add', 'blank-remove', 'indent', 'relop', 'empty-line',
                'comment-line', 'comment-eol'}
EOLK = (7, 8, 9)
RELS = {'<>': '><', '><': '<>', '<=': '=<', '=<': '<=', '>=': '=>', '=>': '>='}
BLOCKW = {'if', 'then', 'else', 'elseif'}
COMMENTS = [' note', " it's : REM \"q", '', ' x = 1', '\tTHEN', " ' '"]


# --------------------------------------------------------------------------
# layouts (from the model's lexer) and token-level rewritings

class Lay:
    def __init__(self, res):
        self.toks = []
        for ws, tok, text in res[1]:
            parts = [l2s(p) if isinstance(p, list) else p for p in tok[1:]]
            self.toks.append({'ws': l2s(ws), 'kind': tok[0], 'parts': parts, 'text': l2s(text)})
        self.tail = l2s(res[2])
        self.ok = res[3]

    def text(self):
        return ''.join(t['ws'] + t['text'] for t in self.toks) + self.tail

    def eolk(self, i):
        """token i runs to the end of its line (blanks after it belong to it)"""
        if i < 0:
            return False
        t = self.toks[i]
        return t['kind'] in EOLK or (t['kind'] == 4 and not t['parts'][1])

    def line_start(self, i):
        return i == 0 or self.toks[i - 1]['kind'] == 10

    def line_of(self, i):
        a = i
        while a > 0 and self.toks[a - 1]['kind'] != 10:
            a -= 1
        b = i
        while b < len(self.toks) and self.toks[b]['kind'] != 10:
            b += 1
        return a, b          # tokens a..b-1, toks[b] is the newline (or b == len)

    def simple_line(self, a, b, allow_comment):
        """PRINT ... or  v = ...  with no IF/THEN/ELSE word, no DATA/REM, no label"""
        ts = self.toks[a:b]
        if not ts or ts[0]['kind'] != 1:
            return False
        first = ts[0]['text'].lower()
        if first != 'print':
            if len(ts) < 3 or ts[1]['text'] != '=':
                return False
            if first in ('const', 'let') or first in BLOCKW:
                return False
        for j, t in enumerate(ts):
            if t['kind'] in (7, 8) or (t['kind'] == 4 and not t['parts'][1]):
                return False
            if t['kind'] == 9 and not (allow_comment and j == len(ts) - 1):
                return False
            if t['kind'] == 1 and t['text'].lower() in BLOCKW:
                return False
        return True


def randcase(s, rng):
    r = rng.random()
    if r < 0.3:
        return s.upper()
    if r < 0.6:
        return s.lower()
    return ''.join(c.upper() if rng.random() < 0.5 else c.lower() for c in s)


def glue_safe(a, b):
    if not a or not b:
        return True
    return G.removable(a, b) and not (G.wordy_end(a) and G.wordy_start(b)) and b[:1] != "'"


def rw_case(lay, rng):
    c = [i for i, t in enumerate(lay.toks) if t['kind'] in (1, 7, 8)]
    if not c:
        return None
    t = lay.toks[rng.choice(c)]
    run = t['parts'][0]
    new = randcase(run, rng)
    t['text'] = new + t['text'][len(run):]
    t['parts'][0] = new
    return 'case'


def rw_numcase(lay, rng):
    c = [i for i, t in enumerate(lay.toks) if t['kind'] in (2, 3) and re.search('[A-Za-z]', t['text'])]
    if not c:
        return None
    t = lay.toks[rng.choice(c)]
    t['text'] = t['text'].swapcase()
    return 'numcase'


def rw_blank_add(lay, rng):
    c = [i for i in range(len(lay.toks) + 1) if not lay.eolk(i - 1)]
    if not c:
        return None
    i = rng.choice(c)
    b = rng.choice([' ', '  ', '\t', ' \t'])
    if i == len(lay.toks):
        lay.tail += b
    else:
        lay.toks[i]['ws'] += b
    return 'blank-add'


def rw_blank_remove(lay, rng):
    c = []
    for i, t in enumerate(lay.toks):
        if t['ws'] and (lay.line_start(i) or glue_safe(lay.toks[i - 1]['text'], t['text'])):
            c.append(i)
    if lay.tail:
        c.append(len(lay.toks))
    if not c:
        return None
    i = rng.choice(c)
    if i == len(lay.toks):
        lay.tail = ''
    else:
        lay.toks[i]['ws'] = ''
    return 'blank-remove'


def rw_comment_eol_add(lay, rng):
    c = [i for i in range(len(lay.toks) + 1)
         if (i == len(lay.toks) or lay.toks[i]['kind'] == 10) and not lay.eolk(i - 1)]
    if not c:
        return None
    i = rng.choice(c)
    body = rng.choice(COMMENTS)
    tok = {'ws': ' ', 'kind': 9, 'parts': [body], 'text': "'" + body}
    if i == len(lay.toks):
        tok['ws'] = lay.tail + ' '
        lay.tail = ''
        lay.toks.append(tok)
    else:
        tok['ws'] = lay.toks[i]['ws'] + ' '
        lay.toks[i]['ws'] = ''
        lay.toks.insert(i, tok)
    return 'comment-eol-add'


def rw_comment_remove(lay, rng):
    c = [i for i, t in enumerate(lay.toks) if t['kind'] == 9]
    if not c:
        return None
    del lay.toks[rng.choice(c)]
    return 'comment-remove'


def rw_comment_text(lay, rng):
    c = [i for i, t in enumerate(lay.toks) if t['kind'] in (8, 9)]
    if not c:
        return None
    t = lay.toks[rng.choice(c)]
    body = rng.choice(COMMENTS)
    if t['kind'] == 9:
        t['text'] = "'" + body
    else:
        if body and (body[0].isalnum() or body[0] == '$'):
            body = ' ' + body
        t['text'] = t['parts'][0] + body
    return 'comment-text'


def rw_line_add(lay, rng):
    c = [i for i in range(len(lay.toks) + 1) if lay.line_start(i)]
    if not c:
        return None
    i = rng.choice(c)
    ws = rng.choice(['', ' ', '\t'])
    nl = {'ws': '', 'kind': 10, 'parts': [], 'text': '\n'}
    r = rng.random()
    if r < 0.4:
        nl['ws'] = ws
        new = [nl]
    elif r < 0.7:
        body = rng.choice(COMMENTS)
        new = [{'ws': ws, 'kind': 9, 'parts': [body], 'text': "'" + body}, nl]
    else:
        body = rng.choice(COMMENTS)
        if body and (body[0].isalnum() or body[0] == '$'):
            body = ' ' + body
        kw = rng.choice(['REM', 'rem', 'Rem'])
        new = [{'ws': ws, 'kind': 8, 'parts': [kw, body], 'text': kw + body}, nl]
    if i == len(lay.toks):
        # at the very end: the blanks of the tail go in front of the new line
        new[0]['ws'] = lay.tail + new[0]['ws']
        lay.tail = ''
    lay.toks[i:i] = new
    return 'line-add'


def rw_line_remove(lay, rng):
    c = []
    for i, t in enumerate(lay.toks):
        if not lay.line_start(i):
            continue
        if t['kind'] == 10:
            c.append((i, 1))
        elif t['kind'] in (8, 9) and i + 1 < len(lay.toks) and lay.toks[i + 1]['kind'] == 10:
            c.append((i, 2))
    if not c:
        return None
    i, n = rng.choice(c)
    del lay.toks[i:i + n]
    return 'line-remove'


def rw_relop(lay, rng):
    c = []
    for i, t in enumerate(lay.toks):
        if t['kind'] == 5 and t['text'] in RELS:
            if t['ws'] or i == 0 or lay.toks[i - 1]['text'][-1:] not in '<>=':
                c.append(i)
    if not c:
        return None
    t = lay.toks[rng.choice(c)]
    t['text'] = RELS[t['text']]
    return 'relop'


def rw_trailing_colon(lay, rng):
    c = []
    for i in range(len(lay.toks) + 1):
        if not (i == len(lay.toks) or lay.toks[i]['kind'] == 10):
            continue
        p = i
        if p > 0 and lay.toks[p - 1]['kind'] == 9:
            p -= 1
        if p == 0 or lay.toks[p - 1]['kind'] in (6, 8, 10) or lay.eolk(p - 1) and lay.toks[p - 1]['kind'] != 7:
            continue
        if lay.toks[p - 1]['kind'] == 1 and lay.toks[p - 1]['text'].lower() in ('then', 'else'):
            continue
        a, b = lay.line_of(p - 1)
        if any(t['kind'] == 1 and t['text'].lower() in BLOCKW for t in lay.toks[a:b]):
            continue
        if p - a == 1 and lay.toks[a]['kind'] == 1:
            continue          # 'foo :' is the label foo, not the call foo
        c.append(p)
    if not c:
        return None
    p = rng.choice(c)
    ws = '' if lay.toks[p - 1]['kind'] == 7 else rng.choice(['', ' '])
    tok = {'ws': ws, 'kind': 6, 'parts': [], 'text': ':'}
    if p == len(lay.toks):
        tok['ws'] = lay.tail if lay.toks[p - 1]['kind'] != 7 else ''
        lay.tail = ''
    lay.toks.insert(p, tok)
    return 'trailing-colon'


def rw_join(lay, rng):
    c = []
    for i, t in enumerate(lay.toks):
        if t['kind'] != 10 or i == 0 or i + 1 >= len(lay.toks):
            continue
        a, b = lay.line_of(i - 1)
        a2, b2 = lay.line_of(i + 1)
        if lay.toks[i + 1]['kind'] == 10:
            continue
        if lay.simple_line(a, b, False) and lay.simple_line(a2, b2, True):
            c.append(i)
    if not c:
        return None
    i = rng.choice(c)
    lay.toks[i] = {'ws': rng.choice(['', ' ']), 'kind': 6, 'parts': [], 'text': ':'}
    return 'colon-join'


def rw_split(lay, rng):
    c = []
    for i, t in enumerate(lay.toks):
        if t['kind'] != 6:
            continue
        a, b = lay.line_of(i)
        if i == a:
            continue
        if lay.simple_line(a, b, True):
            c.append(i)
    if not c:
        return None
    i = rng.choice(c)
    lay.toks[i] = {'ws': '', 'kind': 10, 'parts': [], 'text': '\n'}
    return 'colon-split'


TOKEN_RW = [rw_case, rw_case, rw_numcase, rw_blank_add, rw_blank_add, rw_blank_remove, rw_blank_remove,
            rw_comment_eol_add, rw_comment_remove, rw_comment_text, rw_line_add, rw_line_remove,
            rw_relop, rw_relop, rw_trailing_colon, rw_join, rw_join, rw_split]
TOKEN_RW_PROVED = [rw_case, rw_blank_add, rw_blank_remove, rw_comment_eol_add, rw_comment_remove,
                   rw_comment_text, rw_line_add, rw_line_remove, rw_relop]


def compose(layres, rng, pool, nsteps):
    lay = Lay(layres)
    kinds = []
    for _ in range(nsteps):
        for _try in range(4):
            k = rng.choice(pool)(lay, rng)
            if k:
                kinds.append(k)
                break
    return lay.text(), kinds


# --------------------------------------------------------------------------
# judging

def judge_pair(ctx, suite, what, kinds, a, b, res, names_only_ok=False):
    """res = lexfn.compare result.  -> True if fine"""
    fine = True
    ks = '+'.join(sorted(set(kinds))) if kinds else '-'
    for lv in res:
        if lv['va'] != lv['vb']:
            ctx.report(f'C14/{what}-changes-verdict({ks};{lv["va"]}->{lv["vb"]})',
                       {'suite': suite, 'level': lv['level'], 'a': a, 'b': b, 'kinds': kinds,
                        'verdict_a': lv['va'], 'verdict_b': lv['vb']}, True)
            fine = False
        elif lv['diff']:
            if names_only_ok and lv['trace_same']:
                ctx.bump('sections-differ-trace-same')
                continue
            ctx.report(f'C14/{what}-changes-sections({ks};sections={lv["diff"]};trace_same={lv["trace_same"]})',
                       {'suite': suite, 'level': lv['level'], 'a': a, 'b': b, 'kinds': kinds,
                        'sections': lv['diff'], 'trace_same': lv['trace_same'],
                        'ta': lv.get('ta'), 'tb': lv.get('tb')}, True)
            fine = False
        elif lv['trace_same'] is False:
            ctx.report(f'C14/{what}-changes-trace({ks})',
                       {'suite': suite, 'level': lv['level'], 'a': a, 'b': b, 'kinds': kinds,
                        'ta': lv.get('ta'), 'tb': lv.get('tb')}, True)
            fine = False
    return fine


def worker_failed(ctx, suite, res):
    for r in res:
        if isinstance(r, dict) and (r.get('harness') or r.get('exc')):
            ctx.broken.append(f'correspondence {suite}: implementation worker failed: {json.dumps(r)[:300]}')
            return True
    return False


def model_failed(ctx, suite, outs):
    for o in outs:
        if isinstance(o, str) or o == [-999, -999, -999]:
            ctx.broken.append(f'correspondence {suite}: model driver failed ({o})')
            return True
    return False


def judge_group(ctx, suite, form, texts, hows, lv, exps, same=True):
    """lv = one level of lexfn.observe on texts[0] (the base) and its behaviour-neutral variants.
    Every text is judged against the printed text expected by construction (exps: one for all, or a
    list); with same, every variant must also have the verdict, sections and trace of the base."""
    if isinstance(exps, str):
        exps = [exps] * len(texts)
    rs = lv['texts']
    b = rs[0]
    for i, (t, how, x, exp) in enumerate(zip(texts, hows, rs, exps)):
        det = {'suite': suite, 'level': lv['level'], 'form': form, 'how': how, 'a': texts[0], 'b': t,
               'verdict': x['v'], 'printed': x.get('out'), 'expected_print': exp, 'seq': None if same else texts[:i + 1]}
        if i == 0 and x['v'] != 'ok':
            ctx.report(f'C14/generator-produced-rejected-program({suite};{form})', det, False)
            continue
        if same and i > 0:
            if x['v'] != b['v']:
                ctx.report(f'C14/{suite}-changes-verdict({form};{how};{b["v"]}->{x["v"]})', det, True)
                continue
            if x.get('sec') != b.get('sec') or x.get('trace') != b.get('trace'):
                secs = [k + 1 for k in range(4) if x['sec'][k] != b['sec'][k]]
                det['base_printed'] = b.get('out')
                ctx.report(f'C14/{suite}-changes-sections({form};{how};sections={secs};'
                           f'trace_same={x.get("trace") == b.get("trace")})', det, True)
                continue
        if x['v'] != 'ok':
            ctx.report(f'C14/{suite}-rejected({form};{how};{x["v"]})', det, i > 0)
        elif x.get('out') != exp or x.get('outcome') != b.get('outcome'):
            # the text does not do what it says: judged against the expectation known by construction
            ctx.report(f'C14/{suite}-prints-other-text({form};{how})', det, True)


# --------------------------------------------------------------------------
# DATA payloads

def data_shape(payload):
    """how the grammar cuts the payload: U unquoted run, Q closed quoted string,
    X unclosed quoted string (grammar.py data_clause / unclosed_quoted_string)"""
    s = payload
    i = 0
    shape = ''
    while i < len(s):
        while i < len(s) and s[i] in ' \t':
            i += 1
        if i >= len(s):
            break
        if s[i] == '"':
            j = s.find('"', i + 1)
            if j < 0:
                shape += 'X'
                break
            shape += 'Q'
            i = j + 1
        else:
            j = i
            while j < len(s) and s[j] != '"':
                j += 1
            shape += 'U'
            i = j
    return shape


# --------------------------------------------------------------------------

def main(tier, seed):
    ctx = Ctx(PROP, tier, seed, 'proof')
    ctx.trusted_base = [
        'Coq 8.16.1 kernel (coqc, full .vo build; vm_compute only in the Examples)',
        'no axioms: every theorem prints "Closed under the global context"',
        'extraction: ExtrOcamlBasic only; Z, positive kept inductive',
        'unverified glue: ocaml/driver.ml, tools/vlib, tools/props/c14.py (token-level rewritings, judging), '
        'tools/props/c14gen.py (program generator and style renderer), tools/implfns/lexfn.py',
        'modelled not verified: the lexical structure of qbee/grammar.py (blank skipping, string_literal, comment, '
        'rem_stmt, data_stmt payload, identifier + type_char, numeric_literal, compare_op) as Models/Lex.v; '
        'the pyparsing grammar itself is NOT modelled: that it factors through these tokens (compile t = compile (canon t)) '
        'is what the correspondence tests, not a theorem',
        'harness-level only (no theorem): colon join/split, trailing colon, LET, CALL f(a) vs f a, NEXT v vs NEXT, '
        'label renaming, line renumbering, letter case inside numeric literals',
    ]
    ctx.prove()
    exe = ctx.model('Lex')
    quick = tier == 'quick'
    only = os.environ.get('C14_ONLY')      # development aid: run a subset of the suites

    def want(name):
        return not only or name in only.split(',')

    corpus = vlib.run_impl('corpus.load', [None])[0]
    if isinstance(corpus, dict):
        ctx.broken.append('corpus loader failed: ' + json.dumps(corpus)[:300])
        return ctx.finish()
    corpus = [c for c in corpus if 'src' in c]
    csrc = [c['src'] for c in corpus]
    ctx.bump('corpus-programs', len(csrc))

    ngen = 40 if quick else 120
    gens = [G.generate(i) for i in range(ngen)]
    gbase = [G.render(lines, G.Style()) for lines, _ in gens]
    for _, kinds in gens:
        for k in kinds:
            ctx.bump('stmt:' + k)
    ctx.bump('generated-programs', ngen)

    # ---- style variants of generated programs
    nstyle = 3 if quick else 6
    style_cases = []
    for i, (lines, _) in enumerate(gens):
        for j in range(nstyle):
            rng = random.Random(f'{seed}-style-{i}-{j}')
            if j % 4 == 0:
                kinds = [k for k in G.ALL_KINDS if k in STYLE_PROVED and rng.random() < 0.7]
            elif j % 4 == 1:
                kinds = [rng.choice(G.ALL_KINDS)]
            else:
                kinds = [k for k in G.ALL_KINDS if rng.random() < 0.5]
            st = G.Style(rng, kinds)
            text = G.render(lines, st)
            style_cases.append({'i': i, 'j': j, 'kinds': kinds, 'a': gbase[i], 'b': text})
    # probes: fixed pairs
    probes = PROBES
    for a, b, kinds in probes:
        style_cases.append({'i': -1, 'j': 0, 'kinds': kinds, 'a': a, 'b': b})
    # with debug info (statement map used by RESUME): the error-recovery probes, the probes and some generated pairs
    ndbg = 0
    for c in list(style_cases):
        if c['i'] < 0 or (c['i'] + c['j']) % (8 if quick else 2) == 0:
            d = dict(c)
            d['debug'] = True
            style_cases.append(d)
            ndbg += 1
    for a, b, kinds in DBG_PROBES:
        style_cases.append({'i': -1, 'j': 0, 'kinds': kinds, 'a': a, 'b': b, 'debug': True})

    # ---- suite canon
    step = 10 if quick else 2
    if want('canon'):
        texts = list(csrc) + list(gbase)
        texts += [c['b'] for c in style_cases if c['i'] < 0 or (c['i'] + c['j']) % step == 0]
        texts = list(dict.fromkeys(texts))
        mouts = vlib.run_model(exe, [[3, t] for t in texts])
        if not model_failed(ctx, 'canon', mouts):
            cases = []
            for t, o in zip(texts, mouts):
                cn, cn2 = l2s(o[1]), l2s(o[2])
                if cn != cn2:
                    ctx.report('C14/canon-not-idempotent', {'suite': 'canon', 'text': t, 'canon': cn,
                                                            'canon2': cn2}, False)
                cases.append({'a': t, 'b': cn, 'levels': LEVELS})
            res = vlib.run_impl('lexfn.compare', cases, timeout=TIMEOUT)
            if not worker_failed(ctx, 'canon', res):
                nacc = 0
                for c, r in zip(cases, res):
                    judge_pair(ctx, 'canon', 'canon', [], c['a'], c['b'], r)
                    if r[0]['va'] == 'ok':
                        nacc += 1
                    ctx.bump('canon-verdict:' + r[0]['va'])
                ctx.count('canon', len(cases) * len(LEVELS), [c['a'] for c in cases])
                ctx.sample({'suite': 'canon', 'text': cases[len(cases) // 2]['a'][:300],
                            'canon': cases[len(cases) // 2]['b'][:300]})
                ctx.bump('canon-accepted-texts', nacc)
    ctx.rule.append(f'canon: {len(csrc)} corpus programs (accepted and rejected) + {ngen} generated programs + '
                    f'the respelled variants (i, j) with (i + j) mod {step} = 0 and the probes; compile(t) vs compile(canon t) (canon from the extracted '
                    f'model): same verdict, sections 1-4 identical at levels 0 and 2; canon(canon t) = canon t; '
                    f'non-trivial = distinct text')

    # ---- suite style (structural rewritings of generated programs + probes)
    if want('style'):
        cases = [{'a': c['a'], 'b': c['b'], 'levels': LEVELS, 'want_trace': True, 'max_ticks': 20000,
                  'debug': bool(c.get('debug'))} for c in style_cases]
        res = vlib.run_impl('lexfn.compare', cases, timeout=TIMEOUT)
        if not worker_failed(ctx, 'style', res):
            for c, r in zip(style_cases, res):
                for k in c['kinds']:
                    ctx.bump('style:' + k)
                names = any(k in ('label-rename', 'lineno-renumber') for k in c['kinds'])
                judge_pair(ctx, 'style-debug' if c.get('debug') else 'style', 'style-debug' if c.get('debug') else 'style', c['kinds'], c['a'], c['b'], r,
                           names_only_ok=names)
                if c.get('debug'):
                    ctx.bump('style:with-debug-info')
                if r[0]['va'] != 'ok':
                    ctx.report('C14/generator-produced-rejected-program',
                               {'suite': 'style', 'a': c['a'], 'verdict': r[0]['va']}, False)
            ctx.count('style', len(cases) * len(LEVELS), [c['b'] for c in style_cases])
            ctx.sample({'suite': 'style', 'kinds': style_cases[1]['kinds'], 'a': style_cases[1]['a'][:400],
                        'b': style_cases[1]['b'][:400]})
        # model side for the proved style kinds: same canon
        pv = [c for c in style_cases if c['kinds'] and set(c['kinds']) <= STYLE_PROVED and not c.get('debug')]
        mo = vlib.run_model(exe, [[1, c['a']] for c in pv] + [[1, c['b']] for c in pv])
        if not model_failed(ctx, 'style-canon', mo):
            for c, x, y in zip(pv, mo[:len(pv)], mo[len(pv):]):
                if x != y:
                    ctx.report('C14/style-variant-outside-catalogue(' + '+'.join(sorted(c['kinds'])) + ')',
                               {'suite': 'style-canon', 'a': c['a'], 'b': c['b'],
                                'canon_a': l2s(x[1]), 'canon_b': l2s(y[1])}, False)
            ctx.count('style-canon', len(pv), [c['b'] for c in pv])
    ctx.rule.append(f'style: {ngen} generated programs (assignment, PRINT, IF blocks, single-line IF with colon '
                    f'groups, FOR/NEXT, WHILE, DO/LOOP, SELECT, GOTO/GOSUB with labels and line numbers, SUB + CALL, '
                    f'FUNCTION, DIM, CONST, DATA/READ/RESTORE with labels, strings with apostrophe/colon/REM text, '
                    f'all type suffixes) x {nstyle} seeded spelling styles over {len(G.ALL_KINDS)} rewriting kinds '
                    f'+ {len(probes)} fixed probes; base vs variant: verdict, sections 1-4 at levels 0 and 2, device '
                    f'trace and outcome on the real machine; variants using only proved kinds must have the same '
                    f'canon in the model')

    # ---- suite rewrite (token-level compositions on real texts)
    nvar = 1 if quick else 3
    if want('rewrite'):
        accepted = [t for t in csrc]          # rejected programs stay in: verdict must not change
        base_texts = accepted + gbase
        lay = vlib.run_model(exe, [[2, t] for t in base_texts])
        if not model_failed(ctx, 'rewrite', lay):
            rcases = []
            for ti, (t, lr) in enumerate(zip(base_texts, lay)):
                if not lr[3]:
                    ctx.report('C14/lexer-output-not-lay-ok', {'text': t}, False)
                if l2s([x for w, tk, tx in lr[1] for x in w + tx] + lr[2]) != t:
                    ctx.report('C14/lexer-not-lossless', {'text': t}, False)
                for j in range(nvar):
                    rng = random.Random(f'{seed}-rw-{ti}-{j}')
                    proved_only = ((j + ti) % 2 == 0)
                    pool = TOKEN_RW_PROVED if proved_only else TOKEN_RW
                    text, kinds = compose(lr, rng, pool, rng.randint(1, 5))
                    if kinds:
                        rcases.append({'a': t, 'b': text, 'kinds': kinds, 'proved': proved_only})
            res = vlib.run_impl('lexfn.compare', [{'a': c['a'], 'b': c['b'], 'levels': LEVELS} for c in rcases], timeout=TIMEOUT)
            if not worker_failed(ctx, 'rewrite', res):
                for c, r in zip(rcases, res):
                    for k in c['kinds']:
                        ctx.bump('rw:' + k)
                    judge_pair(ctx, 'rewrite', 'rewrite', c['kinds'], c['a'], c['b'], r)
                ctx.count('rewrite', len(rcases) * len(LEVELS), [c['b'] for c in rcases])
                if rcases:
                    c = rcases[len(rcases) // 3]
                    ctx.sample({'suite': 'rewrite', 'kinds': c['kinds'], 'a': c['a'][:300], 'b': c['b'][:300]})
            pv = [c for c in rcases if c['proved']]
            mo = vlib.run_model(exe, [[1, c['a']] for c in pv] + [[1, c['b']] for c in pv])
            if not model_failed(ctx, 'rewrite-canon', mo):
                for c, x, y in zip(pv, mo[:len(pv)], mo[len(pv):]):
                    if x != y:
                        ctx.report('C14/rewrite-outside-catalogue(' + '+'.join(sorted(set(c['kinds']))) + ')',
                                   {'suite': 'rewrite-canon', 'a': c['a'], 'b': c['b'], 'kinds': c['kinds'],
                                    'canon_a': l2s(x[1]), 'canon_b': l2s(y[1])}, False)
                ctx.count('rewrite-canon', len(pv), [c['b'] for c in pv])
    ctx.rule.append(f'rewrite: every corpus and generated text x {nvar} seeded compositions of 1..5 token-level '
                    f'rewritings (case of words, case in numbers, blanks added/removed, comments added/removed/'
                    f'changed, empty and comment lines added/removed, relational spelling, trailing colon, joining '
                    f'two simple lines with a colon, splitting a colon group) applied to the layout returned by the '
                    f'model lexer; verdict and sections must not change; compositions of proved kinds only must '
                    f'keep the model canon')

    # ---- suite data (DATA payload verbatim; D44)
    alpha = ['a', ' ', ',', '"', '1']
    maxlen = 3 if quick else 5
    if want('data'):
        payloads = [''.join(p) for n in range(0, maxlen + 1) for p in itertools.product(alpha, repeat=n)]
        payloads += ['"a:b"', '"a:b', 'a"b', 'a "b', 'a  "b" c', "it's, 'x", '"x"y', 'a,,b', ' a , b ', '\ta\t,b\t',
                     '"a" , "b"', 'REM x', "1 ' c", '"a""b"', 'a b  c']
        payloads = list(dict.fromkeys(payloads))
        srcs = ['DATA ' + p + '\n' for p in payloads]
        lay = vlib.run_model(exe, [[2, s] for s in srcs])
        if not model_failed(ctx, 'data', lay):
            dcases = []
            for s, p, lr in zip(srcs, payloads, lay):
                toks = lr[1]
                mp = None
                if toks and toks[0][1][0] == 7:
                    mp = l2s(toks[0][1][2])
                if mp != ' ' + p:
                    ctx.report('C14/data-payload-model-differs', {'src': s, 'model_payload': mp}, False)
                    continue
                dcases.append({'src': s, 'payload': mp})
            res = vlib.run_impl('lexfn.data_items', dcases, timeout=TIMEOUT)
            if not worker_failed(ctx, 'data', res):
                for c, r in zip(dcases, res):
                    comp = r['compiled']
                    verb = r['verbatim']
                    exp = {'err': 'syntax:'} if verb is None else {'items': [verb]}
                    if comp != exp:
                        shape = data_shape(c['payload'])
                        lone = c['payload'].endswith('"') and c['payload'].count('"') % 2 == 1
                        what = 'data-lone-quote-rejected' if lone and 'err' in comp else 'data-payload-rejoined'
                        ctx.report(f'C14/{what}(tokens={shape})',
                                   {'suite': 'data', 'src': c['src'], 'compiled': comp, 'verbatim_payload_reads': verb,
                                    'note': 'the data section differs from parse_data(verbatim payload)'}, True)
                    ctx.bump('data-shape:' + (data_shape(c['payload']) or 'empty')[:3])
                ctx.count('data', len(dcases), [c['src'] for c in dcases])
                ctx.sample({'suite': 'data', 'src': dcases[len(dcases) // 2]['src']})
    ctx.rule.append(f'data: DATA + every payload of length <= {maxlen} over {alpha} + 15 fixed ones: the model '
                    f'lexer returns the payload verbatim, and the data section built by the real compiler must equal '
                    f'the real parse_data on that verbatim payload')

    # ---- suite tab (a TAB character inside a string literal or a DATA item)
    tbases = ['PRINT "a\tb"\n', 'x$ = "\t"\nPRINT x$; "|"\n',
              'DATA a\tb, "c\td"\nREAD p$, q$\nPRINT p$; q$\n',
              'IF 1 THEN PRINT "\tq" \' c\n', 'PRINT 1 \' only a comment\there\n']
    ntab = 3 if quick else 12
    if want('tab'):
        lay = vlib.run_model(exe, [[2, t] for t in tbases])
        cn = vlib.run_model(exe, [[1, t] for t in tbases])
        if not model_failed(ctx, 'tab', lay + cn):
            tcases = []
            for ti, (t, lr, c) in enumerate(zip(tbases, lay, cn)):
                where = set()
                for ws, tok, text in lr[1]:
                    if 9 in text and tok[0] == 4:
                        where.add('string')
                    if 9 in text and tok[0] == 7:
                        where.add('data')
                w = 'both' if len(where) == 2 else (where.pop() if where else 'none')
                tcases.append({'a': t, 'b': l2s(c[1]), 'kinds': ['canon'], 'where': w})
                for j in range(ntab):
                    rng = random.Random(f'{seed}-tab-{ti}-{j}')
                    text, kinds = compose(lr, rng, [rw_blank_add, rw_blank_remove], rng.randint(1, 3))
                    tcases.append({'a': t, 'b': text, 'kinds': kinds, 'where': w})
            res = vlib.run_impl('lexfn.compare', [{'a': c['a'], 'b': c['b'], 'levels': LEVELS, 'want_trace': True}
                                                  for c in tcases], timeout=TIMEOUT)
            if not worker_failed(ctx, 'tab', res):
                for c, r in zip(tcases, res):
                    for k in c['kinds']:
                        ctx.bump('tab:' + k)
                    bad = [lv for lv in r if lv['va'] != lv['vb'] or lv['diff'] or lv['trace_same'] is False]
                    if not bad:
                        continue
                    lv = bad[0]
                    if lv['va'] == lv['vb'] and c['where'] != 'none':
                        ctx.report(f'C14/tab-in-literal-expanded({c["where"]})',
                                   {'suite': 'tab', 'a': c['a'], 'b': c['b'], 'kinds': c['kinds'],
                                    'level': lv['level'], 'sections': lv['diff'], 'ta': lv.get('ta'),
                                    'tb': lv.get('tb'),
                                    'note': 'the two texts differ only in blanks between tokens'}, True)
                    else:
                        judge_pair(ctx, 'tab', 'tab', c['kinds'], c['a'], c['b'], r)
                ctx.count('tab', len(tcases) * len(LEVELS), [c['b'] for c in tcases])
                ctx.sample({'suite': 'tab', 'a': tcases[1]['a'], 'b': tcases[1]['b']})
    ctx.rule.append(f'tab: {len(tbases)} programs with a TAB character inside a string literal, a DATA item or a '
                    f'comment x (canon + {ntab} seeded blank insertions/removals between tokens): sections and '
                    f'traces must not change')

    # ---- suite decl (letter case of one name at its declaration vs at its uses, every declaration form)
    templates = G.decl_templates()
    if quick:
        dvars = [('cap', 'lower', False), ('lower', 'upper', False), ('upper', 'mixed', True)]
    else:
        dvars = [(d, u, False) for d in G.DECL_SPELLINGS for u in G.USE_SPELLINGS if (d, u) != ('lower', 'lower')]
        dvars += [('upper', 'mixed', True), ('cap', 'lower', True)]
    if want('decl'):
        dcases = []
        for form, text, exp in templates:
            texts = [G.decl_texts(text, 'lower', 'lower')] + [G.decl_texts(text, d, u, k) for d, u, k in dvars]
            dcases.append({'texts': texts, 'levels': LEVELS, 'form': form, 'exp': exp})
        res = vlib.run_impl('lexfn.observe', [{'texts': c['texts'], 'levels': LEVELS} for c in dcases], timeout=TIMEOUT)
        if not worker_failed(ctx, 'decl', res):
            for c, r in zip(dcases, res):
                ctx.bump('decl-form:' + c['form'])
                for lv in r:
                    judge_group(ctx, 'decl', c['form'], c['texts'], ['base'] + [f'decl={d};use={u}' + (';kw=lower' if k else '')
                                                                               for d, u, k in dvars], lv, c['exp'])
            ctx.count('decl', sum(len(c['texts']) for c in dcases) * len(LEVELS), [t for c in dcases for t in c['texts']])
            ctx.sample({'suite': 'decl', 'form': dcases[1]['form'], 'texts': dcases[1]['texts'][:2]})
    ctx.rule.append(f'decl: {len(templates)} declaration forms (SUB/FUNCTION/DECLARE scalar and array parameters, DIM, '
                    f'DIM SHARED, STATIC, scalar and array, each x 11 type forms: none, % & ! # $, AS INTEGER/LONG/SINGLE/'
                    f'DOUBLE/STRING; FUNCTION and SUB names, CONST, FOR variable, READ target, DEFtype letter, TYPE name, '
                    f'field, record variable/array/parameter, labels of GOTO/GOSUB/RESTORE/ON ERROR) x (base + '
                    f'{len(dvars)} spellings of the ONE declared name: declaration site and use sites respelled '
                    f'independently); every program observes the variable; each text: verdict ok, printed text = the '
                    f'text expected by construction, sections 1-4 and device trace identical to the base, levels 0 and 2')

    # ---- suite litcase (lines identical up to letter case inside literals / DATA items / comments)
    shapes = G.lit_shapes()
    tuples2 = [(a, b) for a in G.WORD_SPELLINGS for b in G.WORD_SPELLINGS if a != b]
    tuples3 = [('cap', 'lower', 'inv'), ('upper', 'upper', 'lower'), ('lower', 'upper', 'lower'), ('inv', 'cap', 'upper')]
    if want('litcase'):
        lcases = []
        for si, (shape, fn) in enumerate(shapes.items()):
            rng = random.Random(f'{seed}-litcase-{shape}')
            if quick:
                combos = [(rng.choice(G.WORDS[:2]), rng.choice(tuples2)), (rng.choice(G.WORDS), rng.choice(tuples3))]
            else:
                combos = [(w, t) for w in G.WORDS for t in tuples2 + tuples3]
            for w, sps in combos:
                ws = [G.spell_word(w, sp) for sp in sps]
                if len(set(ws)) < 2:
                    ws[-1] = ws[-1].swapcase() if ws[-1].swapcase() != ws[0] else ws[-1].upper()
                got = fn(ws)
                if got is None:
                    got = fn([G.spell_word('north', sp) for sp in sps])
                    ws = [G.spell_word('north', sp) for sp in sps]
                pre, sim, post, exp = got
                lines = pre + sim + post
                plain = [G.seg_text(l) for l in lines]
                texts, hows = ['\n'.join(plain) + '\n'], ['base']
                idx = list(range(len(pre), len(pre) + len(sim)))
                for li in idx:
                    rws = G.LINE_REWRITES if not quick else rng.sample(G.LINE_REWRITES, 3)
                    for how in rws:
                        t = G.rewrite_line(lines[li], how)
                        if t is not None:
                            texts.append('\n'.join(t if i == li else x for i, x in enumerate(plain)) + '\n')
                            hows.append(f'line-{how}')
                # whole-text respellings of the code segments
                texts.append('\n'.join(G.seg_text(l, str.lower) for l in lines) + '\n'); hows.append('text-case-lower')
                texts.append('\n'.join(G.seg_text(l, G.swap_words) for l in lines) + '\n'); hows.append('text-case-swap')
                lcases.append({'texts': texts, 'hows': hows, 'shape': shape, 'exp': [exp] * len(texts), 'group': True})
                # two compilations in one process: first the text with every literal in lower case, then the
                # mixed-case one, then the upper-case one, then the mixed-case one again
                lo = fn([x.lower() for x in ws])
                up = fn([x.upper() for x in ws])
                seq, sexp, shows = [], [], []
                for tag, g in (('all-lower', lo), ('mixed-after-lower', got), ('all-upper', up), ('mixed-after-upper', got)):
                    seq.append('\n'.join(G.seg_text(l) for l in g[0] + g[1] + g[2]) + '\n')
                    sexp.append(g[3]); shows.append('seq-' + tag)
                lcases.append({'texts': seq, 'hows': shows, 'shape': shape, 'exp': sexp, 'group': False})
        res = vlib.run_impl('lexfn.observe', [{'texts': c['texts'], 'levels': LEVELS} for c in lcases], timeout=TIMEOUT)
        if not worker_failed(ctx, 'litcase', res):
            for c, r in zip(lcases, res):
                ctx.bump('litcase-shape:' + c['shape'])
                for h in c['hows']:
                    ctx.bump('litcase:' + h)
                for lv in r:
                    judge_group(ctx, 'litcase', c['shape'], c['texts'], c['hows'], lv, c['exp'], same=c['group'])
            ctx.count('litcase', sum(len(c['texts']) for c in lcases) * len(LEVELS), [t for c in lcases for t in c['texts']])
            ctx.sample({'suite': 'litcase', 'shape': lcases[0]['shape'], 'texts': lcases[0]['texts'][:3]})
    ctx.rule.append(f'litcase: {len(shapes)} line shapes ({", ".join(shapes)}) with 2-3 lines that are identical up to '
                    f'the letter case inside a string literal / DATA item / comment (words {G.WORDS}, spellings '
                    f'{G.WORD_SPELLINGS}; ' + ('per shape 2 seeded (word, spelling tuple) choices and 3 seeded rewritings per line'
                                               if quick else f'every word x {len(tuples2) + len(tuples3)} spelling tuples, every rewriting') +
                    f'); variants rewrite ONE of the similar lines at a time ({", ".join(G.LINE_REWRITES)}) or the whole '
                    f'text (case of all code); every text: verdict ok, printed text = the text known by construction, '
                    f'sections and trace identical to the base; plus, per program, the sequence all-lower-literals, mixed, '
                    f'all-upper-literals, mixed compiled one after the other in ONE process, each judged against its own '
                    f'expected text; levels 0 and 2')
    return ctx.finish()


PROBES = [
    # identifiers, labels and SUB names that BEGIN like a keyword (rem, data, end, print, for,
    # next, if, to, step, let, call): with and without LET / colon / CALL in front
    ('remaining% = 3\nremainder% = remaining% - 1\nPRINT remaining%; remainder%\ndatax% = 4\nendval% = 5\n'
     'printer$ = "p"\nforx% = 6\nnextval% = 7\nifa% = 8\ntox% = 9\nstepper% = 10\nletter$ = "l"\n'
     'PRINT datax%; endval%; printer$; forx%; nextval%; ifa%; tox%; stepper%; letter$\n',
     'LET remaining% = 3: LET remainder% = remaining% - 1\nPRINT remaining%; remainder%: datax% = 4: endval% = 5\n'
     'LET printer$ = "p": forx% = 6: nextval% = 7: ifa% = 8\nLET tox% = 9: stepper% = 10: letter$ = "l"\n'
     'PRINT datax%; endval%; printer$; forx%; nextval%; ifa%; tox%; stepper%; letter$\n',
     ['let', 'colon-join']),
    ('GOTO remote\nPRINT "skipped"\nremote:\nremark\nPRINT "done"\nEND\nSUB remark\nPRINT "in sub"\nEND SUB\n',
     'goto REMOTE\nprint "skipped"\nREMOTE: CALL Remark\nprint "done": end\nsub REMARK\nprint "in sub"\nend sub\n',
     ['case-kw', 'case-id', 'call-form', 'colon-join']),
    ('TYPE Foo\nbar AS INTEGER\nEND TYPE\nDIM v AS Foo\nv.bar = 1\nPRINT v.bar\n',
     'type FOO\n  BAR as integer\nend type\ndim V as foo\nV . Bar=1\nprint v.BAR\n', ['case-kw', 'case-id', 'blank-add']),
    ('DECLARE SUB Foo (a%)\nx% = 1\nFoo x%\nPRINT x%\nSUB Foo (a%)\na% = 2\nEND SUB\n',
     'declare sub FOO(A%)\nX%=1\ncall foo(x%)\nprint X%\nsub foo(A%)\nlet a%=2\nend sub\n',
     ['case-kw', 'case-id', 'call-form', 'let', 'blank-remove']),
    ('DIM arr%(3)\narr%(1) = 5\nShow arr%()\nSUB Show (a%())\nPRINT a%(1)\nEND SUB\n',
     'Dim ARR%( 3 )\nARR%(1)=5\nCALL SHOW(Arr%( ))\nSub show(A%( ))\nPrint A%(1)\nEnd Sub\n',
     ['case-kw', 'case-id', 'call-form', 'blank-add']),
    ('FOR i% = 1 TO 2\nFOR j% = 1 TO 2\nPRINT i%; j%\nNEXT j%, i%\n',
     'for I%=1 to 2:for J%=1 to 2:print i%;j%:next:next\n', ['next-var', 'colon-join', 'case-kw', 'case-id']),
    ('DEFINT A-C\nb = 1.5\nPRINT b\nDEFSTR S\nsx = "a"\nPRINT sx\n',
     'defint a - c\nB=1.5\nprint B\nDefStr s\nSX="a"\nPrint Sx\n', ['case-kw', 'case-id', 'blank-add']),
    ('x = 3\nSELECT CASE x\nCASE IS >= 5\nPRINT 1\nCASE 1 TO 4\nPRINT 2\nCASE ELSE\nEND SELECT\n',
     'X=3\nselect  case x\ncase is=>5:print 1\n  case 1 to 4 : print 2\ncase else\nend select \' done\n',
     ['relop', 'colon-join', 'case-kw', 'comment-eol']),
    ('10 x = 1\n20 IF x <> 2 THEN GOTO 40\n30 PRINT "no"\n40 PRINT "yes"\n',
     '1 X=1\n2 if x><2 then goto 4\n3 print "no"\n4 print "yes"\n', ['lineno-renumber', 'relop', 'case-kw']),
    ('RESTORE d2\nREAD a$\nPRINT a$\nd1: DATA one\nd2: DATA two\n',
     'restore SECOND\nread A$ : print a$\nfirst: data one\nSecond: data two\n', ['label-rename', 'colon-join', 'case-kw']),
    ('s$ = "it\'s : REM"\nPRINT s$ \' tail\nREM whole line\nPRINT "x" : REM after colon\n',
     'S$="it\'s : REM"\n\nprint S$\nprint "x"\n', ['comment-eol', 'comment-line', 'case-kw', 'blank-remove',
                                                  'rem-statement-remove']),
]


# error recovery needs the statement map of the debug info: the same program one statement per
# line and colon-joined (and respelled) must recover at the same statement
DBG_PROBES = [
    ('ON ERROR GOTO h\nz% = 0\nPRINT "a"\nx% = 1 \\ z%\nPRINT "b"\nPRINT "c"\nEND\nh:\nPRINT "H"; ERR\nRESUME NEXT\n',
     'on error goto H\nZ%=0\nprint "a":x%=1\\z%:print "b":print "c"\nend\nH: print "H";err:resume next\n',
     ['colon-join', 'case-kw', 'case-id', 'blank-remove']),
    ('ON ERROR RESUME NEXT\nz% = 0\nPRINT "a"\nx% = 1 \\ z%\nPRINT "b"\ny% = 2 \\ z%\nPRINT "c"\n',
     'ON ERROR RESUME NEXT: z% = 0\nPRINT "a": x% = 1 \\ z%: PRINT "b": y% = 2 \\ z%: PRINT "c"\n',
     ['colon-join']),
    ('ON ERROR GOTO h\nz% = 0\nPRINT "a"\nPRINT 1 \\ z%\nPRINT "b"\nEND\nh:\nz% = 1\nRESUME\n',
     'ON ERROR GOTO h\nz% = 0: PRINT "a": PRINT 1 \\ z%: PRINT "b": END\nh: LET z% = 1: RESUME\n',
     ['colon-join', 'let']),
    ('ON ERROR GOTO h\nDIM a%(2)\ni% = 5\nFOR k% = 1 TO 2\nPRINT k%\na%(i%) = 1\nPRINT "in"\nNEXT k%\nEND\nh:\nRESUME NEXT\n',
     'ON ERROR GOTO h: DIM a%(2): i% = 5\nFOR k% = 1 TO 2: PRINT k%: a%(i%) = 1: PRINT "in": NEXT\nEND\nh: RESUME NEXT \' go on\n',
     ['colon-join', 'next-var', 'comment-eol']),
    ('ON ERROR GOTO h\nz% = 0\nIF z% = 0 THEN\nPRINT "t"\nx% = 1 \\ z%\nPRINT "u"\nEND IF\nPRINT "end"\nEND\nh:\nRESUME NEXT\n',
     'ON ERROR GOTO h: z% = 0\nIF z% = 0 THEN\n  PRINT "t": x% = 1 \\ z%: PRINT "u"\nEND IF: PRINT "end": END\nh: RESUME NEXT\n',
     ['colon-join', 'indent']),
]


def replay(path):
    d = json.load(open(path))
    det = d.get('first') or {}
    print(json.dumps({k: d.get(k) for k in ('property', 'signature', 'count', 'tier', 'seed')}, indent=1))
    if 'a' in det and 'b' in det:
        res = vlib.run_impl('lexfn.compare', [{'a': det['a'], 'b': det['b'], 'levels': LEVELS,
                                               'want_trace': True,
                                               'debug': det.get('suite') == 'style-debug'}])[0]
        print('--- text a'); print(det['a']); print('--- text b'); print(det['b'])
        print(json.dumps(res, indent=1)[:3000])
        bad = any(lv['va'] != lv['vb'] or lv['diff'] or lv['trace_same'] is False for lv in res)
        print('reproduces' if bad else 'does not reproduce')
        return 1 if bad else 0
    if 'src' in det:
        exe = vlib.build_model('Lex')
        lr = vlib.run_model(exe, [[2, det['src']]])[0]
        payload = l2s(lr[1][0][1][2]) if lr[1] and lr[1][0][1][0] == 7 else None
        print('--- text'); print(det['src']); print('--- payload (model lexer):', repr(payload))
        r = vlib.run_impl('lexfn.data_items', [{'src': det['src'], 'payload': payload or ''}], timeout=TIMEOUT)[0]
        print(json.dumps(r, indent=1)[:2000])
        verb = r['verbatim']
        exp = {'err': 'syntax:'} if verb is None else {'items': [verb]}
        bad = r['compiled'] != exp
        print('reproduces' if bad else 'does not reproduce')
        return 1 if bad else 0
    print(json.dumps(d, indent=1)[:4000])
    return 0
