"""C06 - the compiler is total: any text yields a module or a diagnostic.

(A) Theorems (coq/Props/C06.v) about Models/Tokens.v: the two arity-assuming
    parse actions and the offset->line/column arithmetic of a diagnostic; tied
    to the code by T-fn suites (real functions vs extracted model).
(B) Search with the direct oracle "only qbee SyntaxError / CompileError with
    a position inside the text may escape Compiler.compile; for an accepted
    text bytes(code) and str(code) succeed", over the deterministic malformed
    stream of tools/props/c06gen.py."""
import itertools
import json
import os
import random
import re
import sys
import time

import vlib
from vlib import Ctx, diff_suite

sys.path.insert(0, os.path.dirname(os.path.abspath(__file__)))
import c06gen  # noqa

PROP = 'C06'
CHECK = 'totalfn.check'
PAR = int(os.environ.get('C06_PAR', vlib.NPROC))   # worker processes (soaking on a loaded host)
TL = 20          # CPU seconds per configuration (+ len(text)/200)
OPS = ['^', '+', '-', '*', '/', '\\', 'mod', 'and', 'or', 'xor', 'eqv', 'imp',
       '=', '<>', '<', '>', '<=', '>=', '><', '=<', '=>', 'not', '?']
OPNAMES = ['EXP', 'ADD', 'SUB', 'MUL', 'DIV', 'INTDIV', 'MOD', 'AND', 'OR', 'XOR', 'EQV', 'IMP',
           'CMP_EQ', 'CMP_NE', 'CMP_LT', 'CMP_GT', 'CMP_LE', 'CMP_GE']
CRASH = {'AssertionError': 1, 'KeyError': 2, 'InternalError': 3, 'AttributeError': 4,
         'IndexError': 5}


# ---------------------------------------------------------------------------
# oracle

def form_of(case):
    """the construct an input was generated from (statement form, expression
    sub-family, ...): part of the signature, so that a known finding covers
    its own failure class in its own constructs and nothing else"""
    if case.get('form'):
        return case['form']
    fam, cls = case.get('fam', '?'), case.get('cls', '')
    parts = cls.split('/')
    if fam in ('form', 'form-token'):
        return parts[0]
    if fam == 'expr':
        if parts[0] in ('args', 'labels', 'labels-bare') and len(parts) > 1:
            return parts[0] + '/' + parts[1]
        if parts[0] in ('bin', 'bin-cond', 'bin-un', 'bin-un-chain', 'un') and len(parts) > 1:
            return parts[0] + '/' + parts[1]
        return parts[0]
    if fam == 'block-skel':
        return 'skel-' + parts[0]
    if fam in ('block1', 'block2', 'block2-colon'):
        return 'block'
    return fam


def signatures(case, r):
    """every property failure exhibited by one worker result:
    [(signature, level, debug, verdict)]"""
    out = []
    form = form_of(case)
    if not isinstance(r, dict) or 'res' not in r:
        return [(f'C06/compiler-process-died@{form_of(case)}', None, None, r)]
    for lv, dbg, v in r['res']:
        k = v[0]
        sig = None
        # the position oracle of the catalogue families: a located diagnostic
        # has to be on the line of the offending statement
        if case.get('errline') is not None and k in ('syntax', 'compile'):
            loc, ok = (v[1], v[2]) if k == 'syntax' else (v[2], v[3])
            if ok and min(case['src'].count('\n', 0, loc), case['src'].count('\n')) != case['errline'] \
                    and not (loc == len(case['src']) and case['src'].endswith('\n')
                             and case['src'].count('\n') - 1 == case['errline']):
                out.append((f'C06/diagnostic-on-wrong-line({"SyntaxError" if k == "syntax" else v[1]})'
                            f'@{form}', lv, dbg, v))
        if k == 'exc':
            phase = '' if v[4] == 'compile' else v[4] + ':'
            sig = f'C06/internal-exception({v[1]},{v[2]},{phase}{v[3]})@{form}'
        elif k == 'timeout':
            sig = f'C06/timeout({v[1]})@{form}'
        elif k == 'syntax':
            if not v[2]:
                sig = 'C06/unlocated-diagnostic(SyntaxError)'
            elif v[3]:
                sig = f'C06/undisplayable-diagnostic(SyntaxError,{v[3][0]},{v[3][2]})'
        elif k == 'compile':
            if not v[3]:
                sig = f'C06/unlocated-diagnostic(CompileError,{v[1]},{v[5]})'
            elif v[4]:
                sig = f'C06/undisplayable-diagnostic(CompileError,{v[1]},{v[4][0]},{v[4][2]})'
        if sig:
            out.append((sig, lv, dbg, v))
    return out


def run_check(srcs, full=True, fam='replay', warm=None):
    cases = [{'src': s, 'full': full, 'tl': TL} for s in srcs]
    for c, w in zip(cases, warm or []):
        if w:
            c['warm'] = w
    res = vlib.run_impl(CHECK, cases, timeout=3600, par=PAR)
    # a dead worker loses the rest of its chunk: run those one by one
    for i, r in enumerate(res):
        if isinstance(r, dict) and r.get('harness'):
            res[i] = vlib.run_impl(CHECK, [cases[i]], timeout=60 * TL)[0]
    return res


# ---------------------------------------------------------------------------
# shrinking (delta debugging on lines, then on tokens)

def shrink(src, sig, max_rounds=60):
    def holds(texts):
        rs = run_check(texts)
        base = sig.split('@')[0]
        return [any(s[0].split('@')[0] == base for s in signatures({'fam': 'shrink'}, r))
                for r in rs]

    def reduce(parts, joiner):
        rounds = 0
        n = 2
        while len(parts) >= 2 and rounds < max_rounds:
            rounds += 1
            size = max(1, len(parts) // n)
            cands = [parts[:i] + parts[i + size:] for i in range(0, len(parts), size)]
            oks = holds([joiner(c) for c in cands])
            for c, ok in zip(cands, oks):
                if ok:
                    parts = c
                    n = max(n - 1, 2)
                    break
            else:
                if size == 1:
                    break
                n = min(len(parts), n * 2)
        return parts
    lines = reduce(src.split('\n'), lambda p: '\n'.join(p))
    text = '\n'.join(lines)
    toks = reduce(c06gen.tokenize(text), c06gen.join)
    small = c06gen.join(toks)
    return small if holds([small])[0] else text


# ---------------------------------------------------------------------------
# T-fn suites (model of Tokens.v vs the real functions)

def tok_model(t):
    if t[0] == 'a':
        return [0, [0, t[1]]]
    if t[0] == 'b':
        return [0, [1, 1, [0, 7], [0, 8]]]
    return [1, t[1]]


def tree_model(t):
    if t[0] == 'a':
        return [0, t[1]]
    if t[0] == 'b':
        return [1, OPNAMES.index(t[1]), tree_model(t[2]), tree_model(t[3])]
    return ['?', t]


def tfn_suites(ctx, exe, tier):
    # A: the two parse actions on every token list up to a length
    alpha = [['a', 1], ['a', 2], ['b'], ['o', 0], ['o', 1], ['o', 2], ['o', 13], ['o', 18],
             ['o', 21], ['o', 22]]
    maxlen = 3 if tier == 'quick' else 4
    cases = []
    for n in range(0, maxlen + 1):
        for t in itertools.product(alpha, repeat=n):
            for w in ('left', 'right'):
                cases.append({'which': w, 'toks': list(t)})
    # longer well-shaped and sign-prefixed lists
    for n in range(5, 12):
        for w in ('left', 'right'):
            for op in (0, 1, 13, 20):
                toks = [['a', 1]]
                for i in range(n // 2):
                    toks += [['o', op], ['a', i + 2]]
                cases.append({'which': w, 'toks': toks})
                cases.append({'which': w, 'toks': [['o', 2]] + toks})
                cases.append({'which': w, 'toks': [['o', 2], ['o', 1]] + toks})
                cases.append({'which': w, 'toks': toks[:-1]})
    ctx.rule.append(f'T-fn assoc: parse_left/right_assoc_binary_expr called directly on every token '
                    f'list of length <= {maxlen} over {len(alpha)} tokens (operands, a nested node, '
                    f'7 operator strings incl. non-operators) + well-shaped / sign-prefixed / '
                    f'truncated lists up to length 13; compared with Models/Tokens.v (result tree or '
                    f'exception class)')

    def norm(c, raw):
        if isinstance(raw, dict):
            return ['exc', raw.get('exc')]
        if raw[0] == 'crash':
            return [1, CRASH.get(raw[1], 99)]
        return [0, tree_model(raw[1])]
    diff_suite(ctx, 'tfn_assoc', cases, 'totalfn.assoc_action', exe,
               lambda c: [1 if c['which'] == 'left' else 2, [tok_model(t) for t in c['toks']]],
               norm, lambda c, ni, mo, raw: ('C06/assoc-action-model-differs', False),
               key=lambda c: json.dumps(c), describe=lambda c: json.dumps(c))

    # B: the token-list shapes pyparsing really hands to the two actions
    exprs = []
    atoms = ['1', 'a%', '(3)', 'f(1)', '"s"', 'ABS(1)']
    for op in c06gen.BINOPS:
        for u in ['', '-', '+', '- -', 'NOT', '- +']:
            for a in atoms[:3 if tier == 'quick' else 6]:
                exprs.append(f'x = 2 {op} {u} {a}')
                exprs.append(f'x = {u} {a} {op} 2 {op} 3')
    for d in range(1, 8):
        exprs.append('x = ' + ' ^ '.join(['2'] * d))
        exprs.append('x = ' + ' ^ '.join(['-2'] * d))
        exprs.append('x = ' + ' - '.join(['2'] * d) + ' * 3 ^ 2 < 5 AND 1 OR NOT 2')
    raws = vlib.run_impl('totalfn.expr_shapes', [{'src': e} for e in exprs])
    jobs, owners = [], []
    for e, raw in zip(exprs, raws):
        if not isinstance(raw, dict) or 'calls' not in raw:
            ctx.broken.append(f'correspondence tfn_shapes: worker failed on {e!r}: {raw}')
            break
        for w, rule, toks in raw['calls']:
            mt = [[1, OPS.index(t[1].lower()) if t[1].lower() in OPS else 22] if t[0] == 'o'
                  else [0, [0, 0]] for t in toks]
            jobs.append([3, mt])
            jobs.append([2 if w == 'right' else 1, mt])
            owners.append((e, w, rule, toks))
    mres = vlib.run_model(exe, jobs)
    signed = {}
    for i, (e, w, rule, toks) in enumerate(owners):
        flags, out = mres[2 * i], mres[2 * i + 1]
        if isinstance(flags, str) or isinstance(out, str):
            ctx.broken.append(f'correspondence tfn_shapes: model driver failed ({flags})')
            break
        if w == 'left' and flags[0] != 1:
            ctx.report('C06/shape-claim-broken(left)', {'expr': e, 'rule': rule, 'toks': toks}, False)
        if w == 'right':
            if flags[2] < 0:
                ctx.report('C06/shape-claim-broken(right)', {'expr': e, 'toks': toks}, False)
            if flags[2] > 0:
                signed[e] = True
            # theorem C06_right_assoc_real_shapes_partial on the extracted model
            if (flags[2] > 0) != (out == [1, 1]) or (flags[2] == 0) != (out[0] == 0):
                ctx.report('C06/shape-theorem-vs-extraction', {'expr': e, 'toks': toks, 'out': out},
                           False)
    nsig = 0
    for e, raw in zip(exprs, raws):
        if not isinstance(raw, dict) or raw.get('res') not in ('ok', 'AssertionError'):
            continue
        if (raw['res'] == 'AssertionError') != bool(signed.get(e)):
            ctx.report('C06/shape-model-mispredicts-parse', {'expr': e, 'res': raw['res']}, False)
        nsig += bool(signed.get(e))
    ctx.count('tfn_shapes', len(exprs), set(exprs))
    ctx.bump('tfn_shapes/signed-exponent-operand', nsig)
    ctx.rule.append(f'T-fn shapes: {len(exprs)} expressions parsed by the real grammar with a spy in '
                    f'front of the two actions: every recorded list must be well-shaped (left) / '
                    f'sign^k operand ["^" node] (right), and the line fails with AssertionError iff '
                    f'some right list has k>0 (model prediction)')
    ctx.sample({'suite': 'tfn_shapes', 'case': exprs[len(exprs) // 2]})

    # C: positions
    maxl = 5 if tier == 'quick' else 7
    pc = []
    for n in range(0, maxl + 1):
        for t in itertools.product('a\n', repeat=n):
            text = ''.join(t)
            for off in range(-1, n + 3):
                pc.append({'text': text, 'off': off, 'loc': off})
    ctx.rule.append(f'T-fn positions: convert_index_to_line_col and display_with_context on every '
                    f'text of length <= {maxl} over {{a, newline}} x every offset in [-1, len+2]')

    def norm_lc(c, raw):
        if isinstance(raw, dict):
            return ['exc', raw.get('exc')]
        return [] if raw == ['none'] else raw

    def norm_disp(c, raw):
        if isinstance(raw, dict):
            return ['exc', raw.get('exc')]
        if raw[0] == 'crash':
            return [] if raw[1] == 'TypeError' else ['crash', raw[1]]
        return [raw[1], raw[2]]
    diff_suite(ctx, 'tfn_line_col', pc, 'totalfn.line_col', exe,
               lambda c: [4, c['text'], c['off']], norm_lc,
               lambda c, ni, mo, raw: ('C06/line-col-model-differs', False),
               key=lambda c: json.dumps(c), describe=lambda c: json.dumps(c))
    diff_suite(ctx, 'tfn_display', pc, 'totalfn.display', exe,
               lambda c: [5, c['text'], c['loc']], norm_disp,
               lambda c, ni, mo, raw: ('C06/display-model-differs', False),
               key=lambda c: json.dumps(c), describe=lambda c: json.dumps(c))


# ---------------------------------------------------------------------------
# the malformed stream

BORDERLINE = re.compile(r'^(long|many|deep|big)-[a-z-]+/4000')

# family -> (quick size, thorough size); None = all
# The thorough sizes are the prefixes of the fixed permutations that have been
# soaked completely on the unchanged tree (DESIGN 2.2: quick subset-of thorough
# subset-of soaked space); they were sized to what a very loaded host could
# soak, not to the generators (stream_space in the evidence gives the full
# sizes).
SIZES = {
    'form': (600, 5400), 'form-token': (200, None), 'block-skel': (200, None),
    'block': (150, None), 'block3': (0, 500), 'expr': (900, 2400),
    'prog': (20, 400), 'corpus': (600, 2000),
}


def build_stream(ctx, tier, corpus):
    """list of (family, [cases in run order]).  The thorough list of a family
    does NOT depend on the seed (one fixed permutation, cut at the size that
    has been soaked on the unchanged tree); the seed selects the quick
    sub-sample of it and the order.  quick is a subset of thorough for every
    seed."""
    fams = []
    SIZES.update({k: tuple(v) for k, v in json.loads(os.environ.get('C06_CAPS', '{}')).items()})
    det = {
        'form': c06gen.statement_forms(),
        'form-token': c06gen.form_token_mutations(),
        'block-skel': c06gen.block_skeletons(),
        'block': c06gen.block_keywords(2),
        'expr': c06gen.expressions(),
    }
    det['block3'] = [c for c in c06gen.block_keywords(3) if c['fam'] == 'block3']
    space = {}
    full = {}
    for name in ('form', 'form-token', 'block-skel', 'block', 'block3', 'expr'):
        lst = det[name]
        space[name] = len(lst)
        random.Random(f'0/{name}').shuffle(lst)
        t = SIZES[name][1]
        full[name] = lst if t is None else lst[:t]
    # grammar-directed programs with random type errors: program i
    progs = []
    for i in range(SIZES['prog'][1]):
        g = c06gen.ProgGen(random.Random(f'0/prog/{i}'), 0.04 + 0.04 * (i % 4))
        progs.append({'fam': 'prog', 'cls': f'perr={0.04 + 0.04 * (i % 4):.2f}', 'src': g.program()})
    full['prog'] = progs
    space['prog'] = 'unbounded (generator)'
    # token-level single mutations of the corpus
    toks = [c06gen.tokenize(c['src']) for c in corpus]
    allm = []
    for ci, tk in enumerate(toks):
        for m in c06gen.mutation_space(tk):
            allm.append((ci, m))
    space['corpus'] = len(allm)
    random.Random('0/corpus').shuffle(allm)
    full['corpus'] = [{'fam': 'corpus', 'cls': f'{corpus[ci]["file"]}/{m[0]}',
                       'src': c06gen.apply_mutation(toks[ci], m)}
                      for ci, m in allm[:SIZES['corpus'][1]]]
    for name in ('form', 'form-token', 'block-skel', 'block', 'block3', 'expr', 'prog', 'corpus'):
        # the 4000-element texts sit at the edge of the time limit (outcome
        # would depend on the speed of the host): left out, 50/200/1000 stay
        lst = [c for c in full[name] if not BORDERLINE.match(c['cls'])]
        rng = random.Random(f'{ctx.seed}/{name}')
        if tier == 'quick':
            q = min(SIZES[name][0], len(lst))
            idx = sorted(rng.sample(range(len(lst)), q)) if ctx.seed else list(range(q))
            lst = [lst[i] for i in idx]
        elif ctx.seed:
            lst = list(lst)
            rng.shuffle(lst)
        fams.append((name, lst))
    return fams, space


# families that are always run completely (no wall-clock budget): (name, quick
# size of the seeded sub-sample of the non-core part; None = all)
def build_fixed(ctx, tier):
    """jump-only control skeletons, constants at the type boundaries, repeated
    statements with different indentation.  The core part of each family is
    bounded-exhaustive and the same in both tiers and for every seed; the
    rest is the full enumeration (thorough) or a ctx.rng sub-sample (quick)."""
    def sub(lst, q):
        if tier != 'quick' or q >= len(lst):
            return list(lst)
        return [lst[i] for i in sorted(ctx.rng.sample(range(len(lst)), q))]
    exh, mix = c06gen.jump_skeletons()
    allctx, assign = c06gen.const_boundaries()
    ext = ('-32768', '32767', '-2147483648', '2147483647', '-max', 'max')
    core = [c for c in allctx if c['cls'].split('/')[0] == 'un' and c['cls'].split('/')[1] in ('-', '+', 'NOT')
            and c['cls'].split('/')[3] in ext]
    corekeys = set(c['cls'] for c in core)
    rest = [c for c in allctx if c['cls'] not in corekeys]
    ind = c06gen.indent_positions()
    fams = [('jumps', exh + sub(mix, 120)),
            ('constbound', core + sub(rest, 200) + sub(assign, 50)),
            ('indent-pos', ind)]
    ctx.extra['fixed_space'] = {'jumps': len(exh) + len(mix), 'constbound': len(allctx) + len(assign),
                                'indent-pos': len(ind)}
    ctx.rule.append(
        f'fixed families (never cut by the budget; six configurations each): jumps = every map of n<=3 '
        f'labels/line numbers to GOTO targets in 4 layouts + cycles of length 4..6 ({len(exh)}, all) and '
        f'every assignment of GOTO/GOSUB/IF..GOTO/IF..THEN n/IF..ELSE/ON..GOTO/RETURN [label]/real statement/END '
        f'to n<=3 nodes ({len(mix)}; quick: 120 by ctx.rng); constbound = typed constant expressions '
        f'(literal op literal) at/next to the limits of INTEGER, LONG, SINGLE, DOUBLE under every unary operator '
        f'(and pairs), every binary operator x boundary operand pairs, mixed types, in 8 contexts (assignment '
        f'to SINGLE/INTEGER/LONG, DIM bound, CONST, array index, PRINT, operand of a variable '
        f'expression) ({len(allctx)} + {len(assign)} assignment-only; quick: core {len(core)} = -,+,NOT on the '
        f'extreme values in every context, + 200 + 50 by ctx.rng); indent-pos = {len(ind)} texts with the same '
        f'statement twice, differently indented, accepted first and rejected at the end of the text (also with '
        f'the accepted occurrence in a text compiled before in the same process): the diagnostic has to be '
        f'inside the text and on the line of the rejected occurrence')
    return fams


def run_stream(ctx, fams, budget):
    t0 = time.time()
    truncated = {}
    first = {}       # signature -> first failing case
    skip = json.loads(os.environ.get('C06_SKIP', '{}'))   # soak only: resume after an interruption
    # small batches in the quick tier: a budget cut on a slow host then still
    # leaves every family represented
    BATCH = (10 if ctx.tier == 'quick' else 25) * PAR
    log = open(os.environ['C06_LOG'], 'a') if os.environ.get('C06_LOG') else None
    # round-robin over the families so that a budget cut keeps every family represented
    pos = {name: int(skip.get(name, 0)) for name, _ in fams}
    live = True
    while live:
        live = False
        for name, lst in fams:
            i = pos[name]
            if i >= len(lst):
                continue
            if time.time() - t0 > budget:
                truncated[name] = len(lst) - i
                pos[name] = len(lst)
                continue
            live = True
            chunk = lst[i:i + BATCH]
            pos[name] = i + len(chunk)
            res = run_check([c['src'] for c in chunk], full=True, fam=name,
                            warm=[c.get('warm') for c in chunk])
            nrun = 0
            keys = set()
            for c, r in zip(chunk, res):
                keys.add(c['cls'])
                if isinstance(r, dict) and 'res' in r:
                    nrun += len(r['res'])
                    ctx.bump(f'{name}/parsed' if r.get('parsed') else f'{name}/parse-stage-reject')
                    for lv, dbg, v in r['res']:
                        ctx.bump('verdict/' + v[0])
                else:
                    nrun += 1
                for sig, lv, dbg, v in signatures(c, r):
                    d = {'suite': name, 'fam': c['fam'], 'class': c['cls'], 'src': c['src'],
                         'level': lv, 'debug': dbg, 'verdict': v}
                    if c.get('warm'):
                        d['warm'] = c['warm']
                    if c.get('errline') is not None:
                        d['errline'] = c['errline']
                    st = ctx.report(sig, d, True)
                    if st == 'violation':
                        first.setdefault(sig, c)
                    if log:
                        log.write(json.dumps({'sig': sig, 'status': st, **d}) + '\n')
            ctx.count(name, nrun, keys)
            if log:
                log.write(json.dumps({'progress': name, 'done': pos[name], 'of': len(lst),
                                      't': round(time.time() - t0)}) + '\n')
                log.flush()
            ctx.bump(f'inputs/{name}', len(chunk))
            if chunk:
                ctx.sample({'suite': name, 'case': chunk[len(chunk) // 2]['src'][-300:]})
    return truncated, first


def replay_known(ctx):
    """DESIGN 2.1 step 6: every known finding's witness is run again"""
    fs = [f for f in ctx.findings if f.get('status') == 'open' and f.get('witness', {}).get('src') is not None]
    res = run_check([f['witness']['src'] for f in fs])
    n = 0
    for f, r in zip(fs, res):
        c = {'fam': 'known-witness', 'cls': f['id'], 'src': f['witness']['src'],
             'form': f['witness'].get('form')}
        for sig, lv, dbg, v in signatures(c, r):
            ctx.report(sig, {'suite': 'known-witness', 'class': f['id'], 'src': c['src'],
                             'level': lv, 'debug': dbg, 'verdict': v}, True)
        n += len(r.get('res', [1])) if isinstance(r, dict) else 1
    ctx.count('known-witness', n, set(f['id'] for f in fs))


def main(tier, seed):
    ctx = Ctx(PROP, tier, seed, 'proof')
    ctx.trusted_base = [
        'Coq 8.16.1 kernel (coqc, full .vo build; vm_compute only in the Examples)',
        'no axioms: every theorem prints "Closed under the global context"',
        'extraction: ExtrOcamlBasic only; Z, positive, nat kept inductive',
        'unverified glue: ocaml/driver.ml, tools/vlib, tools/props/c06.py, tools/props/c06gen.py, '
        'tools/implfns/totalfn.py (per-input CPU-time limit by SIGPROF, classification of escaping '
        'exceptions by innermost /repo frame)',
        'modelled not verified (Models/Tokens.v): qbee/grammar.py parse_left_assoc_binary_expr, '
        'parse_right_assoc_binary_expr; qbee/utils.py convert_index_to_line_col, the target-line '
        'search of display_with_context',
        'NOT modelled, search only: pyparsing on arbitrary strings and every other parse action, '
        'parser.py, stmt.py, compiler.py passes, expr.py folding, qvm_codegen.py incl. optimize, '
        'assembled, __bytes__, __str__.  Oracle there: only SyntaxError/CompileError with '
        '0 <= loc_start <= len(text) that display_with_context can show may escape compile(); '
        'bytes(code) and str(code) succeed on accepted texts; CPU-time limit per configuration',
    ]
    if not os.environ.get('C06_SOAK'):     # (soaking the stream needs no rebuild)
        ctx.prove()
        exe = ctx.model('Tokens')
        tfn_suites(ctx, exe, tier)

    corpus = [c for c in vlib.run_impl('corpus.load', [None])[0] if 'src' in c]
    fams, space = build_stream(ctx, tier, corpus)
    budget = float(os.environ.get('C06_BUDGET', 170 if tier == 'quick' else 1100))
    replay_known(ctx)
    fixed = build_fixed(ctx, tier)
    _, first0 = run_stream(ctx, fixed, float('inf'))
    truncated, first = run_stream(ctx, fams, budget)
    first = {**first, **first0}
    ctx.extra['fixed_planned'] = {n: len(l) for n, l in fixed}
    ctx.extra['stream_space'] = space
    ctx.extra['stream_planned'] = {n: len(l) for n, l in fams}
    ctx.extra['stream_not_run_budget'] = truncated
    ctx.extra['search_budget_s'] = budget
    ctx.rule.append(
        'search: deterministic malformed stream (tools/props/c06gen.py): (1) every statement form '
        '(~150 incl. every builtin function) valid / bare / each operand missing, duplicated, replaced '
        'by 37 wrong operands; every token of every form deleted, duplicated, swapped; (2) every block '
        'keyword line alone, in every ordered pair (lines and colon-separated), triples (thorough, '
        'sampled), every valid block with a line deleted/duplicated/swapped/inserted; (3) single token '
        'mutations (delete, duplicate, swap, replace by another token of the file) of the 329 corpus '
        'programs; (4) seeded grammar-directed programs with random type errors; (5) expressions: '
        'operators x operand kinds, unary after every operator, nesting to depth 40, long lines, '
        'literals at type limits, folding overflows, non-cp437 characters, RESTORE/labels, 0..6 '
        'arguments.  One seeded permutation per family; quick = prefix of thorough; a wall-clock '
        'budget may cut the tail (recorded in stream_not_run_budget).')
    ctx.rule.append(
        'configurations: every text is compiled at -O0 without -g first; when nothing failed inside '
        'parse_string / tree.bind / Pass1-3 (the steps of Compiler.compile that never read the level '
        'or the debug flag) the other five configurations (levels 0,1,2 x debug off/on) follow, each '
        'with bytes(code) and str(code); a text that fails in those front steps is run once (its '
        'outcome is the same in all six configurations). evaluations = compile runs; non-trivial = '
        'distinct (family, construct class). A signature is <what escaped>@<construct the input was '
        'generated from>, so a known finding covers its failure only in the constructs where it is '
        'known.')
    # minimal witness for every new failure class
    for sig, c in ([] if os.environ.get('C06_NOSHRINK') else list(first.items())[:8]):
        try:
            small = shrink(c['src'], sig)
        except Exception as e:  # noqa
            small = None
        for v in ctx.violations:
            if v['signature'] == sig:
                v['detail']['shrunk_src'] = small
                break
    seen = {}
    for v in ctx.violations:
        seen[v['signature']] = seen.get(v['signature'], 0) + 1
    for sig, n in sorted(seen.items()):
        print(f'  unlisted failure class: {sig}  x{n}')
    return ctx.finish(
        'Theorems cover the two arity-assuming parse actions and the diagnostic position '
        'arithmetic only; everything else of C06 is a search with a direct oracle. Every internal '
        'exception found on the unchanged tree is a known finding with its own signature.')


def replay(path):
    d = json.load(open(path))
    first = d.get('first') or {}
    src = first.get('shrunk_src') or first.get('src')
    print(json.dumps({k: d.get(k) for k in ('property', 'signature', 'count', 'tier', 'seed',
                                             'no_longer_checks')}, indent=1))
    if src is None:
        print(json.dumps(d, indent=1)[:3000])
        return 0
    print('--- input ---')
    print(src)
    print('--- outcome ---')
    r = run_check([src])[0]
    hit = False
    for sig, lv, dbg, v in signatures({'fam': 'replay'}, r):
        print(f'-O{lv}{" -g" if dbg else ""}: {sig}   {v[-1] if v[0] == "exc" else ""}')
        hit = hit or sig.split('@')[0] == (d.get('signature') or '').split('@')[0]
    print('reproduced' if hit else 'not reproduced')
    return 1 if hit else 0
