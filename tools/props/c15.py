"""C15 - DATA items are read in source order and RESTORE repositions exactly.
Theorems: coq/Props/C15.v (proofs in coq/Proofs/DataProofs.v).
Models of the code: coq/Models/DataText.v (parse_data, data_stmt), DataDev.v
(DataDevice, DATA grouping, RESTORE index).  Specification: DataSpec.v.
Correspondence (every case: implementation vs model = tie, implementation vs
specification = the property):
  A  real parse_data, real grammar rule data_stmt and the real line rule on all
     texts over {a 1 blank , " :} up to a length
  B  real DataDevice on all READ/RESTORE sequences of a length over 3-part data
  C  programs (real compiler, 3 levels x debug, real machine) with DATA
     statements and labels in all orders, judged by spec_prog"""
import itertools
import json
import struct
import time
import zlib

import vlib
from vlib import Ctx, l2s, s2l

PROP = 'C15'
ALPHA = 'a1 ,":'


LONG = 4 * 3600      # worker timeout: the sandbox is shared, a loaded machine is 10x slower


def par_for(n):
    """a worker's start-up (building the pyparsing grammar) costs ~5 CPU-seconds"""
    return 8 if n < 3000 else 16


def bf(b):
    return struct.unpack('>d', struct.pack('>Q', b))[0]


def worker_failed(ctx, suite, raw):
    if isinstance(raw, dict) and raw.get('harness'):
        ctx.broken.append(f'correspondence {suite}: implementation worker failed: '
                          f'{raw.get("stderr", "")[-300:]}')
        return True
    return False


# ---------------------------------------------------------------------------
# suite A: texts

def all_texts(maxlen):
    for n in range(0, maxlen + 1):
        for t in itertools.product(ALPHA, repeat=n):
            yield ''.join(t)


def text_kind(t):
    k = [n for c, n in (('"', 'quote'), (',', 'comma'), (':', 'colon'), (' ', 'blank')) if c in t]
    return '+'.join(k) or 'plain'


def show_items(x):
    if x is None or x == [0]:
        return 'syntax-error'
    if x[0] != 1:
        return x
    return ['Empty' if i == [0] else l2s(i[1]) for i in x[1]]


def show_str(x):
    return None if x is None else l2s(x)


def effective(ds):
    """[items?, rest] of the rule data_stmt -> what it means for the line: a rest that
    starts with a quote cannot be continued by any statement = syntax error"""
    if ds[0] == [0] or (ds[1] and ds[1][0] == 34):
        return [[0], None]
    return [ds[0], ds[1]]


def suite_texts(ctx, exe, texts, suite, line_maxlen=99):
    raws = vlib.run_impl('datafn.text', [[t, len(t) <= line_maxlen] for t in texts],
                         par=par_for(len(texts)), timeout=LONG)
    mouts = vlib.run_model(exe, [[1, t] for t in texts], timeout=LONG)
    nkeys = set()
    for t, raw, mo in zip(texts, raws, mouts):
        if worker_failed(ctx, suite, raw):
            break
        if isinstance(mo, str):
            ctx.broken.append(f'correspondence {suite}: model driver failed ({mo}) on {t!r}')
            break
        if 'exc' in raw:
            ctx.report(f'C15/text-host-exception({raw["exc"]},{raw.get("where")})',
                       {'suite': suite, 'text': t, 'impl': raw}, True)
            continue
        m_pd, m_ds, sp = mo
        sp_items, sp_rest, sp_iq, sp_lone = sp
        cls = ('quote-inside-unquoted-item' if sp_iq else
               'lone-opening-quote' if sp_lone else 'other')
        ctx.bump('text:' + text_kind(t))
        if sp_items == [0]:
            ctx.bump('text-spec:rejected')
        if sp_rest:
            ctx.bump('text-spec:ends-at-colon')
        nkeys.add(json.dumps(sp))          # distinct specification outcomes
        s_eff = [sp_items, sp_rest] if sp_items != [0] else [[0], None]

        # (1) parse_data itself; the model IS the specification (theorem C15_data_items_spec)
        if raw['pd'] != m_pd:
            ctx.report('C15/parse_data-differs', {'suite': suite, 'text': t, 'source': 'DATA ' + t,
                                                 'impl': show_items(raw['pd']),
                                                 'spec': show_items(m_pd)}, True)

        # (2) the grammar rule data_stmt: tie (raw), property (effective)
        ds = raw['ds']
        i_raw = [ds[1], ds[2]] if ds[0] == 'ok' else [[0], None] if ds[0] == 'syntax' else [ds, None]
        m_raw = None if m_ds == [9] else ([[0], None] if m_ds[0] == [0] else list(m_ds))
        i_eff = effective(i_raw)
        differs_spec = (i_eff != s_eff)
        if m_raw is not None and i_raw != m_raw:
            ctx.report('C15/data_stmt-model-differs',
                       {'suite': suite, 'text': t, 'source': 'DATA ' + t,
                        'impl': [show_items(i_raw[0]), show_str(i_raw[1])],
                        'model': [show_items(m_raw[0]), show_str(m_raw[1])]},
                       differs_spec and cls == 'other')
        if differs_spec:
            ctx.bump('text-data_stmt-differs-from-spec:' + cls)
            ctx.report(f'C15/data_stmt-differs-from-spec({cls})',
                       {'suite': suite, 'text': t, 'source': 'DATA ' + t,
                        'impl': [show_items(i_eff[0]), show_str(i_eff[1])],
                        'spec': [show_items(s_eff[0]), show_str(s_eff[1])]}, True)

        # (3) the whole line
        if 'line' not in raw:
            continue
        ctx.bump('text-line-rule-run')
        ln = raw['line']
        i_ln = ['ok', ln[2]] if ln[0] == 'ok' else ['syntax']
        if m_raw is not None:
            # model prediction where the rest of the line is not another statement
            if m_raw[0] == [0]:
                pred = ['syntax']
            elif m_raw[1] == []:
                pred = ['ok', m_raw[0]]
            elif m_raw[1][0] == 34:
                pred = ['syntax']
            elif i_ln[0] == 'ok':
                pred = ['ok', m_raw[0]]
            else:
                pred = None
                ctx.bump('text-line:rest-is-no-statement')
            if pred is not None and pred != i_ln:
                ctx.report('C15/line-model-differs', {'suite': suite, 'text': t, 'source': 'DATA ' + t,
                                                     'impl': ln, 'model': pred}, False)
        # the specification for the line: decidable when the statement is the whole line,
        # or when the line was accepted
        if sp_rest == []:
            want = ['syntax'] if sp_items == [0] else ['ok', sp_items]
        elif i_ln[0] == 'ok':
            want = ['ok', sp_items] if sp_items != [0] else ['syntax']
        else:
            want = None
        if want is not None and want != i_ln:
            ctx.report(f'C15/line-differs-from-spec({cls})',
                       {'suite': suite, 'text': t, 'source': 'DATA ' + t,
                        'impl': [i_ln[0]] + [show_items(x) for x in i_ln[1:]],
                        'spec': [want[0]] + [show_items(x) for x in want[1:]]}, True)
    ctx.count(suite, len(texts), [('t', k) for k in nkeys])
    shown = [t for t in texts[len(texts) // 2::97] if text_kind(t).count('+') >= 2][:2]
    for t in shown or texts[:1]:
        ctx.sample({'suite': suite, 'case': 'DATA ' + t})


# ---------------------------------------------------------------------------
# suite B: the device

E = [0]


def I(s):
    return [1, s]


DATASETS = {
    # numeric / empty / text / out-of-range items
    'S1': [[I('12'), E], [I('x')], [I('40000'), I('2.5'), I('')]],
    'S2': [[I(' 7 '), I('3000000000')], [I('1e39'), E], [I('nan')]],
    'S3': [[I('inf'), I('1_0'), I('-0.0')], [I('1e-50'), I('1d5'), I('0x10')], [I('.5')]],
    'S6': [[I('1'), I('2')]],                   # one part: RESTORE -1, then wrap-around
    # not producible by the compiler (model tie only)
    'S4': [[I('1')], [], [I('2')]],
    'S5': [],
}
OPS = [[1, 1], [1, 2], [1, 3], [1, 4], [1, 5], [2, -1], [2, 0], [2, 1], [2, 2]]
OPS_MAL = OPS + [[1, 0], [1, 6], [2, 3], [2, -3], [2, -4]]


def enc_parts(parts):
    return [[x if x == E else [1, x[1]] for x in p] for p in parts]


def suite_device(ctx, exe, plan):
    """plan: list of (suite, data set name, sequences)"""
    cases, owners = [], []
    for suite, name, seqs in plan:
        nb = max(1, min(32, len(seqs) // 500))
        for i in range(nb):
            b = seqs[i::nb]
            cases.append({'parts': [[x if x == E else [1, s2l(x[1])] for x in p]
                                    for p in DATASETS[name]], 'cur': [0, 0], 'seqs': b})
            owners.append((suite, name, b))
    total = sum(len(b) for _, _, b in owners)
    raws = vlib.run_impl('datafn.device', cases, par=par_for(total // 20), timeout=LONG)
    flat = []
    for (suite, name, b), r in zip(owners, raws):
        if worker_failed(ctx, suite, r):
            return
        if isinstance(r, dict):
            ctx.report(f'C15/device-host-exception({r.get("exc")},{r.get("where")})',
                       {'suite': suite, 'data': name, 'impl': r}, True)
            continue
        flat += [(suite, name, s, x) for s, x in zip(b, r)]
    mouts = vlib.run_model(exe, [[4, enc_parts(DATASETS[name]), [0, 0], s] for _, name, s, _ in flat],
                           timeout=LONG)
    keys = {}
    counts = {}
    for (suite, name, seq, raw), mo in zip(flat, mouts):
        if isinstance(mo, str):
            ctx.broken.append(f'correspondence {suite}/{name}: model driver failed ({mo})')
            break
        for r in raw[0]:
            ctx.bump('device-result:' + ('value' if r[0] == 0 else 'device-error-%s' % r[1]
                                         if r[0] == 1 else 'invalid-cell' if r[0] == 2
                                         else 'assert' if r[0] == 3 else str(r[0])))
        keys.setdefault(suite, set()).add((name, json.dumps(raw)))
        counts[suite] = counts.get(suite, 0) + 1
        if raw != mo:
            found = device_vs_spec(exe, DATASETS[name], seq, raw)
            ctx.report(f'C15/device-differs({name})',
                       {'suite': suite, 'data': name, 'parts': DATASETS[name], 'ops': seq,
                        'impl': raw, 'model': mo}, found)
    for suite in counts:
        ctx.count(suite, counts[suite], keys[suite])
    if flat:
        s = flat[len(flat) // 3]
        ctx.sample({'suite': s[0], 'data': s[1], 'parts': DATASETS[s[1]],
                    'ops (1 ty = READ, 2 i = RESTORE)': s[2]})


def device_vs_spec(exe, parts, seq, raw):
    """does the device's behaviour contradict the specification?  Only decidable for
    non-empty parts, legal part indices and type ids (RESTORE p = RESTORE <label of part p>)."""
    if not parts or any(not p for p in parts):
        return False
    if any((o[0] == 2 and not (0 <= o[1] < len(parts))) or (o[0] == 1 and not 1 <= o[1] <= 5)
           for o in seq):
        return False
    evs = []
    for i, p in enumerate(parts):
        if i:
            evs.append([0, 'l%d' % i])
        evs.append([1, enc_parts([p])[0]])
    ops = [[0, o[1]] if o[0] == 1 else ([1] if o[1] == 0 else [1, 'l%d' % o[1]]) for o in seq]
    mo = vlib.run_model(exe, [[5, evs, ops]])[0]
    if isinstance(mo, str) or mo[1][0] != 0:
        return False
    want = mo[1][1]
    got = []
    for r in raw[0]:
        if r[0] != 0:
            break
        got.append(r[1])
    return got != want


# ---------------------------------------------------------------------------
# suite C: programs

DATA_SRC = ['DATA 11, 12', 'DATA 21', 'DATA 31,,"3,c"', ' DATA x4 , 42 ']
DATA_ITEMS = [[I('11'), I('12')], [I('21')], [I('31'), E, I('3,c')], [I('x4'), I('42')]]
LNAMES = ['la', 'lb', 'lc']
SUFFIX = {1: '%', 2: '&', 3: '!', 4: '#', 5: '$'}
CONFIGS = [(lv, dbg) for lv in (0, 1, 2) for dbg in (False, True)]
STYLES = ['own', 'same', 'num']
POSS = ['top', 'bottom', 'split']


def layouts(maxd, maxl):
    """all arrangements of n DATA statements (in their order) and m labels, each label
    either at module level (L) or inside a SUB (S)"""
    out = []
    for n in range(1, maxd + 1):
        for m in range(0, maxl + 1):
            for pos in itertools.combinations(range(n + m), m):
                for kinds in itertools.product('LS', repeat=m):
                    lay, d, l = [], 0, 0
                    for i in range(n + m):
                        if i in pos:
                            lay.append((kinds[l], LNAMES[l]))
                            l += 1
                        else:
                            lay.append(('D', d))
                            d += 1
                    out.append(lay)
    return out


def scripts_for(lay):
    n_items = sum(len(DATA_ITEMS[e[1]]) for e in lay if e[0] == 'D')
    labels = [e[1] for e in lay if e[0] == 'L']
    sublabels = [e[1] for e in lay if e[0] == 'S']

    def rs(k):
        return [('R', 5)] * k

    def cyc(k, s=0):
        return [('R', (i + s) % 5 + 1) for i in range(k)]
    out = [('all-str', rs(n_items + 1)),
           ('all-cycle', cyc(n_items)),
           ('bare-mid', rs(2) + [('X', None)] + rs(n_items)),
           ('bare-first', [('X', None)] + cyc(n_items + 1, 4))]
    for l in labels:
        out.append(('label-' + l, rs(1) + [('X', l)] + rs(n_items + 1)))
    for l1 in labels:
        for l2 in labels:
            if l1 != l2:
                out.append((f'labels-{l2}-{l1}', [('X', l2)] + rs(1) + [('X', l1)] + cyc(2, 4)))
    if sublabels:
        out.append(('sub-label', [('X', sublabels[0])] + rs(1)))
    out.append(('undefined', rs(1) + [('X', 'lq')]))
    return out


def render(lay, script, codepos, style, plain_sub, single_reads=False):
    """QBASIC text.  Every READ goes to a variable of its own (v<k><type suffix>); consecutive
    READs form one READ statement unless single_reads; one PRINT of all variables at the end.  style: 'own' label on its own line, 'same' label on the line of the
    following DATA, 'num' line numbers instead of labels"""
    num = {n: str(100 + 10 * i) for i, n in enumerate(LNAMES + ['lq'])}
    lab = (lambda n: num[n]) if style == 'num' else (lambda n: n)
    blocks = []          # one list of lines per event
    pend = None
    for e in lay:
        head = None if e[0] == 'D' else lab(e[1]) + ('' if style == 'num' else ':')
        if e[0] == 'D':
            line = DATA_SRC[e[1]]
            if pend is not None:
                line = pend + ' ' + line.strip()
                pend = None
            blocks.append([line])
            continue
        if pend is not None:
            blocks.append([pend])
            pend = None
        if e[0] == 'L':
            if style == 'own':
                blocks.append([head])
            else:
                pend = head
        else:
            blocks.append(['SUB s%s%d' % (e[1], len(blocks)), head, 'END SUB'])
    if pend is not None:
        blocks.append([pend])
    code = []
    names = []
    run = []             # variables of the READ statement being built
    for o in script:
        if o[0] == 'R':
            v = 'v%d%s' % (len(names) + 1, SUFFIX[o[1]])
            names.append(v)
            run.append(v)
            if single_reads:
                code.append('READ ' + v)
                run = []
        else:
            if run:
                code.append('READ ' + ', '.join(run))
                run = []
            code.append('RESTORE' if o[1] is None else 'RESTORE ' + lab(o[1]))
    if run:
        code.append('READ ' + ', '.join(run))
    if names:
        code.append('PRINT ' + '; '.join(names))
    if plain_sub:
        k = len(blocks) // 2
        blocks = blocks[:k] + [['SUB sp', 'END SUB']] + blocks[k:]
    if codepos == 'top':
        blocks = [code] + blocks
    elif codepos == 'bottom':
        blocks = blocks + [code]
    else:
        k = (len(blocks) + 1) // 2
        blocks = blocks[:k] + [code] + blocks[k:]
    return '\n'.join(l for b in blocks for l in b) + '\n'


def model_evs(lay):
    out = []
    for e in lay:
        if e[0] == 'D':
            out.append([1, enc_parts([DATA_ITEMS[e[1]]])[0]])
        elif e[0] == 'L':
            out.append([0, e[1]])
        else:
            out.append([2, e[1]])
    return out


def model_ops(script):
    return [[0, o[1]] if o[0] == 'R' else ([1] if o[1] is None else [1, o[1]]) for o in script]


def expected_piece(cell):
    """text PRINT v; puts for a value (None: not a small integer, not checked)"""
    t, v = cell[0], cell[1]
    if t in (1, 2):
        z = v
    elif t in (3, 4):
        f = bf(v)
        if f != f or f in (float('inf'), float('-inf')) or f != int(f) or abs(f) > 1e6:
            return None
        z = int(f)
    elif t == 5:
        return l2s(v)
    else:
        return None
    return (' ' if z >= 0 else '') + str(z) + ' '


def prints_ok(raw):
    """the single PRINT at the end shows the values read, in order; nothing is printed
    when the run stopped at a trap"""
    got = [l2s(p) for p in raw['prints']]
    if raw['outcome'][1] is not None or not raw['reads']:
        return got == []
    pieces = [expected_piece(x) for x in raw['reads']]
    if len(got) != 1:
        return False
    if any(x is None for x in pieces):
        return True
    return got[0] == ''.join(pieces) + '\r\n'


def norm_prog(raw):
    """-> (faithful form comparable with sx_pres, abstract form comparable with sx_sres)"""
    if 'compile_error' in raw:
        k = {'DUPLICATE_LABEL': 1, 'LABEL_NOT_DEFINED': 2}.get(raw['compile_error'])
        if k:
            return [1, k], [1]
        return ['compile_error', raw['compile_error']], None
    if 'syntax_error' in raw:
        return ['syntax_error'], None
    if 'exc' in raw:
        if raw['exc'] == 'ValueError' and (raw.get('where') or '').endswith('get_data_label_index'):
            return [1, 3], None
        return ['exc', raw['exc'], raw.get('where')], None
    reads = raw['reads']
    hr, trap = raw['outcome']
    if raw['status'] != 'halt':
        return ['no-halt'], None
    if trap is None:
        end, aend = [0], 0
    elif trap == 'DEVICE_ERROR':
        end, aend = [1, [1, raw.get('error_code')]], 1
    elif trap == 'INVALID_CELL_VALUE':
        end, aend = [1, [2]], 1
    else:
        return ['trap', trap], None
    return [0, reads, end], [0, reads, aend]


def abs_pres(p):
    """sx_pres -> sx_sres form (DataSpec.abstract_pres)"""
    if p[0] == 1:
        return [1] if p[1] in (1, 2) else None
    end = p[2]
    if end == [0]:
        return [0, p[1], 0]
    if end[1][0] in (1, 2):
        return [0, p[1], 1]
    return None


def suite_programs(ctx, exe, cases, suite):
    raws = vlib.run_impl('datafn.program', [{'src': c['src'], 'level': c['level'],
                                             'debug': c['debug']} for c in cases],
                         par=par_for(len(cases) * 10), timeout=LONG)
    # one model job per distinct (layout, script)
    jobs = {}
    for c in cases:
        k = json.dumps([c['evs'], c['ops']])
        if k not in jobs:
            jobs[k] = [5, c['evs'], c['ops']]
    keys = list(jobs)
    mres = dict(zip(keys, vlib.run_model(exe, [jobs[k] for k in keys])))
    nont = set()
    for c, raw in zip(cases, raws):
        if worker_failed(ctx, suite, raw):
            break
        mo = mres[json.dumps([c['evs'], c['ops']])]
        if isinstance(mo, str):
            ctx.broken.append(f'correspondence {suite}: model driver failed ({mo})')
            break
        m_model, m_spec, m_fixed, m_parts = mo
        m_model = m_fixed      # /repo carries the fix commit for D11 (bare RESTORE pushes part 0)
        faithful, abstract = norm_prog(raw)
        cfg = f"-O{c['level']}{' -g' if c['debug'] else ''}"
        detail = {'suite': suite, 'source': c['src'], 'config': cfg, 'layout': c['lay'],
                  'script': c['script'], 'impl': faithful, 'model': m_model, 'spec': m_spec,
                  'level': c['level'], 'debug': c['debug'], 'evs': c['evs'], 'ops': c['ops']}
        nont.add(json.dumps([c['evs'], c['ops']]))
        ctx.bump('program-config:' + cfg)
        ctx.bump('program-spec:' + ('invalid' if m_spec == [1] else
                                    'runs-to-end' if m_spec[2] == 0 else 'runtime-error'))
        if 'reads' in raw:
            # printed values follow the values read; the data section is the model's
            if not prints_ok(raw) or raw['others'] or \
                    (raw['outcome'][1] is None and raw['stack'] != 0):
                ctx.report('C15/program-prints-differ-from-values-read',
                           dict(detail, prints=[l2s(p) for p in raw['prints']],
                                others=raw['others'], stack=raw['stack']), True)
            if raw['data'] != m_parts:
                ctx.report('C15/data-section-model-differs',
                           dict(detail, impl_data=raw['data'], model_data=m_parts), False)
        tie_ok = (faithful == m_model)
        spec_ok = (abstract == m_spec)
        if spec_ok:
            if not tie_ok:
                ctx.report('C15/program-model-differs', detail, False)
            continue
        # the implementation contradicts the specification: which failure class?
        has_bare = [1] in c['ops']
        nparts = len(m_parts)
        if tie_ok and m_model == [1, 3]:
            sig = 'C15/restore-label-without-own-data(ValueError,get_data_label_index)'
        elif tie_ok and has_bare and abs_pres(m_fixed) == m_spec:
            # the faithful model predicts the behaviour and the one-token repair removes it
            sig = ('C15/bare-restore(goes-to-last-part)' if nparts > 1
                   else 'C15/bare-restore(wraps-after-last-item)')
        else:
            sig = 'C15/program-differs-from-spec' + ('' if tie_ok else '(unmodelled)')
        ctx.bump('program-differs-from-spec:' + sig[4:])
        ctx.report(sig, detail, True)
    ctx.count(suite, len(cases), [('p', k) for k in nont])
    if cases:
        c = cases[len(cases) // 2]
        ctx.sample({'suite': suite, 'case': c['src'],
                    'config': f"-O{c['level']}{' -g' if c['debug'] else ''}"})


def build_programs(tier):
    quick = tier == 'quick'
    lays = layouts(3, 2) if quick else layouts(4, 3)
    quick_set = set(json.dumps(l) for l in layouts(3, 2))
    cases = []

    def add(lay, sname, script, lv, dbg, style, pos, ps, single=False):
        cases.append(dict(lay=lay, script=sname, level=lv, debug=dbg, evs=model_evs(lay),
                          ops=model_ops(script), src=render(lay, script, pos, style, ps, single)))
    for lay in lays:
        in_quick = json.dumps(lay) in quick_set
        for sname, script in scripts_for(lay):
            # the text variant and the two configurations of the quick tier rotate with a
            # stable hash of (layout, script), so that quick is a subset of thorough
            h = zlib.crc32(json.dumps([lay, sname]).encode())
            style, pos, ps = STYLES[h % 3], POSS[(h // 3) % 3], (h // 9) % 4 == 0
            single = (h // 1296) % 4 == 0
            two = [CONFIGS[(h // 36) % 6], CONFIGS[((h // 36) + 3 + (h // 216) % 2) % 6]]
            cfgs = two[:1] if (quick or not in_quick) else CONFIGS
            for (lv, dbg) in cfgs:
                add(lay, sname, script, lv, dbg, style, pos, ps, single)
            if not quick and in_quick and (sname in ('all-cycle', 'bare-mid') or sname.startswith('label-')):
                # every label style x code position, level 0
                for st in STYLES:
                    for po in POSS:
                        if (st, po) != (style, pos):
                            add(lay, sname, script, 0, False, st, po, False)
    # duplicate labels (must be rejected)
    for lay in ([('L', 'la'), ('D', 0), ('L', 'la'), ('D', 1)],
                [('L', 'la'), ('D', 0), ('S', 'la'), ('D', 1)],
                [('S', 'la'), ('S', 'la'), ('D', 0)]):
        for (lv, dbg) in (CONFIGS[:2] if quick else CONFIGS):
            script = [('R', 5), ('X', 'la'), ('R', 5)]
            add(lay, 'dup-label', script, lv, dbg, 'own', 'top', False)
    return lays, cases


# ---------------------------------------------------------------------------

def main(tier, seed):
    ctx = Ctx(PROP, tier, seed, 'proof')
    ctx.trusted_base = [
        'Coq 8.16.1 kernel (coqc, full .vo build; vm_compute only in Examples and _refuted witnesses)',
        'no axioms: every theorem prints "Closed under the global context"',
        'extraction: ExtrOcamlBasic only; Z, positive kept inductive',
        'unverified glue: ocaml/driver.ml, tools/vlib, tools/props/c15.py (generators, program '
        'renderer, classifier), tools/implfns/datafn.py',
        'modelled not verified: qbee/utils.py parse_data, qbee/grammar.py data_stmt + parse action '
        '(one line, no TAB), qbee/compiler.py Pass1 label/DATA grouping + process_restore_pre, '
        'qbee/qvm_codegen.py init_code/get_data_label_index/gen_read_stmt/gen_restore_stmt, '
        'qvm/machine.py DataDevice; int()/float() by Models/NumFmt.v (validated separately)',
        'inside the correspondence only: the pyparsing grammar of labels/READ/RESTORE/SUB, '
        'section encoding (__bytes__/parse_data_section), PRINT of the values read',
        'specification (Models/DataSpec.v): item grammar, statement extent, flat item list + position',
    ]
    ctx.prove()
    exe = ctx.model('Data')
    quick = tier == 'quick'

    # ---- A: texts
    maxlen = 5 if quick else 7
    texts = list(all_texts(maxlen))
    ctx.rule.append(f'A: every text over the 6 characters {{a 1 blank , " :}} of length <= {maxlen} '
                    f'({len(texts)}), each through the real parse_data and the real data_stmt rule, '
                    f'those of length <= {4 if quick else 6} also through the real line rule; non-trivial = distinct specification outcome (items, rest, flags)')
    walls = ctx.extra.setdefault('suite_wall_s', {'build': round(time.time() - ctx.t0, 1)})
    t = time.time()
    suite_texts(ctx, exe, texts, 'texts', line_maxlen=4 if quick else 6)
    walls['texts'] = round(time.time() - t, 1)
    ctx.extra['exhaustive_suites'] = ['texts (all texts up to the length bound)', 'programs (all layouts up to the bounds)']

    # ---- B: device
    def seqs(alpha, n):
        return [list(s) for s in itertools.product(alpha, repeat=n)]
    mal = [s for n in range(1, 4) for s in seqs(OPS_MAL, n)
           if any(o in OPS_MAL[len(OPS):] for o in s)]
    if quick:
        plan = [('device', 'S1', seqs(OPS, 4))] + \
               [('device', n, seqs(OPS, 3)) for n in ('S6', 'S2', 'S3', 'S4')]
        how = ('every sequence of exactly 4 operations on data set S1, of exactly 3 on S2,S3 (conversions), '
               'S4 (an empty part), S6 (one part)')
    else:
        def sample(n, k):
            return [[ctx.rng.choice(OPS) for _ in range(n)] for _ in range(k)]
        plan = [('device', 'S1', seqs(OPS, 5)), ('device', 'S1', sample(6, 100000))]
        for n in ('S6', 'S2', 'S3', 'S4'):
            plan += [('device', n, seqs(OPS, 4)), ('device', n, sample(6, 20000))]
        how = ('every sequence of exactly 5 operations on data set S1 and of exactly 4 on S2,S3 (conversions), '
               'S4 (an empty part), S6 (one part), plus seeded samples of length 6 (100000 on S1, 20000 on each other)')
    plan += [('device_malformed', 'S5', mal), ('device_malformed', 'S1', mal)]
    ctx.rule.append(f'B: operations READ type 1..5 / RESTORE -1,0,1,2: {how} (prefix-closed: every shorter '
                    f'sequence is a prefix); malformed stream: sequences of length 1..3 containing a type id 0/6 or a '
                    f'part index 3,-3,-4, on S1 and on a module without data; every operation is executed (also after '
                    f'a trap); non-trivial = distinct result trace per data set')
    t = time.time()
    suite_device(ctx, exe, plan)
    walls['device'] = round(time.time() - t, 1)

    # ---- C: programs
    lays, cases = build_programs(tier)
    how = (' (one of the six configurations per program, rotating)' if quick else
           ' (all six for the layouts of the quick tier, one rotating for the larger ones; for the '
           'quick-tier layouts also every label style x code position at level 0)')
    ctx.rule.append(f'C: {len(lays)} layouts = every arrangement of 1..{3 if quick else 4} DATA statements and '
                    f'0..{2 if quick else 3} labels (each at module level or inside a SUB), each with the scripts '
                    f'read-all (strings / cycling types), bare RESTORE (first, mid), RESTORE every label, every '
                    f'ordered label pair, sub-label and undefined target; label styles own-line/same-line/'
                    f'line-number, code before/after/between the DATA, plain SUB inserted, one READ statement per run of READs or per variable (rotating by a hash); one PRINT of all variables read at the end; '
                    f'+ 3 duplicate-label layouts; compiled at levels 0,1,2 x debug on/off{how}, '
                    f'run on the real machine; {len(cases)} runs; non-trivial = distinct (layout, script)')
    for c in cases:
        ctx.bump('program-layout-events:%d' % len(c['lay']))
    t = time.time()
    suite_programs(ctx, exe, cases, 'programs')
    walls['programs'] = round(time.time() - t, 1)
    return ctx.finish()


def replay(path):
    """re-runs the recorded input against the implementation, the model and the
    specification; exit 1 when the disagreement still reproduces"""
    d = json.load(open(path))
    first = d.get('first') or {}
    print(json.dumps({k: v for k, v in d.items() if k != 'first'}, indent=1)[:3000])
    if 'source' in first:
        print('--- source ---')
        print(first['source'])
    suite = first.get('suite')
    if suite is None:
        print(json.dumps(first, indent=1)[:4000])
        return 0
    ctx = Ctx(PROP + 'replay', 'quick', 0, 'proof')
    ctx.findings = vlib.load_findings(PROP)
    exe = ctx.model('Data')
    if suite == 'texts':
        suite_texts(ctx, exe, [first['text']], suite)
    elif suite.startswith('device'):
        suite_device(ctx, exe, [(suite, first['data'], [first['ops']])])
    elif suite == 'programs':
        case = dict(lay=first['layout'], script=first['script'], level=first['level'],
                    debug=first['debug'], evs=first['evs'], ops=first['ops'], src=first['source'])
        suite_programs(ctx, exe, [case], suite)
    hits = [(v['signature'], v['detail']) for v in ctx.violations]
    hits += [('known:' + k, x) for k, v in ctx.known_hits.items() for x in v]
    for sig, det in hits:
        print('REPRODUCED', sig)
        print(json.dumps({k: det.get(k) for k in ('impl', 'model', 'spec', 'prints') if k in det})[:2000])
    if ctx.broken:
        print('harness:', ctx.broken)
    if not hits:
        print('not reproduced: implementation, model and specification agree on this input')
    return 1 if hits or ctx.broken else 0
