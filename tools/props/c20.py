"""C20 - compilation and execution are deterministic.

Theorems: coq/Props/C20.v (fuel independence of run, interleaving independence,
DEFtype letter-set order, label-set membership, DATA grouping, literal table).
The property itself - the IMPLEMENTATION is a function of (source, options) and
of (module, scripted inputs) - is established by a perturbed correspondence:
every target (program x level x debug) is observed once in a pristine
interpreter with hash seed 0 (the reference value) and then again under other
hash seeds, in processes with a compilation history (including failing
compilations and the same program at another level), in another working
directory, at another time, with two compilers alive, in a thread, with
machines run twice and interleaved tick by tick; every observation must equal
the reference, and the reference run must equal the extracted machine model
(about which C20_run_deterministic is proved) run on the same module."""
import ast
import concurrent.futures
import glob
import json
import os
import struct
import sys
import time

import vlib
from vlib import Ctx, isa
from props import c20gen

PROP = 'C20'
SCRATCH = '/tmp/c20/x'
CONFIGS = [(0, False), (0, True), (1, False), (1, True), (2, False), (2, True)]
OBS = 'sections 1-4 of bytes(code), str(code), debug-map statement offsets, run (stop, ticks, events, halt reason, trap, pc, stack)'


def fb(x):
    return struct.unpack('>Q', struct.pack('>d', float(x)))[0]


_T0 = time.time()


def run_env(fn, cases, hashseed='0', cwd=None, par=vlib.NPROC):
    """all cases of one environment through ONE interpreter (detfn.fanout forks
    `par` children, which fork again per case)"""
    if not cases:
        return []
    r = vlib.run_impl('detfn.fanout', [{'fn': fn, 'cases': cases, 'par': par}], hashseed=hashseed,
                      cwd=cwd, timeout=36000)[0]
    if not isinstance(r, list):
        return [{'harness': 'fanout-failed', 'stderr': str(r)[:500]}] * len(cases)
    return r


def log(msg):
    if os.environ.get('C20_VERBOSE'):
        t = os.times()
        print(f'[c20 {time.time() - _T0:7.1f}s wall, {t.children_user + t.children_system:7.1f}s child cpu] {msg}',
              file=sys.stderr, flush=True)


GEN_SCRIPT = {'lines': ['5', '7,8', 'abc'], 'rnd': [fb(0.25)] * 6, 'timer': [fb(1.5)] * 6,
              'inkey': ['a']}


# --------------------------------------------------------------------------
# comparison

def first_diff(ref, o):
    """(part, detail) of the first difference between two observations"""
    if ref.get('verdict') != o.get('verdict'):
        return 'verdict', {'a': ref.get('verdict'), 'b': o.get('verdict')}
    sa, sb = ref.get('sections') or {}, o.get('sections') or {}
    if sa.get('order') != sb.get('order'):
        return 'section-order', {'a': sa.get('order'), 'b': sb.get('order')}
    for sid in ('1', '2', '3', '4'):
        xa, xb = sa.get(sid), sb.get(sid)
        if xa != xb:
            ba, bb = bytes.fromhex(xa or ''), bytes.fromhex(xb or '')
            k = next((i for i, (p, q) in enumerate(zip(ba, bb)) if p != q), min(len(ba), len(bb)))
            return f'section{sid}', {'first_differing_byte': k, 'len_a': len(ba), 'len_b': len(bb),
                                     'a': ba[max(0, k - 8):k + 8].hex(), 'b': bb[max(0, k - 8):k + 8].hex()}
    if ref.get('listing') != o.get('listing'):
        la, lb = (ref.get('listing') or '').split('\n'), (o.get('listing') or '').split('\n')
        k = next((i for i, (p, q) in enumerate(zip(la, lb)) if p != q), min(len(la), len(lb)))
        return 'listing', {'first_differing_line': k, 'a': la[k:k + 1], 'b': lb[k:k + 1]}
    if ref.get('stmts') != o.get('stmts'):
        return 'debug-map', {'a': str(ref.get('stmts'))[:200], 'b': str(o.get('stmts'))[:200]}
    return run_diff(ref.get('run'), o.get('run'))


def run_diff(ra, rb):
    if ra == rb:
        return None, None
    ra, rb = ra or {}, rb or {}
    ea, eb = ra.get('events') or [], rb.get('events') or []
    if ea != eb:
        k = next((i for i, (p, q) in enumerate(zip(ea, eb)) if p != q), min(len(ea), len(eb)))
        return 'run-events', {'first_differing_event': k, 'a': ea[k:k + 1], 'b': eb[k:k + 1]}
    for f, name in (('ticks', 'run-ticks'), ('stop', 'run-outcome'), ('halted', 'run-outcome'),
                    ('reason', 'run-outcome'), ('trap', 'run-outcome'), ('pc', 'run-state'),
                    ('stack', 'run-state')):
        if ra.get(f) != rb.get(f):
            return name, {'field': f, 'a': ra.get(f), 'b': rb.get(f)}
    return 'run', {'a': str(ra)[:200], 'b': str(rb)[:200]}


def pub(t):
    return {k: t[k] for k in ('src', 'level', 'debug', 'script', 'max_ticks')}


class Suite:
    """book-keeping for one perturbation: answers vs the reference"""

    def __init__(self, ctx, refs, ref_env):
        self.ctx = ctx
        self.refs = refs           # target index -> reference observation
        self.ref_env = ref_env

    def judge(self, suite, envkind, ti, t, ans, env_b):
        """ans: worker answer for target t under environment env_b"""
        ctx = self.ctx
        if isinstance(ans, dict) and ans.get('harness'):
            ctx.broken.append(f'correspondence {suite}: worker failed: {str(ans.get("stderr"))[-300:]}')
            return False
        if isinstance(ans, dict) and ans.get('exc') and 'verdict' not in ans:
            ctx.broken.append(f'correspondence {suite}: harness exception {ans}')
            return False
        if ans.get('same'):
            return True
        ref = self.refs[ti]
        part, d = first_diff(ref, ans)
        if part is None:
            ctx.broken.append(f'correspondence {suite}: digest differs but observations equal ({t["tag"]})')
            return False
        ctx.report(f'C20/differs(env={envkind},part={part})',
                   {'suite': suite, 'program': t['src'], 'level': t['level'], 'debug': t['debug'],
                    'tag': t['tag'], 'part': part, 'difference': d,
                    'env_a': self.ref_env(t), 'env_b': env_b,
                    'statement': 'the two environments below give different observations of the same program and options'},
                   True)
        return False


# --------------------------------------------------------------------------
# source tie: the premises of the set theorems, read off the code with ast

def _parents(tree):
    par = {}
    for n in ast.walk(tree):
        for c in ast.iter_child_nodes(n):
            par[c] = n
    return par


def classify_attr_uses(attr):
    """every use of `<expr>.<attr>` in qbee/*.py -> kind"""
    uses = []
    for f in sorted(glob.glob(os.path.join(vlib.REPO, 'qbee', '*.py'))):
        tree = ast.parse(open(f).read())
        par = _parents(tree)
        for n in ast.walk(tree):
            if not (isinstance(n, ast.Attribute) and n.attr == attr):
                continue
            p = par.get(n)
            kind = 'other'
            if isinstance(p, ast.Assign) and n in p.targets:
                v = p.value
                if isinstance(v, ast.Call) and isinstance(v.func, ast.Name) and v.func.id in ('set', 'list'):
                    kind = 'init'
            elif isinstance(p, ast.Attribute) and p.attr == 'add' and isinstance(par.get(p), ast.Call):
                kind = 'add'
            elif isinstance(p, ast.Compare) and n in p.comparators and \
                    all(isinstance(op, (ast.In, ast.NotIn)) for op in p.ops):
                kind = 'membership'
            elif isinstance(p, ast.For) and p.iter is n:
                ok = all(isinstance(s, ast.Assign) and
                         all(isinstance(tg, (ast.Name, ast.Subscript)) for tg in s.targets)
                         for s in p.body)
                kind = 'for-assign-only' if ok else 'for-other'
            elif isinstance(p, ast.Call) and isinstance(p.func, ast.Name) and p.func.id == 'sorted':
                kind = 'sorted'
            uses.append((os.path.basename(f), n.lineno, kind))
    return uses


def source_tie(ctx):
    checks = [
        ('all_labels', {'init', 'add', 'membership'},
         'C20_labels_set_membership_only assumes the label set is only initialised, added to and tested for membership'),
        ('labels', {'init', 'add', 'membership'},
         'the per-routine label set likewise'),
        ('letters', {'init', 'for-assign-only', 'sorted'},
         'C20_deftype_order_irrelevant assumes the letter set is only iterated to assign def_letter_types[letter] = type'),
    ]
    n = 0
    for attr, allowed, why in checks:
        uses = classify_attr_uses(attr)
        n += len(uses)
        ctx.bump(f'source-uses:{attr}', len(uses))
        bad = [u for u in uses if u[2] not in allowed]
        if not uses:
            ctx.report(f'C20/source-tie({attr}-not-found)', {'why': why}, False)
        for f, line, kind in bad:
            ctx.report(f'C20/source-tie({attr}-used-as-{kind})',
                       {'file': f, 'line': line, 'why': why}, False)
    # a class-level default must not be assigned from outside its class body
    stores = []
    for f in sorted(glob.glob(os.path.join(vlib.REPO, 'qbee', '*.py'))):
        tree = ast.parse(open(f).read())
        for node in ast.walk(tree):
            if isinstance(node, ast.Attribute) and isinstance(node.ctx, ast.Store) and \
                    node.attr in ('DEFAULT_TYPE', 'known_blocks', 'codegens'):
                stores.append((os.path.basename(f), node.lineno, node.attr))
            if isinstance(node, ast.Call) and isinstance(node.func, ast.Attribute) and \
                    node.func.attr in ('enable_packrat', 'enablePackrat', 'enable_left_recursion'):
                ctx.extra['pyparsing_memoization_enabled'] = True
    for f, line, attr in stores:
        ctx.report(f'C20/source-tie({attr}-assigned)', {'file': f, 'line': line,
                   'why': 'a process-wide default/registry is re-assigned at run time'}, False)
    ctx.extra.setdefault('pyparsing_memoization_enabled', False)
    ctx.count('source-tie', n + 1, {'all_labels', 'labels', 'letters', 'class-defaults'})
    ctx.rule.append('source-tie: every syntactic use of all_labels / labels / letters in qbee/*.py must be '
                    'set()-initialisation, .add, in / not in, or a for loop that only assigns; no run-time '
                    'assignment to NumericLiteral.DEFAULT_TYPE, Block.known_blocks, CodeGen.codegens')


# --------------------------------------------------------------------------
# T-fn tie of the small compiler models

def item_enc(it):
    return 'E' if it is None else 'T' + it


def pieces_suite(ctx, exe, gens, labs, seeds, tier):
    """real compiler pieces vs Models/Determinism.v, under several hash seeds"""
    tid = c20gen.TID
    cases = [{'src': g['src'], 'level': 0} for g in gens] + [{'src': l['src'], 'level': 0} for l in labs]
    per_seed = {}
    for s in seeds:
        per_seed[s] = run_env('pieces', cases, hashseed=s, par=4)
    keys = set()
    norders = set()
    # --- implementation vs implementation: nothing but the set iteration order may vary
    s0 = seeds[0]
    for i, c in enumerate(cases):
        a = per_seed[s0][i]
        if a.get('harness') or 'lookups' not in a:
            ctx.broken.append(f'correspondence pieces: worker failed: {str(a)[:300]}')
            return
        for s in seeds[1:]:
            b = per_seed[s][i]
            for f in ('lookups', 'data', 'literals', 'module_data', 'verdict'):
                if a.get(f) != b.get(f):
                    ctx.report(f'C20/differs(env=hashseed,part=compiler-{f})',
                               {'suite': 'pieces', 'program': c['src'], 'field': f,
                                'env_a': {'fn': 'detfn.pieces', 'hashseed': s0, 'case': c, 'value': a.get(f)},
                                'env_b': {'fn': 'detfn.pieces', 'hashseed': s, 'case': c, 'value': b.get(f)}},
                               True)
            norders.add(json.dumps(b.get('deftypes')))
        norders.add(json.dumps(a.get('deftypes')))
    ctx.bump('distinct-observed-letter-iteration-orders', len(norders))
    # --- model
    jobs, meta = [], []
    for gi, g in enumerate(gens):
        canon = [[tid[kw], [ord(ch) for a, b in ranges for ch in
                            ([a] if b is None else [chr(x) for x in range(ord(a), ord(b) + 1)])]]
                 for kw, ranges in g['deftypes']]
        jobs.append([1, canon])
        meta.append(('deftype-source-order', gi, None))
        for s in seeds:
            obs = per_seed[s][gi]['deftypes']
            # the observed enumeration must be a permutation of the distinct source letters
            for (ty, ls), (ty2, ls2) in zip(canon, obs):
                if ty != ty2 or sorted(set(ls)) != sorted(ls2):
                    ctx.report('C20/pieces-model-differs(deftype-letter-set)',
                               {'program': g['src'], 'source': [ty, ls], 'observed': [ty2, ls2]}, False)
            jobs.append([1, obs])
            meta.append(('deftype-observed-order', gi, s))
        jobs.append([2, [[[] if k is None else [k], [item_enc(it) for it in items]] for k, items in g['data']]])
        meta.append(('data', gi, None))
        jobs.append([4, g['lits']])
        meta.append(('literals', gi, None))
    for li, l in enumerate(labs):
        for mode in (0, 1):
            jobs.append([3, mode, l['decls'], l['uses']])
            meta.append(('labels', li, mode))
    mouts = vlib.run_model(exe, jobs)
    for (kind, idx, par), job, mo in zip(meta, jobs, mouts):
        if isinstance(mo, str):
            ctx.broken.append(f'correspondence pieces: model driver failed ({mo})')
            return
        keys.add((kind, idx, par))
        if kind.startswith('deftype'):
            impl = per_seed[s0][idx]['lookups']
            if impl != mo:
                ctx.report(f'C20/pieces-model-differs({kind})',
                           {'program': gens[idx]['src'], 'impl': impl, 'model': mo, 'hashseed': par}, False)
        elif kind == 'data':
            r = per_seed[s0][idx]
            impl = [[[] if k == '_toplevel_data' else [vlib.s2l(k)],
                     [vlib.s2l(item_enc(it)) for it in items]] for k, items in r.get('data', [])]
            if impl != mo:
                ctx.report('C20/pieces-model-differs(data-parts)',
                           {'program': gens[idx]['src'], 'impl': r.get('data'), 'model': mo}, False)
            # the module's data section holds the parts in the same order
            if [[item_enc(it) for it in p] for p in r.get('module_data', [])] != \
                    [[vlib.l2s(x) for x in items] for _, items in mo]:
                ctx.report('C20/pieces-model-differs(data-section-order)',
                           {'program': gens[idx]['src'], 'impl': r.get('module_data'), 'model': mo}, False)
        elif kind == 'literals':
            impl = [vlib.s2l(x) for x in per_seed[s0][idx].get('literals', [])]
            if impl != mo:
                ctx.report('C20/pieces-model-differs(literal-table)',
                           {'program': gens[idx]['src'], 'impl': per_seed[s0][idx].get('literals'),
                            'model': [vlib.l2s(x) for x in mo]}, False)
        else:
            l = labs[idx]
            v = per_seed[s0][len(gens) + idx]['verdict']
            src = l['src']
            if v.get('ok'):
                impl = 0
            elif v.get('kind') == 'compile' and v.get('code') == 'DUPLICATE_LABEL':
                line = src[:v['loc']].count('\n')
                impl = [1, l['dline'].index(line)] if line in l['dline'] else ['dup-at-line', line]
            elif v.get('kind') == 'compile' and v.get('code') == 'LABEL_NOT_DEFINED':
                line = src[:v['loc']].count('\n')
                impl = [2, l['uline'].index(line)] if line in l['uline'] else ['undef-at-line', line]
            else:
                impl = ['other', v]
            if impl != mo:
                ctx.report('C20/pieces-model-differs(label-verdict)',
                           {'program': src, 'impl': impl, 'impl_verdict': v, 'model': mo, 'mode': par}, False)
    ctx.count('pieces', len(cases) * len(seeds) + len(jobs), keys)
    ctx.sample({'suite': 'pieces', 'deftypes': gens[1]['deftypes'],
                'observed_order_seed0': per_seed[s0][1]['deftypes'],
                'observed_order_other_seed': per_seed[seeds[-1]][1]['deftypes']})
    ctx.rule.append(f'pieces: {len(gens)} generated programs + {len(labs)} label programs (ok / duplicate / '
                    f'undefined / both) compiled under hash seeds {seeds}: final letter->type lookups a..z, data '
                    'parts (order and items), literal table, label verdict must not vary with the seed (the '
                    'observed set iteration orders do vary) and must equal the extracted Models/Determinism.v '
                    'fed with the source order AND with each observed order')


# --------------------------------------------------------------------------
# histories made of variant pairs; hash-seed sweep over dead code x literals

def _small_targets(progs, configs):
    out = []
    for pi, p in enumerate(progs):
        for level, dbg in configs:
            out.append({'src': p['src'], 'level': level, 'debug': dbg, 'script': GEN_SCRIPT, 'max_ticks': 10000,
                        'tag': f"{p['tag']}@O{level}{'g' if dbg else ''}", 'prog': pi, 'kind': p.get('kind', 'generated')})
    return out


def _references(ctx, name, ts, only=None):
    """pristine interpreter, hash seed 0 -> {index: observation} or None
    (only: the target indices that are needed; default all)"""
    sel = sorted(only) if only is not None else list(range(len(ts)))
    raws = run_env('pristine', [{'t': pub(ts[ti])} for ti in sel], hashseed='0')
    refs = {}
    for ti, r in zip(sel, raws):
        t = ts[ti]
        if not isinstance(r, dict) or r.get('harness') or 'verdict' not in r:
            ctx.broken.append(f'{name}: reference run failed for {t["tag"]}: {str(r)[:300]}')
            return None
        refs[ti] = r
        ctx.bump(f'{name}-ref-verdict:' + ('ok' if r['verdict'].get('ok') else r['verdict'].get('kind', '?')))
    ctx.count(f'{name}-reference', len(sel), set(r['digest'] for r in refs.values()))
    return refs


def variants_suite(ctx, tier, rseed=0):
    """every program of a family of same-name/different-definition programs is
    compiled AND assembled (bytes() and str()) before every other one, in both
    orders, at the same and at another configuration; whole families as chains;
    two Compiler instances alive.  quick: per family ONE ordered pair (rotating
    with VERIF_SEED) at one same configuration, one other configuration and one
    two-compilers interleaving, and the chain of every third family."""
    quick = tier != 'thorough'
    fams = c20gen.variant_families()
    progs, where = [], {}
    for fi, f in enumerate(fams):
        for vi, src in enumerate(f['variants']):
            where[(fi, vi)] = len(progs)
            progs.append({'src': src, 'tag': f"{f['tag']}#{vi}", 'kind': 'variant'})
    ts = _small_targets(progs, CONFIGS)
    NC = len(CONFIGS)

    def tix(fi, vi, ci):
        return where[(fi, vi)] * NC + ci

    # ---- plan (target indices only), then the references that the plan needs
    plan = []           # (suite, fn, under-test index or list, builder(refs) -> case)
    pi = 0
    npairs_all = 0
    pairs_done = []
    for fi, f in enumerate(fams):
        nv = len(f['variants'])
        pairs = [(a, b) for a in range(nv) for b in range(nv) if a != b]
        npairs_all += len(pairs)
        if quick and pairs:
            pairs = [pairs[(rseed + fi) % len(pairs)]]
        for (a, b) in pairs:
            # b = history, a = program under test
            pairs_done.append((fi, a, b))
            same_cis = [(pi + rseed) % NC] if quick else list(range(NC))
            for ci in same_cis:
                plan.append(('variant-history', 'sequence', tix(fi, a, ci), tix(fi, b, ci), (pi + ci) % 3 == 0))
            ci = pi % NC
            cj = (ci + 1 + (pi // NC) % (NC - 1)) % NC
            plan.append(('variant-history-other-config', 'sequence', tix(fi, a, ci), tix(fi, b, cj), pi % 2 == 0))
            for order in ((pi % 3,) if quick else (0, 1, 2)):
                ck = (pi // 3 + order) % NC
                plan.append(('variant-two-compilers', 'two_alive', tix(fi, a, ck), tix(fi, b, ck), order))
            pi += 1
        # the whole family as one chain, up and down, every step checked
        for ci in range(NC):
            if quick and ((fi + rseed) % 3 != 0 or ci != (fi // 3 + rseed) % NC):
                continue
            chain = list(range(nv)) + list(range(nv - 2, -1, -1))
            plan.append(('variant-chain', 'sequence', [tix(fi, v, ci) for v in chain], None, None))
    need = set()
    for (suite, fn, ti, hi, _x) in plan:
        need.update(ti if isinstance(ti, list) else [ti])
    if not quick:
        need = None
    refs = _references(ctx, 'variants', ts, need)
    if refs is None:
        return

    def ref_env(t):
        return {'fn': 'detfn.pristine', 'hashseed': '0', 'cwd': vlib.REPO, 'case': {'t': pub(t)}}
    S = Suite(ctx, refs, ref_env)
    ndiff = 0
    for (fi, a, b) in pairs_done:
        ndiff += sum(1 for ci in range(NC) if tix(fi, a, ci) in refs and tix(fi, b, ci) in refs
                     and refs[tix(fi, a, ci)]['digest'] != refs[tix(fi, b, ci)]['digest'])
    batch, meta = [], []
    for (suite, fn, ti, hi, x) in plan:
        if suite == 'variant-chain':
            case = {'steps': [{'t': pub(ts[tj]), 'ref': refs[tj]['digest']} for tj in ti]}
        elif fn == 'sequence':
            case = {'steps': [{'t': pub(ts[hi]), 'run_pre': x},
                              {'t': pub(ts[ti]), 'ref': refs[ti]['digest']}]}
        else:
            case = {'a': pub(ts[hi]), 'b': pub(ts[ti]), 'order': x, 'ref': refs[ti]['digest']}
        batch.append({'fn': fn, 'case': case})
        meta.append((suite, fn, ti, case))
    outs = run_env('isolated', batch, hashseed='0')
    n = {}
    for (suite, fn, ti, case), out in zip(meta, outs):
        if suite == 'variant-chain':
            if not isinstance(out, list):
                ctx.broken.append(f'correspondence {suite}: worker failed: {str(out)[:300]}')
                continue
            for pos, (tj, a) in enumerate(zip(ti, out)):
                sub = {'steps': [{'t': st['t']} for st in case['steps'][:pos]] + [case['steps'][pos]]}
                S.judge(suite, 'variant-history', tj, ts[tj], a,
                        {'fn': 'detfn.sequence', 'hashseed': '0', 'cwd': vlib.REPO, 'case': sub})
                n[suite] = n.get(suite, 0) + 1
            continue
        if fn == 'sequence':
            if not isinstance(out, list):
                ctx.broken.append(f'correspondence {suite}: worker failed: {str(out)[:300]}')
                continue
            out = out[-1]
        S.judge(suite, 'variant-two-compilers' if fn == 'two_alive' else 'variant-history', ti, ts[ti], out,
                {'fn': 'detfn.' + fn, 'hashseed': '0', 'cwd': vlib.REPO, 'case': case})
        n[suite] = n.get(suite, 0) + 1
    for suite, k in sorted(n.items()):
        ctx.count(suite, k, ())
    ctx.bump('variant-families', len(fams))
    ctx.bump('variant-programs', len(progs))
    ctx.bump('variant-ordered-pairs', pi)
    ctx.bump('variant-ordered-pairs-of-all-families', npairs_all)
    ctx.bump('variant-ordered-pairs-x-config-with-different-reference', ndiff)
    ctx.sample({'suite': 'variant-history', 'family': fams[0]['tag'], 'history_program': fams[0]['variants'][0],
                'program_under_test': fams[0]['variants'][1]})
    ctx.rule.append(f'variants: {len(fams)} families of programs that reuse the same user-visible names with different '
                    f'definitions ({len(progs)} programs: 16 nested-TYPE families = 4 outer shapes with an unchanged '
                    'field list x global / SUB-local / array element / parameter use x 3 inner TYPEs of different '
                    'sizes; TYPE field lists, CONST values and types, SUB and FUNCTION signatures, one name as '
                    'variable / array / FUNCTION / SUB / label / TYPE / CONST, array bounds, DEFtype ranges, labels, '
                    f'line numbers, DATA, literal order, STATIC). {pi} of the {npairs_all} ordered pairs (history, program) '
                    '(thorough: all; quick: one pair per family, rotating with VERIF_SEED): '
                    'fresh process compiles and assembles (bytes() and str(), every third also run) the history '
                    'program, then the program under test, at the same configuration (all 6 in thorough, 1 '
                    'rotating in quick) and once at another configuration; two Compiler instances alive in one '
                    '(quick) / three (thorough) interleavings; each family (quick: every third family, one '
                    'configuration) as one chain v0..vn..v0 with every step checked; all against the pristine hash-seed-0 reference of the program under test')


def deadcode_suite(ctx, tier, rseed, vseed=0):
    """hash-seed sweep over programs with many string literals and a statement
    with literals directly after an unconditional transfer"""
    quick = tier != 'thorough'
    progs = c20gen.deadcode_programs(not quick)
    nall = len(progs)
    if quick:           # a third of the quick programs, rotating with VERIF_SEED
        progs = [p for i, p in enumerate(progs) if i % 3 == vseed % 3]
    configs = [(2, False), (2, True)] if quick else [(2, False), (2, True), (1, False), (1, True)]
    ts = _small_targets(progs, configs)
    refs = _references(ctx, 'deadcode', ts)
    if refs is None:
        return

    def ref_env(t):
        return {'fn': 'detfn.pristine', 'hashseed': '0', 'cwd': vlib.REPO, 'case': {'t': pub(t)}}
    S = Suite(ctx, refs, ref_env)
    seeds = ([str(1 + vseed % 7)] if quick else [str(k) for k in range(1, 8)]) + [str(rseed)]
    cases = [{'t': pub(t), 'ref': refs[ti]['digest']} for ti, t in enumerate(ts)]
    for s in seeds:
        ans = run_env('pristine', cases, hashseed=s)
        for ti, a in enumerate(ans):
            S.judge('deadcode-hashseed', 'hashseed', ti, ts[ti], a,
                    {'fn': 'detfn.pristine', 'hashseed': s, 'cwd': vlib.REPO, 'case': {'t': pub(ts[ti])}})
        ctx.count(f'deadcode-hashseed={s}', len(ts), ())
    # how many programs really lose code: the dead literal is gone from the -O2 listing
    gone = 0
    for ti, t in enumerate(ts):
        if (t['level'], t['debug']) == (2, False) and refs[ti]['verdict'].get('ok'):
            body = refs[ti]['listing'].split('.code')[-1]
            dead_words = set(w for w in _quoted(t['src'].split('\n')) if ('"%s"' % w) not in body)
            gone += 1 if dead_words else 0
    ctx.bump('deadcode-programs', len(progs))
    ctx.bump('deadcode-programs-with-a-literal-push-removed-at-O2', gone)
    ctx.extra['deadcode_hash_seeds'] = ['0 (reference)'] + seeds
    ctx.sample({'suite': 'deadcode-hashseed', 'tag': ts[0]['tag'], 'src': ts[0]['src']})
    ctx.rule.append(f'deadcode: {len(progs)} programs (quick: a third of {nall}, rotating with VERIF_SEED) from {len(c20gen.DEAD_CONTEXTS)} contexts (top level, IF, ELSE, '
                    'single-line IF, FOR, DO, WHILE, SELECT CASE, SUB, FUNCTION, GOSUB routine) x terminators END / '
                    'SYSTEM / GOTO / RETURN (+ EXIT FOR / DO / SUB / FUNCTION) x dead statement with string literals '
                    'directly behind it (PRINT, INPUT prompt, string concatenation, two PRINTs; 2 of 4 in quick) x '
                    '3 or 9 preceding live literals (some repeated, the dead literal sometimes also live) + 3 '
                    f'following; configurations {configs}; pristine interpreter under hash seeds {seeds} (the last '
                    'from VERIF_SEED) against the hash-seed-0 reference')


def _quoted(lines):
    out = []
    for ln in lines:
        parts = ln.split('"')
        out += parts[1::2]
    return out


# --------------------------------------------------------------------------

def build_targets(ctx, tier):
    corp = vlib.run_impl('corpus.load', [None])[0]
    corp = [c for c in corp if 'src' in c]
    lim = os.environ.get('C20_LIMIT')
    step = 4 if tier == 'thorough' else 32      # quick subset of thorough: every 32nd / every 4th corpus program
    progs = []
    for c in corp[::step]:
        progs.append({'src': c['src'], 'tag': f"{c['file']}:{c['idx']}",
                      'script': {'lines': [], 'rnd': [fb(x) for x in c['rnd']] + [fb(0.25)] * 5,
                                 'timer': [fb(x) for x in c['timer']] + [fb(1.5)] * 5,
                                 'inkey': c['inkey']},
                      'kind': 'corpus:' + c.get('expected_result', '?')})
    gens = [c20gen.gen_program(i) for i in range(40 if tier == 'thorough' else 8)]
    for g in gens:
        progs.append({'src': g['src'], 'tag': g['tag'], 'script': GEN_SCRIPT, 'kind': 'generated'})
    if lim:                                     # development aids only; never set by ./check
        n = int(lim)
        progs = progs[:n] + progs[-n:]
    if os.environ.get('C20_ONLY'):
        import re
        progs = [p for p in progs if re.search(os.environ['C20_ONLY'], p['tag'])]
    targets = []
    for pi, p in enumerate(progs):
        for level, dbg in CONFIGS:
            targets.append({'src': p['src'], 'level': level, 'debug': dbg, 'script': p['script'],
                            'max_ticks': 10000, 'tag': f"{p['tag']}@O{level}{'g' if dbg else ''}",
                            'prog': pi, 'kind': p['kind']})
    ctx.bump('programs:corpus', sum(1 for p in progs if p['kind'].startswith('corpus')))
    ctx.bump('programs:generated', sum(1 for p in progs if p['kind'] == 'generated'))
    return progs, targets, gens, len(corp)


def main(tier, seed):
    ctx = Ctx(PROP, tier, seed, 'other')
    ctx.trusted_base = [
        'Coq 8.16.1 kernel; every C20 theorem is closed under the global context (no axioms; Permutation from the standard library)',
        'extraction ExtrOcamlBasic only (machine model Extract/XMachine.v shared with C07; Extract/XDeterminism.v)',
        'unverified glue: ocaml/driver.ml, tools/vlib, tools/implfns/detfn.py (fork-based pristine interpreter, section cutter, canonical observation + sha256 digest), tools/implfns/machfn.py, tools/props/c20.py and c20gen.py',
        'modelled not verified: qvm/cpu.py + machine.py (Models/Machine.v, Cpu.v); of the compiler only the order-sensitive containers (DEFtype letter set, label set, DATA dict, literal list) - the rest of the compiler is covered by the perturbed correspondence alone',
        'that a Gallina function depends on nothing but its arguments is the meta-theory of Coq, not a theorem; that the IMPLEMENTATION has this property is exploration (finite sets of hash seeds, histories, schedules), not proof',
        'out of scope: the debug section (gzip + pickle) as bytes; OS signal delivery (QvmCpu.__init__ re-installs the SIGINT handler for the newest machine); the real-time devices (TIMER, RND of BasePeripheralsImpl) are replaced by the scripted peripherals object',
    ]
    ctx.prove()
    exe_m = ctx.model('Machine')
    exe_d = ctx.model('Determinism')
    os.makedirs(SCRATCH, exist_ok=True)

    source_tie(ctx)

    progs, targets, gens, ncorp = build_targets(ctx, tier)
    nlab = 24 if tier == 'thorough' else 8
    labs = [c20gen.label_program(i) for i in range(nlab)]
    rseed = ctx.rng.randrange(3, 2 ** 32 - 1)
    seeds = ['1', '2', '12345', str(rseed)]
    ctx.extra['hash_seeds'] = ['0 (reference)'] + seeds + ['random']
    NT = len(targets)

    def ref_env(t):
        return {'fn': 'detfn.pristine', 'hashseed': '0', 'cwd': vlib.REPO, 'case': {'t': pub(t)}}

    log('reference: pristine interpreter, hash seed 0')
    # ---- reference: pristine interpreter, hash seed 0
    raws = run_env('pristine', [{'t': pub(t), 'full': True} for t in targets], hashseed='0')
    refs = {}
    for ti, (t, r) in enumerate(zip(targets, raws)):
        if not isinstance(r, dict) or r.get('harness') or 'verdict' not in r:
            ctx.broken.append(f'reference run failed for {t["tag"]}: {str(r)[:300]}')
            return ctx.finish(explanation=EXPLANATION)
        refs[ti] = r
        v = r['verdict']
        ctx.bump('ref-verdict:' + ('ok' if v.get('ok') else v.get('kind', '?')))
    ok_targets = [ti for ti in range(NT) if refs[ti]['verdict'].get('ok') and 'run' in refs[ti]]
    for ti in ok_targets:
        stop = refs[ti]['run']['stop']
        ctx.bump('ref-run-stop:' + {0: 'halt', 1: 'tick-limit', 3: 'script-exhausted'}.get(
            stop if isinstance(stop, int) else -1, 'host-exception'))
    ctx.count('reference', NT, set(refs[ti]['digest'] for ti in range(NT)))
    ctx.rule.append(f'targets: {len(progs)} programs ({ctx.dist.get("programs:corpus", 0)} of the {ncorp} repository '
                    f'test programs incl. those expected to fail, + {len(gens)} generated stress programs) x 6 configurations '
                    f'(O0/O1/O2 x debug) = {NT}; observation = {OBS}; reference = pristine interpreter (fork of a '
                    'worker that imported the compiler and compiled nothing), PYTHONHASHSEED=0, cwd=/repo; '
                    'non-trivial = distinct observation digests')
    S = Suite(ctx, refs, ref_env)

    log('hash seeds, pristine')
    # ---- hash seeds, pristine
    quick = tier != 'thorough'
    # development aid (never set by ./check): C20_SKIP=seeds,cwd,chainrandom,batch,fresh,model,pieces,variants,deadcode
    SKIP = set(x for x in os.environ.get('C20_SKIP', '').split(',') if x)
    if SKIP or os.environ.get('C20_LIMIT') or os.environ.get('C20_ONLY'):
        ctx.extra['dev_mode'] = {'skipped_suites': sorted(SKIP), 'limit': os.environ.get('C20_LIMIT'),
                                 'only': os.environ.get('C20_ONLY')}
        print('C20: DEVELOPMENT MODE - reduced run, not a full check', file=sys.stderr)

    def subset(j, m):
        """thorough: every target; quick: the targets with index = j mod m"""
        return [ti for ti in range(NT) if (not quick) or ti % m == j % m]
    for j, s in enumerate(seeds if 'seeds' not in SKIP else []):
        if quick:       # every target under exactly one of the four seeds (rotating with VERIF_SEED)
            sel = [ti for ti in range(NT) if ti % len(seeds) == (j + seed) % len(seeds)]
        else:
            sel = list(range(NT))
        cases = [{'t': pub(targets[ti]), 'ref': refs[ti]['digest']} for ti in sel]
        ans = run_env('pristine', cases, hashseed=s)
        for ti, a in zip(sel, ans):
            t = targets[ti]
            S.judge('hashseed', 'hashseed', ti, t, a,
                    {'fn': 'detfn.pristine', 'hashseed': s, 'cwd': vlib.REPO, 'case': {'t': pub(t)}})
        ctx.count(f'hashseed={s}', len(sel), ())
    ctx.rule.append(f'hashseed: targets again in a pristine interpreter under PYTHONHASHSEED in {seeds} (the last one '
                    'drawn from VERIF_SEED): every seed on every target (thorough) '
                    'or on a quarter of the targets each, so that every target meets one of them (quick); all targets once more under PYTHONHASHSEED=random '
                    'in the chain suite')

    log('other working directory')
    # ---- other working directory
    sel = subset(seed, 6) if 'cwd' not in SKIP else []
    cases = [{'t': pub(targets[ti]), 'ref': refs[ti]['digest']} for ti in sel]
    ans = run_env('pristine', cases, hashseed='0', cwd=SCRATCH)
    for ti, a in zip(sel, ans):
        t = targets[ti]
        if isinstance(a, dict) and a.get('cwd') not in (None, SCRATCH) and not a.get('harness'):
            ctx.broken.append(f'cwd perturbation not effective: {a.get("cwd")}')
            break
        S.judge('cwd', 'cwd', ti, t, a,
                {'fn': 'detfn.pristine', 'hashseed': '0', 'cwd': SCRATCH, 'case': {'t': pub(t)}})
    ctx.count('cwd', len(sel), ())
    ctx.rule.append(f'cwd: targets (all in thorough, a sixth in quick) in a pristine interpreter started in {SCRATCH}')

    log('reused process: long chains (every history length), seed 0 and seed random')
    # ---- reused process: long chains (every history length), seed 0 and seed random
    order = list(range(NT))
    ctx.rng.shuffle(order)
    nseq = max(1, min(32, NT // 4))
    seqs = [order[i::nseq] for i in range(nseq)]
    chain_cases = [{'steps': [{'t': pub(targets[ti]), 'ref': refs[ti]['digest']} for ti in sq]} for sq in seqs]

    def judge_chain(outs, hs):
        maxk = 0
        for sq, out in zip(seqs, outs):
            if not isinstance(out, list):
                ctx.broken.append(f'correspondence chain: worker failed: {str(out)[:300]}')
                continue
            for pos, (ti, a) in enumerate(zip(sq, out)):
                maxk = max(maxk, a.get('ncompiled_before', 0))
                if not a.get('same') and not a.get('harness'):
                    # shrink the history: shortest suffix of the chain that still reproduces
                    hist = [pub(targets[x]) for x in sq[:pos]]
                    env_b = shrink_history(hist, pub(targets[ti]), refs[ti]['digest'], hs)
                else:
                    env_b = None
                S.judge('chain', 'history' if hs == '0' else 'history+hashseed=random', ti, targets[ti], a, env_b)
        ctx.count(f'chain(hashseed={hs})', NT, ())
        ctx.bump(f'chain-max-history-length(hashseed={hs})', maxk)
    if 'chainrandom' not in SKIP:
        judge_chain(run_env('isolated', [{'fn': 'sequence', 'case': c} for c in chain_cases], hashseed='random',
                            par=nseq), 'random')
    batch = [{'fn': 'sequence', 'case': c} for c in chain_cases]      # hash seed 0: see the batch below
    slices = {'chain': (0, len(batch))}
    ctx.rule.append(f'chain: all targets in a VERIF_SEED-shuffled order, split over {nseq} processes, each process '
                    f'compiling and running its targets one after the other (history lengths 0..{NT // nseq}, failing '
                    'compilations and the same program at other levels included), under hash seed 0 and '
                    'PYTHONHASHSEED=random')

    log('reused process: explicit short histories k = 1, 5, 20')
    # ---- reused process: explicit short histories k = 1, 5, 20
    bad_ts = [{'src': s, 'level': (i % 3), 'debug': bool(i % 2), 'script': {}, 'max_ticks': 100}
              for i, s in enumerate(c20gen.BAD_PROGRAMS)]
    cases, meta = [], []
    for ti, t in enumerate(targets):
        other_level = dict(pub(t))
        other_level['level'] = (t['level'] + 1 + (ti % 2)) % 3
        other_level['debug'] = not t['debug']
        for k, every in (((1, 2), (5, 8), (20, 32)) if quick else ((1, 1), (5, 2), (20, 8))):
            if (ti + (seed if quick else 0)) % every != 0:
                continue
            if k == 1:
                hist = [other_level]
            else:
                pool = [pub(targets[x]) for x in ctx.rng.sample(range(NT), min(k - 3, NT))]
                hist = pool + [bad_ts[ti % len(bad_ts)], bad_ts[(ti + 5) % len(bad_ts)], other_level]
                ctx.rng.shuffle(hist)
            steps = [{'t': h, 'run_pre': (j % 2 == 0)} for j, h in enumerate(hist)]
            steps.append({'t': pub(t), 'ref': refs[ti]['digest']})
            cases.append({'steps': steps})
            meta.append((ti, k))
    slices['history'] = (len(batch), len(batch) + len(cases))
    batch += [{'fn': 'sequence', 'case': c} for c in cases]
    hist_cases, hist_meta = cases, meta

    def judge_history(outs):
        for (ti, k), case, out in zip(hist_meta, hist_cases, outs):
            if not isinstance(out, list):
                ctx.broken.append(f'correspondence history: worker failed: {str(out)[:300]}')
                break
            S.judge(f'history-k{k}', 'history', ti, targets[ti], out[-1],
                    {'fn': 'detfn.sequence', 'hashseed': '0', 'cwd': vlib.REPO, 'case': case})
        for k in (1, 5, 20):
            ctx.count(f'history-k{k}', sum(1 for _, kk in hist_meta if kk == k), ())
    ctx.rule.append('history: fresh process that first compiles k other programs, then the target: k=1 (the same '
                    'program at another level and debug setting; every target in thorough, every 2nd in quick), k=5 (every 8th target in quick, 2nd in thorough), k=20 (every '
                    f'32nd / 8th); histories of k>1 always contain two of {len(bad_ts)} programs that fail (syntax errors, '
                    'compile errors, internal errors) and the same program at another level; every other history '
                    'program is also run')

    log('two compilers alive at once')
    # ---- two compilers alive at once
    cases = []
    two_sel = subset(seed + 1, 4)
    for ti in two_sel:
        a = pub(targets[(ti * 7 + 3) % NT])
        cases.append({'a': a, 'b': pub(targets[ti]), 'order': (ti // 2) % 3, 'ref': refs[ti]['digest']})
    slices['two'] = (len(batch), len(batch) + len(cases))
    batch += [{'fn': 'two_alive', 'case': c} for c in cases]
    two_cases = cases

    def judge_two(ans):
        for ti, a, c in zip(two_sel, ans, two_cases):
            S.judge('two-compilers', 'two-compilers', ti, targets[ti], a,
                    {'fn': 'detfn.two_alive', 'hashseed': '0', 'cwd': vlib.REPO, 'case': c})
        ctx.count('two-compilers', len(two_sel), ())
    ctx.rule.append('two-compilers: the target and another target each get a Compiler instance before either '
                    'compiles; three interleavings of compile/assemble of the two; all targets in thorough, every 4th in quick')

    log('compile in a thread')
    # ---- compile in a thread
    thread_sel = subset(seed + 1, 6)
    cases = [{'t': pub(targets[ti]), 'ref': refs[ti]['digest']} for ti in thread_sel]
    slices['thread'] = (len(batch), len(batch) + len(cases))
    batch += [{'fn': 'threaded', 'case': c} for c in cases]
    thread_cases = cases

    def judge_thread(ans):
        for ti, a, c in zip(thread_sel, ans, thread_cases):
            S.judge('thread', 'thread', ti, targets[ti], a,
                    {'fn': 'detfn.threaded', 'hashseed': '0', 'cwd': vlib.REPO, 'case': c})
        ctx.count('thread', len(thread_sel), ())
    ctx.rule.append('thread: compile + bytes + str inside a threading.Thread, run in the main thread (all targets '
                    'in thorough, a sixth in quick)')

    log('wall clock: a second later (crossing a second boundary), and a really fresh interpreter')
    # ---- wall clock: a second later (crossing a second boundary), and a really fresh interpreter
    nsl = 8 if tier == 'quick' else 160
    pick = sorted(ctx.rng.sample(range(NT), min(nsl, NT)))
    cases = [{'t': pub(targets[ti]), 'ref': refs[ti]['digest'], 'sleep': 1.1} for ti in pick]
    slices['later'] = (len(batch), len(batch) + len(cases))
    batch += [{'fn': 'observe_case', 'case': c} for c in cases]
    later_cases, later_pick = cases, pick

    def judge_later(ans):
        for ti, a, c in zip(later_pick, ans, later_cases):
            S.judge('later', 'wall-clock', ti, targets[ti], a,
                    {'fn': 'detfn.pristine', 'hashseed': '0', 'cwd': vlib.REPO, 'case': c})
        ctx.count('later', len(later_pick), ())
    nfr = 4 if tier == 'quick' else 64
    pick = sorted(ctx.rng.sample(range(NT), min(nfr, NT))) if 'fresh' not in SKIP else []

    def one_fresh(ti):
        return vlib.run_impl('detfn.fresh', [{'t': pub(targets[ti]), 'ref': refs[ti]['digest']}],
                             hashseed='0')[0]
    with concurrent.futures.ThreadPoolExecutor(8) as ex:
        ans = list(ex.map(one_fresh, pick))
    for ti, a in zip(pick, ans):
        if isinstance(a, dict) and a.get('ncompiled_before', 0) != 0:
            ctx.broken.append('fresh: the interpreter was not fresh')
        S.judge('fresh-exec', 'fresh-exec', ti, targets[ti], a,
                {'fn': 'detfn.fresh', 'hashseed': '0', 'cwd': vlib.REPO,
                 'case': {'t': pub(targets[ti])}})
    ctx.count('fresh-exec', len(pick), ())
    ctx.rule.append(f'later: {nsl} sampled targets compiled 1.1 s later (every suite runs at a different time than '
                    f'the reference anyway); fresh-exec: {nfr} sampled targets each in a newly started interpreter '
                    '(validates that the forked pristine interpreter equals a fresh one)')

    log('machines: twice, interleaved, shared module object')
    # ---- machines: twice, interleaved, shared module object
    mt = [ti for ti in ok_targets if (targets[ti]['level'], targets[ti]['debug']) in ((0, False), (2, True))]
    cases = []
    for j, ti in enumerate(mt):
        oi = mt[(j * 5 + 1) % len(mt)]
        cases.append({'bytes': refs[ti]['_bytes'], 'script': targets[ti]['script'],
                      'max_ticks': targets[ti]['max_ticks'], 'other_bytes': refs[oi]['_bytes'],
                      'other_script': targets[oi]['script']})
    slices['machines'] = (len(batch), len(batch) + len(cases))
    batch += [{'fn': 'machines', 'case': c} for c in cases]
    if mt:
        slices['mthread'] = (len(batch), len(batch) + 1)
        batch.append({'fn': 'machine_in_thread', 'case': {'bytes': refs[mt[0]]['_bytes']}})
    log(f'seed-0 batch: {len(batch)} isolated cases')
    if 'batch' in SKIP:
        batch = []
        slices = {k: (0, 0) for k in slices}
        mt = []
    bout = run_env('isolated', batch, hashseed='0')

    def bpart(name):
        a, b = slices[name]
        return bout[a:b]
    if 'batch' not in SKIP:
        judge_chain(bpart('chain'), '0')
        judge_history(bpart('history'))
        judge_two(bpart('two'))
        judge_thread(bpart('thread'))
        judge_later(bpart('later'))
    outs = bpart('machines')
    sig_changes = 0
    for ti, c, o in zip(mt, cases, outs):
        t = targets[ti]
        if not isinstance(o, dict) or 'runs' not in o:
            ctx.broken.append(f'correspondence machines: worker failed: {str(o)[:300]}')
            break
        sig_changes += 1 if o.get('sigint_handler_owner_changes') else 0
        if o.get('class_state_changed'):
            ctx.report('C20/machine-class-state-changed', {'program': t['src'], 'state': o.get('class_state')}, False)
        if o.get('class_state'):
            ctx.extra['machine_class_level_mutable_state'] = o['class_state']
        runs = dict(o['runs'])
        # the partner of the interleaving must not be influenced either
        if runs.pop('_other-interleaved') != runs.pop('_other-alone'):
            ctx.report('C20/differs(env=machine-interleaved-partner,part=run)',
                       {'program': t['src'], 'level': t['level'], 'debug': t['debug'],
                        'env_b': {'fn': 'detfn.machines', 'hashseed': '0', 'case': c}}, True)
        for name, r in runs.items():
            part, d = run_diff(refs[ti]['run'], r)
            if part is not None:
                ctx.report(f'C20/differs(env=machine-{name},part={part})',
                           {'suite': 'machines', 'program': t['src'], 'level': t['level'], 'debug': t['debug'],
                            'tag': t['tag'], 'difference': d, 'env_a': ref_env(t),
                            'env_b': {'fn': 'detfn.machines', 'hashseed': '0', 'cwd': vlib.REPO, 'case': c,
                                      'which_run': name}}, True)
    ctx.extra.setdefault('machine_class_level_mutable_state', {})
    ctx.extra['note_sigint'] = ('QvmCpu.__init__ calls signal.signal(SIGINT, self.signal_handler): with two machines '
                                'in one process the handler belongs to the machine created last '
                                f'(observed in {sig_changes}/{len(mt)} cases); signal delivery is outside this '
                                'property and the model')
    ctx.count('machines', len(mt) * 7, set(mt))
    ctx.rule.append(f'machines: {len(mt)} reference modules (O0 and O2+debug) each run alone 3 times (fresh QModule, '
                    'same QModule object), alternately tick by tick with a machine on another module, alternately '
                    'with a second machine on the same QModule object (one tick ahead), and alone again: 7 runs that '
                    'must all equal the reference run; the partner machine must equal its own solitary run; '
                    'class-level mutable attributes of the qvm classes are compared before/after')
    if mt and bpart('mthread'):
        ctx.extra['machine_constructed_off_main_thread'] = bpart('mthread')[0]

    log('the model (about which run_deterministic is proved) on the same modules')
    # ---- the model (about which run_deterministic is proved) on the same modules
    jobs, idx = [], []
    for ti in (ok_targets if 'model' not in SKIP else []):
        t = targets[ti]
        jobs.append([2, isa.module_sx(refs[ti]['_module']), isa.script_sx(t['script']), t['max_ticks']])
        idx.append(ti)
    mouts = vlib.run_model(exe_m, jobs)
    nun = 0
    for ti, mo in zip(idx, mouts):
        t = targets[ti]
        if isinstance(mo, str):
            ctx.broken.append(f'correspondence model: model driver failed ({mo}) on {t["tag"]}')
            break
        if mo[0] == [2, 99]:
            nun += 1
            continue
        res = refs[ti]['_full']
        if mo != res:
            where = [k for k, (x, y) in enumerate(zip(res[2], mo[2])) if x != y] if len(mo) > 2 else []
            ctx.report(f'C20/model-differs({t["tag"]})',
                       {'suite': 'model', 'program': t['src'], 'level': t['level'], 'debug': t['debug'],
                        'impl_head': res[:2], 'model_head': mo[:2], 'state_fields': where}, False)
            continue
        # the observation used everywhere above is a view of that same state
        if mo[1] != refs[ti]['run']['ticks'] or mo[2][12] != refs[ti]['run']['events']:
            ctx.broken.append(f'harness: observation and full state disagree for {t["tag"]}')
    ctx.bump('unmodelled(pow/val)', nun)
    ctx.count('model', len(idx), set(idx))
    ctx.rule.append(f'model: every reference module that compiled ({len(idx)}) run by the extracted Models/Cpu.v run '
                    'with the same script and tick limit: stop kind, tick count and the complete final state '
                    '(stack, heap, control, events) must equal the real machine (float ** / VAL unmodelled: skipped, counted)')

    log('compiler-side pieces')
    # ---- compiler-side pieces
    if 'pieces' not in SKIP:
        pieces_suite(ctx, exe_d, gens, labs, ['0'] + seeds[:2] + [seeds[-1]], tier)

    log('variant histories')
    if 'variants' not in SKIP:
        variants_suite(ctx, tier, seed)
    log('dead code x literals x hash seeds')
    if 'deadcode' not in SKIP:
        deadcode_suite(ctx, tier, rseed, seed)

    t = targets[len(targets) // 2]
    ctx.sample({'suite': 'reference', 'tag': t['tag'], 'digest': refs[len(targets) // 2]['digest'],
                'verdict': refs[len(targets) // 2]['verdict']})
    g = [ti for ti in ok_targets if targets[ti]['kind'] == 'generated'][:1]
    if g:
        ctx.sample({'suite': 'generated', 'tag': targets[g[0]]['tag'], 'src_head': targets[g[0]]['src'][:400],
                    'ticks': refs[g[0]]['run']['ticks']})
    tm = os.times()
    ctx.extra['cpu_s_children'] = round(tm.children_user + tm.children_system, 1)
    ctx.extra['load_average_at_end'] = os.getloadavg()[0]
    log('finish')
    return ctx.finish(explanation=EXPLANATION)


def shrink_history(hist, target, ref, hs):
    """shortest suffix of `hist` after which `target` still differs from `ref`"""
    best = hist
    n = 1
    while n < len(hist):
        h = hist[-n:]
        out = vlib.run_impl('detfn.sequence', [{'steps': [{'t': x} for x in h] + [{'t': target, 'ref': ref}]}],
                            hashseed=hs)[0]
        if isinstance(out, list) and not out[-1].get('same'):
            best = h
            break
        n *= 2
    return {'fn': 'detfn.sequence', 'hashseed': hs, 'cwd': vlib.REPO,
            'case': {'steps': [{'t': x} for x in best] + [{'t': target, 'ref': ref}]}}


EXPLANATION = (
    'Category "other": functional model + perturbed correspondence. Proved (Coq, closed): the result of the machine '
    'model\'s run is independent of the tick limit once it stops by itself (state, event list, tick count), two '
    'machines under any tick schedule behave as alone, the DEFtype letter set may be enumerated in any permutation, '
    'the label set is observed through membership only, DATA parts and the literal table are first-occurrence '
    'functions of the source order. That a Gallina function has no hidden inputs is a typing fact, so the theorem '
    'content is thin; the property is carried by the exploration: every target is observed in a pristine '
    'interpreter (hash seed 0) and again under 4 other hash seeds + PYTHONHASHSEED=random, after histories of other '
    'compilations in the same process (chains up to N/32 long and explicit k=1,5,20 incl. failing programs and the '
    'same program at another level), in another cwd, a second later, in a newly started interpreter, with two '
    'Compiler instances alive, in a thread, and with machines run repeatedly and interleaved; all observations are '
    'compared with the single reference (sha256 of the canonical observation, full diff on mismatch) and the '
    'reference run with the extracted machine model. Any implementation-vs-implementation difference is reported '
    'with the program and the two environments. Not covered: hash seeds, histories and schedules outside the '
    'enumerated ones; the debug section as bytes; OS signals; real-time devices.')


def replay(path):
    d = json.load(open(path))
    first = d.get('first') or {}
    ea, eb = first.get('env_a'), first.get('env_b')
    print(json.dumps({k: v for k, v in d.items() if k != 'first'}, indent=1))
    print(json.dumps({k: v for k, v in first.items() if k not in ('env_a', 'env_b')}, indent=1)[:4000])
    if not (ea and eb and 'fn' in ea and 'fn' in eb):
        return 0

    def run(env):
        os.makedirs(env.get('cwd') or vlib.REPO, exist_ok=True)
        case = dict(env['case'])
        r = vlib.run_impl(env['fn'], [case], hashseed=env.get('hashseed', '0'), cwd=env.get('cwd'))[0]
        if isinstance(r, list):
            r = r[-1]
        if isinstance(r, dict) and 'runs' in r:
            return {'run': r['runs'].get(env.get('which_run'))}
        return r
    case_a = dict(ea['case'])
    case_a.pop('ref', None)
    ea = dict(ea, case=case_a)
    a = run(ea)
    # second environment without the reference digest so that the full observation comes back
    cb = json.loads(json.dumps(eb['case']))
    cb.pop('ref', None)
    for st in cb.get('steps', []):
        if 'ref' in st:
            st['ref'] = None
    b = run(dict(eb, case=cb))
    if 'run' in b and 'verdict' not in b:
        part, dd = run_diff(a.get('run'), b.get('run'))
    elif 'value' in eb:
        f = first.get('field')
        part, dd = (None, None) if a.get(f) == b.get(f) else (f, {'a': a.get(f), 'b': b.get(f)})
    else:
        part, dd = first_diff(a, b)
    if part is None:
        print('replay: the two environments now agree')
        return 0
    print(f'replay: still differs in {part}: {json.dumps(dd)[:1500]}')
    return 1
