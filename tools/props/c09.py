"""C09 - binary module, loader, disassembler and assembly listing agree.

Theorems: coq/Props/C09.v (instruction / code / section codecs, disassembly of
assembled items = listing after resolution, soundness of the target/frame
checker) + the finite obligations of coq/Proofs/InstrsOk.v over the instruction
table regenerated from qvm/instrs.py by tools/gen_tables.py.

Correspondence (T-bin): for every module the real compiler produces here
(repository corpus + feature programs x 6 configurations) and for synthetic
modules at the field-width limits: real bytes(code) / QModule.parse /
disassemble() / str(code) / QvmCode.assembled / QvmCpu.get_instruction_at
against Models/Codec.v, Listing.v; the extracted checker Targets.targets_ok and
the frame declarations are run on every module (translation validation)."""
import json
import os
import re

import vlib
from vlib import Ctx

PROP = 'C09'
CONFIGS = [(lvl, dbg) for lvl in (0, 1, 2) for dbg in (False, True)]


# ------------------------------------------------------------------ programs

def cp437_chars():
    """every character cp437 can encode that a source string literal can hold"""
    out = []
    for n in range(1, 256):
        if n in (10, 13, 34, 26):
            continue
        out.append(bytes([n]).decode('cp437'))
    return out


def feature_programs(tier='thorough'):
    """hand-written programs covering instruction kinds, literal contents, DATA
    layouts and routine/label shapes the corpus leaves out (quick: the small
    variants only; thorough: the same plus the large ones)"""
    P = []

    def add(name, src):
        P.append({'file': 'feature:' + name, 'idx': 0, 'src': src})
    chars = cp437_chars()
    # printable cp437 in chunks (one literal each) and one with all of them
    visible = [c for c in chars if ord(c) >= 32]
    lines = []
    for i in range(0, len(visible), 16):
        lines.append('PRINT "' + ''.join(visible[i:i + 16]) + '"')
    lines.append('a$ = "' + ''.join(visible) + '"')
    add('cp437-visible', '\n'.join(lines))
    add('cp437-control', '\n'.join(f'PRINT "{c}x"' for c in chars if ord(c) < 32))
    add('data-empty-items', '\n'.join([
        'DATA 1,,3', 'DATA ,', 'DATA "a, b",  c d  ,', 'DATA', 'lbl1:', 'DATA ,,,,',
        'lbl2:', 'DATA "x"', 'READ a$, b$, c$', 'RESTORE lbl1', 'READ d$', 'RESTORE lbl2', 'READ e$']))
    add('data-many-parts', '\n'.join(
        [f'l{i}:\nDATA {i},"s{i}",' for i in range(40)] + ['READ a$', 'RESTORE l7', 'READ b$']))
    def many_labels(n):
        return '\n'.join(
            ['ON ERROR GOTO h', 'i% = 0'] +
            [f'l{i}:\ni% = i% + 1\nIF i% > 100 THEN GOTO done\nGOSUB s{i % 4}' for i in range(n)] +
            ['GOTO l3', 'done:', 'END'] +
            [f's{i}:\nPRINT {i}\nRETURN' for i in range(4)] +
            ['h:', 'RESUME NEXT'])

    def many_routines(n):
        subs = []
        for i in range(n):
            subs.append(f'SUB p{i}(a%, b&, c!, d#, e$)\n  DIM loc{i} AS LONG\n  loc{i} = a% + b&\n'
                        f'  PRINT loc{i}; c!; d#; e$\nEND SUB')
            subs.append(f'FUNCTION f{i}%(x%)\n  f{i}% = x% + {i}\nEND FUNCTION')
        return '\n'.join(
            [f'DECLARE SUB p{i}(a%, b&, c!, d#, e$)\nDECLARE FUNCTION f{i}%(x%)' for i in range(n)] +
            [f'p{i} f{i}%({i}), {i}&, {i}.5, {i}.25#, "s{i}"' for i in range(n)] + subs)
    add('many-labels-8', many_labels(8))
    add('many-routines-5', many_routines(5))
    if tier != 'quick':
        add('many-labels-30', many_labels(30))
        add('many-routines-25', many_routines(25))
    add('globals-and-fields', '''
TYPE allt
  i AS INTEGER
  l AS LONG
  s AS SINGLE
  d AS DOUBLE
  t AS STRING
END TYPE
DIM SHARED gi AS INTEGER, gl AS LONG, gs AS SINGLE, gd AS DOUBLE, gt AS STRING
DIM SHARED gr AS allt
DIM lr AS allt
gi = 1: gl = 2: gs = 3.5: gd = 4.5#: gt = "t"
gr.i = gi: gr.l = gl: gr.s = gs: gr.d = gd: gr.t = gt
lr.i = gr.i: lr.l = gr.l: lr.s = gr.s: lr.d = gr.d: lr.t = gr.t
PRINT lr.i; lr.l; lr.s; lr.d; lr.t; gi; gl; gs; gd; gt
x% = gs: y& = gd: z! = gl: w# = gl: v! = y&: u# = y&: q& = w#: r% = w#: o! = w#
useg
SUB useg
  gi = gi + 1
  PRINT gr.t; gr.d
END SUB
''')
    add('records-arrays', '''
TYPE pt
  x AS INTEGER
  y AS LONG
END TYPE
TYPE box
  a AS pt
  b AS pt
  n AS STRING
END TYPE
DIM SHARED g AS box
DIM SHARED ga(1 TO 3, 2) AS DOUBLE
DIM b1 AS box
DIM arr(5) AS pt
DIM d2(1 TO 2, 1 TO 3) AS INTEGER
n% = 4
DIM dyn(n%) AS SINGLE
g.a.x = 1: g.b.y = 2: g.n = "g"
b1.a.y = g.b.y + 1
arr(2).y = 7
d2(1, 2) = 9
dyn(3) = 1.5
ga(2, 1) = 2.5#
PRINT g.a.x; b1.a.y; arr(2).y; d2(1, 2); dyn(3); ga(2, 1); LBOUND(d2, 2); UBOUND(dyn)
g.b.x = 3: b1.b.x = g.b.x
PRINT g.b.x; b1.b.x
show b1, 3
SUB show(v AS box, k%)
  STATIC cnt AS INTEGER
  cnt = cnt + k%
  PRINT v.n; cnt; g.n
  ga(1, 0) = cnt
END SUB
''')
    add('record-param-one-field', '''
TYPE one
  v AS LONG
END TYPE
DIM r AS one
r.v = 5
s r
SUB s(p AS one)
  PRINT p.v
END SUB
''')
    add('array-param', '''
DIM a(3) AS INTEGER
a(1) = 4
s a(), 1
SUB s(x() AS INTEGER, i%)
  PRINT x(i%)
END SUB
''')
    add('numeric-ops', '''
a% = 7: b% = 2: c& = 100000: d! = 1.5: e# = 2.25#
PRINT a% + b%; a% - b%; a% * b%; a% / b%; a% \\ b%; a% MOD b%; a% ^ b%
PRINT a% AND b%; a% OR b%; a% XOR b%; a% EQV b%; a% IMP b%; NOT a%; -a%
PRINT a% = b%; a% <> b%; a% < b%; a% > b%; a% <= b%; a% >= b%
PRINT c& + a%; d! * e#; CINT(d!); CLNG(e#); INT(d!); ABS(-a%); ABS(e#); ABS(c&); ABS(d!)
PRINT d! ^ 2; e# ^ .5#; c& \\ 7&; c& MOD 7&; c& AND 255&; NOT c&; d! < e#; e# >= 2#; c& = 5&
x% = c& \\ 100: y& = d!: z! = e#: w# = a%: v% = e#
PRINT x%; y&; z!; w#; v%
PRINT -2; -1; 0; 1; 2; -2&; -1&; 0&; 1&; 2&; -2!; -1!; 0!; 1!; 2!; -2#; -1#; 0#; 1#; 2#
PRINT 3; 40000; 1.25; 1.1; 1D+300; 3.5E+20; .1#; 123456789
''')
    add('string-ops', '''
s$ = "Hello, World"
PRINT LEN(s$); LEFT$(s$, 3); RIGHT$(s$, 3); MID$(s$, 2, 3); MID$(s$, 4); UCASE$(s$); LCASE$(s$)
PRINT ASC(s$); CHR$(65); STR$(12); VAL("3.5"); INSTR(s$, "World"); INSTR(3, s$, "l")
PRINT LTRIM$("  a"); RTRIM$("a  "); SPACE$(3); STRING$(3, 65); STRING$(2, "ab")
PRINT s$ + "!"
IF s$ = "x" THEN PRINT 1
IF s$ < "z" THEN PRINT 2
IF s$ <> "z" AND s$ >= "A" THEN PRINT 3
t$ = INKEY$
PRINT s$; LEN(t$)
''')
    add('control-flow', '''
FOR i% = 1 TO 3
  FOR j& = 3 TO 1 STEP -1
    IF i% = j& THEN PRINT i% ELSE PRINT j&
  NEXT j&
NEXT
k% = 0
WHILE k% < 3
  k% = k% + 1
WEND
DO
  k% = k% - 1
  IF k% = 1 THEN EXIT DO
LOOP UNTIL k% <= 0
DO WHILE k% < 5
  k% = k% + 2
LOOP
DO UNTIL k% > 9: k% = k% + 3: LOOP
DO: k% = k% + 1: LOOP WHILE k% < 20
SELECT CASE k%
CASE 1
  PRINT "one"
CASE 2 TO 5, 7
  PRINT "few"
CASE IS > 10
  PRINT "many"
CASE ELSE
  PRINT "else"
END SELECT
SELECT CASE "b"
CASE "a": PRINT 1
CASE "b": PRINT 2
END SELECT
IF k% > 3 THEN
  PRINT "a"
ELSEIF k% > 2 THEN
  PRINT "b"
ELSE
  PRINT "c"
END IF
GOTO a2
a1:
a2:
GOSUB sr
GOSUB sr2
END
sr:
RETURN
sr2:
RETURN a1
''')
    add('errors', '''
ON ERROR GOTO h
x% = 1
y% = x% \\ 0
PRINT ERR
ON ERROR GOTO 0
ON ERROR RESUME NEXT
y% = x% \\ 0
END
h:
PRINT ERR
RESUME NEXT
''')
    add('errors-resume', '''
ON ERROR GOTO h
x% = 0
y% = 1 \\ x%
PRINT "after"
END
h:
x% = 1
RESUME
''')
    add('devices', '''
CLS
COLOR 7, 1
LOCATE 2, 3
WIDTH 80
VIEW PRINT 1 TO 10
SCREEN 0
BEEP
SOUND 440, 1
PLAY "abc"
RANDOMIZE 5
PRINT RND; RND(1); TIMER
POKE 10, 1
PRINT PEEK(10)
DEF SEG = 0
DEF SEG
INPUT "n"; n%, m$
INPUT q!
PRINT USING "##.##"; 1.5
KILL "nofile"
''')
    add('functions', '''
DECLARE FUNCTION fact&(n&)
DECLARE FUNCTION cat$(a$, b$)
DECLARE FUNCTION half!(x!)
DECLARE FUNCTION dbl#(x#)
PRINT fact&(5); cat$("a", "b"); half!(3); dbl#(1.5#)
FUNCTION fact&(n&)
  IF n& <= 1 THEN
    fact& = 1
    EXIT FUNCTION
  END IF
  fact& = n& * fact&(n& - 1)
END FUNCTION
FUNCTION cat$(a$, b$)
  cat$ = a$ + b$
END FUNCTION
FUNCTION half!(x!)
  half! = x! / 2
END FUNCTION
FUNCTION dbl#(x#)
  dbl# = x# * 2
END FUNCTION
''')
    add('consts-deftypes', '''
DEFINT A-C
DEFLNG D
DEFSNG E
DEFDBL F
DEFSTR S
CONST k = 10
CONST pi = 3.14159
CONST sn$ = "name"
a = k: d = 70000: e = pi: f = pi: s = sn$
PRINT a; d; e; f; s
''')
    add('empty', '')
    add('only-data', 'DATA 1')
    add('rem', "REM nothing\n' comment\nPRINT 1 ' tail")
    return P


# record parameters: the D14 family seen from the frame declaration
RECORD_PARAM_PROGRAMS = [
    ('record-param-two-fields', '''
TYPE rec
  a AS INTEGER
  b AS STRING
END TYPE
DIM r AS rec
r.a = 7
foo r, 5
SUB foo(p AS rec, n AS INTEGER)
  PRINT n
  PRINT p.a
END SUB
'''),
    ('record-param-nested', '''
TYPE pt
  x AS INTEGER
  y AS LONG
END TYPE
TYPE box
  a AS pt
  b AS pt
END TYPE
DIM b AS box
s b
SUB s(v AS box)
  PRINT v.a.x
END SUB
'''),
]


# ------------------------------------------------------------------ jobs

def data_job(d):
    return [[([0] if it[0] == 0 else [1, it[1]]) for it in part] for part in d]


def items_job(items):
    out = []
    for it in items:
        if it[0] == 2:
            out.append([2, it[1], [list(a) for a in it[2]]])
        else:
            out.append(list(it))
    return out


def module_jobs(r):
    """model jobs for one analysed module (impl result r)"""
    jobs = {}
    if 'bytes14' not in r:
        e = r['emitted']
        jobs['enc'] = [2, e['literals'], data_job(e['data']), 0, []]
        jobs['asm'] = [5, e['literals'], items_job(r['items'])]
        return jobs
    if 'parse_exc' in r:
        jobs['dec'] = [1, r['bytes14']]
        return jobs
    p = r['parse']
    e = r['emitted']
    jobs['dec'] = [1, r['bytes14']]
    jobs['enc'] = [2, e['literals'], data_job(e['data']), e['nglobals'], e['code']]
    jobs['dis'] = [3, p['literals'], p['code']]
    jobs['lst'] = [4, items_job(r['items'])]
    jobs['asm'] = [5, e['literals'], items_job(r['items'])]
    jobs['tgt'] = [6, p['code'], p['nglobals']]
    jobs['spec'] = [9, e['literals'], items_job(r['items'])]
    jobs['cpu'] = [10, p['code']]
    return jobs


def model_mod(out):
    """model decode result -> the impl's parse format"""
    if out[0] != 0:
        return {'err': out[1]}
    return {'literals': [vlib.l2s(s) for s in out[1]],
            'data': [[([0] if it[0] == 0 else [1, vlib.l2s(it[1])]) for it in part] for part in out[2]],
            'nglobals': out[3], 'code': out[4], 'debug': bool(out[5])}


def first_diff(a, b):
    n = min(len(a), len(b))
    for i in range(n):
        if a[i] != b[i]:
            return i
    return n if len(a) != len(b) else None


def text_diff(a, b):
    la, lb = a.split('\n'), b.split('\n')
    for i in range(max(len(la), len(lb))):
        x = la[i] if i < len(la) else None
        y = lb[i] if i < len(lb) else None
        if x != y:
            return {'line': i, 'impl': x, 'model': y}
    return None


OPRE = re.compile(r'^[0-9a-f]{8}: (\S+)')
DISRE = re.compile(r'^([0-9a-f]{8}): (\S+)\s*(.*)$', re.S)


def op_of_line(line):
    if line is None:
        return '?'
    m = OPRE.match(line)
    return m.group(1) if m else '?'


class Checker:
    def __init__(self, ctx, exe):
        self.ctx = ctx
        self.exe = exe
        self.programs = 0
        self.disagreements_checked = 0
        self.current = None
        self.mnemonics = set()

    def run_models(self, results):
        """results: list of impl results; returns list of dict name -> model output"""
        flat = []
        index = []
        for r in results:
            if not isinstance(r, dict) or 'emitted' not in r:
                index.append(None)
                continue
            jobs = module_jobs(r)
            names = list(jobs)
            index.append((len(flat), names))
            flat += [jobs[n] for n in names]
        outs = vlib.run_model(self.exe, flat)
        res = []
        for ix in index:
            if ix is None:
                res.append(None)
                continue
            start, names = ix
            res.append({n: outs[start + i] for i, n in enumerate(names)})
        return res

    def rep(self, sig, case, detail, found):
        self.disagreements_checked += 1
        cur = self.current or {}
        if sig in cur.get('expected_sigs', ()):
            # a synthetic module built to be rejected by the checker: detection is the expected outcome
            self.ctx.bump('synthetic-defect-detected:' + sig)
            return 'expected'
        d = {'case': case}
        d.update(detail)
        if cur.get('replay'):
            d['replay'] = cur['replay']
        return self.ctx.report(sig, d, found)

    def check(self, suite, case, r, mo, frames_out=None):
        """all comparisons for one module"""
        ctx = self.ctx
        desc = case.get('desc', case)
        self.current = case
        if isinstance(r, dict) and r.get('harness'):
            ctx.broken.append(f'correspondence {suite}: implementation worker failed: '
                              f'{r.get("stderr", "")[-300:]}')
            return
        if 'exc' in r and 'emitted' not in r:
            # the compiler / harness raised before a module existed: not a C09 observation
            ctx.broken.append(f'correspondence {suite}: {desc}: {r["exc"]} at {r.get("where")}: '
                              f'{r.get("msg", "")[:200]}')
            return
        for k, v in mo.items():
            if isinstance(v, str):
                ctx.broken.append(f'correspondence {suite}: model driver failed ({v}) on job {k} of {desc}')
                return
        self.programs += 1
        e = r['emitted']
        if 'bytes_exc' in r:
            # the writer raised: compare with the model of the writer
            # sections are built first (literals, data), then the code is assembled
            exc = r['bytes_exc'][0]
            what = case.get('limit', 'unclassified')
            m, a = mo['enc'], mo['asm']
            if m[0] == 1:
                mk = {1: ['error'], 2: ['UnicodeEncodeError']}[m[1]]
            elif a[0] == 1:
                mk = {1: ['KeyError', 'ValueError'], 2: ['error'], 3: ['AssertionError'],
                      4: ['OverflowError']}[a[1]]
            else:
                mk = []
            if exc not in mk:
                self.rep('C09/encode-model-differs(raise)', desc,
                         {'exc': r['bytes_exc'], 'model': [m[:2], a[:2]]}, False)
            elif not case.get('legit_reject'):
                self.rep(f'C09/writer-raises({exc},{what})', desc,
                         {'exc': r['bytes_exc']}, True)
            return
        if 'parse_exc' in r:
            # the real loader refuses a module the real compiler wrote
            self.rep(f'C09/loader-raises({r["parse_exc"][0]})', desc,
                     {'exc': r['parse_exc'], 'model_decode': _short(model_mod(mo['dec']))}, True)
            return
        p = r['parse']
        # --- the loader recovers what the compiler handed to the writer (property, real vs real)
        for f in ('literals', 'data', 'nglobals', 'code'):
            if p[f] != e[f]:
                self.rep(f'C09/loader-differs({f})', desc,
                         {'emitted': _short(e[f]), 'loaded': _short(p[f])}, True)
        # --- decode_module = QModule.parse
        dm = model_mod(mo['dec'])
        if 'err' in dm:
            self.rep('C09/decode-model-differs(error)', desc, {'model': dm}, False)
        else:
            for f in ('literals', 'data', 'nglobals', 'code'):
                if dm[f] != p[f]:
                    self.rep(f'C09/decode-model-differs({f})', desc,
                             {'impl': _short(p[f]), 'model': _short(dm[f])}, False)
        # --- encode_module = bytes(code) sections 1-4
        m = mo['enc']
        if m[0] != 0 or m[1] != r['bytes14']:
            self.rep('C09/encode-model-differs', desc,
                     {'model': m[:2] if m[0] else 'bytes', 'at': first_diff(m[1], r['bytes14']) if m[0] == 0 else None},
                     False)
        # --- disassembler model
        if 'disasm' in r:
            m = mo['dis']
            if m[0] != 0:
                self.rep('C09/disasm-model-differs(error)', desc, {'model': m}, False)
            else:
                t = vlib.l2s(m[1])
                if t != r['disasm']:
                    self.rep('C09/disasm-model-differs', desc, text_diff(r['disasm'], t), False)
            for line in r['disasm'].split('\n'):
                mm = OPRE.match(line)
                if mm:
                    self.mnemonics.add(mm.group(1))
        else:
            m = mo['dis']
            kind = {'SystemExit': 1, 'error': 2, 'IndexError': 3}.get(r['disasm_exc'][0])
            if m[0] != 1 or m[1] != kind:
                self.rep('C09/disasm-model-differs(raise)', desc,
                         {'impl': r['disasm_exc'], 'model': m[:2]}, False)
            else:
                self.rep(f'C09/disassembler-raises({r["disasm_exc"][0]})', desc,
                         {'impl': r['disasm_exc']}, True)
        # --- listing model (code part)
        m = mo['lst']
        t = vlib.l2s(m[1])
        if t != r['listing_code']:
            self.rep('C09/listing-model-differs', desc, text_diff(r['listing_code'] or '', t), False)
        # --- assembler model
        m = mo['asm']
        if m[0] != 0:
            self.rep('C09/assemble-model-differs(error)', desc, {'model': m}, False)
        elif m[1] != e['code']:
            self.rep('C09/assemble-model-differs', desc, {'at': first_diff(m[1], e['code'])}, False)
        # --- PROPERTY: the disassembly shows the listing after resolution (Coq specification
        #     expected_dis against the real disassembler)
        m = mo['spec']
        if 'disasm' in r:
            if m[0] != 0:
                self.rep('C09/disasm-vs-listing(spec-undefined)', desc, {}, True)
            else:
                t = vlib.l2s(m[1])
                if t != r['disasm']:
                    d = text_diff(r['disasm'], t)
                    self.rep(f'C09/disasm-vs-listing({op_of_line(d["model"])})', desc,
                             {'line': d['line'], 'disassembly': d['impl'], 'listing_resolved': d['model']},
                             True)
        # --- PROPERTY: targets / operands (extracted checker, every module)
        m = mo['tgt']
        if m[0] != 0:
            self.rep('C09/code-does-not-decode', desc, {'model': m}, True)
        else:
            for off, reason in m[1]:
                what = {1: 'target-not-instruction-start', 2: 'local-operand-outside-frame',
                        3: 'global-operand-outside-globals'}[reason]
                self.rep(f'C09/{what}', desc, {'offset': off}, True)
        # --- the machine's decoder
        m = mo['cpu']
        if 'cpu' in r and m[0] == 0:
            self.check_cpu(desc, r, m[1], p['literals'])
        elif 'cpu_exc' in r:
            self.rep(f'C09/cpu-decoder-raises({r["cpu_exc"][0]})', desc, {'impl': r['cpu_exc']}, True)
        # --- the real disassembler against the real machine decoder (no model involved)
        if 'cpu' in r and 'disasm' in r:
            self.check_dis_vs_cpu(desc, r)
        # --- D39: the .data part of the listing
        self.check_listing_data(desc, r)

    def check_cpu(self, desc, r, mprog, lits):
        cpu = r['cpu']
        if len(cpu) != len(mprog):
            self.rep('C09/cpu-decode-model-differs(length)', desc,
                     {'impl': len(cpu), 'model': len(mprog)}, False)
            return
        for (off, op, ops, size), (moff, mname, mops) in zip(cpu, mprog):
            mname = vlib.l2s(mname)
            ok = off == moff and op == mname and len(ops) == len(mops)
            if ok:
                for o, mo_ in zip(ops, mops):
                    if o[0] == 2:
                        # push$: the machine hands out the literal; the model the signed index
                        idx = mo_[1]
                        if idx < 0:
                            self.rep(f'C09/push$-index-read-signed(idx>=32768)', desc,
                                     {'offset': off, 'machine_literal': o[1][:40], 'signed_index': idx,
                                      'written_index': idx + 65536,
                                      'emitted_literal': lits[idx + 65536][:40] if idx + 65536 < len(lits) else None},
                                     True)
                        elif idx >= len(lits) or lits[idx] != o[1]:
                            ok = False
                    elif o != mo_:
                        ok = False
            if not ok:
                self.rep(f'C09/cpu-decode-model-differs({op})', desc,
                         {'impl': [off, op, ops], 'model': [moff, mname, mops]}, False)
                return

    def check_dis_vs_cpu(self, desc, r):
        import struct
        lines = re.split(r'\n(?=[0-9a-f]{8}: )', r['disasm'][:-1]) if r['disasm'] else []
        cpu = r['cpu']
        if len(lines) != len(cpu):
            self.rep('C09/disassembler-vs-machine-decoder(length)', desc,
                     {'disassembly': len(lines), 'machine': len(cpu)}, True)
            return
        for line, (off, op, ops, size) in zip(lines, cpu):
            m = DISRE.match(line)
            ok = bool(m) and int(m.group(1), 16) == off and m.group(2) == op
            if ok:
                rest = m.group(3)
                if op == 'push$':
                    k = rest.find(';')
                    idx = int(rest[:k].strip())
                    lit = rest[k + 2:][1:-1]
                    if ops[0][1] != lit and idx < 32768:
                        ok = False
                else:
                    toks = [t for t in rest.split(', ')] if rest else []
                    if len(toks) != len(ops):
                        ok = False
                    else:
                        for t, o in zip(toks, ops):
                            if o[0] == 0:
                                v = int(t, 16) if t.startswith('0x') else int(t)
                                ok = ok and v == o[1]
                            elif o[0] == 1:
                                want = struct.unpack('>d', struct.pack('>Q', o[1]))[0]
                                ok = ok and (repr(want) == t)
            if not ok:
                self.rep(f'C09/disassembler-vs-machine-decoder({op})', desc,
                         {'disassembly': line, 'machine': [off, op, ops]}, True)
                return

    def check_listing_data(self, desc, r):
        if r.get('listing_data') is None:
            return
        e = r['emitted']
        want = ''
        blank = ''
        for label, part in zip(r['data_labels'], e['data']):
            want += f'{label}:\n'
            blank += f'{label}:\n'
            for it in part:
                want += '    ' + ('<EMPTY>' if it[0] == 0 else it[1]) + '\n'
                blank += '    ' + ('<EMPTY>' if it[0] == 0 else '') + '\n'
        got = r['listing_data']
        if got == want:
            return
        if got == blank:
            self.rep('C09/listing-data-items-blank', desc,
                     {'listing': got[:200], 'items': want[:200]}, True)
        else:
            self.rep('C09/listing-data-differs', desc, {'listing': got[:300], 'items': want[:300]}, True)

    def check_frames(self, suite, cases, results, mouts):
        """frame declarations against the routines' storage (second model round:
        needs the label offsets of the assembler model)"""
        jobs = []
        index = []
        for case, r, mo in zip(cases, results, mouts):
            if mo is None or 'asm' not in mo or isinstance(mo['asm'], str) or mo['asm'][0] != 0:
                index.append(None)
                continue
            labels = {vlib.l2s(n): off for n, off in reversed(mo['asm'][2])}
            rcs = []
            names = []
            for rt in r['routines']:
                if rt['label'] not in labels:
                    continue
                rcs.append([labels[rt['label']], rt['param_sizes'], rt['local_sizes']])
                names.append(rt)
            index.append((len(jobs), names))
            jobs.append([7, r['parse']['code'], rcs])
        outs = vlib.run_model(self.exe, jobs)
        for case, r, ix in zip(cases, results, index):
            if ix is None:
                continue
            self.current = case
            k, names = ix
            o = outs[k]
            desc = case.get('desc', case)
            if isinstance(o, str) or o[0] != 0:
                self.ctx.broken.append(f'correspondence {suite}: frame job failed on {desc}: {o}')
                continue
            for rt, (code, decl) in zip(names, o[1]):
                self.ctx.bump('routines')
                if code == 0:
                    # the real memlayout sizes must be what was declared
                    if decl != [rt['params_size'], rt['locals_size']]:
                        self.rep('C09/frame-decl-vs-memlayout', desc, {'routine': rt['name'], 'decl': decl}, True)
                    continue
                kinds = rt['param_kinds']
                wide = [k_ for k_, s in zip(kinds, rt['param_sizes']) if s != 1]
                if code == 1 and wide and all(k_ == 'record' for k_ in wide):
                    sig = 'C09/frame-decl-params(counted-by-type-size,record-parameter)'
                elif code == 1:
                    sig = f'C09/frame-decl-params(counted-by-type-size,{"+".join(sorted(set(wide)))})'
                elif code == 3:
                    sig = 'C09/frame-decl-missing'
                else:
                    sig = 'C09/frame-decl-differs'
                self.rep(sig, desc, {'routine': rt['name'], 'declared': decl,
                                     'parameters': len(kinds), 'param_sizes': rt['param_sizes'],
                                     'locals_need': sum(rt['local_sizes'])}, True)


def _short(x):
    s = json.dumps(x)
    return s if len(s) < 400 else s[:400] + '...'


# ------------------------------------------------------------------ suites

def run_compiled_suite(ctx, ck, suite, progs):
    cases = []
    for pr in progs:
        for lvl, dbg in CONFIGS:
            cases.append({'src': pr['src'], 'level': lvl, 'debug': dbg,
                          'desc': f"{pr['file']}#{pr['idx']} -O{lvl}{' -g' if dbg else ''}",
                          'replay': {'fn': 'codecfn.compiled',
                                     'case': {'src': pr['src'], 'level': lvl, 'debug': dbg}}})
    results = vlib.run_impl('codecfn.compiled', cases)
    mouts = ck.run_models(results)
    for c, r, mo in zip(cases, results, mouts):
        if mo is None:
            ck.check(suite, c, r, {})
        else:
            ck.check(suite, c, r, mo)
    ck.check_frames(suite, cases, results, mouts)
    ctx.count(suite, len(cases), set(c['src'] for c in cases))
    if cases:
        ctx.sample({'suite': suite, 'case': cases[len(cases) // 2]['desc'],
                    'source_head': cases[len(cases) // 2]['src'][:120]})
    return cases, results


def run_coqchk(ctx):
    """independent re-check of the compiled theory of Props/C09 and everything it
    depends on (coqchk -o); its context summary goes into the evidence"""
    import subprocess
    with vlib.Lock():
        try:
            p = subprocess.run(['timeout', '1200', 'coqchk', '-silent', '-o', '-Q', '.', 'QV', 'QV.Props.C09'],
                               cwd=vlib.COQ, stdout=subprocess.PIPE, stderr=subprocess.STDOUT, text=True,
                               timeout=1230)
            out, rc = p.stdout, p.returncode
        except Exception as e:  # noqa
            out, rc = repr(e), 99
    m = re.search(r'\* Axioms:(.*?)\n\s*\n\* ', out, re.S)
    axioms = m.group(1).strip() if m else '?'
    ctx.extra['coqchk'] = {'cmd': 'coqchk -silent -o -Q . QV QV.Props.C09', 'exit': rc, 'axioms': axioms,
                           'summary': out[-900:]}
    if rc != 0 or axioms != '<none>':
        ctx.broken.append(f'coqchk of QV.Props.C09: exit {rc}, axioms {axioms[:200]}')
    else:
        ctx.trusted_base.append('coqchk -o over QV.Props.C09 and its dependencies: Axioms: <none>')


def main(tier, seed):
    ctx = Ctx(PROP, tier, seed, 'proof')
    ctx.trusted_base = [
        'Coq 8.16.1 kernel (coqc, full .vo build); vm_compute for the finite table obligations, the _refuted witnesses and the Examples',
        'no axioms: every theorem prints "Closed under the global context"',
        'extraction: ExtrOcamlBasic only; Z, positive, nat kept inductive',
        'unverified glue: tools/gen_tables.py (table translator), ocaml/driver.ml, tools/vlib, tools/props/c09.py, tools/implfns/codecfn.py (conversion of QvmInstr.final tuples to assembly items; variable indices are taken from the real memlayout functions)',
        'modelled not verified: qbee/qvm_codegen.py QvmCode.__bytes__/assembled/__str__ (code part), qvm/module.py QModule.parse/parse_*_section/disassemble, qvm/cpu.py get_instruction_at (Models/Cpu.v decode), qvm/instrs.py (generated); the debug section (pickle/gzip) is outside the model',
    ]
    # ---- translator tie
    import gen_tables
    try:
        tables = gen_tables.main(vlib.REPO)
    except gen_tables.GenError as e:
        ctx.broken.append(f'translator tie (tools/gen_tables.py) aborted: {e}')
        ctx.obligations = ['gen_tables']
        return ctx.finish()
    ok = ctx.prove()
    if ok and tier == 'thorough':
        run_coqchk(ctx)
    try:
        exe = ctx.model('Codec')
    except vlib.BuildError as e:
        ctx.broken.append(f'model build failed: {e.what}')
        ctx.extra['model_error_tail'] = e.log[-1500:]
        return ctx.finish()
    ck = Checker(ctx, exe)
    # ---- finite obligations entry by entry (names the failing mnemonic/opcode when the
    #      table obligations of Proofs/InstrsOk.v no longer hold)
    t = vlib.run_model(exe, [[8]])[0]
    if isinstance(t, str):
        ctx.broken.append('table check job failed: ' + t)
    else:
        for name, op, code in t[1]:
            why = {1: 'opcode not decoded by Cpu.decode', 2: 'decodes to another mnemonic',
                   3: 'decodes with another size', 4: 'operand read with another width/signedness',
                   5: 'decoder accepts fewer operand bytes'}.get(code, str(code))
            ctx.report(f'C09/table-entry(mnemonic={vlib.l2s(name)},opcode={op},{code})',
                       {'mnemonic': vlib.l2s(name), 'opcode': op, 'why': why,
                        'obligation': 'decode_agrees_with_table_ok'}, False)
        for b in t[2]:
            ctx.report(f'C09/table-stray-opcode({b})',
                       {'byte': b, 'why': 'Cpu.decode accepts a byte that is no opcode of qvm/instrs.py',
                        'obligation': 'unknown_opcodes_ok'}, False)
        if not t[3]:
            ctx.report('C09/table-opcodes-not-unique', {'obligation': 'opcodes_unique_ok'}, False)
        if not t[4]:
            ctx.report('C09/table-mnemonics-not-unique', {'obligation': 'mnemonics_unique_ok'}, False)
        ctx.count('instruction_table', len(tables['instrs']) + 256, ())

    # ---- suite (a): corpus + feature programs x 6 configurations
    corpus = vlib.run_impl('corpus.load', [None])[0]
    progs = [c for c in corpus if isinstance(c, dict) and 'src' in c and
             ('success' in c['expected_result'].lower() or 'trap' in c['expected_result'].lower())]
    if tier == 'quick':
        idx = list(range(len(progs)))
        ctx.rng.shuffle(idx)
        keep = sorted(idx[:60])
        progs_q = [progs[i] for i in keep]
    else:
        progs_q = progs
    ctx.rule.append(f'a1: {len(progs_q)} of the {len(progs)} repository test programs expected to compile '
                    f'({"seeded subset" if tier == "quick" else "all"}) x 6 configurations (-O0/1/2 x -g); '
                    f'every module: parse/encode/disassemble/listing/assemble/decoder models, '
                    f'spec(listing) = disassembly, targets_ok, frame declarations; non-trivial = distinct source')
    run_compiled_suite(ctx, ck, 'corpus', progs_q)
    feats = feature_programs(tier)
    ctx.rule.append(f'a2: {len(feats)} feature programs (all cp437 characters a literal can hold, DATA with '
                    f'empty items / 40 parts, {"8" if tier == "quick" else "8 and 30"} labels, '
                    f'{"10" if tier == "quick" else "10 and 50"} routines, records/arrays/shared/static, '
                    f'globals and record fields of every type, every operator and builtin, all devices) '
                    f'x 6 configurations + 2 record-parameter programs')
    run_compiled_suite(ctx, ck, 'features', feats)
    recs = [{'file': 'feature:' + n, 'idx': 0, 'src': s} for n, s in RECORD_PARAM_PROGRAMS]
    run_compiled_suite(ctx, ck, 'record_params', recs)
    ctx.extra['mnemonics_seen_in_compiled_modules'] = len(ck.mnemonics)
    ctx.extra['mnemonics_not_seen_in_compiled_modules'] = sorted(
        set(op for op, _, _ in tables['instrs']) - ck.mnemonics)

    from props import c09_synth
    c09_synth.run(ctx, ck, tier, tables)

    ctx.extra['programs'] = ck.programs
    ctx.extra['disagreements_checked'] = ck.disagreements_checked
    return ctx.finish()


def replay(path):
    """re-run the recorded case on the implementation and the model; exit 1 when
    the recorded signature shows again"""
    d = json.load(open(path))
    first = d.get('first') or {}
    rp = first.get('replay')
    print(json.dumps({k: v for k, v in d.items() if k != 'first'}, indent=1)[:2000])
    if not rp:
        print(json.dumps(first, indent=1, default=str)[:6000])
        print('no executable replay recorded for this entry (broken obligation or tie)')
        return 1
    ctx = Ctx(PROP, 'quick', 0, 'proof')
    ctx.findings = []
    exe = ctx.model('Codec')
    ck = Checker(ctx, exe)
    case = dict(rp['case'])
    case['desc'] = 'replay'
    r = vlib.run_impl(rp['fn'], [case])[0]
    mo = ck.run_models([r])[0]
    ck.check('replay', case, r, mo if mo is not None else {})
    ck.check_frames('replay', [case], [r], [mo])
    sigs = sorted(set(v['signature'] for v in ctx.violations))
    for sg in sigs:
        print('reproduced:', sg)
    hit = d.get('signature') in sigs
    print('recorded signature', d.get('signature'), 'reproduces' if hit else 'does not reproduce')
    return 1 if hit else 0
