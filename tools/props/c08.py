"""C08 - debug information does not change what a program does.
Theorems: coq/Props/C08.v (Models/Peephole.v: optimize, erase_marks, the
assembler's offset/label computation).  Correspondence and property oracle on
real artefacts: the same source compiled with and without debug info at levels
0, 1, 2: instruction lists (erase_marks(-g) = no -g at levels 0/1), sections
1-3 byte-identical, acceptance identical, device events and outcome identical
on the real machine (RESUME / RESUME NEXT excepted), and at level 2 the model's
optimize/erase_marks on the REAL marked list against the real outputs."""
import json
import random
import vlib
from vlib import Ctx
from props import peepgen as pg

PROP = 'C08'
DBG_OPS = ('_dbg_info_start', '_dbg_info_end', '_empty_block')


def erase_py(parsed):
    return [i for i in parsed if i[0] not in DBG_OPS]


def program_pool(ctx, tier):
    corp = vlib.run_impl('corpus.load', [None])[0]
    corp = [c for c in corp if 'src' in c]
    progs = []
    if tier == 'quick':
        off = ctx.rng.randrange(4)
        corp = corp[off::4]
    for c in corp:
        progs.append({'id': f"{c['file']}:{c['idx']}", 'kind': 'corpus', 'src': c['src'],
                      'script': {'lines': ['1', '2', '3'],
                                 'rnd': [pg.fb(x) for x in c['rnd']] + [pg.fb(0.25)] * 5,
                                 'timer': [pg.fb(x) for x in c['timer']] + [pg.fb(1.5)] * 5,
                                 'inkey': c['inkey']}})
    npool = 80 if tier == 'quick' else 160
    ks = list(range(npool))
    if tier == 'quick':
        ks = sorted(ctx.rng.sample(range(80), 30))
    for k in ks:
        # the pool is fixed (seeded by the index only); VERIF_SEED sub-samples it
        src = pg.gen_program(random.Random(7000 + k), 'dbg')
        progs.append({'id': f'gen{k}', 'kind': 'gen', 'src': src,
                      'script': {'lines': ['1', '2', '3'], 'rnd': [pg.fb(0.25)] * 5,
                                 'timer': [pg.fb(1.5)] * 5, 'inkey': []}})
    for k, src in enumerate(pg.RESUME_PROGS):
        progs.append({'id': f'resume{k}', 'kind': 'resume', 'src': src, 'script': {}})
    for k, src in enumerate(EMPTY_BODY_PROGS):
        progs.append({'id': f'shape{k}', 'kind': 'shape', 'src': src, 'script': {}})
    return progs


# hand-written statement shapes named by the property
EMPTY_BODY_PROGS = [
    'a% = 1\nIF a% THEN\nEND IF\nPRINT "x"\n',
    'a% = 0\nIF a% THEN\nELSE\nEND IF\nPRINT "x"\n',
    'a% = 2\nIF a% = 1 THEN\nELSEIF a% = 2 THEN\nELSEIF a% = 3 THEN\nPRINT "3"\nELSE\nEND IF\nPRINT "x"\n',
    'a% = 1\nIF a% THEN PRINT "t" ELSE PRINT "f"\nIF a% = 0 THEN PRINT "t" ELSE PRINT "f"\n',
    'a% = 1\nIF a% THEN GOTO l1 ELSE GOTO l2\nl1:\nPRINT "1"\nl2:\nPRINT "2"\n',
    'a% = 2\nSELECT CASE a%\nCASE 1\nCASE 2\nCASE ELSE\nEND SELECT\nPRINT "x"\n',
    'a% = 2\nb% = 1\nSELECT CASE a%\nCASE 1\nPRINT "1"\nCASE 2\nSELECT CASE b%\nCASE 1\nCASE ELSE\nPRINT "e"\nEND SELECT\nEND SELECT\nPRINT "x"\n',
    'a% = 1 : b% = a% : a% = a% : PRINT a%; b% : IF a% THEN b% = 2 : PRINT b%\n',
    'FOR i% = 1 TO 3\nNEXT i%\nWHILE 0\nWEND\nDO\nLOOP UNTIL 1\nPRINT i%\n',
    'SUB p\nEND SUB\nFUNCTION f% (x%)\nf% = x% + 1\nEND FUNCTION\np\nPRINT f%(2)\n',
    'a% = 3\nIF a% > 2 THEN\n  GOTO done\nELSE\n  GOTO done\nEND IF\nPRINT "skipped"\ndone:\nPRINT "d"\nEND\nPRINT "never"\n',
    'x# = 3E10\nPRINT x#\nIF 0 THEN PRINT "n"\nIF 1 THEN PRINT "y"\n',
]


def run_summary(r):
    return [r['stop'], r['exc'], r['halted'], r['reason'], r['trap'], r['events']]


def is_prefix(a, b):
    return len(a) <= len(b) and b[:len(a)] == a


def check_program(ctx, p, r, jobs, tier, ajobs, sizes):
    """real-artefact checks of one program; model jobs are appended to `jobs`
    (level-2 optimize/erase) and `ajobs` (assembler offsets, level 1)"""
    pid = p['id']
    for lv in (0, 1, 2):
        d = r[str(lv)]
        g, n = d['g'], d['n']
        ctx.bump(f'verdict:{n["verdict"] if n["verdict"] == "ok" else n["verdict"][0]}')
        if (g['verdict'] == 'ok') != (n['verdict'] == 'ok') or \
           (g['verdict'] != 'ok' and g['verdict'] != n['verdict']):
            ctx.report(f'C08/acceptance-differs(level={lv},{n["verdict"]}->{g["verdict"]})',
                       {'program': pid, 'src': p['src'], 'level': lv}, True)
            continue
        if g['verdict'] != 'ok':
            continue
        # ---- code: erase_marks(-g) = no -g at levels 0 and 1
        eg = erase_py(g['instrs'])
        if lv < 2 and eg != n['instrs']:
            k = next((j for j, (a, b) in enumerate(zip(eg, n['instrs'])) if a != b),
                     min(len(eg), len(n['instrs'])))
            a = eg[k][0] if k < len(eg) else 'end'
            b = n['instrs'][k][0] if k < len(n['instrs']) else 'end'
            ctx.report(f'C08/code-differs(level={lv},{b}->{a})',
                       {'program': pid, 'src': p['src'], 'level': lv, 'at': k,
                        'with_g': eg[k:k + 4], 'without': n['instrs'][k:k + 4]}, True)
        if lv == 2 and eg != n['instrs']:
            ctx.bump('level2-code-differs-with-g')
        nm = sum(1 for i in g['instrs'] if i[0] in DBG_OPS)
        ctx.bump('markers', nm)
        ctx.bump('empty-block-markers', sum(1 for i in g['instrs'] if i[0] == '_empty_block'))
        # ---- sections 1-3
        if 'sec' in g and 'sec' in n:
            for k in range(3):
                if g['sec'][k] != n['sec'][k]:
                    ctx.report(f'C08/section-differs(section={k + 1},level={lv})',
                               {'program': pid, 'src': p['src'], 'level': lv}, True)
            if not g['has5'] or n['has5']:
                ctx.report(f'C08/debug-section-presence(level={lv})',
                           {'program': pid, 'level': lv, 'g': g['has5'], 'n': n['has5']}, False)
        # ---- behaviour
        rg, rn = g['run'], n['run']
        if ('asm_exc' in rg) != ('asm_exc' in rn):
            ctx.report(f'C08/assembly-differs(level={lv},{rn.get("asm_exc")}->{rg.get("asm_exc")})',
                       {'program': pid, 'src': p['src'], 'level': lv}, True)
        elif 'asm_exc' not in rg:
            sg, sn = run_summary(rg), run_summary(rn)
            if sg != sn:
                if g['resume'] and is_prefix(rn['events'], rg['events']) and \
                        (rn['trap'] is not None or rn['exc'] == 'Trapped'):
                    # the permitted exception: RESUME needs the debug section.  Without it
                    # the run stops at the failing statement: CANNOT_RESUME from a RESUME
                    # statement, or - in ON ERROR RESUME NEXT mode, since the fix commit
                    # for D20 - the original error is reported
                    ctx.bump('resume-exception')
                else:
                    kind = 'events' if rg['events'] != rn['events'] else 'outcome'
                    ctx.report(f'C08/behaviour-differs(level={lv},{kind},resume={int(g["resume"])})',
                               {'program': pid, 'src': p['src'], 'level': lv,
                                'with_g': sg[:5] + [sg[5][-3:]], 'without': sn[:5] + [sn[5][-3:]]}, True)
            elif g['resume']:
                ctx.bump('resume-not-executed-or-equal')
        ctx.count('T-dbg-real', 1, [f'{pid}@{lv}'])
        # ---- level 1: the assembler model on the real lists, against the real code bytes
        if lv == 1 and g.get('code') is not None and n.get('code') is not None:
            for which, d1 in (('g', g), ('n', n)):
                it = pg.Intern()
                try:
                    pins = pg.to_pins(d1['instrs'], it)
                except pg.Unsupported:
                    continue
                emitted = [i for i in d1['instrs'] if not i[0].startswith('_')]
                ajobs.append((p, which, [4, pins, it.other_sizes(sizes), []], emitted, d1['code'], it))
        # ---- level 2: the model on the REAL marked list
        if lv == 2 and 'pre' in d.get('pre_g', {}) and 'pre' in d.get('pre_n', {}):
            pg_, pn_ = d['pre_g'], d['pre_n']
            it = pg.Intern()
            try:
                lg = pg.to_pins(pg_['pre'], it)
                want = {
                    'erase_lg': pg.to_pins(pn_['pre'], it),
                    'opt_g': pg.to_pins(erase_py(pg_['post']), it) if 'post' in pg_ else None,
                    'opt_n': pg.to_pins(pn_['post'], it) if 'post' in pn_ else None,
                    'real_g2': pg.to_pins(eg, it),
                    'real_n2': pg.to_pins(n['instrs'], it),
                }
            except pg.Unsupported as e:
                ctx.report(f'C08/model-cannot-express({str(e).split()[0]})',
                           {'program': pid, 'what': str(e)}, False)
                continue
            jobs.append((p, lg, want))


def main(tier, seed):
    ctx = Ctx(PROP, tier, seed, 'proof')
    ctx.trusted_base = [
        'Coq 8.16.1 kernel; theorems closed under the global context (no axioms)',
        'extraction ExtrOcamlBasic only; Z/positive inductive; floats are the Z-based Base/Fl.v',
        'unverified glue: ocaml/driver.ml, tools/vlib, tools/props/peepgen.py (encoding of real QvmInstr attributes into the model type, interning of names), tools/implfns/peepfn.py (section cutter, scripted machine runs)',
        'modelled not verified: QvmCode.optimize, the offset/label part of QvmCode.assembled; the code generators are NOT modelled here: "markers are the only difference" is checked on the real artefacts of every explored program (erase_marks(-g) = no -g), not proved',
        'serialisation of the debug section (pickle/gzip) is outside the model',
    ]
    ctx.prove()
    exe = ctx.model('Peephole')

    progs = program_pool(ctx, tier)
    cases = [{'src': p['src'], 'script': p['script'], 'levels': [0, 1, 2], 'max_ticks': 20000}
             for p in progs]
    raws = pg.run_chunked('peepfn.dbg_case', cases, 96, timeout=3300)
    ctx.rule.append(f'{len(progs)} programs (repository corpus{" (every 4th)" if tier == "quick" else ""}, '
                    f'{sum(1 for p in progs if p["kind"] == "gen")} generated from a fixed pool biased to empty '
                    'IF/ELSE/ELSEIF/CASE bodies, single-line IF with ELSE, nested SELECT, several statements per line, '
                    f'empty loops, procedures; {len(EMPTY_BODY_PROGS)} hand-written shapes; {len(pg.RESUME_PROGS)} RESUME programs) '
                    'x levels 0,1,2 x {-g, no -g}: acceptance, erase_marks(-g)=no -g (levels 0/1), sections 1-3 byte-equal, '
                    'device events and outcome equal on the real machine; level 2: extracted model on the real marked list')
    jobs = []
    ajobs = []
    sizes = vlib.run_impl('peepfn.instr_sizes', [None])[0]
    for p, r in zip(progs, raws):
        if not isinstance(r, dict) or 'harness' in r or 'exc' in r:
            ctx.broken.append(f'correspondence T-dbg-real: worker failed on {p["id"]}: {str(r)[:300]}')
            break
        check_program(ctx, p, r, jobs, tier, ajobs, sizes)
        ctx.bump('kind:' + p['kind'])
    if progs:
        ctx.sample({'suite': 'T-dbg-real', 'program': progs[len(progs) // 2]['id'],
                    'src': progs[len(progs) // 2]['src'][:300]})

    # ---- model jobs: (3 l_g) and (2 l_g), and the assembler's offsets on both lists
    mj = []
    for p, lg, want in jobs:
        mj.append([3, lg])
        mj.append([2, lg])
        mj.append([4, lg, [], []])
        mj.append([4, want['erase_lg'], [], []])
    mouts = vlib.run_model(exe, mj)
    for k, (p, lg, want) in enumerate(jobs):
        m3, m2, a1, a2 = mouts[4 * k:4 * k + 4]
        if any(isinstance(x, str) for x in (m3, m2, a1, a2)):
            ctx.broken.append(f'correspondence T-dbg-model: model driver failed on {p["id"]}')
            break
        ctx.count('T-dbg-model', 1, [p['id']])
        if m2 != want['erase_lg']:
            ctx.report('C08/model-differs(erase_marks)', {'program': p['id'], 'src': p['src']}, False)
        (s1, e_opt_g), (s2, opt_e) = m3
        if s1 == [3] or s2 == [3]:
            ctx.bump('unmodelled(fold)')
            continue
        if want['opt_g'] is None or want['opt_n'] is None:
            # the real optimize() raised: a C02 matter; the model must say so too
            if s1[0] != 2 and s2[0] != 2:
                ctx.report('C08/model-differs(optimize-crash)', {'program': p['id'], 'src': p['src']}, False)
            continue
        for name, got, st, ref in (('erase(optimize l_g)', e_opt_g, s1, want['opt_g']),
                                   ('optimize(erase l_g)', opt_e, s2, want['opt_n'])):
            if st != [0] or got != ref:
                ctx.report(f'C08/model-differs({name})',
                           {'program': p['id'], 'src': p['src'], 'status': st,
                            'first_diff': next((j for j, (a, b) in enumerate(zip(got, ref)) if a != b), None)},
                           False)
        # the two compilations at level 2 are what optimize() makes of the level-1 lists
        if want['real_g2'] != want['opt_g'] or want['real_n2'] != want['opt_n']:
            ctx.report('C08/harness(level-2 list is not optimize(level-1 list))',
                       {'program': p['id'], 'src': p['src']}, False)
        # assembler model: same offsets, labels, length with and without markers
        if a1 != a2:
            ctx.report('C08/model-differs(assemble-ignores-marks)', {'program': p['id']}, False)
        if e_opt_g != opt_e:
            ctx.bump('level2: markers blocked a window')
    # ---- T-asm: the assembler model against the real code bytes (level 1, both variants)
    aouts = vlib.run_model(exe, [a[2] for a in ajobs])
    for (p, which, job, emitted, code_hex, it), ao in zip(ajobs, aouts):
        if isinstance(ao, str):
            ctx.broken.append(f'correspondence T-asm: model driver failed on {p["id"]}')
            break
        ctx.count('T-asm', 1, [p['id'] + which])
        code = bytes.fromhex(code_hex)
        alen, labels, offs = ao
        table = {}
        for k, off in labels:
            table[k] = off               # a later definition overwrites
        bad = None
        if alen != len(code) or len(offs) != len(emitted):
            bad = f'length model={alen} real={len(code)}'
        else:
            for ins, (off, _) in zip(emitted, offs):
                if ins[0] in ('jmp', 'jz', 'call') or \
                        (ins[0] == 'errhand' and ins[4] and isinstance(ins[4][0], list)):
                    want = table.get(it(('label', ins[4][0])))
                    real = int.from_bytes(code[off + 1:off + 5], 'big')
                    if want != real:
                        bad = f'target of {ins[0]} at {off}: model={want} real={real}'
                        break
        if bad:
            ctx.report('C08/model-differs(assembler offsets)',
                       {'program': p['id'], 'variant': which, 'what': bad}, False)
    ctx.rule.append('T-asm: the assembler model (offsets, label addresses, length) on the real level-1 lists with and '
                    'without markers against the real code bytes: code length and the patched operand of every jmp/jz/call')
    ctx.rule.append('T-dbg-model: for every accepted program the extracted optimize/erase_marks are applied to the REAL '
                    'level-1 list with markers: erase_marks(optimize l_g) and optimize(erase_marks l_g) must equal the '
                    'real level-2 lists (with -g, markers erased; without -g); the assembler model gives identical '
                    'offsets/labels/length for l_g and erase_marks l_g')
    return ctx.finish()


def replay(path):
    d = json.load(open(path))
    print(json.dumps(d, indent=1)[:6000])
    return 0
