"""C13 - debugger expression evaluation agrees with the running program.
Theorems: coq/Props/C13.v.  Correspondence (T-dbg): the real qvm.dbg.Cmd
('print <expr>') stopped inside generated programs that PRINT every probe
expression themselves (tools/props/c13gen.py, tools/implfns/dbgevalfn.py):
the debugger's answer is judged against the value the program then hands to
PRINT (the PROPERTY), the machine state is compared before/after every print,
and the extracted model Models/DbgEval.v is run on the same (debug tables,
memory, parsed tree) and must predict the debugger's answer."""
import json
import struct
import time
import vlib
from vlib import Ctx
from props import c13gen

PROP = 'C13'
LEVELS = (0, 2)


def bits2f(b):
    return struct.unpack('>d', struct.pack('>Q', b))[0]


def fbits(x):
    if x != x:
        return 0x7ff8000000000000
    return struct.unpack('>Q', struct.pack('>d', float(x)))[0]


# ---------------------------------------------------------------- the property judge

def same_value(own, out):
    """own: typed cell [t, v] the program printed; out: the debugger's answer
    ['text', s, num].  True iff it denotes the same value."""
    t, v = own
    if out[0] != 'text':
        return False
    text, num = out[1], out[2]
    if t == 5:
        return text == ''.join(chr(c) for c in v)
    if num is None:
        return False
    ref = v if t in (1, 2) else bits2f(v)
    got = num[1] if num[0] == 'i' else bits2f(num[1])
    if ref != ref:
        return got != got
    return ref == got


def judge_probe(meta, out, own, same):
    """-> None | (mode, found_input).  The reference is the program's own value."""
    if not same:
        return ('state-changed', True)
    exp = meta['expect']
    kind = out[0]
    if exp == 'value':
        if own is None or own[0] != 'vals' or len(own[1]) != 1:
            return ('harness-no-reference', False)
        if kind == 'text':
            return None if same_value(own[1][0], out) else ('wrong-value', True)
        if kind == 'evalerr':
            return ('eval-error-for-valid', True)
        if kind == 'parseerr':
            return ('parse-error-for-valid', True)
        return (f'crash:{out[1]}', True)
    if exp == 'trap':
        if own is None or own[0] != 'trap':
            return ('harness-no-trap', False)
        if kind in ('evalerr', 'parseerr'):
            return None
        if kind == 'text':
            return ('value-for-trapping', True)
        return (f'crash:{out[1]}', True)
    if exp == 'error':
        if kind in ('evalerr', 'parseerr'):
            return None
        if kind == 'text':
            return ('accepted-ill-typed', True)
        return (f'crash:{out[1]}', True)
    raise ValueError(exp)


# ---------------------------------------------------------------- model comparison

CRASHID = {'IndexError': 1, 'TypeError': 2, 'NameError': 3, 'AttributeError': 4, 'KeyError': 5,
           'ValueError': 6, 'OverflowError': 7, 'RuntimeError': 8, 'AssertionError': 9, 'error': 10,
           'ZeroDivisionError': 13, 'CompileError': 14, 'InternalError': 15}


def model_agrees(mo, out):
    """mo: (0 pyval) | (1) | (2) | (3 k) | (4); out: the debugger's answer.
    None = the model does not describe this case."""
    c = mo[0]
    if c == 4:
        return None
    kind = out[0]
    if c == 0:
        if kind != 'text':
            return False
        pv = mo[1]
        text, num = out[1], out[2]
        if pv[0] == 1:
            return num is not None and num[0] == 'i' and num[1] == pv[1] and text.strip() == str(pv[1])
        if pv[0] == 2:
            return num is not None and num[0] == 'f' and num[1] == pv[1]
        return text == ''.join(chr(x) for x in pv[1])
    if c == 1:
        if kind != 'text':
            return False
        t = out[1]
        return t.startswith(('Struct ', 'Array of type', '<', '(', '[')) and out[2] is None
    if c == 2:
        return kind == 'evalerr'
    if c == 3:
        return kind == 'crash' and CRASHID.get(out[1], 98) == mo[1]
    return False


def sx_str(s):
    return [ord(c) for c in s]


def sx_ty(t):
    if t[0] == 1:
        return [1, t[1]]
    if t[0] == 2:
        return [2, sx_str(t[1])]
    if t[0] == 3:
        return [3, [[a, b] for a, b in t[1]], sx_ty(t[2])]
    return [4, sx_ty(t[1])]


def sx_pyval(v):
    if v[0] == 3:
        return [3, sx_str(v[1])]
    return [v[0], v[1]]


def sx_decls(ds):
    return [[sx_str(n), sx_ty(t)] for n, t in ds]


def sx_consts(cs):
    return [[sx_str(n), [sx_pyval(v[0])] if v else []] for n, v in cs]


def sx_routine(r):
    a, b, ps, ls, cs = r
    return [a, b, sx_decls(ps), sx_decls(ls), sx_consts(cs)]


def sx_di(di):
    types, globs, gconsts, main, routines = di
    return [[[sx_str(n), sx_decls(fs)] for n, fs in types], sx_decls(globs), sx_consts(gconsts),
            sx_routine(main), [sx_routine(r) for r in routines]]


def sx_expr(e):
    t = e[0]
    if t == 1:
        return [1, e[1], sx_pyval(e[2])]
    if t == 2:
        return [2, sx_str(e[1])]
    if t == 3:
        return [3, sx_str(e[1]), [sx_expr(i) for i in e[2]], [sx_str(f) for f in e[3]]]
    if t == 4:
        return [4, e[1], sx_expr(e[2]), sx_expr(e[3])]
    if t == 5:
        return [5, e[1], sx_expr(e[2])]
    return [6, sx_expr(e[1])]


def sx_state(st):
    heap, cur = st

    def cell(c):
        if c == []:
            return []
        if c[0] == 5:
            return [5, list(c[1])]
        return list(c)
    return [[[k, [cell(c) for c in cells]] for k, cells in heap], cur]


# ---------------------------------------------------------------- main

def build_cases(tier):
    """quick: programs 0..24 at level 0, every third one also at level 2 (34 sessions);
    thorough: programs 0..79 at levels 0 and 2 (160 sessions).  quick is a subset of thorough.
    The order interleaves the recursion depths so that the worker chunks are balanced."""
    n = 25 if tier == 'quick' else 80
    cases = []
    for k in sorted(range(n), key=lambda k: (k % 5, k // 5)):
        p = c13gen.program(k)
        for lv in LEVELS:
            if tier == 'quick' and lv != 0 and k % 3 != 0:
                continue
            cases.append({'k': k, 'level': lv, 'src': p['src'],
                          'stops': {str(a): b for a, b in p['stops'].items()},
                          'halted': p['halted'], 'meta': p['meta'], 'trap_end': p['trap_end'],
                          'end_stmt': p['end_stmt'], 'depth': p['depth']})
    return cases


def impl_case(c):
    return {'src': c['src'], 'level': c['level'], 'stops': c['stops'], 'halted': c['halted'],
            'max_ticks': 400000}


def run_suites(ctx, exe, cases):
    t0 = time.time()
    raws = vlib.run_impl('dbgevalfn.session', [impl_case(c) for c in cases], timeout=7000)
    ctx.extra['impl_wall_s'] = round(time.time() - t0, 1)
    jobs, jobmap = [], []
    nprobe = nerr = nhalt = nstate = 0
    sigs = {}

    def rep(sig, detail, found):
        sigs[sig] = sigs.get(sig, 0) + 1
        ctx.report(sig, detail, found)

    for c, raw in zip(cases, raws):
        where = f"program {c['k']} -O{c['level']}"
        if isinstance(raw, dict) and raw.get('harness'):
            ctx.broken.append(f'correspondence probes: implementation worker failed: {raw.get("stderr", "")[-300:]}')
            continue
        if 'exc' in raw:
            rep(f"C13/session-failed({raw['exc']})", {'case': where, 'raw': raw, 'src': c['src']}, False)
            continue
        if raw['notes']:
            rep('C13/harness-stop-points', {'case': where, 'notes': raw['notes'][:5]}, False)
        end = raw['end']
        expect_end = ['halt', 'TRAP'] if c['trap_end'] else ['halt', 'INSTRUCTION']
        if end is None or end[:2] != expect_end:
            rep('C13/harness-program-end', {'case': where, 'end': end}, False)
        seen_lines = set()
        di = sx_di(raw['di'])
        for v in raw['visits']:
            ln = v['line']
            seen_lines.add(ln)
            metas = c['meta'][ln] if ln in c['meta'] else c['meta'][str(ln)]
            asts, idxs = [], []
            for i, (m, p) in enumerate(zip(metas, v['probes'])):
                own = v['own'] if i == 0 else None
                if 'ref' in m:
                    # a PRINT of several values: probe i is judged against the i-th value
                    o = v['own']
                    own = (['vals', [o[1][m['ref']]]] if o[0] == 'vals' and len(o[1]) > m['ref'] else o)
                ctx.bump('probe:' + m['tag'].split(',')[0] + ':' + p['out'][0])
                if m['expect'] == 'error':
                    nerr += 1
                else:
                    nprobe += 1
                nstate += 1
                j = judge_probe(m, p['out'], own, p['same'])
                if j is not None:
                    mode, found = j
                    rep(f"C13/{mode}({m['tag']})",
                        {'case': where, 'line': ln, 'depth': v['depth'], 'expr': p['text'],
                         'debugger': p['out'], 'program': own, 'level': c['level'], 'src': c['src']}, found)
                if p['ast'] is not None:
                    asts.append(sx_expr(p['ast']))
                    idxs.append(i)
                elif p['out'][0] != 'parseerr':
                    ctx.bump('model:no-ast')
            if asts:
                jobs.append([1, di, sx_state(v['state']), asts])
                jobmap.append((c, v, idxs, metas))
        missing = [ln for ln in c['stops'] if int(ln) not in seen_lines]
        if missing and not (c['trap_end'] and end and end[1] == 'TRAP' and len(missing) <= 0):
            rep('C13/harness-stop-not-reached', {'case': where, 'lines': missing[:10]}, False)
        # after the program has finished
        if raw['halted']:
            asts, idxs = [], []
            for i, p in enumerate(raw['halted']):
                nhalt += 1
                nstate += 1
                expr = p['text']
                tag = 'halted,end=' + ('END' if c['end_stmt'] else 'falls-off') + ',expr=' + \
                    ('unknown-name' if expr == 'nosuch' else 'literal' if expr == '1 + 1' else 'variable')
                if not p['same']:
                    rep(f'C13/state-changed({tag})', {'case': where, 'expr': expr, 'src': c['src']}, True)
                elif p['out'][0] == 'crash':
                    rep(f"C13/crash:{p['out'][1]}({tag})",
                        {'case': where, 'expr': expr, 'debugger': p['out'], 'src': c['src']}, True)
                elif expr == 'nosuch' and p['out'][0] != 'evalerr':
                    rep(f'C13/accepted-ill-typed({tag})', {'case': where, 'expr': expr, 'debugger': p['out']}, True)
                if p['ast'] is not None:
                    asts.append(sx_expr(p['ast']))
                    idxs.append(i)
            if asts and raw.get('halted_state'):
                jobs.append([1, di, sx_state(raw['halted_state']), asts])
                jobmap.append((c, {'probes': raw['halted'], 'line': 0, 'depth': 0}, idxs, None))
    # ---- the extracted model on the same states
    t1 = time.time()
    mouts = vlib.run_model(exe, jobs, timeout=7000)
    ctx.extra['model_wall_s'] = round(time.time() - t1, 1)
    nmodel = nunmod = 0
    for job, (c, v, idxs, metas), mo in zip(jobs, jobmap, mouts):
        where = f"program {c['k']} -O{c['level']}"
        if isinstance(mo, str) or mo == [-999, -999, -999]:
            ctx.broken.append(f'correspondence model: driver failed ({mo}) at {where} line {v["line"]}')
            continue
        for i, r in zip(idxs, mo):
            p = v['probes'][i]
            a = model_agrees(r, p['out'])
            if a is None:
                nunmod += 1
                ctx.bump('model:unmodelled')
                continue
            nmodel += 1
            if not a:
                tag = metas[i]['tag'] if metas else 'halted'
                rep(f"C13/model-differs({tag.split(',')[0]})",
                    {'case': where, 'line': v['line'], 'expr': p['text'], 'debugger': p['out'], 'model': r,
                     'ast': p['ast'], 'src': c['src']}, False)
    ctx.count('probes-vs-program', nprobe, [])
    ctx.count('ill-typed-and-unknown', nerr, [])
    ctx.count('after-halt', nhalt, [])
    ctx.count('model-vs-debugger', nmodel, [])
    ctx.extra['state_equality_checks'] = nstate
    ctx.extra['model_unmodelled'] = nunmod
    ctx.extra['signature_counts'] = sigs
    return raws


def main(tier, seed):
    ctx = Ctx(PROP, tier, seed, 'proof')
    ctx.trusted_base = [
        'Rocq/Coq 8.16.1 kernel; no axioms (every C13 theorem prints "Closed under the global context")',
        'extraction: ExtrOcamlBasic only; ocaml/driver.ml and tools/vlib (unverified glue)',
        'modelled, not verified: qvm/eval.py, Cmd.find_routine + evaluation half of Cmd.do_print, Lvalue.type/base_type as bound '
        'to QvmEval, BinaryOp.eval/UnaryOp.eval (Models/Fold.v), memlayout (Models/Layout.v), machine memory (Models/Machine.v)',
        'NOT modelled: the expression parser (grammar.expr): the model is given the tree the real parser produced; '
        'the text printed for floats is compared after float(); QStruct/QArray printing',
        'harness: the program generator, the typed-cell capture at `io terminal, print`, the state snapshot (machfn.state_out)',
    ]
    ctx.prove()
    exe = ctx.model('DbgEval')
    cases = build_cases(tier)
    keys = set()
    for c in cases:
        for ln, ms in c['meta'].items():
            for m in ms:
                keys.add((c['level'], m['tag']))
    ctx.rule.append(
        f'{len(set(c["k"] for c in cases))} generated programs / {len(cases)} debugger sessions (tools/props/c13gen.py: declaration shapes by mixed radix over DEFtype '
        f'variant x array bounds x recursion depth x name collisions x ending; values seeded by the program index), levels {LEVELS} '
        f'with debug info; every probe expression is PRINTed by the program on its own line; the debugger is stopped there '
        f'(break + continue), asked the expression before the PRINT runs, the complete machine state compared before/after; '
        f'reference = the typed cell the program hands to PRINT; non-trivial = distinct (level, probe description)')
    run_suites(ctx, exe, cases)
    for k in sorted(keys, key=str):
        ctx.nontrivial.add(('probe', k))
    c = cases[len(cases) // 2]
    ln = sorted(c['meta'], key=int)[3]
    ctx.sample({'program': c['k'], 'level': c['level'], 'line': int(ln), 'probes': c['stops'][str(ln)],
                'describes': [m['tag'] for m in c['meta'][ln]]})
    ctx.sample({'program_text': cases[0]['src'][:1500]})
    return ctx.finish()


def replay(path):
    d = json.load(open(path))
    print(json.dumps(d, indent=1)[:6000])
    first = d.get('first') or {}
    src = first.get('src')
    if src and first.get('expr') and first.get('line'):
        case = {'src': src, 'level': first.get('level', 0), 'stops': {str(first['line']): [first['expr']]},
                'halted': [], 'max_ticks': 400000}
        r = vlib.run_impl('dbgevalfn.session', [case], timeout=3000)[0]
        for v in r.get('visits', []):
            print('replayed:', v['line'], v['probes'][0]['out'], 'program:', v['own'])
    return 0
