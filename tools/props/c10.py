"""C10 - ON ERROR / RESUME / RESUME NEXT.  Theorems: coq/Props/C10.v (machine
model).  Correspondence: a deterministic family of programs whose statements fail
on purpose (statement shape x error kind x depth inside the expression x placement
x resume kind x level, with debug info), run on the real machine; judged against
the expected device trace computed by the harness from the program's construction
(independent of the model), and replayed by the extracted monitor (tie + stack
depth at statement boundaries)."""
import itertools
import json
import struct
import vlib
from vlib import Ctx, isa

PROP = 'C10'


def fb(x):
    return struct.unpack('>Q', struct.pack('>d', float(x)))[0]


SCRIPT = {'lines': [], 'rnd': [fb(0.25)] * 4, 'timer': [fb(1.5)] * 4, 'inkey': []}

# error kinds: (name, failing expression (INTEGER typed), ERR code, repair statement, value after repair)
ERRS = [
    ('div0', '(1 \\ z%)', 14, 'z% = 1', 1),
    ('overflow', '(m% + m%)', 10, 'm% = 2', 4),
    ('subscript', 'a%(i%)', 11, 'i% = 1', 0),
    ('illegal-arg', 'ASC(LEFT$("x", n%))', 9, 'n% = 1', 120),
    ('pow-zero-negative', 'CINT(zf! ^ nf!)', 14, 'zf! = 1', 1),
]
PRELUDE = ['z% = 0', 'm% = 32767', 'i% = 9', 'n% = -1', 'zf! = 0', 'nf! = -1', 'DIM a%(3)']


def pnum(v):
    return (' ' if v >= 0 else '') + str(v) + ' '


# statement shapes: (name, template with {E}, text printed when it succeeds given value v of {E},
#                    operands already pushed when {E} fails (depth))
SHAPES = [
    ('assign', 'x% = {E}', lambda v: None, 0),
    ('print', 'PRINT {E}', lambda v: pnum(v) + '\r\n', 1),
    ('print-sum', 'PRINT 5 + {E}', lambda v: pnum(5 + v) + '\r\n', 2),
    ('print-list', 'PRINT 1; 2; {E}', lambda v: pnum(1) + pnum(2) + pnum(v) + '\r\n', 5),
    ('if-line', 'IF {E} >= 0 THEN PRINT "t"', lambda v: 't\r\n', 0),
    ('nested', 'x% = 2 * (3 + {E})', lambda v: None, 2),
    # the failing statement nested inside a single-line IF / a CASE body, followed by
    # another statement of the same line / body: RESUME NEXT continues THERE
    ('in-if-line', 'IF 1 THEN x% = {E}: PRINT "rest"', lambda v: 'rest\r\n', 0),
]


def program(shape, err, resume, placement, second):
    """returns (source, expected terminal texts, expected outcome)"""
    sname, tmpl, ok_text, depth = shape
    ename, expr, code, repair, fixed = err
    stmt = tmpl.format(E=expr)
    out = []
    lines = []
    if resume == 'mode-next':
        lines.append('ON ERROR RESUME NEXT')
    else:
        lines.append('ON ERROR GOTO h')
    lines += PRELUDE
    body = []
    body.append('PRINT "before"')
    body.append(stmt)
    body.append('PRINT "after"')
    exp_body = ['before\r\n']
    rest = ['rest\r\n'] if sname == 'in-if-line' else []
    if resume == 'next':
        exp_body.append(f'H{pnum(code)}\r\n')
        exp_body += rest
        exp_body.append('after\r\n')
    elif resume == 'mode-next':
        exp_body += rest
        exp_body.append('after\r\n')
    elif resume == 'resume':
        exp_body.append(f'H{pnum(code)}\r\n')
        t = ok_text(fixed)
        if t:
            exp_body.append(t)
        exp_body.append('after\r\n')
    elif resume == 'goto0':
        pass
    if second is not None and resume in ('next', 'mode-next'):
        # a second failing statement of another kind: the handler must be entered again
        e2 = second
        body.append(f'y% = {e2[1]}')
        body.append('PRINT "after2"')
        if resume == 'next':
            exp_body.append(f'H{pnum(e2[2])}\r\n')
        exp_body.append('after2\r\n')
    outcome = [2, None]      # halted by instruction (END)
    if resume == 'goto0':
        lines.append('ON ERROR GOTO 0')
        outcome = [3, code]
    if placement == 'main':
        lines += body
        out += exp_body
    elif placement == 'gosub':
        lines += ['GOSUB r', 'PRINT "back"', 'END', 'r:'] + body + ['RETURN']
        out += exp_body
        if resume != 'goto0':
            out.append('back\r\n')
    lines.append('END')
    if resume in ('next', 'resume', 'goto0'):
        lines.append('h:')
        lines.append('PRINT "H"; ERR')
        if resume == 'resume':
            lines.append(repair)
            lines.append('RESUME')
        else:
            lines.append('RESUME NEXT')
    return '\n'.join(lines), out, outcome


def sub_program(err):
    """error inside a SUB / FUNCTION: only handler entry and ERR are promised"""
    ename, expr, code, repair, fixed = err
    src = '\n'.join(['ON ERROR GOTO h'] + ['DIM SHARED z%, m%, i%, n%, zf!, nf!', 'DIM SHARED a%(3)'] +
                    ['z% = 0', 'm% = 32767', 'i% = 9', 'n% = -1', 'zf! = 0', 'nf! = -1'] +
                    ['PRINT "before"', 'p', 'PRINT "unreached"', 'END', 'h:', 'PRINT "H"; ERR', 'END',
                     'SUB p', f'x% = {expr}', 'END SUB'])
    return src, ['before\r\n', f'H{pnum(code)}\r\n'], [2, None]


def gen(tier, rng):
    cases = []
    for shape in SHAPES:
        for k, err in enumerate(ERRS):
            for resume in ('next', 'resume', 'mode-next', 'goto0'):
                for placement in ('main', 'gosub'):
                    second = ERRS[(k + 1) % len(ERRS)] if placement == 'main' else None
                    src, exp, outc = program(shape, err, resume, placement, second)
                    cases.append({'src': src, 'expect': exp, 'outcome': outc,
                                  'tag': f'{shape[0]}/{err[0]}/{resume}/{placement}',
                                  'depth': shape[3], 'resume': resume, 'placement': placement})
    for err in ERRS:
        src, exp, outc = sub_program(err)
        cases.append({'src': src, 'expect': exp, 'outcome': outc, 'tag': f'in-sub/{err[0]}',
                      'depth': 0, 'resume': 'end', 'placement': 'sub'})
    # out of DATA
    cases.append({'src': 'ON ERROR GOTO h\nDATA 1\nREAD a%\nREAD b%\nPRINT "after"; a%\nEND\nh:\nPRINT "H"; ERR\nRESUME NEXT',
                  'expect': [f'H{pnum(3)}\r\n', f'after{pnum(1)}\r\n'], 'outcome': [2, None],
                  'tag': 'read/out-of-data/next/main', 'depth': 0, 'resume': 'next', 'placement': 'main'})
    out = []
    levels = (0, 2) if tier == 'quick' else (0, 1, 2)
    if tier == 'quick':
        rng.shuffle(cases)
        cases = cases[:110]
    for c in cases:
        for level in levels:
            d = dict(c)
            d.update({'level': level, 'debug': True, 'script': SCRIPT, 'max_ticks': 20000})
            out.append(d)
    return out


def texts(events):
    return [''.join(chr(x) for x in e[1]) for e in events if e[0] == 1]


def main(tier, seed):
    ctx = Ctx(PROP, tier, seed, 'proof')
    ctx.trusted_base = [
        'Coq 8.16.1 kernel; theorems closed under the global context (no axioms)',
        'extraction ExtrOcamlBasic only; machine model + monitor run extracted',
        'unverified glue: ocaml/driver.ml, tools/vlib, tools/implfns/machfn.py, this generator and its expected traces',
        'modelled not verified: qvm/cpu.py tick/_trap/_exec_err*, qvm/debug_info.py find_stmt; code generation of ON ERROR/RESUME and the debug map are exercised through the real compiler only',
        'the theorems describe the tree after the fix commits for D19/D20/D45 (see KNOWN_FINDINGS.json "fixed" entries)',
    ]
    ctx.prove()
    exe = ctx.model('Monitor')
    cases = gen(tier, ctx.rng)
    ctx.rule.append(f'{len(cases)} programs: {len(SHAPES)} statement shapes x {len(ERRS)} error kinds x '
                    '{RESUME NEXT, RESUME after repair, ON ERROR RESUME NEXT, ON ERROR GOTO 0} x {module level, inside GOSUB} '
                    '(+ a second failing statement, errors inside a SUB, out of DATA) x levels, with debug info; '
                    'oracle = device trace and outcome expected by construction; monitor: stack depth at statement starts; '
                    'non-trivial = distinct (shape, error, resume kind, placement, level)')
    raws = vlib.run_impl('machfn.run_case_cert', cases)
    jobs, idx = [], []
    for i, (c, r) in enumerate(zip(cases, raws)):
        if isinstance(r, dict) and 'cert' in r:
            ct = r['cert']
            jobs.append([1, isa.module_sx(r['module']), isa.script_sx(c['script']),
                         [ct['globals'], ct['frames']], c['max_ticks']])
            idx.append(i)
        elif isinstance(r, dict) and r.get('harness'):
            ctx.broken.append('correspondence: worker failed ' + r.get('stderr', '')[-200:])
            return ctx.finish()
        else:
            ctx.report(f'C10/compile-failed({r.get("exc")},{c["tag"]})', {'src': c['src'], 'impl': r}, True)
    mouts = vlib.run_model(exe, jobs)
    keys = set()
    for i, mo in zip(idx, mouts):
        c, r = cases[i], raws[i]
        keys.add((c['tag'], c['level']))
        res = r['result']
        st = res[2]
        got = texts(st[12])
        halted, reason, lt = st[4], st[5], st[6]
        outc = [reason, lt if reason == 3 else None]
        ctx.bump('resume:' + c['resume'])
        ctx.bump('placement:' + c['placement'])
        cls = c['tag'].split('/')
        if r.get('exc'):
            ctx.report(f'C10/host-exception({r["exc"][0]},{c["resume"]},{c["placement"]})',
                       {'src': c['src'], 'level': c['level'], 'exc': r['exc']}, True)
        elif got != c['expect'] or outc != c['outcome']:
            kind = 'depth>0' if c['depth'] > 0 else 'depth0'
            ctx.report(f'C10/trace-differs({c["resume"]},{c["placement"]},{kind})',
                       {'src': c['src'], 'level': c['level'], 'expected': c['expect'], 'got': got,
                        'expected_outcome': c['outcome'], 'outcome': outc}, True)
        if isinstance(mo, str):
            ctx.broken.append(f'monitor driver failed ({mo})')
            break
        ok, bad, stop, n, viol, trapped, mst = mo
        if [stop, n, mst] != res:
            ctx.report(f'C10/model-run-differs({c["tag"]})',
                       {'src': c['src'], 'level': c['level'], 'impl_head': res[:2], 'model_head': [stop, n]}, False)
            continue
        kinds = sorted(set(v[1] for v in viol if v[1] != 6))
        for k in kinds:
            name = {1: 'ill-typed-operands', 2: 'forbidden-trap', 3: 'cell-type', 4: 'pc-not-boundary',
                    5: 'partial-results-remain'}[k]
            dk = 'depth>0' if c['depth'] > 0 else 'depth0'
            ctx.report(f'C10/monitor({name},{c["resume"]},{c["placement"]},{dk})',
                       {'src': c['src'], 'level': c['level'], 'violations': [v for v in viol if v[1] == k][:3]}, True)
    ctx.count('T-run', len(cases), keys)
    ctx.sample({'program': cases[0]['src'], 'expected': cases[0]['expect']})
    ctx.sample({'program': cases[len(cases) // 2]['src'], 'expected': cases[len(cases) // 2]['expect']})
    return ctx.finish()


def replay(path):
    d = json.load(open(path))
    print(json.dumps(d, indent=1)[:6000])
    return 0
