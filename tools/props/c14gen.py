"""C14: generated programs as structured lines, and their rendering under a
spelling STYLE.  A program is a list of lines; a line is
    {'label': None | ('lab', name) | ('num', n), 'stmts': [stmt...], 'alone': bool}
a stmt is {'k': kind, 't': [tok...]} with tok = (class, text):
    'kw' keyword, 'id' identifier, 'num' number, 'str' string literal (with quotes),
    'op' operator / punctuation, 'rel' comparison operator (canonical spelling),
    'lab' reference to a label, 'lno' reference to a line number, 'data' DATA payload.
Optional syntax is carried by the statement kind:
    'assign' (LET may be put in front), 'call' ({'name','args':[[tok..]..]}: CALL f(a, b) or
    f a, b), 'next' ({'var'}: NEXT v or NEXT), 'ifline' (single-line IF: never split, last in a
    colon group).
Everything here is harness code (unverified glue); it never touches /repo."""
import random

KW = lambda s: ('kw', s)
ID = lambda s: ('id', s)
NUM = lambda s: ('num', str(s))
STR = lambda s: ('str', '"' + s + '"')
OP = lambda s: ('op', s)
REL = lambda s: ('rel', s)
LAB = lambda s: ('lab', s)
LNO = lambda n: ('lno', n)

REL_ALT = {'<>': '><', '<=': '=<', '>=': '=>'}
TRICKY = ["it's", "a:b", "REM x", "x ' y : z", "' REM :", "DATA 1,2", "", "a  b", "THEN:ELSE"]


def S(kind, *toks, **kw):
    d = {'k': kind, 't': list(toks)}
    d.update(kw)
    return d


def L(*stmts, label=None, alone=False):
    return {'label': label, 'stmts': list(stmts), 'alone': alone}


def expr_toks(rng, vars_, depth=0):
    """a small INTEGER-valued expression over the given variables"""
    r = rng.random()
    if depth > 1 or r < 0.35:
        if vars_ and rng.random() < 0.6:
            return [ID(rng.choice(vars_))]
        return [NUM(rng.choice([0, 1, 2, 3, 5, 7, 10, 12]))]
    if r < 0.8:
        op = rng.choice(['+', '-', '*'])
        return expr_toks(rng, vars_, depth + 1) + [OP(op)] + expr_toks(rng, vars_, depth + 1)
    if r < 0.9:
        return [OP('(')] + expr_toks(rng, vars_, depth + 1) + [OP(')')]
    return [OP('-')] + expr_toks(rng, vars_, depth + 1)


def cond_toks(rng, vars_):
    rel = rng.choice(['<>', '<=', '>=', '<', '>', '='])
    t = expr_toks(rng, vars_, 1) + [REL(rel)] + expr_toks(rng, vars_, 1)
    if rng.random() < 0.25:
        t = t + [KW(rng.choice(['and', 'or']))] + expr_toks(rng, vars_, 1) + \
            [REL(rng.choice(['<>', '<=', '>=']))] + expr_toks(rng, vars_, 1)
    return t


class Gen:
    def __init__(self, seed):
        self.rng = random.Random(seed)
        self.n = 0
        self.vars = ['a%', 'b%', 'total%', 'k%']
        self.lines = []
        self.tail = []      # subroutines reached by GOSUB, DATA blocks, procedures
        self.kinds = set()
        self.lineno = 100

    def fresh(self, base):
        self.n += 1
        return f'{base}{self.n}'

    def newlno(self):
        self.lineno += self.rng.choice([5, 10, 20])
        return self.lineno

    # ---- simple statements
    def st_assign(self):
        v = self.rng.choice(self.vars)
        self.kinds.add('assign')
        return S('assign', ID(v), OP('='), *expr_toks(self.rng, self.vars))

    def st_print(self):
        self.kinds.add('print')
        toks = [KW('print')]
        n = self.rng.randint(1, 3)
        for i in range(n):
            if i:
                toks.append(OP(self.rng.choice([';', ','])))
            r = self.rng.random()
            if r < 0.4:
                toks.append(STR(self.rng.choice(TRICKY)))
                self.kinds.add('tricky-string')
            elif r < 0.5:
                toks.append(ID('s$'))
            else:
                toks += expr_toks(self.rng, self.vars, 1)
        if self.rng.random() < 0.2:
            toks.append(OP(';'))
        return S('print', *toks)

    def st_str(self):
        self.kinds.add('string-assign')
        t = self.rng.choice(TRICKY)
        if self.rng.random() < 0.5:
            return S('assign', ID('s$'), OP('='), STR(t))
        return S('assign', ID('s$'), OP('='), ID('s$'), OP('+'), STR(t))

    def simple(self):
        r = self.rng.random()
        if r < 0.4:
            return self.st_assign()
        if r < 0.8:
            return self.st_print()
        return self.st_str()

    def simples(self, n):
        return [L(self.simple()) for _ in range(n)]

    # ---- blocks
    def b_if(self, depth):
        self.kinds.add('if-block')
        out = [L(S('x', KW('if'), *cond_toks(self.rng, self.vars), KW('then')), alone=True)]
        out += self.body(depth + 1)
        if self.rng.random() < 0.4:
            out.append(L(S('x', KW('elseif'), *cond_toks(self.rng, self.vars), KW('then')), alone=True))
            out += self.body(depth + 1)
        if self.rng.random() < 0.6:
            out.append(L(S('x', KW('else')), alone=True))
            out += self.body(depth + 1)
        out.append(L(S('x', KW('end'), KW('if')), alone=True))
        return out

    def b_ifline(self):
        self.kinds.add('if-single-line')
        toks = [KW('if')] + cond_toks(self.rng, self.vars) + [KW('then')]
        a = self.simple()
        toks += self.flat(a)
        if self.rng.random() < 0.5:
            toks += [OP(':')] + self.flat(self.simple())
        if self.rng.random() < 0.5:
            # qbee rejects  PRINT x; ELSE  (a keyword after a PRINT separator is an
            # 'Invalid expression'): no separator directly in front of ELSE
            while toks[-1] in (OP(';'), OP(',')):
                toks.pop()
            toks += [KW('else')] + self.flat(self.simple())
        return [L(S('ifline', *toks))]

    def flat(self, st):
        return list(st['t'])

    def b_for(self, depth):
        self.kinds.add('for')
        v = self.fresh('i') + '%'
        lo, hi = self.rng.choice([(1, 3), (0, 2), (2, 4)])
        toks = [KW('for'), ID(v), OP('='), NUM(lo), KW('to'), NUM(hi)]
        if self.rng.random() < 0.3:
            toks += [KW('step'), NUM(self.rng.choice([1, 2]))]
        self.vars.append(v)
        out = [L(S('for', *toks))]
        out += self.body(depth + 1)
        out.append(L(S('next', KW('next'), var=v)))
        self.vars.remove(v)
        return out

    def b_while(self, depth):
        self.kinds.add('while')
        v = self.fresh('w') + '%'
        out = [L(S('assign', ID(v), OP('='), NUM(0))),
               L(S('while', KW('while'), ID(v), REL(self.rng.choice(['<', '<='])), NUM(self.rng.choice([2, 3]))))]
        out += self.body(depth + 1)
        out.append(L(S('assign', ID(v), OP('='), ID(v), OP('+'), NUM(1))))
        out.append(L(S('wend', KW('wend'))))
        return out

    def b_do(self, depth):
        self.kinds.add('do-loop')
        v = self.fresh('d') + '%'
        out = [L(S('assign', ID(v), OP('='), NUM(0)))]
        form = self.rng.choice(['do-while', 'loop-until', 'do-until'])
        if form == 'do-while':
            out.append(L(S('do', KW('do'), KW('while'), ID(v), REL('<'), NUM(2))))
        elif form == 'do-until':
            out.append(L(S('do', KW('do'), KW('until'), ID(v), REL('>='), NUM(2))))
        else:
            out.append(L(S('do', KW('do'))))
        out += self.body(depth + 1)
        out.append(L(S('assign', ID(v), OP('='), ID(v), OP('+'), NUM(1))))
        if form == 'loop-until':
            out.append(L(S('loop', KW('loop'), KW('until'), ID(v), REL('>='), NUM(2))))
        else:
            out.append(L(S('loop', KW('loop'))))
        return out

    def b_select(self, depth):
        self.kinds.add('select')
        out = [L(S('x', KW('select'), KW('case'), *expr_toks(self.rng, self.vars, 1)), alone=True)]
        out.append(L(S('x', KW('case'), NUM(1), OP(','), NUM(2)), alone=True))
        out += self.simples(1)
        out.append(L(S('x', KW('case'), KW('is'), REL(self.rng.choice(['>=', '<=', '<>'])), NUM(7)), alone=True))
        out += self.simples(1)
        out.append(L(S('x', KW('case'), NUM(3), KW('to'), NUM(5)), alone=True))
        out += self.simples(1)
        if self.rng.random() < 0.7:
            out.append(L(S('x', KW('case'), KW('else')), alone=True))
            out += self.simples(1)
        out.append(L(S('x', KW('end'), KW('select')), alone=True))
        return out

    def b_gosub(self):
        use_num = self.rng.random() < 0.5
        if use_num:
            self.kinds.add('gosub-lineno')
            n = self.newlno()
            ref, lab = LNO(n), ('num', n)
        else:
            self.kinds.add('gosub-label')
            name = self.fresh('sr')
            ref, lab = LAB(name), ('lab', name)
        body = self.simples(self.rng.randint(1, 2))
        first = body[0]
        first['label'] = lab
        self.tail += body + [L(S('return', KW('return')))]
        return [L(S('gosub', KW('gosub'), ref))]

    def b_goto(self):
        """a forward GOTO over one statement"""
        use_num = self.rng.random() < 0.5
        if use_num:
            self.kinds.add('goto-lineno')
            n = self.newlno()
            ref, lab = LNO(n), ('num', n)
        else:
            self.kinds.add('goto-label')
            name = self.fresh('skip')
            ref, lab = LAB(name), ('lab', name)
        skipped = self.simples(1)
        target = self.simples(1)
        target[0]['label'] = lab
        return [L(S('goto', KW('goto'), ref))] + skipped + target

    def b_data(self):
        self.kinds.add('data-read-restore')
        name = self.fresh('dat')
        items = self.rng.choice([
            '1, 2, 3', '10,20 , 30', ' 5,6,7', '"a,b", 2, 3', '"it\'s", 8, 9', '"x:y", 1, 2',
            'abc, 4, 5', '"REM q", 3, 4'])
        strfirst = items.lstrip().startswith('"') or items.lstrip().startswith('abc')
        self.tail.append(L(S('data', KW('data'), ('data', ' ' + items)), label=('lab', name)))
        out = []
        if self.rng.random() < 0.7:
            out.append(L(S('restore', KW('restore'), LAB(name))))
        else:
            # the only earlier DATA blocks come later in the text: make it the first one read
            out.append(L(S('restore', KW('restore'), LAB(name))))
        v1 = ID('s$') if strfirst else ID('a%')
        out.append(L(S('read', KW('read'), v1, OP(','), ID('b%'), OP(','), ID('k%'))))
        out.append(L(S('print', KW('print'), v1, OP(';'), ID('b%'), OP(';'), ID('k%'))))
        return out

    def b_call(self):
        self.kinds.add('sub-call')
        name = self.fresh('proc')
        p1, p2 = 'p%', 'q%'
        body = [L(S('assign', ID(p1), OP('='), ID(p1), OP('+'), ID(p2))),
                L(S('print', KW('print'), STR(name), OP(';'), ID(p1)))]
        self.procs.append((name, [L(S('x', KW('sub'), ID(name), OP('('), ID(p1), OP(','), ID(p2), OP(')')), alone=True)]
                           + body + [L(S('x', KW('end'), KW('sub')), alone=True)]))
        a1 = [ID(self.rng.choice(['a%', 'b%', 'total%']))]
        a2 = expr_toks(self.rng, ['a%', 'b%'], 1)
        return [L(S('call', name=name, args=[a1, a2]))]

    def b_func(self):
        self.kinds.add('function')
        name = self.fresh('fn') + '%'
        self.procs.append((name, [L(S('x', KW('function'), ID(name), OP('('), ID('z%'), OP(')')), alone=True),
                                  L(S('assign', ID(name), OP('='), ID('z%'), OP('*'), NUM(2), OP('+'), NUM(1))),
                                  L(S('x', KW('end'), KW('function')), alone=True)]))
        v = self.rng.choice(['a%', 'b%', 'total%'])
        return [L(S('assign', ID(v), OP('='), ID(name), OP('('), *expr_toks(self.rng, ['a%', 'b%'], 1), OP(')')))]

    def b_dim(self):
        self.kinds.add('dim-array')
        name = self.fresh('arr') + '%'
        out = [L(S('x', KW('dim'), ID(name), OP('('), NUM(self.rng.choice([3, 5])), OP(')')), alone=True)]
        out.append(L(S('assign', ID(name), OP('('), NUM(1), OP(')'), OP('='), *expr_toks(self.rng, self.vars, 1))))
        out.append(L(S('print', KW('print'), ID(name), OP('('), NUM(1), OP(')'), OP(';'), ID(name), OP('('), NUM(2), OP(')'))))
        return out

    def b_const(self):
        self.kinds.add('const')
        name = self.fresh('cc') + '%'
        out = [L(S('x', KW('const'), ID(name), OP('='), NUM(self.rng.choice([3, 4, 9]))), alone=True)]
        out.append(L(S('print', KW('print'), ID(name), OP('*'), NUM(2))))
        return out

    def b_typed(self):
        """identifiers with every type suffix"""
        self.kinds.add('type-suffixes')
        return [L(S('assign', ID('xl&'), OP('='), NUM(70000))),
                L(S('assign', ID('xs!'), OP('='), NUM('1.5'))),
                L(S('assign', ID('xd#'), OP('='), NUM('2.25#'))),
                L(S('assign', ID('xn'), OP('='), NUM('1E2'))),
                L(S('print', KW('print'), ID('xl&'), OP(';'), ID('xs!'), OP(';'), ID('xd#'), OP(';'), ID('xn'),
                    OP(';'), NUM('&HFF'), OP(';'), NUM('3.5E+1')))]

    def body(self, depth):
        out = []
        for _ in range(self.rng.randint(1, 2)):
            if depth < 2 and self.rng.random() < 0.3:
                out += self.block(depth)
            else:
                out += self.simples(1)
        return out

    def block(self, depth):
        c = self.rng.choice(['if', 'ifline', 'for', 'while', 'do', 'select'])
        if c == 'if':
            return self.b_if(depth)
        if c == 'ifline':
            return self.b_ifline()
        if c == 'for':
            return self.b_for(depth)
        if c == 'while':
            return self.b_while(depth)
        if c == 'do':
            return self.b_do(depth)
        return self.b_select(depth)

    def program(self):
        self.procs = []
        rng = self.rng
        top = [L(S('assign', ID('a%'), OP('='), NUM(1))), L(S('assign', ID('b%'), OP('='), NUM(2))),
               L(S('assign', ID('s$'), OP('='), STR('s')))]
        makers = [lambda: self.block(0), lambda: self.block(0), self.b_gosub, self.b_goto, self.b_data,
                  self.b_call, self.b_func, self.b_dim, self.b_const, self.b_typed,
                  lambda: self.simples(2), self.b_ifline]
        for _ in range(rng.randint(3, 6)):
            top += rng.choice(makers)()
        top.append(L(S('x', KW('end')), alone=True))
        lines = top + self.tail
        for _, pl in self.procs:
            lines += pl
        return lines


def generate(seed):
    g = Gen(seed)
    lines = g.program()
    return lines, sorted(g.kinds)


# --------------------------------------------------------------------------
# rendering

class Style:
    """spelling decisions; the default style is the base text"""

    def __init__(self, rng=None, kinds=()):
        self.rng = rng
        self.kinds = set(kinds)     # which rewriting kinds are switched on
        self.labmap = {}
        self.lnomap = {}

    def on(self, k, p=0.5):
        return self.rng is not None and k in self.kinds and self.rng.random() < p

    def case(self, s, what):
        if not self.on('case-' + what, 0.7):
            return s.upper() if what == 'kw' else s
        r = self.rng.random()
        if r < 0.33:
            return s.upper()
        if r < 0.66:
            return s.lower()
        return ''.join(c.upper() if self.rng.random() < 0.5 else c.lower() for c in s)

    def blank(self, a, b):
        """blanks between rendered pieces a and b"""
        need = wordy_end(a) and wordy_start(b)
        relclash = a[-1:] in '<>=' and b[:1] in '<>='
        if need or relclash or b[:1] == "'":
            base = ' '
        else:
            base = ' '
            if self.on('blank-remove', 0.5) and removable(a, b):
                base = ''
        if self.on('blank-add', 0.3):
            base += self.rng.choice([' ', '  ', '\t', ' \t '])
        return base

    def rel(self, r):
        if r in REL_ALT and self.on('relop', 0.6):
            return REL_ALT[r]
        return r

    def label(self, name):
        if 'label-rename' in self.kinds and self.rng is not None:
            if name not in self.labmap:
                self.labmap[name] = 'zz' + str(len(self.labmap) + 1) + name[::-1]
            return self.labmap[name]
        return name

    def lineno(self, n):
        if 'lineno-renumber' in self.kinds and self.rng is not None:
            if n not in self.lnomap:
                self.lnomap[n] = 7 + 3 * len(self.lnomap)
            return self.lnomap[n]
        return n


def wordy_end(a):
    return a[-1:].isalnum() or a[-1:] in '%&!#$.'


def wordy_start(b):
    return b[:1].isalnum() or b[:1] in '.&'


def removable(a, b):
    pa, pb = a[-1:], b[:1]
    if pa in '<>=' and pb in '<>=':
        return False
    if pa == '&' or pb == '&':
        return False
    return (pa in '(),;=+-*/<>^:') or (pb in '(),;=+-*/<>^:')


def tok_text(tok, st):
    c, t = tok
    if c == 'kw':
        return st.case(t, 'kw')
    if c == 'id':
        return st.case(t, 'id')
    if c == 'num':
        if st.on('case-num', 0.5):
            return t.lower() if st.rng.random() < 0.5 else t.upper()
        return t
    if c == 'rel':
        return st.rel(t)
    if c == 'lab':
        return st.case(st.label(t), 'id')
    if c == 'lno':
        return str(st.lineno(t))
    return t


def stmt_tokens(s, st):
    """statement -> list of tokens under the style's optional syntax"""
    k = s['k']
    if k == 'assign':
        pre = [KW('let')] if st.on('let', 0.5) else []
        return pre + s['t']
    if k == 'call':
        args = s['args']
        flat = []
        for i, a in enumerate(args):
            if i:
                flat.append(OP(','))
            flat += a
        if st.on('call-form', 0.5):
            return [ID(s['name'])] + flat
        return [KW('call'), ID(s['name']), OP('(')] + flat + [OP(')')]
    if k == 'next':
        if st.on('next-var', 0.5):
            return [KW('next')]
        return [KW('next'), ID(s['var'])]
    return s['t']


def render_stmt(s, st):
    toks = stmt_tokens(s, st)
    out = ''
    for tok in toks:
        if tok[0] == 'data':
            out += tok[1]          # verbatim, directly after DATA
            continue
        piece = tok_text(tok, st)
        if out:
            out += st.blank(out, piece)
        out += piece
    return out


JOINABLE = {'assign', 'print', 'gosub', 'goto', 'restore', 'read', 'call', 'next', 'for', 'while',
            'wend', 'do', 'loop', 'return', 'data'}


def render(lines, st):
    """-> text.  Colon joining merges consecutive joinable, unlabelled lines;
    a single-line IF or a DATA statement may only close a group."""
    groups = []
    for ln in lines:
        stm = ln['stmts']
        can = (not ln['alone']) and all(s['k'] in JOINABLE or s['k'] == 'ifline' for s in stm)
        if (groups and can and ln['label'] is None and st.on('colon-join', 0.4)
                and groups[-1]['can'] and groups[-1]['stmts'][-1]['k'] not in ('ifline', 'data')
                and not any(s['k'] == 'data' for s in stm[:-1])):
            groups[-1]['stmts'] += stm
        else:
            groups.append({'label': ln['label'], 'stmts': list(stm), 'can': can})
    out = []
    for g in groups:
        if st.on('empty-line', 0.15):
            out.append(st.rng.choice(['', '  ', '\t']))
        if st.on('comment-line', 0.15):
            out.append(st.rng.choice(["' note", "REM note : x = 1", "  rem", "'", "Rem 'q' \"z"]))
        text = ''
        lab = g['label']
        if lab is not None:
            if lab[0] == 'lab':
                text = st.case(st.label(lab[1]), 'id') + ':'
            else:
                text = str(st.lineno(lab[1]))
            text += ' '
        parts = [render_stmt(s, st) for s in g['stmts']]
        body = ''
        for i, p in enumerate(parts):
            if i:
                body += (' : ' if not st.on('blank-remove', 0.5) else ':')
            body += p
        text += body
        last = g['stmts'][-1]['k']
        if st.on('trailing-colon', 0.2) and last != 'ifline':
            text += (' :' if last != 'data' else ':')
        if st.on('comment-eol', 0.25) and last != 'data':
            text += st.rng.choice([" ' c", "  'x = 1 : REM", "\t' \"q", " '"])
        if st.on('indent', 0.3):
            text = st.rng.choice(['  ', '\t', '    ']) + text
        if st.on('blank-add', 0.2) and last != 'data':
            text += st.rng.choice([' ', '  ', '\t'])
        out.append(text)
    return '\n'.join(out) + '\n'


ALL_KINDS = ['case-kw', 'case-id', 'case-num', 'blank-add', 'blank-remove', 'indent', 'relop',
             'let', 'call-form', 'next-var', 'label-rename', 'lineno-renumber', 'colon-join',
             'trailing-colon', 'empty-line', 'comment-line', 'comment-eol']


# --------------------------------------------------------------------------
# family 'decl': letter case of ONE name at its declaration site(s) (@D) and at its use sites (@U),
# for every declaration form of every kind of name.  Every program OBSERVES the variable so that a
# split identity (declaration registered under one spelling, uses under another) changes the
# sections / the trace / the verdict.  The expected printed text is known by construction.

STEM = 'vbl'
SPELL = {'lower': 'vbl', 'cap': 'Vbl', 'upper': 'VBL', 'mixed': 'vBl'}
DECL_SPELLINGS = ['lower', 'cap', 'upper', 'mixed']
USE_SPELLINGS = ['lower', 'upper', 'mixed']


def num(n):
    """PRINT of an integral value"""
    return (' ' if n >= 0 else '-') + str(abs(n)) + ' '


NL = '\r\n'

# (tag, suffix at the declaration, suffix at a use, caller's variable, is string)
PARAM_TYPES = [
    ('untyped', '', '', 'x', False),
    ('pct', '%', '%', 'x%', False),
    ('amp', '&', '&', 'x&', False),
    ('bang', '!', '!', 'x!', False),
    ('hash', '#', '#', 'x#', False),
    ('dollar', '$', '$', 'x$', True),
    ('as-integer', ' AS INTEGER', '', 'x%', False),
    ('as-long', ' AS LONG', '', 'x&', False),
    ('as-single', ' AS SINGLE', '', 'x!', False),
    ('as-double', ' AS DOUBLE', '', 'x#', False),
    ('as-string', ' AS STRING', '', 'x$', True),
]


def decl_templates():
    """-> list of (form id, text with @D / @U, expected printed text)"""
    T = []
    for tag, ds, us, cv, isstr in PARAM_TYPES:
        as_clause = ds.startswith(' AS')
        dsc = '@D' + ds                                    # scalar parameter
        dar = '@D()' + ds if as_clause else '@D' + ds + '()'   # array parameter
        u = '@U' + us
        ca = cv.replace('x', 'a')
        if isstr:
            init, upd, exp = f'{cv} = "p"', f'{u} = {u} + "q"', 'pq' + NL
            ainit, aupd, aexp = f'{ca}(1) = "p"', f'{u}(1) = {u}(1) + "q"', 'pq' + NL
            ret = 'LEN(' + u + ')'
        else:
            init, upd, exp = f'{cv} = 1', f'{u} = {u} + 4', num(5) + NL
            ainit, aupd, aexp = f'{ca}(1) = 1', f'{u}(1) = {u}(1) + 4', num(5) + NL
            ret = u
        # SUB, scalar parameter passed by reference
        T.append((f'sub-param-scalar-{tag}',
                  f'{init}\nCALL p({cv})\nPRINT {cv}\nSUB p ({dsc})\n{upd}\nEND SUB\n', exp))
        # SUB, array parameter
        T.append((f'sub-param-array-{tag}',
                  f'DIM {ca}(3)\n{ainit}\nCALL p({ca}())\nPRINT {ca}(1)\nSUB p ({dar})\n{aupd}\nEND SUB\n', aexp))
        # second parameter, statement-form call
        T.append((f'sub-param2-array-{tag}',
                  f'DIM {ca}(3)\n{ainit}\np 2, {ca}()\nPRINT {ca}(1)\nSUB p (n%, {dar})\n{aupd}\nEND SUB\n', aexp))
        # FUNCTION parameters
        T.append((f'function-param-scalar-{tag}',
                  f'{init}\nr% = f%({cv})\nPRINT {cv}\nFUNCTION f% ({dsc})\n{upd}\nf% = 1\nEND FUNCTION\n', exp))
        T.append((f'function-param-array-{tag}',
                  f'DIM {ca}(3)\n{ainit}\nr% = f%({ca}())\nPRINT {ca}(1)\nFUNCTION f% ({dar})\n{aupd}\nf% = 1\n'
                  f'END FUNCTION\n', aexp))
        # the name in the DECLARE statement only
        T.append((f'declare-param-array-{tag}',
                  f'DECLARE SUB p ({dar})\nDIM {ca}(3)\n{ainit}\np {ca}()\nPRINT {ca}(1)\n'
                  f'SUB p ({dar.replace("@D", "@U")})\n{aupd}\nEND SUB\n', aexp))
        # DIM / DIM SHARED / STATIC of a scalar (qbee has no REDIM and no SHARED statement) and of an array
        if isstr:
            sset, sexp = f'{u} = "s"', 's' + NL
        else:
            sset, sexp = f'{u} = 7', num(7) + NL
        dimsc = '@D' + ds
        dimar = '@D(20)' + ds if as_clause else '@D' + ds + '(20)'
        T.append((f'dim-scalar-{tag}', f'DIM {dimsc}\n{sset}\nPRINT {u}\n', sexp))
        T.append((f'dim-array-{tag}', f'DIM {dimar}\n{u}(15) = {sset.split(" = ")[1]}\nPRINT {u}(15)\n', sexp))
        T.append((f'dim-shared-scalar-{tag}',
                  f'DIM SHARED {dimsc}\n{sset}\nCALL p\nSUB p\nPRINT {u}\nEND SUB\n', sexp))
        T.append((f'dim-shared-array-{tag}',
                  f'DIM SHARED {dimar}\n{u}(15) = {sset.split(" = ")[1]}\nCALL p\nSUB p\nPRINT {u}(15)\nEND SUB\n', sexp))
        if isstr:
            T.append((f'static-scalar-{tag}',
                      f'CALL p\nCALL p\nSUB p\nSTATIC {dimsc}\n{u} = {u} + "s"\nPRINT {u}\nEND SUB\n', 's' + NL + 'ss' + NL))
        else:
            T.append((f'static-scalar-{tag}',
                      f'CALL p\nCALL p\nSUB p\nSTATIC {dimsc}\n{u} = {u} + 1\nPRINT {u}\nEND SUB\n',
                      num(1) + NL + num(2) + NL))
        # FUNCTION name with the suffix forms
        if not as_clause:
            if isstr:
                T.append((f'function-name-{tag}',
                          f'PRINT {u}("k")\nFUNCTION @D{ds} (z$)\n{u} = z$ + "f"\nEND FUNCTION\n', 'kf' + NL))
            else:
                T.append((f'function-name-{tag}',
                          f'PRINT {u}(4)\nFUNCTION @D{ds} (z%)\n{u} = z% * 2\nEND FUNCTION\n', num(8) + NL))
            # CONST
            if isstr:
                T.append((f'const-{tag}', f'CONST @D{ds} = "k"\nPRINT {u} + "c"\n', 'kc' + NL))
            else:
                T.append((f'const-{tag}', f'CONST @D{ds} = 3\nPRINT {u} * 2\n', num(6) + NL))
            # implicit variable, FOR variable, READ target
            if not isstr:
                T.append((f'for-var-{tag}', f'FOR @D{ds} = 1 TO 2\nPRINT {u}\nNEXT {u}\n', num(1) + NL + num(2) + NL))
                T.append((f'read-target-{tag}', f'READ @D{ds}\nPRINT {u}\nDATA 4\n', num(4) + NL))
            else:
                T.append((f'read-target-{tag}', f'READ @D{ds}\nPRINT {u}\nDATA w\n', 'w' + NL))
    # integer declared, fractional value stored: a split identity keeps the fraction
    T.append(('dim-scalar-as-integer-rounds', 'DIM @D AS INTEGER\n@U = 2.6\nPRINT @U\n', num(3) + NL))
    T.append(('dim-shared-as-integer-rounds', 'DIM SHARED @D AS INTEGER\nCALL p\nPRINT @U\nSUB p\n@U = 2.6\nEND SUB\n',
              num(3) + NL))
    T.append(('static-as-integer-rounds', 'CALL p\nSUB p\nSTATIC @D AS INTEGER\n@U = 2.6\nPRINT @U\nEND SUB\n', num(3) + NL))
    T.append(('defint-letter', 'DEFINT @L\n@U = 2.6\nPRINT @U\n', num(3) + NL))
    # SUB name
    T.append(('sub-name-call', 'CALL @U\nSUB @D\nPRINT "in"\nEND SUB\n', 'in' + NL))
    T.append(('sub-name-stmt', '@U\nSUB @D\nPRINT "in"\nEND SUB\n', 'in' + NL))
    T.append(('sub-name-declare', 'DECLARE SUB @D (n%)\n@U 3\nSUB @U (n%)\nPRINT n%\nEND SUB\n', num(3) + NL))
    T.append(('function-name-declare', 'DECLARE FUNCTION @D% (n%)\nPRINT @U%(3)\nFUNCTION @U% (n%)\n@U% = n% + 1\nEND FUNCTION\n',
              num(4) + NL))
    # TYPE name, field, record variable, record parameter, array of records
    T.append(('type-name', 'TYPE @D\nfld AS INTEGER\nEND TYPE\nDIM r AS @U\nr.fld = 2.6\nPRINT r.fld\n', num(3) + NL))
    T.append(('type-field', 'TYPE rec\n@D AS INTEGER\nother AS LONG\nEND TYPE\nDIM r AS rec\nr.@U = 2.6\nr.other = 9\n'
                            'PRINT r.@U; r.other\n', num(3) + num(9) + NL))
    T.append(('type-field-string', 'TYPE rec\n@D AS STRING\nEND TYPE\nDIM r AS rec\nr.@U = "ab"\nPRINT "["; r.@U; "]"\n',
              '[ab]' + NL))
    T.append(('record-var', 'TYPE rec\nfld AS INTEGER\nEND TYPE\nDIM @D AS rec\n@U.fld = 2.6\nPRINT @U.fld\n', num(3) + NL))
    T.append(('record-array', 'TYPE rec\nfld AS INTEGER\nEND TYPE\nDIM @D(20) AS rec\n@U(15).fld = 2.6\nPRINT @U(15).fld\n',
              num(3) + NL))
    T.append(('record-param', 'TYPE rec\nfld AS INTEGER\nEND TYPE\nDIM r AS rec\nCALL p(r)\nPRINT r.fld\n'
                              'SUB p (@D AS rec)\n@U.fld = 5\nEND SUB\n', num(5) + NL))
    T.append(('record-array-param', 'TYPE rec\nfld AS INTEGER\nEND TYPE\nDIM r(3) AS rec\nCALL p(r())\nPRINT r(1).fld\n'
                                    'SUB p (@D() AS rec)\n@U(1).fld = 5\nEND SUB\n', num(5) + NL))
    # labels
    T.append(('label-goto', 'GOTO @U\nPRINT "skipped"\n@D:\nPRINT "t"\n', 't' + NL))
    T.append(('label-gosub', 'GOSUB @U\nPRINT "back"\nEND\n@D:\nPRINT "t"\nRETURN\n', 't' + NL + 'back' + NL))
    T.append(('label-restore', 'READ a%\nRESTORE @U\nREAD b%\nPRINT a%; b%\nDATA 1\n@D: DATA 2\n', num(1) + num(2) + NL))
    T.append(('label-on-error', 'ON ERROR GOTO @U\nz% = 0\nPRINT 1 \\ z%\nEND\n@D:\nPRINT "h"\n', 'h' + NL))
    T.append(('label-if-then-goto', 'IF 1 THEN GOTO @U\nPRINT "skipped"\n@D: PRINT "t"\n', 't' + NL))
    return T


def decl_texts(text, dsp, usp, kwlower=False):
    """the templates have every keyword in upper case, every other name and every literal in lower case"""
    t = text.replace('@L', SPELL[dsp][0] if dsp != 'mixed' else 'V').replace('@D', '\x01').replace('@U', '\x02')
    if kwlower:
        t = t.lower()
    return t.replace('\x01', SPELL[dsp]).replace('\x02', SPELL[usp])


# --------------------------------------------------------------------------
# family 'litcase': programs in which several lines are identical up to the letter case INSIDE a
# string literal, a DATA item or a comment.  A line is a list of segments (kind, text) with kind
# 'code' (keywords, identifiers, operators: case-insensitive, blanks free) or 'lit' (string literal
# with its quotes, DATA payload, comment: verbatim).  What the program prints is known by construction.

WORDS = ['north', 'q', 'ab cd', "it's", 'rem x', 'then', 'a:b']
WORD_SPELLINGS = ['lower', 'upper', 'cap', 'inv']


def spell_word(w, sp):
    if sp == 'lower':
        return w.lower()
    if sp == 'upper':
        return w.upper()
    if sp == 'cap':
        return w[:1].upper() + w[1:].lower()
    return w[:1].lower() + w[1:].upper() if len(w) > 1 else w.upper()


def C(t):
    return ('code', t)


def V(t):
    return ('lit', t)


def lit_shapes():
    """-> {shape: function(words in their spellings) -> (lines before, [the similar lines], lines
    after, expected printed text)}; every line is a list of segments"""
    def q(w):
        return V('"' + w + '"')

    def print_lit(ws):
        return [], [[C('PRINT '), q(w)] for w in ws], [], ''.join(w + NL for w in ws)

    def print_two(ws):
        return [], [[C('PRINT '), q('Same'), C('; '), q(w)] for w in ws], [], ''.join('Same' + w + NL for w in ws)

    def assign_colon(ws):
        return [], [[C('t$ = '), q(w), C(': PRINT t$')] for w in ws], [], ''.join(w + NL for w in ws)

    def assign_then_print(ws):
        sim = []
        for w in ws:
            sim.append([C('t$ = '), q(w)])
            sim.append([C('PRINT t$')])
        return [], sim, [], ''.join(w + NL for w in ws)

    def concat(ws):
        return [[C('t$ = '), q('')]], [[C('t$ = t$ + '), q(w)] for w in ws], [[C('PRINT t$')]], ''.join(ws) + NL

    def if_eq(ws):
        # k$ is the LAST spelling: exactly the lines whose literal equals it count
        n = sum(1 for w in ws if w == ws[-1])
        return ([[C('k$ = '), q(ws[-1])], [C('hits% = 0')]],
                [[C('IF k$ = '), q(w), C(' THEN hits% = hits% + 1')] for w in ws],
                [[C('PRINT hits%')]], num(n) + NL)

    def if_else(ws):
        return ([[C('k$ = '), q(ws[0])]],
                [[C('IF '), q(w), C(' = k$ THEN PRINT '), q('y'), C(' ELSE PRINT '), q('n')] for w in ws],
                [], ''.join(('y' if w == ws[0] else 'n') + NL for w in ws))

    def select_case(ws):
        first = ws.index(ws[-1])
        sim = []
        for i, w in enumerate(ws):
            sim.append([C('CASE '), q(w)])
            sim.append([C('PRINT '), q('branch'), C(';' + ' ' * 0), C(' ' + str(i))])
        return ([[C('k$ = '), q(ws[-1])], [C('SELECT CASE k$')]], sim, [[C('END SELECT')]],
                'branch' + num(first) + NL)

    def data_unquoted(ws):
        if any(c in w for w in ws for c in ",:'\"") or any(w.lower().startswith('rem') for w in ws):
            return None
        n = len(ws)
        return ([[C(f'FOR i% = 1 TO {n}')], [C('READ t$')], [C('PRINT t$')], [C('NEXT i%')]],
                [[C('DATA'), V(' ' + w)] for w in ws], [], ''.join(w + NL for w in ws))

    def data_quoted(ws):
        n = len(ws)
        return ([[C(f'FOR i% = 1 TO {n}')], [C('READ t$, n%')], [C('PRINT t$; n%')], [C('NEXT i%')]],
                [[C('DATA'), V(' "' + w + '", 7')] for w in ws], [], ''.join(w + num(7) + NL for w in ws))

    def comment_eol(ws):
        return [], [[C('PRINT '), q('x'), C(' '), V("' " + w)] for w in ws], [], ''.join('x' + NL for w in ws)

    def rem_line(ws):
        sim = []
        for w in ws:
            sim.append([C('REM'), V(' ' + w)])
            sim.append([C('PRINT '), q('r')])
        return [], sim, [], ''.join('r' + NL for w in ws)

    def call_arg(ws):
        return ([], [[C('CALL show('), q(w), C(')')] for w in ws],
                [[C('SUB show (m$)')], [C('PRINT m$')], [C('END SUB')]], ''.join(w + NL for w in ws))

    def stmt_call_arg(ws):
        return ([], [[C('show '), q(w)] for w in ws],
                [[C('SUB show (m$)')], [C('PRINT m$')], [C('END SUB')]], ''.join(w + NL for w in ws))

    def func_arg(ws):
        return ([], [[C('PRINT LEN('), q(w), C('); ASC('), q(w), C(')')] for w in ws], [],
                ''.join(num(len(w)) + num(ord(w[0])) + NL for w in ws))

    def array_elem(ws):
        return ([[C('DIM t$(9)')]], [[C(f't$({1}) = '), q(w), C(': PRINT t$(1)')] for w in ws], [],
                ''.join(w + NL for w in ws))

    def in_block(ws):
        sim = []
        for w in ws:
            sim.append([C('FOR i% = 1 TO 1')])
            sim.append([C('  PRINT '), q(w)])
            sim.append([C('NEXT i%')])
        return [], sim, [], ''.join(w + NL for w in ws)

    def const_def(ws):
        return ([], [[C(f'CONST c{i}$ = '), q(w)] for i, w in enumerate(ws)][:1] +
                [[C('PRINT c0$; '), q(w)] for w in ws], [], ''.join(ws[0] + w + NL for w in ws))

    return {'print': print_lit, 'print-two': print_two, 'assign-colon': assign_colon,
            'assign-then-print': assign_then_print, 'concat': concat, 'if-eq': if_eq, 'if-else': if_else,
            'select-case': select_case, 'data-unquoted': data_unquoted, 'data-quoted': data_quoted,
            'comment-eol': comment_eol, 'rem-line': rem_line, 'call-arg': call_arg,
            'stmt-call-arg': stmt_call_arg, 'func-arg': func_arg, 'array-elem': array_elem,
            'in-block': in_block, 'const-print': const_def}


def seg_text(line, code=None):
    """the text of a line; code = function applied to the code segments"""
    return ''.join(t if k == 'lit' or code is None else code(t) for k, t in line)


def swap_words(t):
    """another letter case for every word of a code segment, word by word alternating"""
    out, i, n = '', 0, 0
    while i < len(t):
        if t[i].isalpha():
            j = i
            while j < len(t) and (t[j].isalnum()):
                j += 1
            w = t[i:j]
            out += w.lower() if n % 2 == 0 and w != w.lower() else (w.upper() if w != w.upper() else w.lower())
            n += 1
            i = j
        else:
            out += t[i]
            i += 1
    return out


LINE_REWRITES = ['case-lower', 'case-upper', 'case-swap', 'blank-double', 'indent', 'blank-trailing',
                 'comment-eol', 'trailing-colon']


def rewrite_line(line, how):
    """-> text of the line under one behaviour-neutral rewriting, or None when it does not apply"""
    is_data = any(k == 'code' and t.strip().upper() == 'DATA' for k, t in line)
    is_rem = any(k == 'code' and t.strip().upper() == 'REM' for k, t in line)
    has_comment = any(k == 'lit' and t.startswith("'") for k, t in line)
    base = seg_text(line)
    if how == 'case-lower':
        r = seg_text(line, str.lower)
    elif how == 'case-upper':
        r = seg_text(line, str.upper)
    elif how == 'case-swap':
        r = seg_text(line, swap_words)
    elif how == 'blank-double':
        # blanks between tokens of the code segments (never the blank that ends a DATA/REM keyword:
        # the payload is verbatim)
        r = seg_text(line, lambda t: t.replace(' ', '  '))
    elif how == 'indent':
        r = '   ' + base
    elif how == 'blank-trailing':
        if is_data or is_rem or has_comment:
            return None
        r = base + '  '
    elif how == 'comment-eol':
        if is_data or is_rem or has_comment:
            return None
        r = base + " ' note"
    elif how == 'trailing-colon':
        if is_data or is_rem or has_comment:
            return None
        first = line[0][1].lstrip().upper()
        if first.startswith(('IF ', 'CASE', 'SELECT', 'FOR', 'NEXT', 'SUB', 'END', 'CONST', 'DIM')):
            return None
        r = base + ' :'
    else:
        raise ValueError(how)
    return r if r != base else None
