"""C04: the declaration-shape language shared by the T-fn suite and the
sentinel-program generator, with the harness's own (specification-side)
notion of the scalar locations of a declared variable."""

# record library (source order); fields: (name, type)
#   type: ('b', k) builtin 1..5 | ('r', name)
RECORDS = [
    ('ra', [('x', ('b', 3))]),
    ('rb', [('a', ('b', 1)), ('s', ('b', 5))]),
    ('rc', [('l', ('b', 2)), ('i', ('r', 'rb')), ('d', ('b', 4))]),
    ('rd', [('p', ('r', 'ra')), ('q', ('r', 'rc')), ('z', ('b', 1))]),
]
RECMAP = dict(RECORDS)
BNAME = {1: 'INTEGER', 2: 'LONG', 3: 'SINGLE', 4: 'DOUBLE', 5: 'STRING'}

def type_src(recs):
    return ''.join(
        f'TYPE {n}\n' + ''.join(f' {fn} AS {BNAME[ft[1]] if ft[0] == "b" else ft[1]}\n' for fn, ft in fs)
        + 'END TYPE\n' for n, fs in recs)


TYPE_SRC = type_src(RECORDS)

# all (lb, ub) with -2 <= lb <= ub <= 3
PAIRS = [(lb, ub) for lb in range(-2, 4) for ub in range(lb, 4)]


def base_src(t):
    return BNAME[t[1]] if t[0] == 'b' else t[1]


def model_ty(t):
    """shape type -> sx of Models/LayoutEntry.v
    shape types: ('b',k) ('r',name) ('a', bounds, base) ('d', rank, base)"""
    if t[0] == 'b':
        return [1, t[1]]
    if t[0] == 'r':
        return [2, t[1]]
    if t[0] == 'a':
        return [3, [[lb, ub] for lb, ub in t[1]], model_ty(t[2])]
    return [4, model_ty(t[2])]


def model_env(recs=None):
    """latest definition first"""
    return [[n, [[fn, model_ty(ft)] for fn, ft in fs]] for n, fs in reversed(recs if recs is not None else RECORDS)]


def impl_ty(t):
    """shape type -> what layoutfn.ty_desc reports for the compiled declaration"""
    if t[0] == 'b':
        return [1, t[1]]
    if t[0] == 'r':
        return [2, t[1]]
    if t[0] == 'a':
        return [3, [[lb, ub] for lb, ub in t[1]], impl_ty(t[2])]
    return [4, impl_ty(t[2])]


def leaves(t):
    """field chains to the builtin leaves of a base type: [(path, kind)]"""
    if t[0] == 'b':
        return [((), t[1])]
    out = []
    for fn, ft in RECMAP[t[1]]:
        for p, k in leaves(ft):
            out.append(((fn,) + p, k))
    return out


def chains(t):
    """all non-empty field chains (also to record-typed fields)"""
    if t[0] != 'r':
        return []
    out = []
    for fn, ft in RECMAP[t[1]]:
        out.append((fn,))
        for p in chains(ft):
            out.append((fn,) + p)
    return out


def spec_size(t):
    """number of scalar locations of a type (spec side: a count of leaves, not cells)"""
    if t[0] in ('b',):
        return 1
    if t[0] == 'r':
        return len(leaves(t))
    if t[0] == 'a':
        n = 1
        for lb, ub in t[1]:
            n *= ub - lb + 1
        return n * len(leaves(t[2]))
    return 0


def decl_src(kw, name, t, dynvar='nq%'):
    """DIM / DIM SHARED / STATIC clause for a variable of shape type t"""
    if t[0] in ('b', 'r'):
        return f'{kw} {name} AS {base_src(t)}'
    if t[0] == 'a':
        ds = ', '.join(f'{lb} TO {ub}' for lb, ub in t[1])
        return f'{kw} {name}({ds}) AS {base_src(t[2])}'
    # dynamic: run-time bounds lb TO dynvar per dimension
    ds = ', '.join(f'{lb} TO {dynvar}' for lb in t[3])
    return f'{kw} {name}({ds}) AS {base_src(t[2])}'


def param_src(name, t):
    if t[0] in ('b', 'r'):
        return f'{name} AS {base_src(t)}'
    return f'{name}() AS {base_src(t[2])}'


def param_ty(t):
    """declared type of a parameter of shape t as memlayout sees it"""
    return t if t[0] in ('b', 'r') else ('d', 0, t[2], ())
