"""C11 - the debug map attributes every instruction to its source statement.
Theorems: coq/Props/C11.v.  Correspondence (T-fn): the real
DebugInfoCollector / add_node / finalize / find_stmt / convert_index_to_line_col
on constructed inputs, and the real compiler's marker stream + debug tables,
against Models/DebugMap.v.  Property oracle (implfns/dbgmapfn.py) on the real
artefacts of corpus and generated programs at levels 0,1,2."""
import itertools
import json
import random
import re

import vlib
from vlib import Ctx

PROP = 'C11'

# --------------------------------------------------------------------------
# constructed streams (T-fn for collect/add_node/finalize)

N_S1 = [1, 0, 0, 0]
N_S2 = [2, 0, 0, 0]
N_B = [3, 1, 4, 5]
N_R = [6, 2, 7, 8]
N_O = [9, 3, 0, 0]
ALPHA = [[0, 1], [0, 2], [3]] + [[k, n] for n in (N_S1, N_S2, N_B, N_R, N_O) for k in (1, 2)]


def norm_collector(case, raw):
    if isinstance(raw, dict) and 'exc' in raw:
        return {'AssertionError': [1], 'IndexError': [2]}.get(raw['exc'], ['exc', raw['exc'], raw.get('msg')])
    return [0, raw['routines'], raw['stmts'], raw['others'], raw['size']]


def wf_stream(rng, budget, depth=0):
    """a random well-nested stream over a fresh identity per node"""
    out = []
    counter = [100]

    def node(kind):
        counter[0] += 3
        i = counter[0]
        return [i, kind, i + 1, i + 2] if kind in (1, 2) else [i, kind, 0, 0]

    def seq(b, d):
        items = []
        while b > 0:
            r = rng.random()
            if r < 0.35:
                items.append([0, rng.choice([1, 1, 2, 3, 5])])
                b -= 1
            elif r < 0.45:
                items.append([3])
                b -= 1
            elif d < 4:
                k = rng.choice([0, 0, 0, 1, 1, 2, 3])
                n = node(k)
                inner = rng.randint(0, max(0, b - 1))
                items.append([1, n])
                items += seq(inner, d + 1)
                items.append([2, n])
                b -= inner + 1
            else:
                items.append([0, 1])
                b -= 1
        return items
    return seq(budget, depth)


# --------------------------------------------------------------------------
# program generators

TAG = re.compile(r'9\d{4}')


class G:
    """typed-by-construction QBASIC programs; every PRINT / INPUT / trapping
    statement carries a unique literal 9xxxx, so the harness knows the source
    line (and the text) of the statement behind each device interaction"""

    def __init__(self, rng):
        self.rng = rng
        self.tag = 90000
        self.n = 0
        self.subs = []        # list of line lists, appended after END
        self.gosubs = []
        self.decls = []
        self.inputs = 0
        self.has_data = False

    def t(self):
        self.tag += 1
        return self.tag

    def uid(self):
        self.n += 1
        return self.n

    # ---- simple statements: each returns one source statement (no newline)
    def s_print(self, ctx):
        k = self.rng.randint(0, 2)
        if k == 0:
            return f'PRINT {self.t()}'
        if k == 1:
            return f'PRINT {self.t()}; a%'
        return f'PRINT "v"; {self.t()}'

    def s_assign(self, ctx):
        return self.rng.choice(['a% = a% + 1', 'b% = a% * 2 + 1', 'c% = b% - a%', 'a% = a%',
                                'b% = 3', 'c& = a% + 70000'])

    def s_const(self, ctx):
        return f'CONST k{self.uid()} = 5'

    def s_dim(self, ctx):
        return f'DIM d{self.uid()} AS INTEGER'

    def s_dimarr(self, ctx):
        return f'DIM r{self.uid()}(3) AS INTEGER'

    def s_input(self, ctx):
        self.inputs += 1
        return f'INPUT "{self.t()}"; b%'

    def s_read(self, ctx):
        self.has_data = True
        return 'RESTORE: READ c%'

    def s_call(self, ctx):
        i = self.uid()
        body = self.body(dict(ctx, routine='sub', loop=None, depth=ctx['depth'] + 1), self.rng.randint(0, 3))
        self.decls.append(f'DECLARE SUB p{i} (x%)')
        self.subs.append([f'SUB p{i} (x%)'] + body + ['END SUB'])
        return f'CALL p{i}(a% + 1)'

    def s_func(self, ctx):
        i = self.uid()
        body = self.body(dict(ctx, routine='function', loop=None, depth=ctx['depth'] + 1),
                         self.rng.randint(0, 2))
        self.decls.append(f'DECLARE FUNCTION f{i}% (x%)')
        pos = self.rng.choice([0, len(body)])
        body.insert(pos, f'f{i}% = x% + 1')
        self.subs.append([f'FUNCTION f{i}% (x%)'] + body + ['END FUNCTION'])
        return f'b% = f{i}%(a%)'

    def s_gosub(self, ctx):
        if ctx['routine'] != 'main':
            return self.s_print(ctx)
        i = self.uid()
        self.gosubs.append([f'g{i}:', f'PRINT {self.t()}', 'RETURN'])
        return f'GOSUB g{i}'

    def s_exit(self, ctx):
        if ctx['loop'] == 'for':
            return 'IF a% > 30000 THEN EXIT FOR'
        if ctx['loop'] == 'do':
            return 'IF a% > 30000 THEN EXIT DO'
        if ctx['routine'] == 'sub':
            return 'IF a% > 30000 THEN EXIT SUB'
        return self.s_assign(ctx)

    SIMPLE = ['print', 'print', 'print', 'assign', 'assign', 'const', 'dim', 'dimarr', 'input', 'read',
              'call', 'func', 'gosub', 'exit', 'print', 'assign']

    def simple(self, ctx, kind=None):
        kind = kind or self.rng.choice(self.SIMPLE)
        if ctx['depth'] >= 3 and kind in ('call', 'func'):
            kind = 'print'
        return getattr(self, 's_' + kind)(ctx)

    # ---- compound statements: each returns a list of lines
    def cond(self):
        return self.rng.choice(['a% = 0', 'a% < 5', 'a% > 30000', 'b% <> a%', 'a% >= 0'])

    def c_ifline(self, ctx):
        inner = ['print', 'assign', 'print']
        s1 = self.simple(ctx, self.rng.choice(inner))
        k = self.rng.randint(0, 3)
        if k == 0:
            return [f'IF {self.cond()} THEN {s1}']
        if k == 1:
            return [f'IF {self.cond()} THEN {s1} ELSE {self.simple(ctx, self.rng.choice(inner))}']
        if k == 2:
            return [f'IF {self.cond()} THEN {s1}: {self.simple(ctx, self.rng.choice(inner))}']
        return [f'IF {self.cond()} THEN {s1} ELSE {self.simple(ctx, "print")}: {self.simple(ctx, "assign")}']

    def c_if(self, ctx):
        c2 = dict(ctx, depth=ctx['depth'] + 1)
        lines = [f'IF {self.cond()} THEN'] + self.body(c2, self.rng.randint(0, 2))
        for _ in range(self.rng.randint(0, 3)):
            ec = self.rng.choice([f'a% = {self.t()}', f'a% < {self.t()}', f'b% + a% = {self.t()}'])
            lines += [f'ELSEIF {ec} THEN'] + self.body(c2, self.rng.randint(0, 2))
        if self.rng.random() < 0.5:
            lines += ['ELSE'] + self.body(c2, self.rng.randint(0, 2))
        return lines + ['END IF']

    def c_for(self, ctx):
        i = self.uid()
        c2 = dict(ctx, depth=ctx['depth'] + 1, loop='for')
        step = self.rng.choice(['', ' STEP 1', ' STEP 2'])
        nxt = self.rng.choice(['NEXT', f'NEXT i{i}%'])
        return [f'FOR i{i}% = 1 TO 2{step}'] + self.body(c2, self.rng.randint(0, 3)) + [nxt]

    def c_while(self, ctx):
        i = self.uid()
        c2 = dict(ctx, depth=ctx['depth'] + 1, loop='while')
        if self.rng.random() < 0.25:
            return [f'WHILE a% > 30000'] + self.body(c2, self.rng.randint(0, 1)) + ['WEND']
        body = self.body(c2, self.rng.randint(0, 2))
        body.insert(self.rng.choice([0, len(body)]), f'w{i}% = w{i}% + 1')
        return [f'w{i}% = 0', f'WHILE w{i}% < 2'] + body + ['WEND']

    def c_do(self, ctx):
        i = self.uid()
        c2 = dict(ctx, depth=ctx['depth'] + 1, loop='do')
        body = self.body(c2, self.rng.randint(0, 2))
        k = self.rng.randint(0, 5)
        inc = f'w{i}% = w{i}% + 1'
        if k == 0:
            body.insert(self.rng.choice([0, len(body)]), inc)
            return [f'w{i}% = 0', f'DO WHILE w{i}% < 2'] + body + ['LOOP']
        if k == 1:
            body.insert(self.rng.choice([0, len(body)]), inc)
            return [f'w{i}% = 0', f'DO UNTIL w{i}% >= 2'] + body + ['LOOP']
        if k == 2:
            body.insert(self.rng.choice([0, len(body)]), inc)
            return [f'w{i}% = 0', 'DO'] + body + [f'LOOP WHILE w{i}% < 2']
        if k == 3:
            return ['DO'] + body + ['LOOP UNTIL a% >= 0']
        if k == 4:
            return ['DO'] + body + ['EXIT DO', 'LOOP']
        return ['DO UNTIL a% >= 0'] + body + ['LOOP']

    def c_select(self, ctx):
        c2 = dict(ctx, depth=ctx['depth'] + 1)
        lines = [f'SELECT CASE {self.rng.choice(["a%", "b%", "a% + 1"])}']
        clauses = ['CASE 0', 'CASE 1, 2', 'CASE 3 TO 4', 'CASE IS > 5', 'CASE IS < 0, 7']
        self.rng.shuffle(clauses)
        ncl = self.rng.randint(0, 3)
        c2['nolabel'] = True        # a label inside a CASE body crashes the compiler (C06 territory)
        for cl in clauses[:ncl]:
            lines += [cl] + self.body(c2, self.rng.randint(0, 2))
        if ncl > 0 and self.rng.random() < 0.5:
            lines += ['CASE ELSE'] + self.body(c2, self.rng.randint(0, 2))
        return lines + ['END SELECT']

    def c_goto(self, ctx):
        if ctx.get('nolabel'):
            return [self.s_print(ctx)]
        i = self.uid()
        return [f'GOTO j{i}', f'PRINT {self.t()}', f'j{i}:']

    def c_onlydecl(self, ctx):
        """blocks whose bodies contain no code-emitting statement"""
        i = self.uid()
        inner = self.rng.choice([[f'CONST k{i} = 1'], [f'DIM d{i} AS INTEGER'], [f'l{i}:'],
                                 [f'CONST k{i} = 1', f'DIM d{i} AS INTEGER']])
        if ctx.get('nolabel') and inner[0].endswith(':'):
            inner = [f'CONST k{i} = 1']
        k = self.rng.randint(0, 4)
        if k == 0:
            return [f'IF {self.cond()} THEN'] + inner + ['END IF']
        if k == 1:
            return ['WHILE a% > 30000'] + inner + ['WEND']
        if k == 2:
            return [f'FOR i{i}% = 1 TO 2'] + inner + ['NEXT']
        if k == 3:
            return ['DO'] + inner + ['LOOP UNTIL a% >= 0']
        self.decls.append(f'DECLARE SUB q{i} ()')
        self.subs.append([f'SUB q{i}'] + [x for x in inner if not x.endswith(':')] + ['END SUB'])
        return [f'CALL q{i}']

    COMPOUND = ['ifline', 'if', 'for', 'while', 'do', 'select', 'goto', 'onlydecl',
                'ifline', 'if', 'for', 'while', 'do', 'select']

    def stmt(self, ctx):
        """one statement as a list of lines"""
        if ctx['depth'] < 3 and self.rng.random() < 0.45:
            k = self.rng.choice(self.COMPOUND)
            return getattr(self, 'c_' + k)(ctx)
        return [self.simple(ctx)]

    def body(self, ctx, n):
        chunks = [self.stmt(ctx) for _ in range(n)]
        lines = []
        i = 0
        while i < len(chunks):
            ch = chunks[i]
            # several statements on one line
            if len(ch) == 1 and i + 1 < len(chunks) and len(chunks[i + 1]) == 1 and \
                    self.joinable(ch[0]) and self.joinable(chunks[i + 1][0]) and self.rng.random() < 0.4:
                lines.append(ch[0] + ': ' + chunks[i + 1][0])
                i += 2
                continue
            lines += ch
            i += 1
        return lines

    @staticmethod
    def joinable(s):
        u = s.upper()
        return not (u.startswith('IF ') or u.endswith(':') or u.startswith('CASE') or u.startswith("'"))

    def program(self, n_main, trap=None):
        ctx = {'routine': 'main', 'loop': None, 'depth': 0}
        main = self.body(ctx, n_main)
        lines = ['a% = 0: b% = 1'] + main
        if trap == 'div':
            lines.append(f'c& = {self.t()} \\ (a% - a%)')
        elif trap == 'overflow':
            lines.append(f'c% = a% + {self.t()}')
        elif trap == 'index':
            lines += ['DIM zz(3) AS INTEGER', f'zz(a% + {self.t()}) = 1']
        elif trap == 'resume':
            lines = ['ON ERROR GOTO hnd'] + lines
            lines.append(f'c% = a% + {self.t()}')
            lines.append(f'PRINT {self.t()}')
            self.gosubs.append(['hnd:', f'PRINT {self.t()}', 'RESUME NEXT'])
        lines.append('END')
        for g in self.gosubs:
            lines += g
        if self.has_data:
            lines.append('DATA 1, 2, 3')
        for s in self.subs:
            lines += s
        lines = self.decls + lines
        return '\n'.join(lines) + '\n'


def layout(src, variant, key):
    """the same program with another layout: 'blanks' = trailing blanks, leading
    indentation and blank-only lines (spaces only); 'tabs' = leading / trailing
    tabs.  Label and DATA lines are left alone."""
    if variant == 'plain':
        return src
    rng = random.Random('layout-' + key)
    out = []
    forced = False
    for line in src.split('\n')[:-1]:
        u = line.strip().upper()
        if u.endswith(':') or u.startswith('DATA'):
            out.append(line)
            continue
        if variant == 'blanks':
            if rng.random() < 0.5:
                line = ' ' * rng.choice([1, 2, 4]) + line
            if not forced or rng.random() < 0.5:
                line = line + ' ' * rng.choice([1, 3])
                forced = True
            out.append(line)
            if rng.random() < 0.2:
                out.append(rng.choice(['', '    ']))
        else:
            if rng.random() < 0.5:
                line = '\t' + line
            if not forced or rng.random() < 0.3:
                line = line + '\t'
                forced = True
            out.append(line)
    return '\n'.join(out) + '\n'


VARIANTS = ('plain', 'plain', 'blanks', 'blanks', 'blanks', 'tabs')


def tags_of(src):
    out = {}
    for i, line in enumerate(src.split('\n')):
        for m in TAG.findall(line):
            out[int(m)] = i + 1
    return out


# ---- bounded-exhaustive family: statement kind x context x position
KINDS = {
    'print': ['PRINT {t}'],
    'print2': ['PRINT {t}; a%: PRINT {t}'],
    'assign': ['b% = a% + 2'],
    'selfassign': ['a% = a%'],
    'const': ['CONST kq = 5'],
    'dim': ['DIM dq AS INTEGER'],
    'dimarr': ['DIM rq(3) AS INTEGER'],
    'comment': ["' nothing here"],
    'rem': ['REM nothing here'],
    'label': ['lq:'],
    'empty': [],
    'input': ['INPUT "{t}"; b%'],
    'read': ['RESTORE: READ c%'],
    'goto': ['GOTO jq', 'PRINT {t}', 'jq:'],
    'ifline': ['IF a% = 0 THEN PRINT {t}'],
    'ifline_else': ['IF a% = 1 THEN PRINT {t} ELSE PRINT {t}'],
    'ifline_multi': ['IF a% = 0 THEN b% = 2: PRINT {t}'],
    'if': ['IF a% = 0 THEN', 'PRINT {t}', 'END IF'],
    'if_empty': ['IF a% = 0 THEN', 'END IF'],
    'if_else': ['IF a% = 1 THEN', 'PRINT {t}', 'ELSE', 'PRINT {t}', 'END IF'],
    'if_elseif': ['IF a% = 1 THEN', 'PRINT {t}', 'ELSEIF a% = 0 THEN', 'PRINT {t}', 'END IF'],
    'if_elseif_else_empty': ['IF a% = 1 THEN', 'ELSEIF a% = 2 THEN', 'ELSE', 'END IF'],
    'if_elseif2_else': ['IF a% = 1 THEN', 'PRINT {t}', 'ELSEIF a% = 2 THEN', 'ELSEIF a% = 0 THEN',
                        'PRINT {t}', 'ELSE', 'PRINT {t}', 'END IF'],
    'for': ['FOR iq% = 1 TO 2', 'PRINT {t}', 'NEXT iq%'],
    'for_empty': ['FOR iq% = 1 TO 2', 'NEXT'],
    'for_oneline': ['FOR iq% = 1 TO 2: PRINT {t}: NEXT'],
    'while': ['wq% = 0', 'WHILE wq% < 2', 'wq% = wq% + 1', 'PRINT {t}', 'WEND'],
    'while_empty': ['WHILE a% > 30000', 'WEND'],
    'do_until': ['DO', 'PRINT {t}', 'LOOP UNTIL a% >= 0'],
    'do_while_pre': ['wq% = 0', 'DO WHILE wq% < 2', 'PRINT {t}', 'wq% = wq% + 1', 'LOOP'],
    'do_exit': ['DO', 'PRINT {t}', 'EXIT DO', 'LOOP'],
    'do_empty': ['DO', 'LOOP UNTIL a% >= 0'],
    'select': ['SELECT CASE a%', 'CASE 0', 'PRINT {t}', 'CASE 1 TO 2', 'PRINT {t}', 'CASE ELSE', 'PRINT {t}',
               'END SELECT'],
    'select_emptycases': ['SELECT CASE a%', 'CASE 0', 'CASE IS > 3', 'CASE ELSE', 'END SELECT'],
    'select_nocase': ['SELECT CASE a%', 'END SELECT'],
    'select_nested': ['SELECT CASE a%', 'CASE 0', 'SELECT CASE b%', 'CASE 1', 'PRINT {t}', 'CASE ELSE',
                      'END SELECT', 'CASE ELSE', 'PRINT {t}', 'END SELECT'],
    'call': ['CALL pq(a%)'],
    'func': ['b% = fq%(a%)'],
    'onlyconst_if': ['IF a% = 0 THEN', 'CONST kz = 1', 'END IF'],
    'onlylabel_while': ['WHILE a% > 30000', 'lz:', 'WEND'],
    'elseif3_first': ['IF a% < {t} THEN', 'PRINT {t}', 'ELSEIF a% = {t} THEN', 'PRINT {t}',
                      'ELSEIF a% = {t} THEN', 'PRINT {t}', 'ELSEIF a% = {t} THEN', 'PRINT {t}', 'END IF'],
    'elseif3_third': ['IF a% = {t} THEN', 'PRINT {t}', 'ELSEIF a% = {t} THEN', 'PRINT {t}',
                      'ELSEIF a% < {t} THEN', 'PRINT {t}', 'ELSEIF a% = {t} THEN', 'PRINT {t}', 'END IF'],
    'elseif3_else': ['IF a% = {t} THEN', 'PRINT {t}', 'ELSEIF a% = {t} THEN', 'ELSEIF a% = {t} THEN',
                     'PRINT {t}', 'ELSEIF a% = {t} THEN', 'PRINT {t}', 'ELSE', 'PRINT {t}', 'END IF'],
    'elseif2_second': ['IF a% = {t} THEN', 'PRINT {t}', 'ELSEIF a% = {t} THEN', 'PRINT {t}',
                       'ELSEIF a% < {t} THEN', 'PRINT {t}', 'END IF'],
    'trap_elseif1': ['DIM zq(3) AS INTEGER', 'IF a% = {t} THEN', 'PRINT {t}', 'ELSEIF zq(a% + {t}) = 1 THEN',
                     'PRINT {t}', 'ELSEIF a% = {t} THEN', 'PRINT {t}', 'ELSEIF a% = {t} THEN', 'END IF'],
    'trap_elseif2': ['DIM zq(3) AS INTEGER', 'IF a% = {t} THEN', 'PRINT {t}', 'ELSEIF a% = {t} THEN',
                     'PRINT {t}', 'ELSEIF zq(a% + {t}) = 1 THEN', 'PRINT {t}', 'ELSEIF a% = {t} THEN', 'END IF'],
    'trap_elseif3': ['DIM zq(3) AS INTEGER', 'IF a% = {t} THEN', 'PRINT {t}', 'ELSEIF a% = {t} THEN',
                     'ELSEIF a% = {t} THEN', 'PRINT {t}', 'ELSEIF zq(a% + {t}) = 1 THEN', 'PRINT {t}',
                     'ELSE', 'PRINT {t}', 'END IF'],
    'trap_overflow': ['c% = a% + {t}'],
    'trap_div': ['c& = {t} \\ (a% - a%)'],
}
SIMPLE_KINDS = ('print', 'assign', 'selfassign', 'input', 'read')

CONTEXTS = {
    'top': ['{B}'],
    'if_then': ['IF a% = 0 THEN', '{B}', 'END IF'],
    'if_else': ['IF a% = 1 THEN', 'ELSE', '{B}', 'END IF'],
    'if_then_else': ['IF a% = 0 THEN', '{B}', 'ELSE', 'PRINT {t}', 'END IF'],
    'elseif': ['IF a% = 1 THEN', 'ELSEIF a% = 0 THEN', '{B}', 'END IF'],
    'elseif_else': ['IF a% = 1 THEN', 'PRINT {t}', 'ELSEIF a% = 2 THEN', 'PRINT {t}', 'ELSE', '{B}', 'END IF'],
    'for': ['FOR ic% = 1 TO 2', '{B}', 'NEXT ic%'],
    'while': ['wc% = 0', 'WHILE wc% < 1', '{B}', 'wc% = wc% + 1', 'WEND'],
    'while_last': ['wc% = 0', 'WHILE wc% < 1', 'wc% = wc% + 1', '{B}', 'WEND'],
    'do_until': ['DO', '{B}', 'LOOP UNTIL a% >= 0'],
    'do_while_pre': ['wc% = 0', 'DO WHILE wc% < 1', 'wc% = wc% + 1', '{B}', 'LOOP'],
    'do_exit': ['DO', '{B}', 'EXIT DO', 'LOOP'],
    'select_case': ['SELECT CASE a%', 'CASE 0', '{B}', 'CASE ELSE', 'END SELECT'],
    'select_last': ['SELECT CASE a%', 'CASE 5', 'CASE ELSE', '{B}', 'END SELECT'],
    'select_mid': ['SELECT CASE a%', 'CASE 5', 'PRINT {t}', 'CASE 0', '{B}', 'CASE 7', 'PRINT {t}', 'END SELECT'],
    'sub': ['CALL pc', '{SUB}'],
    'function': ['b% = fc%', '{FUNC}'],
    'function_last': ['b% = fc%', '{FUNCL}'],
    'nested': ['FOR ic% = 1 TO 2', 'IF a% = 0 THEN', '{B}', 'END IF', 'NEXT'],
    'ifline_then': ['IF a% = 0 THEN {S}'],
    'ifline_else': ['IF a% = 1 THEN PRINT {t} ELSE {S}'],
}
POSITIONS = ('only', 'first', 'last', 'middle')


def family_program(kind, context, position):
    """-> source text or None when the combination makes no sense"""
    klines = KINDS[kind]
    tmpl = CONTEXTS[context]
    one_line = any('{S}' in l for l in tmpl)
    if one_line:
        if kind not in SIMPLE_KINDS or position != 'only':
            return None
    if context.startswith('select') and any(l.endswith(':') for l in klines):
        return None         # a label inside a CASE body crashes the compiler (C06 territory)
    body = list(klines)
    before = ['PRINT {t}'] if position in ('last', 'middle') else []
    after = ['PRINT {t}'] if position in ('first', 'middle') else []
    body = before + body + after
    lines = ['DECLARE SUB pq (x%)', 'DECLARE FUNCTION fq% (x%)', 'a% = 0: b% = 1']
    decl = []
    tail = []
    for l in tmpl:
        if l == '{B}':
            lines += body
        elif '{S}' in l:
            lines.append(l.replace('{S}', klines[0]))
        elif l == '{SUB}':
            decl.append('DECLARE SUB pc ()')
            tail += ['SUB pc'] + body + ['END SUB']
        elif l == '{FUNC}':
            decl.append('DECLARE FUNCTION fc% ()')
            tail += ['FUNCTION fc%'] + body + ['fc% = 1', 'END FUNCTION']
        elif l == '{FUNCL}':
            decl.append('DECLARE FUNCTION fc% ()')
            tail += ['FUNCTION fc%', 'fc% = 1'] + body + ['END FUNCTION']
        else:
            lines.append(l)
    lines.append('END')
    lines.append('DATA 1, 2, 3')
    lines += ['SUB pq (x%)', 'PRINT {t}; x%', 'END SUB', 'FUNCTION fq% (x%)', 'fq% = x% + 1', 'END FUNCTION']
    lines += tail
    lines = decl + lines
    tag = [90000]
    out = []
    for l in lines:
        while '{t}' in l:
            tag[0] += 1
            l = l.replace('{t}', str(tag[0]), 1)
        out.append(l)
    return '\n'.join(out) + '\n'


# --------------------------------------------------------------------------

END_STMTS = '(WendStmt|NextStmt|LoopStmt|EndIfStmt|EndSubStmt|EndFunctionStmt|EndSelectStmt)'


def peephole_check(items1, items2):
    """level 2 = QvmCode.optimize applied to the level-1 list: the marker sequence
    must be unchanged and no segment between two markers may gain an instruction"""
    def segs(items):
        marks, counts, n = [], [], 0
        for it in items:
            if it[0] == 0:
                n += 1
            else:
                marks.append(it)
                counts.append(n)
                n = 0
        counts.append(n)
        return marks, counts
    m1, c1 = segs(items1)
    m2, c2 = segs(items2)
    if m1 != m2:
        return ('C11/peephole-changes-marker-sequence', {})
    for j, (a, b) in enumerate(zip(c1, c2)):
        if b > a:
            return ('C11/peephole-moves-instruction-across-marker',
                    {'segment': j, 'level1_count': a, 'level2_count': b})
    return None


def load_corpus():
    corpus = vlib.run_impl('corpus.load', [None])[0]
    return [c for c in corpus if 'src' in c]


def check_tags(ctx, case, raw):
    """the statement behind each device interaction / trap is the one the
    generator put on that line"""
    src = case['src']
    tags = tags_of(src)
    lines = raw.get('src_view', src).split('\n')
    n = 0
    for li in raw.get('lits', []):
        want = tags.get(li['val'])
        if want is None or li['line'] is None:
            continue        # not a tag of the source / uncovered (reported by the oracle)
        n += 1
        if li['line'] != want or str(li['val']) not in li['extract']:
            ctx.report(f"C11/literal-line-wrong({li['cls']})",
                       {'src': src, 'level': case['level'], 'tag': li['val'], 'expected_line': want,
                        'lit': li}, True)
    for o in raw['obs']:
        if o['dev'] != 'terminal' or o['op'] not in ('print', 'input') or not o['text']:
            continue
        m = TAG.findall(o['text'])
        if not m:
            continue
        tag = int(m[0])
        n += 1
        want = tags.get(tag)
        if o['line'] != want:
            ctx.report(f"C11/io-line-wrong({o['op']},{o['cls']})",
                       {'src': src, 'level': case['level'], 'tag': tag, 'expected_line': want, 'obs': o}, True)
        elif o['extract'] is None or str(tag) not in o['extract'] or o['extract'] not in lines[want - 1]:
            ctx.report(f"C11/io-extract-wrong({o['op']},{o['cls']})",
                       {'src': src, 'level': case['level'], 'tag': tag, 'obs': o}, True)
    tr = raw.get('trap')
    if tr and case.get('trap_tag'):
        tag = case['trap_tag']
        want = tags.get(tag)
        n += 1
        f = tr['at_fault_addr']
        if f['line'] != want or f['extract'] is None or str(tag) not in f['extract']:
            ctx.report(f"C11/trap-line-wrong({tr['trap']},fault-address)",
                       {'src': src, 'level': case['level'], 'expected_line': want, 'trap': tr}, True)
        a = tr['at_trapped_addr']
        if a['line'] != want:
            stale = 'stale-trapped-addr' if tr['trapped_addr'] != tr['fault_addr'] else 'same-address'
            ctx.report(f"C11/trap-line-wrong({tr['trap']},{stale})",
                       {'src': src, 'level': case['level'], 'expected_line': want, 'trap': tr}, True)
    return n


def main(tier, seed):
    ctx = Ctx(PROP, tier, seed, 'proof')
    ctx.trusted_base = [
        'Coq 8.16.1 kernel (coqc, full .vo build; vm_compute only in the witness lemmas and Examples)',
        'no axioms: every theorem prints "Closed under the global context"',
        'extraction: ExtrOcamlBasic only; Z, positive kept inductive',
        'unverified glue: ocaml/driver.ml, tools/vlib, tools/props/c11.py, tools/implfns/dbgmapfn.py '
        '(marker-stream extraction from code._instrs, Python decoder driven by qvm.instrs, property oracle)',
        'modelled not verified: qvm/debug_info.py (DebugInfoCollector, DebugInfo.add_node/finalize/find_stmt; '
        'not the pickle), the offset bookkeeping of QvmCode.assembled, qbee/utils.py convert_index_to_line_col '
        '(Models/DebugMap.v)',
        'the shape of the marker stream (wf_markers, good) is a hypothesis of the theorems; it is CHECKED on '
        'every compiled program (End matches Start, no bare instruction between the child statements of a '
        'block) but not proved about qvm_codegen.py; pyparsing locations (loc_start/loc_end) are inside the '
        'correspondence only',
    ]
    import time
    tm = {}
    t0 = time.time()
    ctx.prove()
    exe = ctx.model('DebugMap')
    tm['build'] = round(time.time() - t0, 1)
    quick = tier == 'quick'

    # ---- A: collector + add_node + finalize on arbitrary streams (incl. malformed)
    maxlen = 3 if quick else 4
    streams = []
    for n in range(0, maxlen + 1):
        streams += [list(s) for s in itertools.product(ALPHA, repeat=n)]
    frng = random.Random(1711)
    nwf = 400 if quick else 4000
    pool = [wf_stream(frng, 4 + (i % 28)) for i in range(4000)]
    extra = pool[:nwf]
    ctx.rule.append(f'A: every marker stream of length <= {maxlen} over {len(ALPHA)} symbols (2 instruction '
                    f'sizes, _empty_block, start/end of 2 statements, a block, a routine, an expression node: '
                    f'well nested AND malformed), plus the first {nwf} of a fixed family of 4000 random '
                    f'well-nested streams (4..31 items); non-trivial = distinct stream')
    suites = []        # (name, cases, worker kind, model job, normaliser, signature)
    suites.append(('collector', streams + extra, 'collector', lambda c: [1, c], norm_collector,
                   'C11/collector-model-differs'))
    ctx.bump('streams_malformed_or_wf_short', len(streams))
    ctx.bump('streams_wf_long', len(extra))

    # ---- B: finalize on arbitrary tables; C: find_stmt; D: line/col
    rngs = [(s, e) for s in range(4) for e in range(s, 4)]
    tables = []
    stmt_sets = [[]] + [[r] for r in rngs] + [[r1, r2] for r1 in rngs for r2 in rngs]
    blocks1 = [[b] for b in rngs] + [[b1, b2] for b1 in rngs for b2 in rngs]
    emps = [[]] + [[a] for a in range(4)] + [[1, 2]]
    allB = [(st, bl, em) for st in stmt_sets for bl in blocks1 for em in emps]
    stride = 23 if quick else 1
    off = seed % stride
    for i in range(off, len(allB), stride):
        st, bl, em = allB[i]
        tables.append({'empties': em,
                       'blocks': [[[50 + j, 1, 60 + 2 * j, 61 + 2 * j], b[0], b[1]] for j, b in enumerate(bl)],
                       'stmts': [[10 + j, r[0], r[1]] for j, r in enumerate(st)]})
    ctx.rule.append(f'B: finalize on tables: <=2 statement records x 1..2 blocks x 0..2 empty markers, all '
                    f'ranges over offsets 0..3 ({len(allB)} tables), every {stride}th (phase = seed; quick 23, thorough 1)')
    suites.append(('finalize', tables, 'finalize', lambda c: [4, c['empties'], c['blocks'], c['stmts']],
                   lambda c, raw: raw, 'C11/finalize-model-differs'))

    finds = []
    recsets = [[]] + [[r] for r in rngs] + [[r1, r2] for r1 in rngs for r2 in rngs]
    if not quick:
        recsets += [[r1, r2, r3] for r1 in rngs for r2 in rngs for r3 in rngs]
    for rs in recsets:
        for addr in range(0, 4):
            for call in ((None, 0, 2) if addr == 0 else (None,)):
                if addr == 0 and call == 0:
                    continue        # call 0 at address 0: unbounded recursion in the real code
                finds.append({'stmts': [[10 + j, r[0], r[1]] for j, r in enumerate(rs)], 'addr': addr,
                              'call': call})
    ctx.rule.append(f'C: find_stmt on every table of <= {2 if quick else 3} records over offsets 0..3 x every '
                    f'address 0..3 (address 0 with/without an initial call)')

    def norm_find(c, raw):
        if isinstance(raw, dict) and 'exc' in raw:
            return ['exc', raw['exc']]
        return [1] if raw is None else [0, raw]
    suites.append(('find_stmt', finds, 'find',
                   lambda c: [2, c['stmts'], c['addr'], [] if c['call'] is None else [c['call']]],
                   norm_find, 'C11/find_stmt-model-differs'))

    texts = ['', 'a', 'ab\ncd\n', '\n\nx', 'PRINT 1: PRINT 2\nx = 1\n', 'a\r\nb']
    lcs = [{'text': t, 'offset': o} for t in texts for o in range(-1, len(t) + 2)]
    ctx.rule.append('D: convert_index_to_line_col on 6 texts x every offset -1..len+1')

    def norm_lc(c, raw):
        return [] if raw[0] is None else raw
    suites.append(('linecol', lcs, 'linecol', lambda c: [3, c['text'], c['offset']], norm_lc,
                   'C11/linecol-model-differs'))

    # ---- E: the real compiler: corpus + kind x context x position + generated programs
    progs = []
    corpus = load_corpus()
    if quick:
        corpus = corpus[seed % 3::3]
    for c in corpus:
        progs.append({'src': c['src'], 'origin': f"corpus:{c['file']}#{c['idx']}", 'run': not c['no_run'],
                      'script': [], 'inkey': c['inkey']})
    ncorpus = len(progs)
    fam = []
    for kind in KINDS:
        for cx in CONTEXTS:
            for pos in POSITIONS:
                src = family_program(kind, cx, pos)
                if src is not None:
                    j = len(fam)
                    var = VARIANTS[(j // 12 + j) % 6]
                    src = layout(src, var, f'{kind}/{cx}/{pos}')
                    ctx.bump('E_layout_' + var)
                    fam.append({'src': src, 'origin': f'family:{kind}/{cx}/{pos}:{var}', 'run': True,
                                'script': ['7'] * 8,
                                'trap_tag': None})
    for f in fam:
        if 'trap_' in f['origin']:
            m = re.search(r'(c% = a% \+ |c& = |zq\(a% \+ )(9\d{4})', f['src'])
            f['trap_tag'] = int(m.group(2)) if m else None
    if quick:
        fam = fam[seed % 12::12]
    progs += fam
    ngen = 48 if quick else 600
    gen = []
    for i in range(ngen):
        rng = random.Random(f'c11-{i}')
        g = G(rng)
        trap = [None, None, 'div', 'overflow', 'index', 'resume'][i % 6]
        src = layout(g.program(rng.randint(2, 7), trap), VARIANTS[(i // 6 + i) % 6], f'gen{i}')
        tags = tags_of(src)
        trap_tag = None
        if trap in ('div', 'overflow', 'index'):
            trap_tag = max(tags)        # the trapping statement is generated last
        gen.append({'src': src, 'origin': f'gen:{i}', 'run': True, 'script': ['7'] * 40,
                    'trap_tag': trap_tag})
    progs += gen
    cases = []
    for pr in progs:
        for level in (0, 1, 2):
            cases.append(dict(pr, level=level, max_ticks=20000))
    ctx.rule.append(f'E: {ncorpus} corpus programs{" (every 3rd, phase = seed)" if quick else ""}, '
                    f'{len(fam)} programs of the family statement-kind ({len(KINDS)}) x context '
                    f'({len(CONTEXTS)}) x position (4){" (every 12th, phase = seed)" if quick else ""}, each in one of the layouts plain / trailing blanks+indentation+blank lines / tabs (2:3:1), '
                    f'{ngen} generated programs (fixed family, index-seeded), each at levels 0,1,2 with -g; '
                    f'non-trivial = distinct (source, level) that compiled')
    # one dispatch for everything that runs repository code (worker start-up =
    # importing the compiler is the dominant fixed cost), interleaved so that
    # the 16 workers get similar loads
    allc = []
    for name, cs, kind, _, _, _ in suites:
        allc += [{'k': kind, 'case': c} for c in cs]
    allc += [{'k': 'compile', 'case': {'src': c['src'], 'level': c['level'], 'run': c['run'],
                                       'script': c['script'], 'max_ticks': c['max_ticks']}}
             for c in cases]
    order = sorted(range(len(allc)), key=lambda j: (j % vlib.NPROC, j))
    res = vlib.run_impl('dbgmapfn.any_case', [allc[j] for j in order], timeout=4 * 3600)
    allr = [None] * len(allc)
    for j, r in zip(order, res):
        allr[j] = r
    pos = 0
    for name, cs, kind, model_job, norm, sig in suites:
        rs = allr[pos:pos + len(cs)]
        pos += len(cs)
        mouts = vlib.run_model(exe, [model_job(c) for c in cs])
        for c, raw, mo in zip(cs, rs, mouts):
            if isinstance(raw, dict) and raw.get('harness'):
                ctx.broken.append(f'correspondence {name}: implementation worker failed: '
                                  f'{raw.get("stderr", "")[-300:]}')
                break
            if isinstance(mo, str):
                ctx.broken.append(f'correspondence {name}: model driver failed ({mo}) on {c!r}')
                break
            ni = norm(c, raw)
            if ni != mo:
                ctx.report(sig, {'suite': name, 'case': c, 'impl': ni, 'model': mo}, False)
        ctx.count(name, len(cs), {json.dumps(c) for c in cs})
        if cs:
            ctx.sample({'suite': name, 'case': json.dumps(cs[len(cs) // 2])[:300]})
    tm['constructed_suites'] = round(time.time() - t0, 1)
    raws = allr[pos:]
    jobs = []
    idx = []
    for i, (c, raw) in enumerate(zip(cases, raws)):
        if isinstance(raw, dict) and raw.get('harness'):
            ctx.broken.append(f'correspondence compiled: implementation worker failed: {raw.get("stderr", "")[-300:]}')
            break
        if 'skip' in raw:
            ctx.bump('E_not_accepted_' + raw['skip'])
            if not c['origin'].startswith('corpus'):
                ctx.report(f'C11/generator-program-rejected({raw["skip"]})',
                           {'src': c['src'], 'origin': c['origin']}, False)
            continue
        if 'exc' in raw:
            ctx.report(f"C11/harness-or-compiler-exception({raw['exc']},{raw.get('where')})",
                       {'src': c['src'], 'level': c['level'], 'origin': c['origin'], 'raw': raw}, False)
            continue
        jobs.append([1, raw['items']])
        idx.append(i)
    tm['compile_and_oracle'] = round(time.time() - t0, 1)
    mouts = vlib.run_model(exe, jobs)
    tm['model_on_compiled'] = round(time.time() - t0, 1)
    ctx.extra['phase_seconds_cumulative'] = tm
    nE = 0
    keys = set()
    kinds_seen = set()
    ntags = 0
    for i, mo in zip(idx, mouts):
        c, raw = cases[i], raws[i]
        nE += 1
        keys.add((c['src'], c['level']))
        kinds_seen.update(raw['kinds'])
        ctx.bump('E_' + c['origin'].split(':')[0])
        ctx.bump('E_instructions', raw['stats']['instructions'])
        ctx.bump('E_records', raw['stats']['records'])
        if isinstance(mo, str):
            ctx.broken.append(f'correspondence compiled: model driver failed ({mo})')
            break
        real = [0, raw['real']['routines'], raw['real']['stmts'], raw['real']['others'], raw['real']['size']]
        if mo != real:
            ctx.report('C11/compiled-table-model-differs',
                       {'src': c['src'], 'level': c['level'], 'origin': c['origin'], 'model': mo,
                        'real': real}, False)
        for f in raw['fails']:
            ctx.report(f['sig'], {'src': c['src'], 'level': c['level'], 'origin': c['origin'], 'fail': f}, True)
        if not c['origin'].startswith('corpus'):
            ntags += check_tags(ctx, c, raw)
        else:
            for o in raw['obs']:
                if o['line'] is None:
                    pass        # already reported by the oracle as io-without-statement
    # the peephole pass (level 2 = optimize applied to the level-1 list) must not
    # move an instruction across a marker: same marker sequence, and no segment
    # between two markers gains an instruction
    npeep = 0
    for k in range(0, len(cases), 3):
        r1, r2 = raws[k + 1], raws[k + 2]
        if not (isinstance(r1, dict) and isinstance(r2, dict) and 'items' in r1 and 'items' in r2):
            continue
        npeep += 1
        pc = peephole_check(r1['items'], r2['items'])
        if pc is not None:
            ctx.report(pc[0], dict(pc[1], src=cases[k]['src'], level=2, origin=cases[k]['origin']), True)
    ctx.bump('E_peephole_marker_checks', npeep)
    ctx.count('compiled', nE, keys)
    ctx.bump('E_tag_checks', ntags)
    ctx.extra['statement_kinds_seen'] = sorted(kinds_seen)
    if cases:
        ctx.sample({'suite': 'compiled', 'case': cases[len(cases) // 2]['origin']})
        ctx.sample({'suite': 'compiled', 'case': gen[0]['src'][:400] if gen else ''})
    return ctx.finish(
        'theorems over all well-nested / generator-shaped marker streams; the model is tied to the real '
        'collector, add_node, finalize, find_stmt and to the real compiler output; the property oracle '
        'runs on the real artefacts independently of the model')


class _Rec:
    """collects signatures like Ctx.report does, for --replay"""

    def __init__(self):
        self.sigs = []

    def report(self, sig, detail, found=True):
        self.sigs.append(sig)


def replay(path):
    d = json.load(open(path))
    first = d.get('first') or {}
    src = first.get('src')
    sig = d.get('signature')
    if src is None:
        print(json.dumps(d, indent=1)[:4000])
        return 0
    level = first.get('level', 0)
    mk = lambda lv: {'src': src, 'level': lv, 'run': True, 'script': ['7'] * 40, 'max_ticks': 20000}
    raws = vlib.run_impl('dbgmapfn.compile_case', [mk(level), mk(1), mk(2)])
    raw = raws[0]
    print(src)
    print(json.dumps({k: raw.get(k) for k in ('fails', 'trap', 'obs', 'skip', 'exc')}, indent=1)[:6000])
    rec = _Rec()
    for f in raw.get('fails', []):
        rec.report(f['sig'], f)
    if 'obs' in raw:
        tags = tags_of(src)
        check_tags(rec, {'src': src, 'level': level, 'trap_tag': max(tags) if tags else None}, raw)
    if all('items' in r for r in raws[1:]):
        pc = peephole_check(raws[1]['items'], raws[2]['items'])
        if pc:
            rec.report(pc[0], pc[1])
    hit = sig in rec.sigs
    print(f'signature {sig} reproduces: {hit}')
    return 1 if hit else 0
