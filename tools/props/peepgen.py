"""Instruction alphabets, window enumerations, the encoding of (real) QvmInstr
lists into the model's instruction type, and a small source-program generator
biased to the statement shapes that matter for C02 (peephole) and C08 (debug
markers).  Harness side only (unverified glue)."""
import itertools
import struct


def fb(x):
    if x != x:
        return 0x7ff8000000000000
    return struct.unpack('>Q', struct.pack('>d', float(x)))[0]


def bf(b):
    return struct.unpack('>d', struct.pack('>Q', b))[0]


def F(x):
    return ['f', fb(x)]


TC = {'': 0, '%': 1, '&': 2, '!': 3, '#': 4, '$': 5, '@': 7}
SCOPE = {'': 0, 'l': 1, 'g': 2}
UN = ['not', 'neg']
BIN = ['add', 'sub', 'mul', 'div', 'and', 'or', 'xor', 'eqv', 'imp', 'idiv', 'mod', 'exp']
MARK = {'_label': 0, '_dbg_info_start': 1, '_dbg_info_end': 2, '_empty_block': 3}

# ------------------------------------------------------------------ alphabet

INT_VALS = [0, 1, -1, 2, 32767, -32768]
LONG_VALS = INT_VALS + [2147483647, -2147483648]
SNG_VALS = [0.0, 1.0, -1.0, 0.5, 1.5, 2.5, 70000.0, 3e10, 1e38]
DBL_VALS = [0.0, 1.0, 0.5, 1.5, 2.5, 3e10, 1e38]

PUSHES = ([['push%', v] for v in INT_VALS] + [['push&', v] for v in LONG_VALS] +
          [['push!', F(v)] for v in SNG_VALS] + [['push#', F(v)] for v in DBL_VALS] +
          [['push$', '"a"']])
CONVS = [[f'conv{a}{b}'] for a in '%&!#' for b in '%&!#' if a != b]
VARS = [['readl%', 'x%'], ['readl&', 'y&'], ['readg%', 'g%'], ['readg&', 'h&'],
        ['storel', 'x%'], ['storel', 'y&'], ['storeg', 'g%'], ['storeg', 'h&']]
UNS = [['not'], ['neg']]
BINS = [[b] for b in BIN] + [['cmp']]
JUMPS = [['jmp', '_t1'], ['jmp', 'wl'], ['jz', '_t1'], ['jz', 'wl'], ['ijmp'], ['ret'], ['retv'], ['halt']]
MARKS = [['_label', 'wl'], ['_dbg_info_start', ['node', 1]], ['_dbg_info_end', ['node', 1]],
         ['_empty_block']]
OTHERS = [['io', 'terminal', 'cls'], ['pop'], ['dupl']]

ALPHABET = PUSHES + CONVS + VARS + UNS + BINS + JUMPS + MARKS + OTHERS


def sym_class(i):
    """instruction form without operand values (for distribution and signatures)"""
    op = i[0]
    if op.startswith('push'):
        return op
    if op in ('jmp', 'jz'):
        return op
    return op


def window_class(w):
    return '+'.join(sym_class(i) for i in w)


def exp_hazard(w):
    """push& a; push& b; exp with a huge exponent: the real optimize() computes
    a ** b with Python integers and does not terminate in reasonable time"""
    for k in range(len(w) - 2):
        a, b, c = w[k], w[k + 1], w[k + 2]
        if c[0] == 'exp' and a[0] == b[0] == 'push&':
            if abs(a[1]) >= 2 and b[1] >= 2147483647:
                return True
    return False


def windows_upto2():
    out = [[a] for a in ALPHABET]
    out += [[a, b] for a in ALPHABET for b in ALPHABET]
    return out


def windows_ppb():
    """every push, push, binary-op / cmp triple"""
    return [[a, b, c] for a in PUSHES for b in PUSHES for c in BINS]


def window3_stream(rng, n):
    """n random triples over the whole alphabet (a prefix-stable sequence: the
    quick tier takes a prefix of what the thorough tier takes)"""
    N = len(ALPHABET)
    return [[ALPHABET[rng.randrange(N)], ALPHABET[rng.randrange(N)], ALPHABET[rng.randrange(N)]]
            for _ in range(n)]


def long_lists(rng, n):
    """seeded longer lists biased to foldable chains"""
    out = []
    pushes_noL = [p for p in PUSHES if p[0] != 'push&']
    for _ in range(n):
        k = rng.randrange(4, 13)
        with_exp = rng.random() < 0.25
        l = []
        while len(l) < k:
            r = rng.random()
            pool_push = pushes_noL if with_exp else PUSHES
            if r < 0.40:
                l.append(rng.choice(pool_push))
            elif r < 0.60:
                b = rng.choice(BINS)
                if b[0] == 'exp' and not with_exp:
                    b = ['add']
                l.append(b)
            elif r < 0.70:
                c = rng.choice(CONVS)
                if with_exp and c[0][-1] == '&':
                    c = ['conv%!']
                l.append(c)
            elif r < 0.76:
                l.append(rng.choice(UNS))
            elif r < 0.84:
                l.append(rng.choice(VARS))
            elif r < 0.92:
                l.append(rng.choice(JUMPS))
            elif r < 0.97:
                l.append(rng.choice(MARKS))
            else:
                l.append(rng.choice(OTHERS))
        out.append(l)
    # the D34 shape: a non-finite intermediate reaching a conversion
    out.append([['push#', F(1e308)], ['push#', F(1e308)], ['mul'], ['conv#%']])
    out.append([['push#', F(1e308)], ['push#', F(1e308)], ['mul'], ['push#', F(1e308)],
                ['push#', F(1e308)], ['mul'], ['sub'], ['conv#&']])
    return out


# ------------------------------------------------------------------ encoding into the model's type

class Intern:
    def __init__(self):
        self.d = {}
        self.keys = []

    def __call__(self, key):
        k = repr(key)
        if k not in self.d:
            self.d[k] = len(self.d)
            self.keys.append(key)
        return self.d[k]

    def other_sizes(self, table):
        """[[id, encoded size]] of the interned opaque instructions, from the
        instruction table {final op name: size}"""
        out = []
        for i, key in enumerate(self.keys):
            if key[0] == 'other':
                _, op, tc, stc, scope, args = key
                name = op + scope + stc + tc
                if name in table:
                    out.append([i, table[name]])
        return out


class Unsupported(Exception):
    pass


def pyval(a):
    if isinstance(a, int) and not isinstance(a, bool):
        return [0, a]
    if isinstance(a, list) and a[0] == 'f':
        return [1, a[1]]
    if isinstance(a, list) and a[0] == 's':
        return [2, [ord(c) for c in a[1]]]
    raise Unsupported(f'push argument {a!r}')


def to_pins(parsed, intern):
    """parsed: [[op, type_char, src_type_char, scope, args]...] as returned by
    implfns.peepfn.parsed (the attributes of the real QvmInstr objects)"""
    out = []
    for op, tc, stc, scope, args in parsed:
        if op == 'push' and not stc and not scope and len(args) == 1:
            out.append([1, TC[tc], pyval(args[0])])
        elif op == 'conv' and not scope and not args:
            out.append([2, TC[stc], TC[tc]])
        elif op == 'read' and not stc:
            out.append([3, SCOPE[scope], TC[tc], [intern(('arg', a)) for a in args]])
        elif op == 'store' and not stc and not tc:
            out.append([4, SCOPE[scope], [intern(('arg', a)) for a in args]])
        elif op in UN and not tc and not args:
            out.append([5, UN.index(op)])
        elif op in BIN and not tc and not args:
            out.append([6, BIN.index(op)])
        elif op == 'jmp' and len(args) == 1 and not tc:
            out.append([7, intern(('label', args[0]))])
        elif op == 'ijmp' and not tc:
            out.append([8])
        elif op == 'ret' and not tc:
            out.append([9])
        elif op == 'retv' and not tc:
            out.append([10])
        elif op == 'jz' and len(args) == 1 and not tc:
            out.append([11, intern(('label', args[0]))])
        elif op == 'halt' and not tc:
            out.append([12])
        elif op.startswith('_'):
            if op not in MARK:
                raise Unsupported(op)
            if op == '_label':
                out.append([13, 0, intern(('label', args[0]))])
            else:
                out.append([13, MARK[op], intern(('mark', op, args))])
        elif op in ('push', 'conv', 'read', 'store', 'jmp', 'jz', 'ijmp', 'ret', 'retv', 'halt') \
                or op in UN or op in BIN:
            # a form of a modelled op that the model's type cannot express
            raise Unsupported(f'{op} {tc!r} {stc!r} {scope!r} {args!r}')
        else:
            out.append([14, intern(('other', op, tc, stc, scope, args))])
    return out


def enc_input(instrs):
    """alphabet form -> the parsed form the real QvmInstr would give (only used
    to report; the check always encodes from the REAL parsed attributes)"""
    return instrs


# ------------------------------------------------------------------ pre-states for executed windows

PRE_STATES = [
    ('empty', []),
    ('ints', [['push%', 7], ['storel', 'x%'], ['push&', 70000], ['storel', 'y&'],
              ['push%', -3], ['storeg', 'g%'], ['push&', 5], ['storeg', 'h&'],
              ['push%', 5], ['push%', 3]]),
    ('int0', [['push%', 7], ['storel', 'x%'], ['push%', 9], ['push%', 0]]),
    ('longs', [['push&', 100000], ['push&', 7]]),
    ('singles', [['push!', F(1.5)], ['push!', F(2.5)]]),
    ('doubles', [['push#', F(1.5)], ['push#', F(0.5)]]),
]


# ------------------------------------------------------------------ source programs

def gen_program(rng, bias):
    """a small well-formed program; bias: 'opt' (constant expressions, jumps,
    END in the middle) or 'dbg' (empty bodies, single-line IF/ELSE, nested
    SELECT, several statements per line, empty loops, procedures)"""
    lines = []
    procs = []
    ints = ['a%', 'b%', 'c%']
    other = ['l&', 's!', 'd#']

    def const_int():
        return str(rng.choice([0, 1, 2, 3, 7, 10, 100, 255, 1000, 32767]))

    def small_int():
        return str(rng.choice([0, 1, 2, 3, 7, 10, 100, 255]))

    # constant expressions stay inside what every level computes alike:
    # INTEGER operands and results, + - * \ MOD AND OR XOR, parenthesised
    # unary minus / NOT (the grammar rejects them after a binary operator)
    def const_expr(depth=0):
        r = rng.random()
        if depth > 2 or r < 0.35:
            return small_int()
        if r < 0.42:
            return '(-' + rng.choice(['1', '2', '5']) + ')'
        op = rng.choice(['+', '-', '*', '\\', 'MOD', 'AND', 'OR', 'XOR'])
        a, b = const_expr(depth + 1), const_expr(depth + 1)
        if op in ('\\', 'MOD'):
            b = rng.choice(['1', '2', '3', '7'])
        if op == '*':
            b = rng.choice(['1', '2', '3'])
        e = f'({a} {op} {b})'
        if rng.random() < 0.15:
            e = '(' + rng.choice(['-', 'NOT ']) + e + ')'
        return e

    def float_lit():
        return rng.choice(['1.5', '2.5', '0.5', '4.25', '3', '100'])

    def int_expr():
        r = rng.random()
        if r < 0.3:
            return rng.choice(ints)
        if r < 0.5:
            return const_int()
        if r < 0.75:
            return f'{rng.choice(ints)} {rng.choice(["+", "-"])} {rng.choice(["1", "2", "3"])}'
        return const_expr(1)

    def cond():
        r = rng.random()
        if r < 0.5:
            return f'{rng.choice(ints)} {rng.choice(["<", ">", "=", "<>", "<=", ">="])} {int_expr()}'
        if r < 0.65:
            return rng.choice(['0', '1', '-1', '2', '1 = 1', '1 > 2', '3 AND 4', 'NOT 0'])
        if r < 0.8:
            return rng.choice(ints)
        return f'{rng.choice(ints)} MOD 2 = {rng.choice(["0", "1"])}'

    def simple(one_line=False):
        r = rng.random()
        if r < 0.35:
            return f'{rng.choice(ints)} = {int_expr()}'
        if r < 0.45:
            v = rng.choice(other)
            return f'{v} = {float_lit()}' if rng.random() < 0.6 else f'{v} = {v} + {rng.choice(ints)}'
        if r < 0.8:
            items = [rng.choice(ints + other + ['"t"', const_expr()]) for _ in range(rng.randrange(1, 4))]
            # a separator before ELSE is not accepted in a single-line IF
            tail = '' if one_line else rng.choice(['', '', ';'])
            return 'PRINT ' + rng.choice(['; ', ', ']).join(items) + tail
        if r < 0.85 and procs:
            return f'{rng.choice(procs)} {int_expr()}'
        if r < 0.9:
            return f'{rng.choice(ints)} = {rng.choice(ints)}'       # read/store pairs
        return f'PRINT {const_expr()}'

    def block(depth, n=None):
        out = []
        n = rng.randrange(0, 3) if n is None else n
        for _ in range(n):
            out += stmt(depth)
        return out

    def maybe_empty(depth):
        if bias == 'dbg' and rng.random() < 0.5:
            return []
        return block(depth)

    def stmt(depth):
        r = rng.random()
        if depth >= 3 or r < 0.30:
            if rng.random() < (0.35 if bias == 'dbg' else 0.1):
                return [' : '.join(simple() for _ in range(rng.randrange(2, 4)))]
            return [simple()]
        if r < 0.45:
            out = [f'IF {cond()} THEN'] + ['  ' + s for s in maybe_empty(depth + 1)]
            for _ in range(rng.randrange(0, 3) if rng.random() < 0.4 else 0):
                out += [f'ELSEIF {cond()} THEN'] + ['  ' + s for s in maybe_empty(depth + 1)]
            if rng.random() < 0.6:
                out += ['ELSE'] + ['  ' + s for s in maybe_empty(depth + 1)]
            return out + ['END IF']
        if r < 0.58:
            s = f'IF {cond()} THEN {simple(True)}'
            if rng.random() < 0.6:
                s += f' ELSE {simple(True)}'
            return [s]
        if r < 0.70:
            v = rng.choice(ints)
            out = [f'SELECT CASE {v}']
            for k in range(rng.randrange(1, 4)):
                c = rng.choice([str(k), f'{k}, {k + 5}', f'{k} TO {k + 2}', f'IS > {k}'])
                out += [f'CASE {c}'] + ['  ' + s for s in maybe_empty(depth + 1)]
            if rng.random() < 0.5:
                out += ['CASE ELSE'] + ['  ' + s for s in maybe_empty(depth + 1)]
            return out + ['END SELECT']
        if r < 0.80:
            v = f'i{depth}%'
            body = maybe_empty(depth + 1)
            return [f'FOR {v} = 1 TO {rng.randrange(0, 4)}'] + ['  ' + s for s in body] + [f'NEXT {v}']
        if r < 0.88:
            v = f'w{depth}%'
            body = maybe_empty(depth + 1)
            return [f'{v} = 0', f'WHILE {v} < {rng.randrange(0, 3)}', f'  {v} = {v} + 1'] + \
                   ['  ' + s for s in body] + ['WEND']
        if r < 0.94:
            v = f'k{depth}%'
            kind = rng.randrange(3)
            body = maybe_empty(depth + 1)
            if kind == 0:
                return [f'{v} = 0', f'DO WHILE {v} < 2', f'  {v} = {v} + 1'] + ['  ' + s for s in body] + ['LOOP']
            if kind == 1:
                return [f'{v} = 0', 'DO', f'  {v} = {v} + 1'] + ['  ' + s for s in body] + [f'LOOP UNTIL {v} >= 2']
            return [f'{v} = 0', 'DO', f'  {v} = {v} + 1', f'  IF {v} > 1 THEN EXIT DO'] + \
                   ['  ' + s for s in body] + ['LOOP']
        if bias == 'opt' and r < 0.97 and depth == 0:
            # (a label inside a CASE body makes the block parser fail: top level only)
            lab = f'lab{rng.randrange(100000)}'
            return [f'GOTO {lab}', f'PRINT "skipped"', f'{lab}:']
        return [simple()]

    nprocs = rng.randrange(0, 3) if bias == 'dbg' else rng.randrange(0, 2)
    for k in range(nprocs):
        procs.append(f'p{k}')
    body = [f'{v} = {const_int()}' for v in ints[:2]]
    for _ in range(rng.randrange(3, 8)):
        body += stmt(0)
    if bias == 'opt' and rng.random() < 0.3:
        body += ['END', 'PRINT "after end"']
    for k in range(nprocs):
        saved = procs[:]
        del procs[k:]          # a procedure only calls earlier ones: no recursion
        pb = []
        for _ in range(rng.randrange(0, 3)):
            pb += stmt(1)
        procs[:] = saved
        if k % 2 == 0:
            body += [f'SUB p{k} (n%)'] + ['  ' + s for s in ['PRINT "p"; n%'] + pb] + ['END SUB']
        else:
            body += [f'SUB p{k} (n%)'] + ['  ' + s for s in pb] + ['END SUB']
    return '\n'.join(body) + '\n'


RESUME_PROGS = [
    'ON ERROR GOTO h\na% = 32767\nPRINT "before"\na% = a% + 1\nPRINT "after"\nEND\nh:\nPRINT "handler"\nRESUME NEXT\n',
    'ON ERROR GOTO h\nb% = 0\nPRINT "x"\nPRINT 10 \\ b%\nPRINT "y"\nEND\nh:\nb% = 2\nRESUME\n',
    'ON ERROR RESUME NEXT\na% = 32767\na% = a% + 1\nPRINT "after"\n',
    'ON ERROR GOTO h\nDIM q(3)\ni% = 7\nIF i% > 2 THEN q(i%) = 1 ELSE PRINT "no"\nPRINT "end"\nEND\nh:\nPRINT "E"; ERR\nRESUME NEXT\n',
]


def run_chunked(fn, cases, size, **kw):
    """vlib.run_impl in several batches: a batch has its own worker processes
    and its own timeout, so a very slow machine does not lose a whole suite"""
    import vlib
    out = []
    for k in range(0, len(cases), size):
        out += vlib.run_impl(fn, cases[k:k + size], **kw)
    return out
