"""C07 - the virtual machine is total.  Theorems: coq/Props/C07.v (machine model
Models/Machine.v + Cpu.v).  Correspondence: T-isa (every opcode on constructed
states, well- and ill-typed, handler/interrupt matrix), T-run (corpus + error
provoking programs, six configurations), interrupt at every instruction boundary."""
import json
import struct
import vlib
from vlib import Ctx, isa

PROP = 'C07'


def fb(x):
    return struct.unpack('>Q', struct.pack('>d', float(x)))[0]


ODD_LINES = ['1e999', 'inf', '-Infinity', 'nan', '3.7', '1e5', '99999999999', '1_0', '', ' ', ',', '1,2,3',
             '1e39', '-1e39', '0x10', '1,1e999', '2.5,inf', '5', '6,7']
SCRIPT = {'lines': ['5', '7,8', 'abc'], 'rnd': [fb(0.25)] * 6, 'timer': [fb(1.5)] * 6,
          'inkey': ['a']}

# (source, expected trap name | None for normal end, tag)
ERR_PROGS = [
    ('a% = 0\nPRINT 1 \\ a%', 'DIVISION_BY_ZERO', 'idiv0'),
    ('a% = 0\nPRINT 7 MOD a%', 'DIVISION_BY_ZERO', 'mod0'),
    ('a! = 0\nPRINT 1 / a!', 'DIVISION_BY_ZERO', 'fdiv0'),
    ('a% = 0\nPRINT 1 / a%', 'DIVISION_BY_ZERO', 'div0'),
    ('a% = 32767\na% = a% + 1', 'INVALID_CELL_VALUE', 'int-overflow'),
    ('a& = 2147483647\na& = a& * 2', 'INVALID_CELL_VALUE', 'long-overflow'),
    ('a! = 1E38\na! = a! * 100', 'INVALID_CELL_VALUE', 'single-overflow'),
    ('a& = 70000\nb% = a&', 'INVALID_CELL_VALUE', 'conv-overflow'),
    ('a% = -32768\nb% = -a%', 'INVALID_CELL_VALUE', 'neg-overflow'),
    ('DIM a(3)\ni% = 5\na(i%) = 1', 'INDEX_OUT_OF_RANGE', 'subscript-hi'),
    ('DIM a(1 TO 3)\ni% = 0\nPRINT a(i%)', 'INDEX_OUT_OF_RANGE', 'subscript-lo'),
    ('DIM a(2, 2)\ni% = 3\na(1, i%) = 1', 'INDEX_OUT_OF_RANGE', 'subscript-2d'),
    ('n% = 300\nPRINT CHR$(n%)', 'INVALID_OPERAND_VALUE', 'chr'),
    ('s$ = ""\nPRINT ASC(s$)', 'INVALID_OPERAND_VALUE', 'asc'),
    ('n% = -1\nPRINT SPACE$(n%)', 'INVALID_OPERAND_VALUE', 'space'),
    ('n% = -1\nPRINT LEFT$("abc", n%)', 'INVALID_OPERAND_VALUE', 'left'),
    ('n% = -1\nPRINT RIGHT$("abc", n%)', 'INVALID_OPERAND_VALUE', 'right'),
    ('n% = 0\nPRINT MID$("abc", n%)', 'INVALID_OPERAND_VALUE', 'mid'),
    ('n% = -1\nPRINT STRING$(n%, "a")', 'INVALID_OPERAND_VALUE', 'string-len'),
    ('READ x', 'DEVICE_ERROR', 'out-of-data'),
    ('DATA 1\nREAD x\nREAD y', 'DEVICE_ERROR', 'out-of-data-2'),
    ('DATA abc\nREAD x%', 'DEVICE_ERROR', 'read-text-into-number'),
    ('DATA 99999\nREAD x%', 'INVALID_CELL_VALUE', 'read-overflow'),
    ('PRINT "ok"\nEND\nPRINT "no"', None, 'end'),
    ('FOR i% = 1 TO 3\nPRINT i%;\nNEXT\nPRINT', None, 'loop'),
    ('SUB f(n%)\nIF n% > 0 THEN\nPRINT n%\nf n% - 1\nEND IF\nEND SUB\nf 3', None, 'recursion'),
    ('INPUT a%\nINPUT b%, c%\nPRINT a% + b% + c%', None, 'input'),
    ('x = RND\ny = TIMER\nPRINT x; y', None, 'rnd-timer'),
    ('INPUT a%\nPRINT a%', None, 'input-int-odd-text'),
    ('INPUT a&\nPRINT a&', None, 'input-long-odd-text'),
    ('INPUT a!\nPRINT a!', None, 'input-single-odd-text'),
    ('INPUT a#, b%\nPRINT a#; b%', None, 'input-double-int-odd-text'),
]
# RESUME needs the debug section (C08 says so): these run with debug info only
DBG_PROGS = [
    ('ON ERROR GOTO h\na% = 0\nb% = 32767\nb% = b% + 1\nPRINT "after"\nEND\nh:\nPRINT "handler"; ERR\nRESUME NEXT',
     None, 'handler-overflow'),
    ('ON ERROR RESUME NEXT\nb% = 32767\nb% = b% + 1\nPRINT "after"', None, 'resume-next-mode'),
]

# programs that end in a host exception on the unchanged tree (known findings)
CRASH_PROGS = [
    ('a# = 10\nPRINT a# ^ 400', 'exp-overflow'),
    ('a# = -8\nb# = .5\nPRINT a# ^ b#', 'exp-complex'),
    ('a# = 1D308\na# = a# * 10\nx% = a#', 'conv-inf'),
    ('a# = 1D308\na# = a# * 10\nPRINT CINT(a#)', 'cint-inf'),
    ('a# = 1D308\na# = a# * 10\nPRINT INT(a#)', 'int-inf'),
    ('PRINT ERR', 'err-before-error'),
    ('n% = 300\nPRINT STRING$(3, n%)', 'string-code'),
    ('PRINT USING "!"; ""', 'using-bang-empty'),
    ('PRINT USING "#_"; 1', 'using-trailing-underscore'),
    ('PRINT USING "##"; 1; 2', 'using-too-many'),
    ('PRINT USING "## ##"; 1', 'using-too-few'),
    ('ON ERROR RESUME NEXT\na% = 0\nPRINT 1 \\ a%\nPRINT "after"', 'resume-next-zerodiv'),
    ('ON ERROR RESUME NEXT\nb% = 32767\nb% = b% + 1\nPRINT "after"', 'resume-next-without-debug-info'),
]


def cases_for(progs, tier, tagidx, dbgs=(False, True)):
    out = []
    for p in progs:
        src, tag = p[0], p[tagidx]
        for level in (0, 1, 2):
            for dbg in dbgs:
                if tag == 'resume-next-without-debug-info' and dbg:
                    continue
                sc = SCRIPT
                if 'odd-text' in tag:
                    sc = dict(SCRIPT)
                    sc['lines'] = ODD_LINES
                out.append({'src': src, 'level': level, 'debug': dbg, 'script': sc,
                            'max_ticks': 5000, 'tag': tag, 'expect': p[1] if tagidx == 2 else 'crash'})
    return out


def model_job(c, r):
    sc = c['script']
    return [2, isa.module_sx(r['module']), isa.script_sx(sc), c['max_ticks']]


TRAPNAME = {1: 'INVALID_OP_CODE', 2: 'DEVICE_NOT_AVAILABLE', 3: 'DEVICE_ERROR', 4: 'STACK_EMPTY',
            5: 'INVALID_VAR_IDX', 7: 'TYPE_MISMATCH', 8: 'NULL_REFERENCE',
            9: 'INVALID_OPERAND_VALUE', 10: 'INVALID_CELL_VALUE', 11: 'INDEX_OUT_OF_RANGE',
            12: 'INVALID_DIMENSIONS', 13: 'KEYBOARD_INTERRUPT', 14: 'DIVISION_BY_ZERO',
            15: 'UNINITIALIZED_MEM', 16: 'NO_RESUME', 17: 'ERRHAND_IN_HANDLER', 18: 'CANNOT_RESUME'}


def run_suite(ctx, exe, suite, cases, judge_property):
    """compile+run on the real machine, then the model on the same module bytes"""
    raws = vlib.run_impl('machfn.run_case', cases)
    jobs, idx = [], []
    for i, (c, r) in enumerate(zip(cases, raws)):
        if isinstance(r, dict) and 'module' in r:
            jobs.append(model_job(c, r))
            idx.append(i)
        elif isinstance(r, dict) and r.get('harness'):
            ctx.broken.append(f'correspondence {suite}: worker failed {r.get("stderr", "")[-200:]}')
            return
        else:
            # the compiler itself failed: not C07's subject, but report a broken tie
            ctx.report(f'C07/{suite}-compile-failed({r.get("exc")},{c["tag"]})',
                       {'suite': suite, 'case': c, 'impl': r}, False)
    mouts = vlib.run_model(exe, jobs)
    keys = set()
    for i, mo in zip(idx, mouts):
        c, r = cases[i], raws[i]
        keys.add(c['tag'])
        res = r['result']
        # property oracle first: a host exception escaping tick() on a compiled module
        verdict = judge_property(c, r)
        if verdict:
            ctx.report(verdict, {'suite': suite, 'src': c['src'], 'level': c['level'],
                                 'debug': c['debug'], 'exc': r.get('exc'), 'result_head': res[:2]}, True)
        if isinstance(mo, str):
            ctx.broken.append(f'correspondence {suite}: model driver failed ({mo})')
            return
        if mo[0] == [2, 99]:
            ctx.bump('unmodelled(pow/val)')
            continue
        if mo != res:
            where = [k for k, (x, y) in enumerate(zip(res[2], mo[2])) if x != y]
            ctx.report(f'C07/{suite}-model-differs({c["tag"]})',
                       {'suite': suite, 'src': c['src'], 'level': c['level'], 'debug': c['debug'],
                        'impl_head': res[:2], 'model_head': mo[:2], 'state_fields': where}, False)
    ctx.count(suite, len(cases), keys)
    if cases:
        c = cases[len(cases) // 2]
        ctx.sample({'suite': suite, 'src': c['src'], 'level': c['level'], 'debug': c['debug']})


def main(tier, seed):
    ctx = Ctx(PROP, tier, seed, 'proof')
    ctx.trusted_base = [
        'Coq 8.16.1 kernel; theorems closed under the global context (no axioms)',
        'extraction ExtrOcamlBasic only; Z/positive inductive; floats are the Z-based Base/Fl.v (validated against Python floats)',
        'unverified glue: ocaml/driver.ml, tools/vlib, tools/vlib/isa.py, tools/implfns/machfn.py (state construction, segment registry by monkeypatching MemorySegment.__init__ in the worker only)',
        'modelled not verified: qvm/cpu.py (tick, _trap, every _exec_*), qvm/cell.py, qvm/machine.py devices; float ** with non-integer or large exponents and VAL are not modelled (counted as unmodelled)',
        'OS signal delivery (signal_handler, second SIGINT) is runtime behaviour outside the model: the interrupt flag is set directly',
    ]
    ctx.prove()
    exe = ctx.model('Machine')

    # ---- T-isa
    cases = isa.gen_cases(rich=(tier == 'thorough'))
    if tier == 'quick':
        # deterministic sub-sample: keep every opcode, thin the big families
        byop = {}
        for c in cases:
            byop.setdefault(c['op'], []).append(c)
        cases = []
        for op in sorted(byop):
            l = byop[op]
            if len(l) > 160:
                ctx.rng.shuffle(l)
                l = l[:160]
            cases += l
    ctx.rule.append(f'T-isa: one tick of every opcode ({len(set(c["op"] for c in cases))} families) on constructed '
                    'states: all operand-type tuples (6 cell kinds, incl. ill-typed and short stacks) x boundary values, '
                    'handler/trap-state matrix, invalid opcodes, truncated operand, no current frame; non-trivial = distinct (opcode, stack, control state)')
    raws = vlib.run_impl('machfn.tick_case', [{'module': c['module'], 'state': c['state']} for c in cases])
    mouts = vlib.run_model(exe, [[1, isa.module_sx(c['module']), isa.state_sx(c['state'])] for c in cases])
    keys = set()
    for c, a, b in zip(cases, raws, mouts):
        if isinstance(a, dict):
            ctx.broken.append(f'correspondence T-isa: worker failed on {c["op"]}: {str(a)[:200]}')
            break
        if isinstance(b, str):
            ctx.broken.append(f'correspondence T-isa: model driver failed ({b}) on {c["op"]}')
            break
        keys.add(json.dumps([c['op'], c['module']['code'], c['state']['stack'],
                             c['state']['ttarget'], c['state']['active'], c['state']['last_trap'],
                             c['state']['trapped_addr'], c['state']['irq'], c['state']['cur']]))
        if b[0] == 1 and b[1] == 99:
            ctx.bump('unmodelled(pow/val)')
            continue
        a2 = a[:3] if a and a[0] == 1 else a
        ctx.bump('isa:' + ('crash' if a[0] == 1 else 'next'))
        if a2 != b:
            ctx.report(f'C07/isa-model-differs({c["op"]})',
                       {'suite': 'T-isa', 'op': c['op'], 'code': c['module']['code'],
                        'stack': c['state']['stack'], 'impl': a[:2] + a[3:], 'model': b[:2]}, False)
    ctx.count('T-isa', len(cases), keys)
    ctx.sample({'suite': 'T-isa', 'op': cases[len(cases) // 3]['op'],
                'stack': cases[len(cases) // 3]['state']['stack']})

    # ---- T-run: error-provoking programs; oracle = no host exception, trap code = cause
    def judge_err(c, r):
        if r.get('exc'):
            return f'C07/host-exception({r["exc"][0]},{c["tag"]})'
        st = r['result'][2]
        halted, reason, lt = st[4], st[5], st[6]
        got = TRAPNAME.get(lt) if reason == 3 else None
        if c['expect'] != got:
            return f'C07/wrong-trap(expected={c["expect"]},got={got},{c["tag"]})'
        return None

    def judge_crash(c, r):
        if r.get('exc'):
            return f'C07/host-exception({r["exc"][0]},{c["tag"]})'
        return None
    ctx.rule.append(f'T-run: {len(ERR_PROGS)} error-provoking / normal programs and {len(CRASH_PROGS)} '
                    'programs known to crash, x levels 0,1,2 x debug on/off; oracle: no host exception escapes tick(), '
                    'trap code equals the cause; then full final state (stack, heap, control, events, tick count) vs the model')
    run_suite(ctx, exe, 'T-run-errors', cases_for(ERR_PROGS, tier, 2) +
              cases_for(DBG_PROGS, tier, 2, dbgs=(True,)), judge_err)
    run_suite(ctx, exe, 'T-run-crashes', cases_for(CRASH_PROGS, tier, 1), judge_crash)

    # ---- corpus programs (all that compile), levels 0 and 2
    corp = vlib.run_impl('corpus.load', [None])[0]
    progs = [c for c in corp if c.get('expected_result') in ('success', 'trap') and not c.get('no_run')]
    if tier == 'quick':
        progs = progs[::3]
    ccases = []
    for c in progs:
        for level in ((0, 2) if tier == 'quick' else (0, 1, 2)):
            for dbg in ((False,) if tier == 'quick' else (False, True)):
                ccases.append({'src': c['src'], 'level': level, 'debug': dbg,
                               'script': {'lines': [], 'rnd': [fb(x) for x in c['rnd']] + [fb(0.25)] * 5,
                                          'timer': [fb(x) for x in c['timer']] + [fb(1.5)] * 5,
                                          'inkey': c['inkey']},
                               'max_ticks': 20000, 'tag': f"{c['file']}:{c['idx']}", 'expect': None})
    ctx.rule.append(f'corpus: {len(progs)} repository test programs run to the end on both sides')
    run_suite(ctx, exe, 'T-run-corpus', ccases, judge_crash)

    # ---- interrupt at every instruction boundary
    iprogs = [p for p in ERR_PROGS if p[2] in ('end', 'loop', 'recursion', 'input', 'idiv0', 'subscript-hi')]
    icases = []
    for src, exp, tag in iprogs:
        base = vlib.run_impl('machfn.run_case', [{'src': src, 'level': 0, 'debug': False,
                                                  'script': SCRIPT, 'max_ticks': 5000}])[0]
        n = base['result'][1]
        ks = range(0, n + 1) if tier == 'thorough' or n <= 40 else sorted(ctx.rng.sample(range(0, n + 1), 40))
        for k in ks:
            icases.append({'src': src, 'level': 0, 'debug': False, 'script': SCRIPT,
                           'max_ticks': 5000, 'irq_at': k, 'tag': f'{tag}@{k}', 'free_ticks': n})
    raws = vlib.run_impl('machfn.run_case', icases)
    jobs = [[4, isa.module_sx(r['module']), isa.script_sx(c['script']), c['irq_at'], c['max_ticks']]
            for c, r in zip(icases, raws)]
    mouts = vlib.run_model(exe, jobs)
    for c, r, mo in zip(icases, raws, mouts):
        res = r['result']
        st = res[2]
        k = c['irq_at']
        if k < c['free_ticks']:
            # property: stops with KEYBOARD_INTERRUPT before any further instruction executes
            ok = (not r.get('exc')) and st[4] == 1 and st[5] == 3 and st[6] == 13 and res[1] == k + 1
            if not ok:
                ctx.report(f'C07/interrupt-not-immediate({c["tag"].split("@")[0]})',
                           {'suite': 'irq', 'src': c['src'], 'irq_at': k, 'result_head': res[:2],
                            'halted': st[4], 'reason': st[5], 'last_trap': st[6]}, True)
        if isinstance(mo, str) or mo != res:
            ctx.report(f'C07/irq-model-differs({c["tag"].split("@")[0]})',
                       {'suite': 'irq', 'src': c['src'], 'irq_at': k, 'impl_head': res[:2],
                        'model_head': mo[:2] if not isinstance(mo, str) else mo}, False)
    ctx.rule.append(f'irq: interrupt flag raised before tick k for every k of {len(iprogs)} programs '
                    '(sampled 40 per program in quick when longer); oracle: halted by KEYBOARD_INTERRUPT after exactly k+1 ticks')
    ctx.count('irq', len(icases), set(c['tag'] for c in icases))
    return ctx.finish()


def replay(path):
    d = json.load(open(path))
    print(json.dumps(d, indent=1)[:6000])
    return 0
