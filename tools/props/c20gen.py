"""C20 - a fixed family of generated programs that stress the order-sensitive
constructs of the compiler: several DEFtype statements with overlapping letter
ranges, many labels, repeated and distinct string literals, DATA under several
labels, many SUBs/FUNCTIONs, DIM SHARED, CONST, TYPE.  gen_program(i) is a
function of i alone (its own Random(i)); VERIF_SEED never changes the family.

Besides the text each program carries what the small models of
Models/Determinism.v need: the DEFtype statements as ranges, the label
declarations and uses in source order, the DATA statements with the label in
force, the string literal occurrences in code-generation order."""
import random

KW = ['DEFINT', 'DEFLNG', 'DEFSNG', 'DEFDBL', 'DEFSTR']
TID = {'DEFINT': 1, 'DEFLNG': 2, 'DEFSNG': 3, 'DEFDBL': 4, 'DEFSTR': 5}
WORDS = ['alpha', 'beta', 'gamma', 'delta', 'eps', 'zeta', 'eta', 'theta', 'iota', 'kappa',
         'lambda', 'mu', 'nu', 'xi', 'omicron', 'pi', 'rho', 'sigma', 'tau', 'ups']
# first letters that never collide with keywords when followed by a digit
LETTERS = 'abcdefghijklmnopqrstuvwxyz'


def final_table(deftypes):
    """letter -> type id after all statements (the last statement naming a letter wins)"""
    tab = {}
    for kw, ranges in deftypes:
        for a, b in ranges:
            for c in range(ord(a), ord(b or a) + 1):
                tab[chr(c).lower()] = TID[kw]
    return tab


def num_lit(rng, ty):
    if ty == 1:
        return str(rng.choice([0, 1, 2, 7, 100, 32000]))
    if ty == 2:
        return str(rng.choice([0, 3, 70000, 100000, 2000000]))
    if ty == 3:
        return rng.choice(['1.5', '2', '.25', '10', '3.75'])
    return rng.choice(['1.5', '2', '.5', '1024', '6.25'])


def gen_program(i):
    rng = random.Random(7700 + i)
    deftypes = []
    for _ in range(rng.randint(2, 5)):
        kw = rng.choice(KW)
        ranges = []
        for _ in range(rng.randint(1, 3)):
            a = rng.choice('ABCDEFGHIJKLMNOPQRSTUVWXYZ')
            if rng.random() < 0.6:
                b = chr(min(ord('Z'), ord(a) + rng.randint(0, 8)))
                ranges.append((a, b))
            else:
                ranges.append((a, None))
        deftypes.append((kw, ranges))
    if i % 5 == 0:
        deftypes.append((rng.choice(KW), [('A', 'Z')]))     # the big set: 26 letters
    tab = final_table(deftypes)

    def ty_of(letter):
        return tab.get(letter, 3)

    lines = []
    lits = []
    for kw, ranges in deftypes:
        lines.append(kw + ' ' + ', '.join(a if b is None else f'{a}-{b}' for a, b in ranges))
    nconst = rng.randint(1, 2)
    consts = []
    for k in range(nconst):
        lines.append(f'CONST kk{k}% = {rng.randint(1, 9)}')
        consts.append(f'kk{k}%')
    ntypes = 1
    for k in range(ntypes):
        lines += [f'TYPE rec{k}', '  n AS INTEGER', '  t AS STRING', 'END TYPE']
    nshared = rng.randint(1, 2)
    for k in range(nshared):
        lines.append(f'DIM SHARED gs{k}({rng.randint(2, 6)}) AS ' + rng.choice(['INTEGER', 'LONG', 'DOUBLE']))
    lines.append('DIM SHARED gcount AS LONG')
    for k in range(ntypes):
        lines.append(f'DIM zrec{k} AS rec{k}')
    nsubs = rng.randint(2, 3)
    nfuncs = rng.randint(1, 2)
    for k in range(nsubs):
        lines.append(f'DECLARE SUB sp{k} (pa%, pb$)')
    for k in range(nfuncs):
        lines.append(f'DECLARE FUNCTION fn{k}# (px#)')

    decls, uses, data = [], [], []
    last_label = [None]
    nlabels = rng.randint(4, 7)
    labels = [f'lb{k}' for k in range(nlabels)]
    rng.shuffle(labels)
    data_labels = []

    def lit(word):
        lits.append(word)
        return '"' + word + '"'

    def body_stmt():
        """one straight-line statement using a DEFtype-typed variable"""
        letter = rng.choice(LETTERS)
        var = letter + 'v' + str(rng.randint(0, 2))
        ty = ty_of(letter)
        if ty == 5:
            w = rng.choice(WORDS[:8] if rng.random() < 0.7 else WORDS)
            return [f'{var} = {lit(w)}', f'PRINT {var}; {lit(rng.choice(WORDS[:5]))}']
        return [f'{var} = {num_lit(rng, ty)}', f'PRINT {var} + {rng.choice(consts)}']

    # main: chain of labelled blocks; block k ends with GOTO to the next label
    for k, lb in enumerate(labels):
        lines.append(f'{lb}:')
        decls.append(lb)
        last_label[0] = lb
        lines += body_stmt()
        r = rng.random()
        if r < 0.45:
            items = []
            for q in range(rng.randint(1, 3)):
                c = rng.random() if q > 0 else rng.random() * 0.9
                if c < 0.4:
                    items.append(str(rng.randint(0, 99)))
                elif c < 0.7:
                    items.append(rng.choice(WORDS))
                elif c < 0.9:
                    items.append('"' + rng.choice(WORDS) + ' x"')
                else:
                    items.append('')
            lines.append('DATA ' + ', '.join(items))
            data.append((last_label[0], [it.strip('"') if it != '' else None for it in items]))
            if lb not in data_labels:
                data_labels.append(lb)
        if r > 0.8 and k > 0:
            tgt = f'gsb{k}'
            lines.append(f'GOSUB {tgt}')
            uses.append(tgt)
        if k % 3 == 1:
            lines.append(f'sp{k % nsubs} {rng.randint(1, 5)}, {lit(rng.choice(WORDS[:6]))}')
        if k % 4 == 2:
            lines.append(f'PRINT fn{k % nfuncs}#({rng.randint(1, 5)})')
        if k % 5 == 3:
            kk = k % ntypes
            lines += [f'zrec{kk}.t = {lit(rng.choice(WORDS[:4]))}', f'PRINT zrec{kk}.n; zrec{kk}.t']
        if k % 6 == 4:
            lines += [f'gs{k % nshared}(1) = {k}', f'PRINT gs{k % nshared}(1)']
        # compiler-generated labels: one loop and one block IF per program
        if k == 0:
            lines += ['FOR fi% = 1 TO 2', '  PRINT fi%', 'NEXT fi%']
        if k == 1:
            lines += ['IF gcount >= 0 THEN', f'  PRINT {lit(rng.choice(WORDS[:4]))}', 'ELSE', '  PRINT 0', 'END IF']
        if k + 1 < len(labels):
            lines.append(f'GOTO {labels[k + 1]}')
            uses.append(labels[k + 1])
    # read back some data
    if data_labels:
        tgt = rng.choice(data_labels)
        lines.append(f'RESTORE {tgt}')
        uses.append(tgt)
        lines += ['READ rd$', 'PRINT rd$']
    lines.append('PRINT gcount')
    lines.append('END')
    # GOSUB targets after END
    for k, lb in enumerate(labels):
        if f'gsb{k}' in uses:
            lines.append(f'gsb{k}: PRINT {lit(rng.choice(WORDS[:3]))}; {k}')
            decls.append(f'gsb{k}')
            last_label[0] = f'gsb{k}'
            lines.append('RETURN')
    # the uses list must be in tree order: rebuild it from the text
    uses = []
    for ln in lines:
        for kw in ('GOSUB ', 'GOTO ', 'RESTORE '):
            if ln.startswith(kw):
                uses.append(ln[len(kw):])
    for k in range(nsubs):
        lines.append(f'SUB sp{k} (pa%, pb$)')
        if k % 2 == 0:
            lines.append('  STATIC calls%')
        lines.append('  gcount = gcount + pa%')
        lines.append(f'  PRINT {lit(rng.choice(WORDS[:7]))}; pa%; pb$')
        lines.append('END SUB')
    for k in range(nfuncs):
        lines.append(f'FUNCTION fn{k}# (px#)')
        lines.append(f'  fn{k}# = px# * {rng.choice(consts)} + {k}')
        lines.append('END FUNCTION')
    return {'src': '\n'.join(lines) + '\n', 'tag': f'gen{i}',
            'deftypes': [[kw, [[a, b] for a, b in ranges]] for kw, ranges in deftypes],
            'decls': decls, 'uses': uses, 'data': data, 'lits': lits}


def label_program(i):
    """flat label programs for the label-set model: some with a duplicate, some
    with an undefined target.  Returns src, decls, uses (source order) and the
    line of every decl / use."""
    rng = random.Random(9900 + i)
    n = rng.randint(2, 9)
    names = [f'q{k}' for k in range(n)]
    rng.shuffle(names)
    decls = list(names)
    mode = i % 4
    if mode == 1 and n >= 2:            # duplicate
        j = rng.randint(1, n - 1)
        decls[j] = decls[rng.randint(0, j - 1)]
    uses = [rng.choice(names) for _ in range(rng.randint(1, 6))]
    if mode == 2:                        # undefined target
        uses[rng.randint(0, len(uses) - 1)] = 'nolabel'
    if mode == 3:                        # both: duplicate wins
        decls.append(decls[0])
        uses.append('missing')
    lines, dline, uline = [], [], []
    # uses first or interleaved: the label set is complete before targets are checked
    for k, d in enumerate(decls):
        dline.append(len(lines))
        lines.append(f'{d}:')
        lines.append(f'PRINT {k}')
        if k < len(uses):
            uline.append(len(lines))
            lines.append(rng.choice(['GOTO ', 'GOSUB ']) + uses[k])
    for u in uses[len(decls):]:
        uline.append(len(lines))
        lines.append('GOTO ' + u)
    return {'src': '\n'.join(lines) + '\n', 'tag': f'lab{i}', 'decls': decls,
            'uses': uses, 'dline': dline, 'uline': uline}


# programs that do NOT compile: history material
BAD_PROGRAMS = [
    'PRINT (1 +\n',                                  # syntax error
    'FOR i = 1 TO 3\nPRINT i\n',                     # block not closed
    'x = "a" + 1\n',                                 # type mismatch
    'GOTO nowhere\n',                                # label not defined
    'a:\na:\n',                                      # duplicate label
    'DEFINT A-Z\nDEFSTR S\nsx = 5\n',                # type mismatch through DEFtype
    'SUB s1\nEND SUB\nSUB s1\nEND SUB\n',            # duplicate definition
    'CONST c = 1\nc = 2\n',
    'DIM a(3)\nDIM a(4)\n',
    'DEFDBL A-Z\nPRINT 1 +* 2\n',                     # syntax error after a DEFtype line
    'IF "a" THEN PRINT 1\n',                         # internal error (KeyError, D28)
    'PRINT 2 ^ -1\n',                                # internal error (AssertionError, D05)
]
