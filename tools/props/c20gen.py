"""C20 - a fixed family of generated programs that stress the order-sensitive
constructs of the compiler: several DEFtype statements with overlapping letter
ranges, many labels, repeated and distinct string literals, DATA under several
labels, many SUBs/FUNCTIONs, DIM SHARED, CONST, TYPE.  gen_program(i) is a
function of i alone (its own Random(i)); VERIF_SEED never changes the family.

Besides the text each program carries what the small models of
Models/Determinism.v need: the DEFtype statements as ranges, the label
declarations and uses in source order, the DATA statements with the label in
force, the string literal occurrences in code-generation order."""
import random

KW = ['DEFINT', 'DEFLNG', 'DEFSNG', 'DEFDBL', 'DEFSTR']
TID = {'DEFINT': 1, 'DEFLNG': 2, 'DEFSNG': 3, 'DEFDBL': 4, 'DEFSTR': 5}
WORDS = ['alpha', 'beta', 'gamma', 'delta', 'eps', 'zeta', 'eta', 'theta', 'iota', 'kappa',
         'lambda', 'mu', 'nu', 'xi', 'omicron', 'pi', 'rho', 'sigma', 'tau', 'ups']
# first letters that never collide with keywords when followed by a digit
LETTERS = 'abcdefghijklmnopqrstuvwxyz'


def final_table(deftypes):
    """letter -> type id after all statements (the last statement naming a letter wins)"""
    tab = {}
    for kw, ranges in deftypes:
        for a, b in ranges:
            for c in range(ord(a), ord(b or a) + 1):
                tab[chr(c).lower()] = TID[kw]
    return tab


def num_lit(rng, ty):
    if ty == 1:
        return str(rng.choice([0, 1, 2, 7, 100, 32000]))
    if ty == 2:
        return str(rng.choice([0, 3, 70000, 100000, 2000000]))
    if ty == 3:
        return rng.choice(['1.5', '2', '.25', '10', '3.75'])
    return rng.choice(['1.5', '2', '.5', '1024', '6.25'])


def gen_program(i):
    rng = random.Random(7700 + i)
    deftypes = []
    for _ in range(rng.randint(2, 5)):
        kw = rng.choice(KW)
        ranges = []
        for _ in range(rng.randint(1, 3)):
            a = rng.choice('ABCDEFGHIJKLMNOPQRSTUVWXYZ')
            if rng.random() < 0.6:
                b = chr(min(ord('Z'), ord(a) + rng.randint(0, 8)))
                ranges.append((a, b))
            else:
                ranges.append((a, None))
        deftypes.append((kw, ranges))
    if i % 5 == 0:
        deftypes.append((rng.choice(KW), [('A', 'Z')]))     # the big set: 26 letters
    tab = final_table(deftypes)

    def ty_of(letter):
        return tab.get(letter, 3)

    lines = []
    lits = []
    for kw, ranges in deftypes:
        lines.append(kw + ' ' + ', '.join(a if b is None else f'{a}-{b}' for a, b in ranges))
    nconst = rng.randint(1, 2)
    consts = []
    for k in range(nconst):
        lines.append(f'CONST kk{k}% = {rng.randint(1, 9)}')
        consts.append(f'kk{k}%')
    ntypes = 1
    for k in range(ntypes):
        lines += [f'TYPE rec{k}', '  n AS INTEGER', '  t AS STRING', 'END TYPE']
    nshared = rng.randint(1, 2)
    for k in range(nshared):
        lines.append(f'DIM SHARED gs{k}({rng.randint(2, 6)}) AS ' + rng.choice(['INTEGER', 'LONG', 'DOUBLE']))
    lines.append('DIM SHARED gcount AS LONG')
    for k in range(ntypes):
        lines.append(f'DIM zrec{k} AS rec{k}')
    nsubs = rng.randint(2, 3)
    nfuncs = rng.randint(1, 2)
    for k in range(nsubs):
        lines.append(f'DECLARE SUB sp{k} (pa%, pb$)')
    for k in range(nfuncs):
        lines.append(f'DECLARE FUNCTION fn{k}# (px#)')

    decls, uses, data = [], [], []
    last_label = [None]
    nlabels = rng.randint(4, 7)
    labels = [f'lb{k}' for k in range(nlabels)]
    rng.shuffle(labels)
    data_labels = []

    def lit(word):
        lits.append(word)
        return '"' + word + '"'

    def body_stmt():
        """one straight-line statement using a DEFtype-typed variable"""
        letter = rng.choice(LETTERS)
        var = letter + 'v' + str(rng.randint(0, 2))
        ty = ty_of(letter)
        if ty == 5:
            w = rng.choice(WORDS[:8] if rng.random() < 0.7 else WORDS)
            return [f'{var} = {lit(w)}', f'PRINT {var}; {lit(rng.choice(WORDS[:5]))}']
        return [f'{var} = {num_lit(rng, ty)}', f'PRINT {var} + {rng.choice(consts)}']

    # main: chain of labelled blocks; block k ends with GOTO to the next label
    for k, lb in enumerate(labels):
        lines.append(f'{lb}:')
        decls.append(lb)
        last_label[0] = lb
        lines += body_stmt()
        r = rng.random()
        if r < 0.45:
            items = []
            for q in range(rng.randint(1, 3)):
                c = rng.random() if q > 0 else rng.random() * 0.9
                if c < 0.4:
                    items.append(str(rng.randint(0, 99)))
                elif c < 0.7:
                    items.append(rng.choice(WORDS))
                elif c < 0.9:
                    items.append('"' + rng.choice(WORDS) + ' x"')
                else:
                    items.append('')
            lines.append('DATA ' + ', '.join(items))
            data.append((last_label[0], [it.strip('"') if it != '' else None for it in items]))
            if lb not in data_labels:
                data_labels.append(lb)
        if r > 0.8 and k > 0:
            tgt = f'gsb{k}'
            lines.append(f'GOSUB {tgt}')
            uses.append(tgt)
        if k % 3 == 1:
            lines.append(f'sp{k % nsubs} {rng.randint(1, 5)}, {lit(rng.choice(WORDS[:6]))}')
        if k % 4 == 2:
            lines.append(f'PRINT fn{k % nfuncs}#({rng.randint(1, 5)})')
        if k % 5 == 3:
            kk = k % ntypes
            lines += [f'zrec{kk}.t = {lit(rng.choice(WORDS[:4]))}', f'PRINT zrec{kk}.n; zrec{kk}.t']
        if k % 6 == 4:
            lines += [f'gs{k % nshared}(1) = {k}', f'PRINT gs{k % nshared}(1)']
        # compiler-generated labels: one loop and one block IF per program
        if k == 0:
            lines += ['FOR fi% = 1 TO 2', '  PRINT fi%', 'NEXT fi%']
        if k == 1:
            lines += ['IF gcount >= 0 THEN', f'  PRINT {lit(rng.choice(WORDS[:4]))}', 'ELSE', '  PRINT 0', 'END IF']
        if k + 1 < len(labels):
            lines.append(f'GOTO {labels[k + 1]}')
            uses.append(labels[k + 1])
    # read back some data
    if data_labels:
        tgt = rng.choice(data_labels)
        lines.append(f'RESTORE {tgt}')
        uses.append(tgt)
        lines += ['READ rd$', 'PRINT rd$']
    lines.append('PRINT gcount')
    lines.append('END')
    # GOSUB targets after END
    for k, lb in enumerate(labels):
        if f'gsb{k}' in uses:
            lines.append(f'gsb{k}: PRINT {lit(rng.choice(WORDS[:3]))}; {k}')
            decls.append(f'gsb{k}')
            last_label[0] = f'gsb{k}'
            lines.append('RETURN')
    # the uses list must be in tree order: rebuild it from the text
    uses = []
    for ln in lines:
        for kw in ('GOSUB ', 'GOTO ', 'RESTORE '):
            if ln.startswith(kw):
                uses.append(ln[len(kw):])
    for k in range(nsubs):
        lines.append(f'SUB sp{k} (pa%, pb$)')
        if k % 2 == 0:
            lines.append('  STATIC calls%')
        lines.append('  gcount = gcount + pa%')
        lines.append(f'  PRINT {lit(rng.choice(WORDS[:7]))}; pa%; pb$')
        lines.append('END SUB')
    for k in range(nfuncs):
        lines.append(f'FUNCTION fn{k}# (px#)')
        lines.append(f'  fn{k}# = px# * {rng.choice(consts)} + {k}')
        lines.append('END FUNCTION')
    return {'src': '\n'.join(lines) + '\n', 'tag': f'gen{i}',
            'deftypes': [[kw, [[a, b] for a, b in ranges]] for kw, ranges in deftypes],
            'decls': decls, 'uses': uses, 'data': data, 'lits': lits}


def label_program(i):
    """flat label programs for the label-set model: some with a duplicate, some
    with an undefined target.  Returns src, decls, uses (source order) and the
    line of every decl / use."""
    rng = random.Random(9900 + i)
    n = rng.randint(2, 9)
    names = [f'q{k}' for k in range(n)]
    rng.shuffle(names)
    decls = list(names)
    mode = i % 4
    if mode == 1 and n >= 2:            # duplicate
        j = rng.randint(1, n - 1)
        decls[j] = decls[rng.randint(0, j - 1)]
    uses = [rng.choice(names) for _ in range(rng.randint(1, 6))]
    if mode == 2:                        # undefined target
        uses[rng.randint(0, len(uses) - 1)] = 'nolabel'
    if mode == 3:                        # both: duplicate wins
        decls.append(decls[0])
        uses.append('missing')
    lines, dline, uline = [], [], []
    # uses first or interleaved: the label set is complete before targets are checked
    for k, d in enumerate(decls):
        dline.append(len(lines))
        lines.append(f'{d}:')
        lines.append(f'PRINT {k}')
        if k < len(uses):
            uline.append(len(lines))
            lines.append(rng.choice(['GOTO ', 'GOSUB ']) + uses[k])
    for u in uses[len(decls):]:
        uline.append(len(lines))
        lines.append('GOTO ' + u)
    return {'src': '\n'.join(lines) + '\n', 'tag': f'lab{i}', 'decls': decls,
            'uses': uses, 'dline': dline, 'uline': uline}


# programs that do NOT compile: history material
BAD_PROGRAMS = [
    'PRINT (1 +\n',                                  # syntax error
    'FOR i = 1 TO 3\nPRINT i\n',                     # block not closed
    'x = "a" + 1\n',                                 # type mismatch
    'GOTO nowhere\n',                                # label not defined
    'a:\na:\n',                                      # duplicate label
    'DEFINT A-Z\nDEFSTR S\nsx = 5\n',                # type mismatch through DEFtype
    'SUB s1\nEND SUB\nSUB s1\nEND SUB\n',            # duplicate definition
    'CONST c = 1\nc = 2\n',
    'DIM a(3)\nDIM a(4)\n',
    'DEFDBL A-Z\nPRINT 1 +* 2\n',                     # syntax error after a DEFtype line
    'IF "a" THEN PRINT 1\n',                         # internal error (KeyError, D28)
    'PRINT 2 ^ -1\n',                                # internal error (AssertionError, D05)
]


# --------------------------------------------------------------------------
# variant families: programs that reuse the same user-visible names with
# different definitions (material for compilation histories)

INNERS = [
    [('x', 'INTEGER')],
    [('x', 'INTEGER'), ('y', 'LONG'), ('z', 'DOUBLE')],
    [('w', 'STRING'), ('x', 'SINGLE')],
]


def _type_block(name, fields):
    return [f'TYPE {name}'] + [f'  {f} AS {t}' for f, t in fields] + ['END TYPE']


def nested_type_families():
    """4 shapes of an outer TYPE whose field list never changes x 4 uses (global,
    local of a SUB, array element, SUB parameter + local) x 3 inner TYPEs of
    different sizes (1, 3, 2 cells)"""
    shapes = [
        ('flat', [('Outer', [('a', 'Inner'), ('n', 'INTEGER')])], 'a.x', 'n'),
        ('mid', [('Outer', [('n', 'INTEGER'), ('a', 'Inner'), ('t', 'LONG')])], 'a.x', 't'),
        ('twice', [('Outer', [('a', 'Inner'), ('b', 'Inner')])], 'a.x', 'b.x'),
        ('deep', [('Mid', [('i', 'Inner'), ('k', 'LONG')]),
                  ('Outer', [('m', 'Mid'), ('n', 'INTEGER')])], 'm.i.x', 'n'),
    ]
    fams = []
    for sname, outers, p1, p2 in shapes:
        for use in ('global', 'local', 'array', 'param'):
            variants = []
            for inner in INNERS:
                ls = _type_block('Inner', inner)
                for nm, fl in outers:
                    ls += _type_block(nm, fl)
                if use == 'global':
                    ls += ['DIM o AS Outer', 'DIM k AS INTEGER', f'o.{p1} = 5', f'o.{p2} = 7', 'k = 9',
                           f'PRINT o.{p1}; o.{p2}; k']
                elif use == 'local':
                    ls += ['DECLARE SUB work (q%)', 'work 3', 'work 4', 'SUB work (q%)', '  DIM o AS Outer',
                           '  DIM k AS INTEGER', f'  o.{p1} = q%', f'  o.{p2} = 7', '  k = 9',
                           f'  PRINT o.{p1}; o.{p2}; k; q%', 'END SUB']
                elif use == 'array':
                    ls += ['DIM arr(1 TO 3) AS Outer', 'DIM k AS INTEGER', f'arr(2).{p1} = 5', f'arr(3).{p2} = 7',
                           'k = 9', f'PRINT arr(2).{p1}; arr(3).{p2}; arr(1).{p2}; k']
                else:
                    ls += ['DECLARE SUB work (p AS Outer, q%)', 'DIM SHARED g AS Outer', 'DIM o AS Outer',
                           'DIM k AS INTEGER', f'o.{p1} = 5', f'g.{p2} = 6', 'k = 9', 'work o, k',
                           'SUB work (p AS Outer, q%)', '  DIM l AS Outer', '  DIM j AS INTEGER', f'  l.{p2} = 2',
                           '  j = 8', f'  PRINT p.{p1}; g.{p2}; l.{p2}; j; q%', 'END SUB']
                variants.append('\n'.join(ls) + '\n')
            fams.append({'tag': f'nested-{sname}-{use}', 'variants': variants})
    return fams


def name_reuse_families():
    """same TYPE / CONST / SUB / FUNCTION / array / DEFtype-typed variable / label /
    line number / DATA / literal / STATIC names, different definitions"""
    F = []

    def fam(tag, *variants):
        F.append({'tag': tag, 'variants': [v if v.endswith('\n') else v + '\n' for v in variants]})
    fam('type-fields',
        'TYPE rec\n  n AS INTEGER\n  t AS STRING\nEND TYPE\nDIM r AS rec\nDIM k AS INTEGER\nr.n = 1\nr.t = "one"\nk = 2\nPRINT r.n; r.t; k',
        'TYPE rec\n  t AS STRING\n  d AS DOUBLE\n  n AS INTEGER\nEND TYPE\nDIM r AS rec\nDIM k AS INTEGER\nr.n = 1\nr.t = "one"\nk = 2\nPRINT r.n; r.t; k',
        'TYPE rec\n  n AS LONG\nEND TYPE\nDIM r AS rec\nDIM k AS INTEGER\nr.n = 100000\nk = 2\nPRINT r.n; k')
    fam('type-in-sub',
        'TYPE rec\n  n AS INTEGER\nEND TYPE\nDECLARE SUB work ()\nwork\nSUB work\n  DIM a AS rec\n  DIM b AS rec\n  a.n = 1\n  b.n = 2\n  PRINT a.n; b.n\nEND SUB',
        'TYPE rec\n  m AS DOUBLE\n  n AS INTEGER\n  s AS STRING\nEND TYPE\nDECLARE SUB work ()\nwork\nSUB work\n  DIM a AS rec\n  DIM b AS rec\n  a.n = 1\n  b.n = 2\n  PRINT a.n; b.n\nEND SUB')
    fam('const',
        'CONST klen = 3\nCONST kmsg = "abc"\nDIM z(klen) AS INTEGER\nPRINT UBOUND(z); klen * 2; kmsg',
        'CONST klen = 7\nCONST kmsg = "xyz"\nDIM z(klen) AS INTEGER\nPRINT UBOUND(z); klen * 2; kmsg',
        'CONST klen = 5\nCONST kmsg = 2.5\nDIM z(klen) AS INTEGER\nPRINT UBOUND(z); klen * 2; kmsg',
        'CONST kmsg = 4\nCONST klen = kmsg + 1\nDIM z(klen) AS INTEGER\nPRINT UBOUND(z); klen * 2; kmsg')
    fam('sub-signature',
        'DECLARE SUB work (a%, b$)\nwork 1, "x"\nSUB work (a%, b$)\n  PRINT a%; b$\nEND SUB',
        'DECLARE SUB work (a#)\nwork 1.5\nSUB work (a#)\n  PRINT a#\nEND SUB',
        'DECLARE SUB work ()\nwork\nSUB work\n  PRINT "none"\nEND SUB',
        'DECLARE SUB work (b$, a%, c&)\nwork "x", 1, 70000\nSUB work (b$, a%, c&)\n  PRINT a%; b$; c&\nEND SUB')
    fam('function-signature',
        'DECLARE FUNCTION calc (x%)\nPRINT calc(2)\nFUNCTION calc (x%)\n  calc = x% + 1\nEND FUNCTION',
        'DECLARE FUNCTION calc (x#, y#)\nPRINT calc(2, 3)\nFUNCTION calc (x#, y#)\n  calc = x# * y#\nEND FUNCTION',
        'DECLARE FUNCTION calc$ (x$)\nPRINT calc$("q")\nFUNCTION calc$ (x$)\n  calc$ = x$ + x$\nEND FUNCTION',
        'DECLARE FUNCTION calc& ()\nPRINT calc&\nFUNCTION calc&\n  calc& = 70000\nEND FUNCTION')
    fam('name-kind',
        'DIM item AS INTEGER\nitem = 4\nPRINT item',
        'DIM item(4) AS INTEGER\nitem(2) = 4\nPRINT item(2)',
        'DECLARE FUNCTION item (x%)\nPRINT item(2)\nFUNCTION item (x%)\n  item = x% * 2\nEND FUNCTION',
        'DECLARE SUB item (x%)\nitem 2\nSUB item (x%)\n  PRINT x%\nEND SUB',
        'GOTO item\nPRINT "skipped"\nitem:\nPRINT "label"',
        'TYPE item\n  v AS LONG\nEND TYPE\nDIM i AS item\ni.v = 3\nPRINT i.v',
        'CONST item = 11\nPRINT item')
    fam('array-bounds',
        'DIM grid(3) AS INTEGER\nDIM k AS INTEGER\ngrid(2) = 5\nk = 1\nPRINT grid(2); k; UBOUND(grid)',
        'DIM grid(1 TO 4, 2) AS LONG\nDIM k AS INTEGER\ngrid(2, 1) = 5\nk = 1\nPRINT grid(2, 1); k; UBOUND(grid)',
        'DIM SHARED grid(10) AS DOUBLE\nDIM k AS INTEGER\ngrid(2) = 5\nk = 1\nPRINT grid(2); k; UBOUND(grid)',
        'DIM grid(2 TO 9) AS STRING\nDIM k AS INTEGER\ngrid(2) = "five"\nk = 1\nPRINT grid(2); k; UBOUND(grid)')
    fam('deftype',
        'DEFINT A-Z\nav = 3\nsv = 4\nzv = 5\nPRINT av / 2; sv; zv',
        'DEFSTR S\nDEFDBL A-D\nav = 3\nsv = "4"\nzv = 5\nPRINT av / 2; sv; zv',
        'DEFLNG Z\nDEFSTR A-B\nav = "3"\nsv = 4\nzv = 5\nPRINT av; sv / 3; zv',
        'av = 3\nsv = 4\nzv = 5\nPRINT av / 2; sv; zv')
    fam('labels',
        'top:\nPRINT "a"\nGOTO fin\nmid:\nPRINT "b"\nfin:\nPRINT "c"',
        'fin:\nPRINT "a"\nGOTO mid\ntop:\nPRINT "b"\nEND\nmid:\nPRINT "c"',
        'GOSUB mid\nEND\nmid:\nPRINT "a"\nRETURN\ntop:\nfin:\nPRINT "never"')
    fam('line-numbers',
        '10 PRINT "a"\n20 GOTO 40\n30 PRINT "b"\n40 PRINT "c"',
        '40 PRINT "a"\n30 GOTO 10\n20 PRINT "b"\n10 PRINT "c"',
        '10 x = x + 1\n20 IF x < 3 THEN GOTO 10\n30 PRINT x\n40 END')
    fam('data',
        'first:\nDATA 1, two, "three x"\nsecond:\nDATA 4\nRESTORE second\nREAD a$\nPRINT a$',
        'second:\nDATA 9, 8\nfirst:\nDATA seven\nRESTORE second\nREAD a$\nPRINT a$',
        'DATA zero\nfirst:\nDATA 1\nsecond:\nDATA 5, , 6\nRESTORE first\nREAD a$\nPRINT a$')
    fam('literals',
        'PRINT "alpha"; "beta"\nPRINT "gamma"\nPRINT "alpha"\nINPUT "delta"; x\nPRINT "eps"',
        'PRINT "eps"\nINPUT "delta"; x\nPRINT "gamma"; "beta"\nPRINT "alpha"\nPRINT "beta"',
        'PRINT "gamma"\nPRINT "alpha"')
    fam('static',
        'DECLARE SUB work ()\nwork\nwork\nSUB work\n  STATIC n AS LONG\n  n = n + 1\n  PRINT n\nEND SUB',
        'DECLARE SUB work ()\nwork\nwork\nSUB work\n  STATIC n(4) AS INTEGER\n  STATIC m AS INTEGER\n  m = m + 1\n  n(m) = m\n  PRINT n(1); m\nEND SUB',
        'DECLARE SUB work ()\nDIM SHARED n AS DOUBLE\nwork\nwork\nSUB work\n  n = n + .5\n  PRINT n\nEND SUB')
    return F


def variant_families():
    return nested_type_families() + name_reuse_families()


# --------------------------------------------------------------------------
# dead code x string literals: every shape of unreachable statement the
# optimiser may touch, in programs with many string literals

DEAD_TERMINATORS = ['END', 'SYSTEM', 'GOTO done', 'RETURN']
DEAD_STMTS = [
    lambda w: [f'PRINT "{w[0]}"'],
    lambda w: [f'INPUT "{w[0]}"; dv'],
    lambda w: [f'ds$ = "{w[0]}" + "{w[1]}"', 'PRINT ds$; 1'],
    lambda w: [f'PRINT "{w[0]}"; "{w[1]}"', f'PRINT "{w[2]}"'],
]
DEAD_CONTEXTS = ['top', 'if', 'else', 'line-if', 'for', 'do', 'while', 'select', 'sub', 'function', 'gosub']


def deadcode_program(ctxname, term, kind, nlit, i):
    """nlit live literals before + some after a dead statement that directly
    follows `term` in context `ctxname`; the condition guarding the terminator
    is false at run time (x = 2), so the program runs to its end"""
    rng = random.Random(5500 + i)
    words = [w + str(k) for k in ('', '2') for w in WORDS]
    rng.shuffle(words)
    live, dead = words[:nlit + 3], words[nlit + 3:nlit + 6]
    if i % 3 == 1:
        dead[0] = live[0]                     # the dead literal also occurs in live code
    pre = [f'PRINT "{w}"' for w in live[:nlit]]
    if i % 2:
        pre.insert(1, f'PRINT "{live[0]}"; "{live[1]}"')         # repeated literals
    post = [f'PRINT "{w}"' for w in live[nlit:]]
    t = term
    if ctxname in ('sub', 'function') and term == 'GOTO done':
        t = 'GOTO done2'
    core = [t] + DEAD_STMTS[kind](dead)
    ind = ['  ' + c for c in core]
    tail = []
    if ctxname == 'top':
        body = ['IF x = 2 THEN GOTO over'] + core + ['over:']
    elif ctxname == 'if':
        body = ['IF x = 1 THEN', f'  PRINT "{live[-1]}"'] + ind + ['END IF']
    elif ctxname == 'else':
        body = ['IF x = 2 THEN', '  PRINT 0', 'ELSE'] + ind + ['END IF']
    elif ctxname == 'line-if':
        body = ['IF x = 1 THEN ' + ': '.join(core)]
    elif ctxname == 'for':
        body = ['FOR fi% = 1 TO 2', '  IF x = 2 THEN GOTO cont'] + ind + ['cont:', 'NEXT fi%']
    elif ctxname == 'do':
        body = ['DO', '  dn% = dn% + 1', '  IF x = 2 THEN GOTO cont'] + ind + ['cont:', 'LOOP UNTIL dn% >= 2']
    elif ctxname == 'while':
        body = ['WHILE wn% < 2', '  wn% = wn% + 1', '  IF x = 1 THEN'] + ['  ' + c for c in ind] + \
               ['  END IF', 'WEND']
    elif ctxname == 'select':
        body = ['SELECT CASE x', 'CASE 1'] + ind + ['CASE 2', f'  PRINT "{live[-2]}"', 'CASE ELSE', '  PRINT 1',
                                                    'END SELECT']
    elif ctxname == 'sub':
        body = ['work x']
        tail = ['SUB work (p)', '  IF p = 2 THEN EXIT SUB'] + ind + ['done2:', f'  PRINT "{live[-1]}"', 'END SUB']
    elif ctxname == 'function':
        body = ['PRINT calc(x)']
        tail = ['FUNCTION calc (p)', '  calc = p', '  IF p = 2 THEN EXIT FUNCTION'] + ind + \
               ['done2:', f'  PRINT "{live[-1]}"', 'END FUNCTION']
    else:   # gosub routine after the END of the main program
        body = ['GOSUB rout']
        tail = ['rout:', 'IF x = 2 THEN RETURN'] + core + ['PRINT 3', 'RETURN']
    decl = ['DECLARE SUB work (p)'] if ctxname == 'sub' else \
        ['DECLARE FUNCTION calc (p)'] if ctxname == 'function' else []
    lines = decl + ['x = 2'] + pre + body + post + ['done:', f'PRINT "{live[2]}"', 'END'] + tail
    return {'src': '\n'.join(lines) + '\n', 'tag': f'dead-{ctxname}-{term.split()[0].lower()}-s{kind}-n{nlit}'}


def deadcode_programs(full):
    """contexts x terminators (+ the EXIT forms where they exist) x dead statement
    kinds; quick: the kind rotates with the index, two literal counts alternate"""
    combos = [(c, t) for c in DEAD_CONTEXTS for t in DEAD_TERMINATORS]
    combos += [('for', 'EXIT FOR'), ('do', 'EXIT DO'), ('sub', 'EXIT SUB'), ('function', 'EXIT FUNCTION')]
    out = []
    for i, (c, t) in enumerate(combos):
        kinds = range(len(DEAD_STMTS)) if full else [i % len(DEAD_STMTS), (i + 1) % len(DEAD_STMTS)]
        for kind in kinds:
            for nlit in ((3, 9) if full else ((3, 9)[(i + kind) % 2],)):
                out.append(deadcode_program(c, t, kind, nlit, i))
    return out
