"""C01 - compiled programs do what their QBASIC source says.
Theorems: coq/Props/C01.v.  Correspondence/oracle: every generated program goes
through the REAL compiler at the six configurations and the REAL machine, and
through the extracted reference interpreter coq/Src/Sem.v (the specification);
device events, outcome and (with debug info) the line of the failing statement
are compared.  A disagreement is attributed to a known defect only if the
reference interpreter with exactly that defect's rule switched on reproduces the
implementation's behaviour; anything else is a violation."""
import json
import os
import vlib
from vlib import Ctx
from vlib import proggen as G
from vlib import progrand, progmatrix, progprobes

PROP = 'C01'
CFG = [(0, False), (0, True), (1, False), (1, True), (2, False), (2, True)]
TRAP2ERR = {'DIVISION_BY_ZERO': 1, 'INVALID_CELL_VALUE': 2, 'INDEX_OUT_OF_RANGE': 3,
            'INVALID_OPERAND_VALUE': 4, 'DEVICE_ERROR': 5, 'TYPE_MISMATCH': 7}
ERRNAME = {1: 'division-by-zero', 2: 'overflow', 3: 'subscript-out-of-range',
           4: 'illegal-function-call', 5: 'out-of-data', 6: 'read-syntax', 7: 'type-mismatch'}
QUIRKS = {1: 'intdiv-mod-floor', 2: 'right$-zero-length', 3: 'loop-condition-bitwise-not',
          4: 'for-range-arithmetic-overflow', 5: 'mid$-start-beyond-end',
          6: 'pow-integral-typed', 7: 'condition-converted-to-integer',
          8: 'const-ignores-type-suffix', 9: 'int-typed-long', 10: 'len-instr-typed-long',
          11: 'double-overflow-gives-inf', 12: 'restore-rewinds-to-last-part',
          13: 'integral-variable-needs-integer-numeral'}
ALLQ = sorted(QUIRKS)
FUEL = 60000


# ------------------------------------------------------------------ normal forms

def norm_model(mo):
    """model output -> (events with merged prints, outcome)"""
    evs, oc = mo
    out = []
    for e in evs:
        if e[0] == 1:
            if not e[1]:
                continue
            if out and out[-1][0] == 1:
                out[-1] = [1, out[-1][1] + e[1]]
            else:
                out.append([1, list(e[1])])
        else:
            out.append(e)
    if oc[0] == 0:
        o = ('end',)
    elif oc[0] == 1 and oc[1] == 8:
        o = ('input-exhausted',)
    elif oc[0] == 1:
        o = ('error', 5 if oc[1] == 6 else oc[1], oc[2])
    elif oc == [2, 4]:
        o = ('input-exhausted',)
    elif oc == [2, 3]:
        o = ('unmodelled',)
    else:
        o = ('stuck', oc[1])
    return out, o


def norm_impl(r):
    if 'compile' in r:
        return None, ('compile-failed', r['compile'])
    if 'harness-compile-mismatch' in r:
        return None, ('harness-compile-mismatch',)
    evs = [e for e in r['events'] if not (e[0] == 1 and not e[1])]
    oc = r['outcome']
    if oc[0] == 'trap':
        o = ('error', TRAP2ERR.get(oc[1], oc[1]), r['line'])
    elif oc[0] == 'host':
        o = ('host', oc[1])
    else:
        o = (oc[0],)
    return evs, o


def differs(im, mm, debug):
    """None when the implementation run equals the reference behaviour, else the
    kind of difference"""
    evs_i, oc_i = im[0], im[1]
    evs_m, oc_m = mm
    if evs_i is None:
        return oc_i[0]
    if evs_i != evs_m:
        return 'events'
    if oc_i[0] != oc_m[0]:
        return 'outcome'
    if oc_i[0] == 'error':
        if oc_i[1] != oc_m[1]:
            return 'error-class'
        if debug and oc_i[2] != oc_m[2]:
            return 'error-line'
    return None


def explains(target, mm):
    """does the reference run mm (with some switches on) reproduce the implementation run?
    'exact', 'line' (everything but the line reported for a division by zero: D19) or None"""
    d = differs(target, mm, True)
    if d is None:
        return 'exact'
    if d == 'error-line' and target[1][1] == 1:
        return 'line'
    return None


def text_of(evs):
    return ''.join(chr(c) for e in (evs or []) if e[0] == 1 for c in e[1])


# ------------------------------------------------------------------ running

def impl_cases(progs, max_ticks):
    return [{'src': p['src'], 'script': p['script'], 'max_ticks': max_ticks,
             'check_compile': (p.get('index', k) if (p.get('index', k) % 8 == 0) else None)}
            for k, p in enumerate(progs)]


def model_jobs(progs, q):
    return [[1, p['sx'], q, p['script']['lines'], p['script']['rnd'], p['script']['timer'], FUEL]
            for p in progs]


class Runner:
    def __init__(self, ctx, exe):
        self.ctx = ctx
        self.exe = exe

    def impl(self, progs, max_ticks=300000):
        raws = vlib.run_impl('semfn.run_prog', impl_cases(progs, max_ticks))
        out = []
        for r in raws:
            if isinstance(r, dict):
                if r.get('harness'):
                    self.ctx.broken.append('implementation worker failed: ' + r.get('stderr', '')[-300:])
                    out.append(None)
                else:
                    out.append([norm_impl({'compile': r.get('exc', '?')})] * 6)
            elif len(r) == 1 and 'compile' in r[0]:
                out.append([norm_impl(r[0])] * 6)
            else:
                out.append([norm_impl(x) for x in r])
        return out

    def model(self, progs, q):
        mo = vlib.run_model(self.exe, model_jobs(progs, q))
        out = []
        for m in mo:
            if isinstance(m, str) or m == [-999, -999, -999]:
                self.ctx.broken.append(f'reference interpreter failed ({m})')
                out.append(None)
            else:
                out.append(norm_model(m))
        return out

    def explain(self, progs, targets):
        """for each program (qs, mode): the minimal set of quirk switches under which
        the reference interpreter shows behaviour `targets[i]` (an implementation run
        with debug info), mode 'exact' or 'line' (see `explains`); (None, None) when
        no setting does"""
        import itertools
        n = len(progs)
        res = [(None, None)] * n
        if not n:
            return res

        def run(idxs, qsets):
            mo = vlib.run_model(self.exe, [[1, progs[i]['sx'], qs, progs[i]['script']['lines'],
                                            progs[i]['script']['rnd'], progs[i]['script']['timer'], FUEL]
                                           for i, qs in zip(idxs, qsets)])
            return [None if isinstance(m, str) else explains(targets[i], norm_model(m))
                    for i, m in zip(idxs, mo)]
        cur = {}
        mode = {}
        idxs = list(range(n))
        for i, md in zip(idxs, run(idxs, [list(ALLQ)] * n)):
            if md:
                cur[i], mode[i] = list(ALLQ), md
        for k in ALLQ:
            alive = sorted(cur)
            if not alive:
                break
            trial = [[x for x in cur[i] if x != k] for i in alive]
            for i, t, md in zip(alive, trial, run(alive, trial)):
                if md:
                    cur[i], mode[i] = t, md
        # programs that all switches together do not explain (two defects can mask each
        # other): try every single switch, then every pair
        rest = [i for i in range(n) if i not in cur]
        cands = [[k] for k in ALLQ] + [list(c) for c in itertools.combinations(ALLQ, 2)]
        for qs in cands:
            if not rest:
                break
            for i, md in zip(list(rest), run(rest, [qs] * len(rest))):
                if md:
                    cur[i], mode[i] = qs, md
            rest = [i for i in rest if i not in cur]
        for i in cur:
            res[i] = (cur[i], mode[i])
        return res


def judge_programs(ctx, rn, suite, progs, sigfmt, describe=None):
    """run, compare, attribute.  sigfmt(prog, name) -> signature for a quirk name."""
    impl = rn.impl(progs)
    ref = rn.model(progs, [])
    pending = []          # (index, target) to be explained by quirks
    nagree = 0
    for i, p in enumerate(progs):
        if impl[i] is None or ref[i] is None:
            continue
        mm = ref[i]
        ctx.bump('outcome:' + (mm[1][0] if mm[1][0] != 'error' else 'error:' + ERRNAME.get(mm[1][1], '?')))
        for k, v in p.get('stats', {}).items():
            ctx.bump(k, v)
        if mm[1][0] in ('unmodelled', 'stuck'):
            ctx.bump('skipped:' + mm[1][0])
            if mm[1][0] == 'stuck':
                ctx.report(f'C01/reference-stuck({mm[1][1]})',
                           {'suite': suite, 'src': p['src'], 'model': mm[1]}, False)
            continue
        d0 = [differs(impl[i][c], mm, CFG[c][1]) for c in range(6)]
        if all(d is None for d in d0):
            nagree += 1
            continue
        det = {'suite': suite, 'src': p['src'], 'script': p['script'],
               'what': describe(p) if describe else None,
               'reference': {'text': text_of(mm[0])[-300:], 'outcome': mm[1]},
               'impl': [{'config': CFG[c], 'diff': d0[c], 'text': text_of(impl[i][c][0])[-300:],
                         'outcome': impl[i][c][1]} for c in range(6)]}
        if d0[0] is None and d0[1] is None:
            # -O0 is right, a higher level is not: C02's subject
            hz = ','.join(p.get('hazards') or []) or 'none'
            lv = sorted({CFG[c][0] for c in range(6) if d0[c] is not None})
            ctx.report(f'C01/level>0:fold({hz})', dict(det, levels=lv), True)
            continue
        if impl[i][1][0] is None:
            ctx.report(f'C01/compile-failed({impl[i][1][1][1]})', det, True)
            continue
        # the -O0 debug run is what gets explained; levels are compared with it below
        pending.append((i, det))
        for c in (2, 3, 4, 5):
            if (impl[i][c][0], impl[i][c][1][:2]) != (impl[i][1][0], impl[i][1][1][:2]):
                hz = ','.join(p.get('hazards') or []) or 'none'
                ctx.report(f'C01/level>0:fold({hz})', dict(det, level=CFG[c][0]), True)
                break
    if pending:
        idx = [i for i, _ in pending]
        sets = rn.explain([progs[i] for i in idx], [impl[i][1] for i in idx])
        for (i, det), (qs, mode) in zip(pending, sets):
            tgt, mm = impl[i][1], ref[i]
            if mode == 'line':
                # everything is reproduced except the line reported for a division by zero (D19)
                ctx.report('C01/error-line(division-by-zero)', det, True)
                if qs == []:
                    continue
            if qs:
                for k in qs:
                    ctx.report(sigfmt(progs[i], QUIRKS[k]), dict(det, quirks=[QUIRKS[x] for x in qs]), True)
                continue
            if qs == []:
                # the reference itself agrees with the debug run: only the run without
                # debug info differs
                ctx.report('C01/debug-info-changes-behaviour', det, True)
                continue
            if tgt[1][0] == 'host' and tgt[0] == mm[0] and mm[1][0] == 'error':
                ctx.report(f'C01/host-exception({tgt[1][1]};expected={ERRNAME.get(mm[1][1])})', det, True)
            elif (tgt[0] == mm[0] and tgt[1][0] == 'error' and mm[1][0] == 'error'
                  and tgt[1][1] == mm[1][1] == 1):
                ctx.report('C01/error-line(division-by-zero)', det, True)
            else:
                ctx.report(f'C01/program-differs({differs(tgt, mm, True)})', det, True)
    return nagree


# ------------------------------------------------------------------ suites

def matrix_suite(ctx, rn, tier):
    quick = tier == 'quick'
    allc = progmatrix.cases(quick)
    excl = [c for c in allc if progmatrix.excluded(c)]
    allc = [c for c in allc if not progmatrix.excluded(c)]
    ctx.bump('matrix:excluded(integer ^ huge exponent)', len(excl))
    # predict errors with the operator semantics itself (reference and all-quirks)
    jobs = []
    for (op, lt, rt, a, b) in allc:
        ca, cb = progmatrix.cellv(lt, a), progmatrix.cellv(rt, b)
        jobs.append([2, [], op, ca, cb])
        jobs.append([2, ALLQ, op, ca, cb])
    pred = vlib.run_model(rn.exe, jobs)
    calm, risky, unmod = [], [], 0
    for k, c in enumerate(allc):
        r0, r1 = pred[2 * k], pred[2 * k + 1]
        if isinstance(r0, str) or isinstance(r1, str):
            ctx.broken.append('operator semantics entry failed')
            return
        if r0[0] == 2:
            unmod += 1
            continue
        (calm if (r0[0] == 0 and r1[0] == 0) else risky).append(c)
    ctx.bump('matrix:unmodelled(float ^ fractional/huge exponent)', unmod)
    # strings and unary operators
    scases = [(op, G.STR, G.STR, a, b) for op in (1, 8, 9, 10, 11, 12, 13)
              for a in progmatrix.STRS for b in progmatrix.STRS]
    ucases = [(op, ty, a) for op in (1, 2) for ty in (G.I, G.L, G.S, G.D)
              for a in (progmatrix.QUICK_VALS if quick else progmatrix.VALS)[ty]]
    def in_quick(c):
        return c[3] in progmatrix.QUICK_VALS[c[1]] and c[4] in progmatrix.QUICK_VALS[c[2]]
    if quick:
        # 60 of the error cases, chosen by the seed
        ctx.rng.shuffle(risky)
        risky = sorted(risky[:60])
    else:
        # every error case over the quick value set (so quick is a subset whatever
        # the seed), and up to 1000 of the others, chosen by the seed
        rq = [c for c in risky if in_quick(c)]
        ro = [c for c in risky if not in_quick(c)]
        ctx.rng.shuffle(ro)
        ctx.bump('matrix:error-cases-not-run(thorough cap)', max(0, len(ro) - 1000))
        risky = sorted(rq + ro[:1000])
    progs = []
    bsz = 150
    for i in range(0, len(calm), bsz):
        if quick and (i // bsz) % 2 == 1:
            # quick runs every second error-free batch of the (already reduced) matrix;
            # the batches are a subset of those of the thorough tier
            ctx.bump('matrix:error-free-batches-not-run(quick)')
            continue
        b = progmatrix.Batch()
        for c in calm[i:i + bsz]:
            b.add(c)
        progs.append(b.finish())
    b = progmatrix.Batch()
    for c in scases:
        b.add(c)
    progs.append(b.finish())
    # unary: overflow cases (-(-32768)) alone
    ucalm = [c for c in ucases
             if not (c[0] == 1 and c[1] in (G.I, G.L) and c[2] == (-32768 if c[1] == G.I else -2147483648))
             and not (c[0] == 2 and c[1] in (G.S, G.D) and abs(c[2]) >= 2147483647.5)]
    b = progmatrix.Batch()
    for c in ucalm:
        b.add_unary(c)
    progs.append(b.finish())
    singles = []
    for c in risky:
        b = progmatrix.Batch()
        b.add(c)
        singles.append(b.finish())
    for c in ucases:
        if c not in ucalm:
            b = progmatrix.Batch()
            b.add_unary(c)
            singles.append(b.finish())
    ncalm_run = sum(len(calm[i:i + bsz]) for i in range(0, len(calm), bsz)
                    if not (quick and (i // bsz) % 2 == 1))
    ncases = ncalm_run + len(scases) + len(ucases) + len(risky)
    ctx.rule.append(
        f'matrix: 18 binary operators x 16 numeric type pairs x boundary operand values '
        f'({"reduced set, 6 per type" if quick else "11-15 per type"}) + 7 string operators x 36 pairs + '
        f'NEG/NOT x 4 types: {ncases} expressions `PRINT a <op> b` with operands READ into typed '
        f'variables; {len(calm)} error-free ones batched {bsz} per program, {len(singles)} error '
        f'cases one per program{" (60 of them, chosen by the seed)" if quick else " (all over the quick value set + up to 1000 others)"}; each program at the '
        f'six configurations; non-trivial = distinct (operator, type pair)')

    def sig_single(p, name):
        c = p['cases'][0]
        if len(c) == 3:
            return f"C01/unop(op={ {1: 'NEG', 2: 'NOT'}[c[0]] },t={G.TYNAME[c[1]]};{name})"
        return f'C01/binop(op={G.OPNAME[c[0]]},lt={G.TYNAME[c[1]]},rt={G.TYNAME[c[2]]};{name})'
    judge_programs(ctx, rn, 'matrix-single', singles, sig_single,
                   describe=lambda p: progmatrix.describe(p['cases'][0]))
    # batched programs: compare line by line
    impl = rn.impl(progs, max_ticks=2000000)
    ref = rn.model(progs, [])
    needq = []
    for i, p in enumerate(progs):
        if impl[i] is None or ref[i] is None:
            continue
        rl = text_of(ref[i][0]).split('\r\n')[:-1]
        if ref[i][1] != ('end',) or len(rl) != len(p['cases']):
            ctx.report('C01/matrix-batch(reference-aborted)', {'src': p['src'][:2000], 'model': ref[i][1]}, False)
            continue
        bad = {}
        for c in range(6):
            evs, oc = impl[i][c][0], impl[i][c][1]
            il = text_of(evs).split('\r\n')[:-1] if evs is not None else []
            for k in range(len(rl)):
                if k >= len(il) or il[k] != rl[k]:
                    bad.setdefault(k, {})[c] = il[k] if k < len(il) else None
                    if k >= len(il):
                        break
            if oc != ('end',) and evs is not None and len(il) >= len(rl):
                bad.setdefault(len(rl) - 1, {})[c] = str(oc)
        if bad:
            needq.append((i, rl, bad))
    if needq:
        bp = [progs[i] for i, _, _ in needq]
        qout = {k: rn.model(bp, [k]) for k in ALLQ}
        for j, (i, rl, bad) in enumerate(needq):
            p = progs[i]
            for k, per in sorted(bad.items()):
                c = p['cases'][k]
                if len(c) == 3:
                    what = f"C01/unop(op={ {1: 'NEG', 2: 'NOT'}[c[0]] },t={G.TYNAME[c[1]]}"
                else:
                    what = f'C01/binop(op={G.OPNAME[c[0]]},lt={G.TYNAME[c[1]]},rt={G.TYNAME[c[2]]}'
                det = {'suite': 'matrix', 'expr': progmatrix.describe(c), 'reference': rl[k],
                       'impl_by_config': {str(CFG[x]): v for x, v in per.items()}}
                if 0 not in per and 1 not in per:
                    ctx.report(what + ';level>0)', det, True)
                    continue
                got = per.get(1, per.get(0))
                name = None
                for qk in ALLQ:
                    m = qout[qk][j]
                    if m is None:
                        continue
                    ql = text_of(m[0]).split('\r\n')[:-1]
                    if k < len(ql) and ql[k] == got:
                        name = QUIRKS[qk]
                        break
                if name is None:
                    ctx.report(what + ';unexplained)', det, True)
                else:
                    ctx.report(what + ';' + name + ')', det, True)
                    if any(per.get(x) != got for x in (2, 3, 4, 5) if x in per) or \
                            any(x not in per for x in (2, 3, 4, 5)):
                        ctx.report(what + ';level>0)', det, True)
    keys = {(c[0], c[1], c[2]) for c in calm + risky + scases} | {('u',) + c[:2] for c in ucases}
    for c in calm + risky + scases:
        ctx.bump(f'op:{G.OPNAME[c[0]]}')
        ctx.bump(f'types:{G.TYNAME[c[1]]}x{G.TYNAME[c[2]]}')
    ctx.count('matrix', ncases * 6, keys)
    ctx.sample({'suite': 'matrix', 'program_head': progs[0]['src'][:400]})


def random_suite(ctx, rn, tier, seed):
    n = 40 if tier == 'quick' else 500
    n = int(os.environ.get('C01_N', n))
    profiles = [
        ({}, 0.62),
        ({'numcond': 0.3}, 0.08),
        ({'risky': 0.3}, 0.10),
        ({'minimal': 0}, 0.06),
        ({'procs': 1, 'goto': 0, 'gosub': 0, 'data': 0, 'input': 0, 'size': 4}, 0.08),
        ({'hazards': 1, 'size': 3, 'procs': 0}, 0.06),
    ]
    # quick is a prefix of thorough: program k is the same program in both tiers
    progs = []
    for k in range(int(os.environ.get('C01_START', 0)), n):
        r = (k * 0.6180339887) % 1.0
        acc = 0.0
        for feats, w in profiles:
            acc += w
            if r < acc:
                break
        p = progrand.random_program('c01:0', k, feats)   # the program family is fixed; the seed does not enter
        p['profile'] = json.dumps(feats, sort_keys=True)
        progs.append(p)
    ctx.rule.append(
        f'random: the first {n} programs of a fixed family of typed generated programs (quick is a prefix of thorough; VERIF_SEED does not change the family) over '
        f'assignment, PRINT, IF block/ELSEIF/ELSE, single-line IF, WHILE, DO/LOOP x5, FOR/STEP, '
        f'SELECT CASE (values, ranges, IS), EXIT x4, forward GOTO, GOSUB/RETURN, SUB/FUNCTION with '
        f'by-reference/by-value/parenthesised arguments and recursion, static arrays rank 1-2, '
        f'records and arrays of records, CONST, DIM SHARED, STATIC, DEFtype, INPUT (incl. rejected '
        f'lines), READ/DATA/RESTORE, RANDOMIZE/RND/TIMER, END; profiles: default, numeric '
        f'conditions, risky values (type limits, out-of-range subscripts, zero divisors), fully '
        f'bracketed text, procedure-heavy, constant sub-expressions (-O1/-O2 hazards); each at '
        f'the six configurations; non-trivial = distinct program')
    if os.environ.get('C01_ONLY'):      # development aid
        keep = {int(x) for x in os.environ['C01_ONLY'].split(',')}
        progs = [p for p in progs if p['index'] in keep]
    for i in range(0, len(progs), 400):
        chunk = progs[i:i + 400]
        judge_programs(ctx, rn, 'random', chunk, lambda p, name: f'C01/semantics({name})',
                       describe=lambda p: f"program {p['index']} profile {p['profile']}")
    for p in progs:
        ctx.bump('profile:' + p['profile'])
    ctx.count('random', len(progs) * 6, {p['index'] for p in progs})
    ctx.sample({'suite': 'random', 'program': progs[min(1, len(progs) - 1)]['src'][:1500]})


def probe_suite(ctx, rn):
    progs = progprobes.probes()
    ctx.rule.append(f'probes: {len(progs)} hand-built programs, one per known semantic difference '
                    f'(D06 D07 D08 D10 D31 D32 and the ones found by this check) and per language '
                    f'feature the random grammar restricts; each at the six configurations')

    def sig(p, name):
        return f'C01/semantics({name})'
    impl = rn.impl(progs)
    ref = rn.model(progs, [])
    plain = []
    for i, p in enumerate(progs):
        if p.get('expect_probe'):
            # a difference that no quirk switch models: named by the probe itself
            if impl[i] is None or ref[i] is None:
                continue
            d = [differs(impl[i][c], ref[i], CFG[c][1]) for c in range(6)]
            if any(x is not None for x in d[:2]):
                ctx.report(f"C01/probe({p['name']})",
                           {'src': p['src'], 'reference': {'text': text_of(ref[i][0]), 'outcome': ref[i][1]},
                            'impl': [{'config': CFG[c], 'text': text_of(impl[i][c][0]),
                                      'outcome': impl[i][c][1]} for c in range(6)]}, True)
            ctx.bump('probe:' + p['name'])
        else:
            plain.append(p)
    judge_programs(ctx, rn, 'probes', plain, sig, describe=lambda p: p['name'])
    ctx.count('probes', len(progs) * 6, {p['name'] for p in progs})


def main(tier, seed):
    ctx = Ctx(PROP, tier, seed, 'proof')
    ctx.trusted_base = [
        'Coq 8.16.1 kernel; every theorem of Props/C01.v prints "Closed under the global context" (no axioms)',
        'the reference semantics coq/Src/SemBase.v + Sem.v is a hand-written SPECIFICATION (what QBASIC prescribes); it is trusted as the meaning of the source language; number text is Models/NumFmt.v and PRINT layout Models/Print.v (owned by C16/C17)',
        'extraction ExtrOcamlBasic only; Z/positive inductive; floats are the Z-based Base/Fl.v',
        'unverified glue: ocaml/driver.ml, tools/vlib (proggen.py progrand.py progmatrix.py progprobes.py: generator and pretty printer AST -> QBASIC text), tools/implfns/semfn.py, tools/props/c01.py',
        'semfn.py parses each program once and runs the steps of Compiler.compile on a copy of the tree per configuration (compared with the real Compiler.compile on every 8th program); pyparsing packrat memoisation is switched on in the worker as the repository\'s own test runner does',
        'modelled for the theorems, not verified: qbee/qvm_codegen.py gen_binary_op/gen_unary_op/gen_code_for_conv/gen_lvalue (Models/ExprCodegen.v) and qvm/cpu.py (Models/Cpu.v, tied by C07\'s T-isa/T-run)',
    ]
    ctx.prove()
    exe = ctx.model('Sem')
    rn = Runner(ctx, exe)
    only = os.environ.get('C01_SUITES', 'probes,matrix,random').split(',')   # development aid
    if 'probes' in only:
        probe_suite(ctx, rn)
    if 'matrix' in only:
        matrix_suite(ctx, rn, tier)
    if 'random' in only:
        random_suite(ctx, rn, tier, seed)
    return ctx.finish(
        'A disagreement is attributed to a known finding only when the reference interpreter with '
        'exactly that defect\'s rule switched on reproduces the implementation run; input '
        'distribution: coverage.input_distribution')


def replay(path):
    d = json.load(open(path))
    print(json.dumps(d, indent=1)[:6000])
    first = d.get('first') or {}
    src = first.get('src')
    if src:
        r = vlib.run_impl('semfn.run_prog', [{'src': src, 'script': first.get('script', {})}])
        print(json.dumps(r)[:3000])
    return 0
