"""Program corpus of the C12 check: small programs compiled with debug info.
Every statement PRINTs so that device events identify progress.  No VAL (ISdbl
is not in the machine model), no float ^."""
import random

BASE = [
    ('straight', 'PRINT 1 : PRINT 2\nx% = 3\nPRINT x% : PRINT "a"; x%\nPRINT "end"\n', None),
    ('for', 'FOR i% = 1 TO 3\nPRINT i%\nNEXT i%\nPRINT "done"\n', None),
    ('while', 'n% = 3\nWHILE n% > 0\nPRINT n%\nn% = n% - 1\nWEND\nPRINT "w"\n', None),
    ('do-until', 'k% = 0\nDO\nk% = k% + 1\nPRINT k%\nLOOP UNTIL k% >= 2\nPRINT "d"\n', None),
    ('if-else', 'a% = 2\nIF a% > 1 THEN\nPRINT "big"\nELSE\nPRINT "small"\nEND IF\n'
                'IF a% > 5 THEN\nPRINT "huge"\nELSE\nPRINT "not"\nEND IF\nPRINT 0\n', None),
    ('if-line', 'a% = 1\nIF a% = 1 THEN PRINT "one" ELSE PRINT "other"\n'
                'IF a% = 2 THEN PRINT "two" ELSE PRINT "nottwo"\nPRINT "z"\n', None),
    ('select', 'FOR s% = 1 TO 3\nSELECT CASE s%\nCASE 1\nPRINT "one"\nCASE 2\nPRINT "two"\n'
               'CASE ELSE\nPRINT "many"\nEND SELECT\nNEXT s%\n', None),
    ('gosub', 'PRINT "a"\nGOSUB lab\nPRINT "b"\nGOSUB lab\nEND\nlab:\nPRINT "in"\nRETURN\n', None),
    ('sub', 'PRINT "m1"\nCALL show(4)\nCALL show(5)\nPRINT "m2"\nSUB show(v%)\nPRINT "v"; v%\n'
            'PRINT "w"\nEND SUB\n', None),
    ('function', 'PRINT twice%(2)\nr% = twice%(3) + twice%(4)\nPRINT r%\n'
                 'FUNCTION twice%(v%)\nPRINT "f"; v%\ntwice% = v% * 2\nEND FUNCTION\n', None),
    ('rec-sub', 'CALL down(2)\nPRINT "back"\nSUB down(n%)\nIF n% > 0 THEN\nPRINT n%\n'
                'CALL down(n% - 1)\nPRINT "up"; n%\nEND IF\nEND SUB\n', None),
    ('rec-fun', 'PRINT fact&(3)\nFUNCTION fact&(n%)\nPRINT "f"; n%\nIF n% <= 1 THEN\nfact& = 1\n'
                'ELSE\nfact& = n% * fact&(n% - 1)\nEND IF\nEND FUNCTION\n', None),
    ('one-line-loop', 'FOR i% = 1 TO 2 : PRINT i% : NEXT i% : PRINT "x"\n'
                      'j% = 0 : WHILE j% < 2 : j% = j% + 1 : PRINT j% : WEND\n', None),
    ('empty-blocks', 'x% = 1\nIF x% = 1 THEN\nEND IF\nFOR i% = 1 TO 2\nNEXT i%\nPRINT "e"\n'
                     'CALL nothing\nWHILE x% = 0\nWEND\nPRINT "f"\nSUB nothing\nEND SUB\n', None),
    ('end-middle', 'PRINT 1\nGOSUB s\nEND\ns:\nPRINT 2\nRETURN\n', None),
    ('trap-end', 'PRINT 1\nx% = 1\ny% = x% \\ (x% - 1)\nPRINT 2\nPRINT 3\n', None),
    ('trap-in-sub', 'PRINT "a"\nCALL bad(0)\nPRINT "never"\nSUB bad(d%)\nPRINT "in"\n'
                    'PRINT 10 \\ d%\nPRINT "after"\nEND SUB\n', None),
    ('on-error', 'ON ERROR GOTO h\nDIM a%(2)\nPRINT 1\ni% = 5\nPRINT a%(i%)\nPRINT 2\nEND\nh:\n'
                 'PRINT "err"\nRESUME NEXT\n', None),
    ('nested-exit', 'FOR i% = 1 TO 3\nFOR j% = 1 TO 3\nIF j% = 2 THEN EXIT FOR\nPRINT i%; j%\n'
                    'NEXT j%\nNEXT i%\nPRINT "n"\n', None),
    ('mutual', 'CALL ping(2)\nPRINT "m"\nSUB ping(n%)\nPRINT "ping"; n%\nIF n% > 0 THEN CALL pong(n%)\n'
               'END SUB\nSUB pong(n%)\nPRINT "pong"; n%\nCALL ping(n% - 1)\nEND SUB\n', None),
    # ---- thorough only from here
    ('decls', "CONST c% = 7\nDIM a%(3)\n' a comment\n\nDIM t AS STRING\nt = \"s\"\nPRINT c%; t\n"
              'a%(1) = c%\nPRINT a%(1)\n', None),
    ('input', 'INPUT "n"; n%\nPRINT n% + 1\nINPUT a$, b%\nPRINT a$; b%\n', {'lines': ['4', 'hi,2']}),
    ('gosub-rec', 'n% = 2\nGOSUB r\nPRINT "top"\nEND\nr:\nPRINT "r"; n%\nn% = n% - 1\n'
                  'IF n% > 0 THEN GOSUB r\nPRINT "ret"\nRETURN\n', None),
    ('data', 'FOR i% = 1 TO 3\nREAD v%\nPRINT v%\nNEXT i%\nRESTORE\nREAD w$\nPRINT w$\nDATA 5, 6, 7\n', None),
    ('elseif', 'FOR q% = 0 TO 2\nIF q% = 0 THEN\nPRINT "zero"\nELSEIF q% = 1 THEN\nPRINT "one"\n'
               'ELSE\nPRINT "two"\nEND IF\nNEXT q%\n', None),
    ('do-while', 'm% = 0\nDO WHILE m% < 2\nm% = m% + 1\nPRINT m%\nLOOP\nDO\nPRINT "once"\n'
                 'LOOP WHILE m% < 0\nPRINT "x"\n', None),
    ('select-range', 'FOR s% = 1 TO 4\nSELECT CASE s%\nCASE 1 TO 2\nPRINT "low"\nCASE IS > 3\n'
                     'PRINT "high"\nCASE ELSE\nPRINT "mid"\nEND SELECT\nNEXT s%\n', None),
    ('static-shared', 'DIM SHARED g%\ng% = 1\nCALL bump\nCALL bump\nPRINT g%\nSUB bump\nSTATIC c%\n'
                      'c% = c% + 1\ng% = g% + c%\nPRINT "b"; c%\nEND SUB\n', None),
    ('array-loop', 'DIM a%(2)\nFOR i% = 0 TO 2\na%(i%) = i% * i%\nNEXT i%\nFOR i% = 0 TO 2\n'
                   'PRINT a%(i%)\nNEXT i%\n', None),
    ('fun-loop', 'PRINT sum%(3)\nFUNCTION sum%(n%)\ns% = 0\nFOR i% = 1 TO n%\ns% = s% + i%\nPRINT s%\n'
                 'NEXT i%\nsum% = s%\nEND FUNCTION\n', None),
    ('strings', 'a$ = "ab"\nb$ = a$ + "cd"\nPRINT LEN(b$); MID$(b$, 2, 2)\nPRINT UCASE$(a$)\n'
                'IF b$ = "abcd" THEN PRINT "eq"\n', None),
    ('end-in-sub', 'PRINT "s"\nCALL quit(1)\nPRINT "never"\nSUB quit(c%)\nPRINT "q"\n'
                   'IF c% = 1 THEN END\nPRINT "no"\nEND SUB\n', None),
    ('trap-type', 'DIM a%(2)\nPRINT "t"\ni% = 5\nPRINT a%(i%)\nPRINT "after"\n', None),
    ('exit-sub', 'CALL e(1)\nCALL e(2)\nPRINT "x"\nSUB e(k%)\nIF k% = 1 THEN EXIT SUB\nPRINT "k"; k%\n'
                 'END SUB\n', None),
    ('goto', 'i% = 0\ntop:\ni% = i% + 1\nPRINT i%\nIF i% < 3 THEN GOTO top\nPRINT "g"\n', None),
    ('fun-in-cond', 'IF ps%(1) > 0 THEN PRINT "p"\nWHILE ps%(c%) < 2\nc% = c% + 1\nWEND\nPRINT c%\n'
                    'FUNCTION ps%(v%)\nPRINT "ps"; v%\nps% = v%\nEND FUNCTION\n', None),
]

FRAGS = [
    lambda v, l: f'FOR {v}% = 1 TO 2\nPRINT "{v}"; {v}%\nNEXT {v}%\n',
    lambda v, l: f'{v}% = 2\nWHILE {v}% > 0\nPRINT {v}%\n{v}% = {v}% - 1\nWEND\n',
    lambda v, l: f'{v}% = 1\nIF {v}% = 1 THEN\nPRINT "{v}t"\nELSE\nPRINT "{v}f"\nEND IF\n',
    lambda v, l: f'{v}% = 3 : PRINT {v}% : PRINT "{v}"\n',
    lambda v, l: f'GOSUB {l}\nPRINT "after {l}"\n',
    lambda v, l: f'CALL p{l}(2)\n',
    lambda v, l: f'PRINT f{l}%(2)\n',
    lambda v, l: f'SELECT CASE {v}%\nCASE 0\nPRINT "{v}0"\nCASE ELSE\nPRINT "{v}e"\nEND SELECT\n',
    lambda v, l: f'IF {v}% = 0 THEN PRINT "{v}z" ELSE PRINT "{v}n"\n',
    lambda v, l: f'DO\n{v}% = {v}% + 1\nPRINT "{v}"; {v}%\nLOOP UNTIL {v}% > 1\n',
    lambda v, l: f'IF {v}% = 99 THEN\nEND IF\n',
]


def generated(k):
    """deterministic composite program number k"""
    rng = random.Random(7000 + k)
    body, tail_g, tail_p = [], [], []
    nfr = rng.randint(2, 4)
    for i in range(nfr):
        fi = rng.randrange(len(FRAGS))
        v, l = 'abcde'[i], f'l{i}'
        body.append(FRAGS[fi](v, l))
        if fi == 4:
            inner = FRAGS[rng.choice([0, 3, 8])]('gh'[i % 2] + str(i), l)
            tail_g.append(f'{l}:\n{inner}RETURN\n')
        if fi == 5:
            rec = rng.random() < 0.6
            tail_p.append(f'SUB p{l}(n%)\nPRINT "p"; n%\n'
                          + (f'IF n% > 0 THEN CALL p{l}(n% - 1)\n' if rec else 'PRINT "q"\n')
                          + 'PRINT "r"; n%\nEND SUB\n')
        if fi == 6:
            rec = rng.random() < 0.6
            tail_p.append(f'FUNCTION f{l}%(n%)\nPRINT "f"; n%\n'
                          + (f'IF n% > 0 THEN f{l}% = f{l}%(n% - 1) + 1\n' if rec else f'f{l}% = n%\n')
                          + 'END FUNCTION\n')
    ending = rng.choice(['', '', 'PRINT 1 \\ (zz% - zz%)\n', 'PRINT "last"\n'])
    src = ''.join(body) + ending + ('END\n' if tail_g else '') + ''.join(tail_g) + ''.join(tail_p)
    return (f'gen{k}', src, None)


def programs(tier):
    if tier == 'quick':
        return BASE[:20]
    return BASE + [generated(k) for k in range(60 - len(BASE))]


# ---- tagged programs: the expectation does NOT come from the debug section.
# The first character of the text starts an executable statement (source
# offset 0); every `PRINT #` prints the tag L<its own line number>, one
# statement per line.  The sequence of lines at which `step` stops, restricted
# to tagged lines, must therefore equal the sequence of printed tags; `break L`
# on a tagged line (and on line 1) must not be relocated.
TAGGED_SRC = [
    ('tag-print-first', 'PRINT #\nx% = 1\nPRINT #\nPRINT #\n'),
    ('tag-assign-first', 'x% = 2\nPRINT #\nIF x% = 2 THEN\nPRINT #\nEND IF\nPRINT #\n'),
    ('tag-for-first', 'FOR i% = 1 TO 2\nPRINT #\nNEXT i%\nPRINT #\n'),
    ('tag-if-first', 'IF q% = 0 THEN\nPRINT #\nELSE\nPRINT #\nEND IF\nPRINT #\n'),
    ('tag-do-first', 'DO WHILE k% < 2\nk% = k% + 1\nPRINT #\nLOOP\nPRINT #\n'),
    # a bare DO emits no instruction: line 1 is not executable (first_exec is switched off below)
    ('tag-bare-do-first', 'DO\nk% = k% + 1\nPRINT #\nLOOP UNTIL k% >= 2\nPRINT #\n'),
    ('tag-call-first', 'CALL s(2)\nPRINT #\nSUB s(n%)\nPRINT #\nIF n% > 1 THEN CALL s(n% - 1)\nPRINT #\n'
                       'END SUB\n'),
    ('tag-while-first', 'WHILE w% < 2\nw% = w% + 1\nPRINT #\nWEND\nPRINT #\n'),
    ('tag-gosub-first', 'GOSUB g\nPRINT #\nEND\ng:\nPRINT #\nRETURN\n'),
    ('tag-select-first', 'SELECT CASE 2\nCASE 1\nPRINT #\nCASE 2\nPRINT #\nEND SELECT\nPRINT #\n'),
    ('tag-comment-first', "' not a statement\nPRINT #\nPRINT #\n"),
]


def tagged_programs():
    out = []
    for name, tpl in TAGGED_SRC:
        lines = tpl.split('\n')
        tagged = [i + 1 for i, l in enumerate(lines) if l == 'PRINT #']
        src = '\n'.join(f'PRINT "L{i + 1}"' if l == 'PRINT #' else l for i, l in enumerate(lines))
        out.append((name, src, None, {'tagged': tagged,
                                      'first_exec': not lines[0].startswith("'") and lines[0] != 'DO'}))
    return out
