"""C04 - variables, array elements and record fields never overlap or leak.
Theorems: coq/Props/C04.v (Models/Layout.v + the machine model Models/Cpu.v).
Correspondence:
  (a) T-fn   real memlayout functions on compiled declaration shapes vs Models/Layout.v
  (b) T-run  sentinel programs (real compiler, real machine) vs the harness's own
             reference semantics of the property (tools/props/c04gen.py)
  (c) T-isa  memory instructions: real tick vs Models/Cpu.v on constructed states."""
import itertools
import json
import vlib
from vlib import Ctx
from props import c04shapes as S
from props import c04gen as G
from props import c04isa as I

PROP = 'C04'

# ---------------------------------------------------------------- (a) T-fn

# the 12 declaration shapes; arrays get their bounds from the position
SHAPES = ['int', 'lng', 'sng', 'dbl', 'str', 'rb', 'rc', 'a1', 'a2', 'a3', 'ar', 'dyn']


def shape_type(code, salt):
    """shape code -> shape type; salt selects bounds / element types deterministically"""
    P = S.PAIRS
    if code == 'int':
        return ('b', 1)
    if code == 'lng':
        return ('b', 2)
    if code == 'sng':
        return ('b', 3)
    if code == 'dbl':
        return ('b', 4)
    if code == 'str':
        return ('b', 5)
    if code == 'rb':
        return ('r', 'rb')
    if code == 'rc':
        return ('r', ['rc', 'rd', 'ra'][salt % 3])
    if code == 'a1':
        return ('a', [P[salt % 21]], ('b', 1 + salt % 5))
    if code == 'a2':
        return ('a', [P[(salt * 5 + 1) % 21], P[(salt * 3 + 2) % 21]], ('b', 1 + (salt + 1) % 5))
    if code == 'a3':
        return ('a', [P[(salt * 2) % 21], P[(salt * 7 + 3) % 21], P[(salt * 11 + 5) % 21]],
                ('b', 1 + (salt + 2) % 5))
    if code == 'ar':
        if salt % 2:
            return ('a', [P[(salt * 13 + 4) % 21]], ('r', ['rb', 'rc', 'rd'][salt % 3]))
        return ('a', [P[(salt * 13 + 4) % 21], P[(salt * 17 + 6) % 21]], ('r', ['rb', 'rc', 'rd'][salt % 3]))
    if code == 'dyn':
        r = 1 + salt % 3
        return ('d', r, [('b', 1 + salt % 5), ('r', 'rb'), ('r', 'rc')][salt % 3], tuple(P[(salt + i) % 21][0] for i in range(r)))
    raise ValueError(code)


def needed_types(tys):
    """TYPE blocks the declarations need (transitively), in library order"""
    need = set()

    def add(n):
        if n in need:
            return
        need.add(n)
        for fn, ft in S.RECMAP[n]:
            if ft[0] == 'r':
                add(ft[1])
    for t in tys:
        b = t if t[0] == 'r' else (t[2] if t[0] in ('a', 'd') else None)
        if b is not None and b[0] == 'r':
            add(b[1])
    return [(n, fs) for n, fs in S.RECORDS if n in need]


def fn_case(seq, q, full=False):
    """program declaring the sequence as SHARED, main locals, SUB parameters,
    SUB locals, STATICs (and, when full, FUNCTION locals and a STATIC SUB);
    with the declarations the harness expects the compiler to have recorded"""
    tys = [shape_type(c, q * 7 + j * 3) for j, c in enumerate(seq)]
    recs = needed_types(tys)
    L = [S.type_src(recs)]

    def dl(kw, pre):
        return kw + ' ' + ', '.join(S.decl_src('', f'{pre}{j}', t).strip() for j, t in enumerate(tys)) + '\n'
    L.append(dl('DIM SHARED', 'gv'))
    L.append('nq% = 2\n')
    L.append(dl('DIM', 'mv'))
    L.append('END\n')
    ps = ', '.join(S.param_src(f'pv{j}', t) for j, t in enumerate(tys))
    L.append(f'SUB sa ({ps})\n nq% = 2\n')
    L.append(' ' + dl('STATIC', 'tv'))
    L.append(' ' + dl('DIM', 'lv'))
    L.append('END SUB\n')
    I1 = ('b', 1)
    routines = [
        ('_main', [], [('nq%', I1)] + [(f'mv{j}', t) for j, t in enumerate(tys)], []),
        ('sa', [(f'pv{j}', S.param_ty(t)) for j, t in enumerate(tys)],
         [('nq%', I1)] + [(f'lv{j}', t) for j, t in enumerate(tys)],
         [(f'tv{j}', t) for j, t in enumerate(tys)]),
    ]
    if full:
        L.append(f'FUNCTION fa% ({ps})\n nq% = 2\n')
        L.append(' ' + dl('DIM', 'fv'))
        L.append(' fa% = 1\nEND FUNCTION\n')
        L.append('SUB sb STATIC\n nq% = 2\n')
        L.append(' ' + dl('DIM', 'sv'))
        L.append('END SUB\n')
        routines += [
            ('fa', [(f'pv{j}', S.param_ty(t)) for j, t in enumerate(tys)],
             [('_retval', I1), ('nq%', I1)] + [(f'fv{j}', t) for j, t in enumerate(tys)], []),
            ('sb', [], [], [('nq%', I1)] + [(f'sv{j}', t) for j, t in enumerate(tys)]),
        ]
    src = ''.join(L)
    exp = {'shared': [(f'gv{j}', t) for j, t in enumerate(tys)], 'routines': routines, 'recs': recs}
    # dotted-index queries (well formed + malformed)
    queries = []
    for j, t in enumerate(tys):
        base = t if t[0] == 'r' else (t[2] if t[0] in ('a', 'd') and t[2][0] == 'r' else None)
        for (rn, vn) in (('_main', f'mv{j}'), ('sa', f'pv{j}'), ('sa', f'tv{j}'), ('_main', f'gv{j}')):
            if base is not None:
                for ch in S.chains(base):
                    queries.append([rn, vn, list(ch)])
                queries.append([rn, vn, ['zz']])                       # no such field
                queries.append([rn, vn, [S.RECMAP[base[1]][0][0], 'zz', 'y']])
            elif rn == '_main':
                queries.append([rn, vn, ['x']])                        # builtin base
                queries.append([rn, vn, []])
    return {'seq': list(seq), 'q': q, 'src': src, 'tys': tys, 'exp': exp, 'queries': queries,
            'var_queries': [['_main', 'nosuch'], ['sa', 'mv0'], ['sa', 'tv0']],
            'gvar_queries': ['nosuch', 'mv0', '_static_sa_tv0', '_static_sb_nq%']}


def model_decls(ds):
    return [[n, S.model_ty(t)] for n, t in ds]


def ok(v):
    """[0, z] | [1] in the model's option encoding from the impl's _try encoding"""
    return [0, v[1]] if v[0] == 0 else [1]


def direct_case(c):
    """the same declarations as symbol tables built without the parser"""
    exp = c['exp']
    return {'recs': [[n, [[fn, S.model_ty(ft)] for fn, ft in fs]] for n, fs in exp['recs']],
            'shared': model_decls(exp['shared']),
            'routines': [[rn, model_decls(ps), model_decls(ls), model_decls(st)]
                         for rn, ps, ls, st in exp['routines']],
            'queries': c['queries'], 'var_queries': c['var_queries'], 'gvar_queries': c['gvar_queries']}


def run_fn_suite(ctx, exe, cases, suite, direct=False):
    if direct:
        raws = vlib.run_impl('layoutfn.layout_direct', [direct_case(c) for c in cases])
    else:
        raws = vlib.run_impl('layoutfn.layout_report',
                             [{'src': c['src'], 'queries': c['queries'], 'var_queries': c['var_queries'],
                               'gvar_queries': c['gvar_queries']} for c in cases])
    jobs = []
    for ci, c in enumerate(cases):
        exp = c['exp']
        env = S.model_env(exp['recs'])
        globs = list(exp['shared'])
        for rn, ps, ls, st in exp['routines']:
            globs += [(f'_static_{rn}_{n}', t) for n, t in st]
        c['globs'] = globs
        jobs.append([10, env, model_decls(exp['shared']),
                     [[rn, model_decls(ps), model_decls(ls), model_decls(st)]
                      for rn, ps, ls, st in exp['routines']],
                     c['queries'], c['var_queries'], c['gvar_queries']])
    mouts = vlib.run_model(exe, jobs)
    per = {}
    for ci, (c, mo) in enumerate(zip(cases, mouts)):
        m = {}
        if isinstance(mo, str) or mo == [-999, -999, -999]:
            m[('job', None)] = mo if isinstance(mo, str) else '!sx_bad'
        else:
            for (rn, ps, ls, st), rep in zip(c['exp']['routines'], mo[0]):
                m[('routine', rn)] = rep
            m[('gnames', None)] = mo[1]
            for (n, t), g in zip(c['globs'], mo[2]):
                m[('gidx', n)] = g[0]
                m[('gsize', n)] = g[1]
            m[('nglobals', None)] = mo[3]
            for qi, d in enumerate(mo[4]):
                m[('dotted', qi)] = d
            for qi, d in enumerate(mo[5]):
                m[('varq', qi)] = d
            for qi, d in enumerate(mo[6]):
                m[('gvarq', qi)] = d
        per[ci] = m
    nbad = 0
    for ci, (c, raw) in enumerate(zip(cases, raws)):
        bad = fn_compare(c, raw, per.get(ci, {}))
        if bad:
            nbad += 1
            what, found = bad[0], bad[1]
            ctx.report(f'C04/layout-{what}', {'suite': suite, 'seq': c['seq'], 'q': c['q'],
                                              'src': c['src'], 'detail': bad[2]}, found)
    ctx.count(suite, len(cases), set(json.dumps([c['seq'], c['q']]) for c in cases))
    ctx.bump("fn_model_jobs", len(jobs))
    if cases:
        c = cases[len(cases) // 2]
        ctx.sample({'suite': suite, 'case': ' '.join(c['seq']) + f' salt={c["q"]}'})
    return nbad


def fn_compare(c, raw, m):
    """None | (what, found_input, detail).  A difference in an index, a size or
    a frame operand is a layout the property's proof does not cover: the tie is
    broken (no failing program is exhibited by this suite alone)."""
    if isinstance(raw, dict) and raw.get('harness'):
        return ('worker-died', False, raw)
    if isinstance(raw, dict) and 'exc' in raw:
        return ('compile-failed', False, raw)
    for k, v in m.items():
        if isinstance(v, str):
            return ('model-died', False, [k, v])
    exp = c['exp']
    # 1. the compiler recorded the declarations the source says
    types_exp = [[n, [[fn, S.impl_ty(ft)] for fn, ft in fs]] for n, fs in exp['recs']]
    if raw['types'] != types_exp:
        return ('decl-shape-differs', False, ['types', raw['types']])
    rr = {r['name']: r for r in raw['routines']}
    if [r['name'] for r in raw['routines']] != [r[0] for r in exp['routines']]:
        return ('decl-shape-differs', False, ['routines', [r['name'] for r in raw['routines']]])
    for rn, ps, ls, st in exp['routines']:
        r = rr[rn]
        if [[x[0], x[1]] for x in r['params']] != [[n, S.impl_ty(t)] for n, t in ps]:
            return ('decl-shape-differs', False, [rn, 'params', r['params']])
        if [[x[0], x[1]] for x in r['locals']] != [[n, S.impl_ty(t)] for n, t in ls]:
            return ('decl-shape-differs', False, [rn, 'locals', r['locals']])
        if [[x[0], x[1], x[2]] for x in r['statics']] != [[n, S.impl_ty(t), f'_static_{rn}_{n}'] for n, t in st]:
            return ('decl-shape-differs', False, [rn, 'statics', r['statics']])
        # 2. indices and sizes
        rep = m[('routine', rn)]
        idx_impl = [ok(x[2]) for x in r['params'] + r['locals']]
        if idx_impl != rep[0]:
            return ('var-index-differs', False, [rn, idx_impl, rep[0]])
        if ok(r['psize']) != rep[1] or ok(r['lsize']) != rep[2]:
            return ('frame-size-differs', False, [rn, r['psize'], r['lsize'], rep[1:]])
        if rep[3] != len(ps):
            return ('model-died', False, [rn, 'params_size_fixed', rep[3]])
        if raw['frames'] is not None:
            fr = [f for f in raw['frames'] if f[0] == rn]
            if len(fr) != 1 or [0, fr[0][1]] != rep[1] or [0, fr[0][2]] != rep[2]:
                return ('frame-operands-differ', False, [rn, fr, rep[1:]])
    gn = [''.join(chr(x) for x in n) for n in m[('gnames', None)]]
    if [g[0] for g in raw['globals']] != gn:
        return ('global-names-differ', False, [[g[0] for g in raw['globals']], gn])
    for g in raw['globals']:
        if [g[0], g[1]] != [g[0], S.impl_ty(dict(c['globs'])[g[0]])]:
            return ('decl-shape-differs', False, ['global', g])
        if ok(g[2]) != m[('gidx', g[0])]:
            return ('global-index-differs', False, [g, m[('gidx', g[0])]])
        if ok(g[3]) != m[('gsize', g[0])]:
            return ('type-size-differs', False, [g, m[('gsize', g[0])]])
    if [0, raw['nglobals']] != m[('nglobals', None)]:
        return ('nglobals-differs', False, [raw['nglobals'], m[('nglobals', None)]])
    for qi, d in enumerate(raw['dotted']):
        if ok(d) != m[('dotted', qi)]:
            return ('dotted-index-differs', False, [c['queries'][qi], d, m[('dotted', qi)]])
    for qi, d in enumerate(raw['varq']):
        if ok(d) != m[('varq', qi)]:
            return ('var-index-differs', False, [c['var_queries'][qi], d, m[('varq', qi)]])
    for qi, d in enumerate(raw['gvarq']):
        if ok(d) != m[('gvarq', qi)]:
            return ('global-index-differs', False, [c['gvar_queries'][qi], d, m[('gvarq', qi)]])
    return None


def fn_suite(ctx, exe, tier):
    """direct: symbol tables built without the parser, exhaustive; compiled: the
    same programs through the real front end and assembler, a sub-sample (one
    array declaration costs the pyparsing front end ~0.1 s)"""
    maxlen = 3 if tier == 'quick' else 4
    direct, compiled = [], []
    q = 0
    for n in range(1, maxlen + 1):
        for k, seq in enumerate(itertools.product(SHAPES, repeat=n)):
            c = fn_case(seq, q, full=(n <= 2))
            direct.append(c)
            if tier == 'quick':
                take = n == 1 or (n == 2 and k % 3 == 0) or (n == 3 and k % 36 == 0)
            else:
                take = n <= 2 or (n == 3 and k % 6 == 0) or (n == 4 and k % 432 == 0)
            if take:
                compiled.append(c)
            q += 1
    ctx.rule.append(f'a(T-fn): every sequence of 1..{maxlen} declarations over the 12 shapes {SHAPES} '
                    f'({len(direct)} shapes), each declared as DIM SHARED, main locals, SUB parameters, SUB locals '
                    'and STATIC (length <= 2 also a second routine with _retval and a STATIC SUB); array bounds cycle '
                    'through all 21 pairs lb<=ub in -2..3, ranks 1-3, arrays of (nested) records, dynamic arrays; '
                    'get_local_var_idx/get_global_var_idx/get_type_size/get_params_size/get_local_vars_size/'
                    'get_dotted_index (all field chains + malformed queries) of the real memlayout on symbol tables '
                    f'built directly (suite layout_fn) and, for a deterministic sub-sample of {len(compiled)} of them, '
                    'on the symbol tables the real front end produced from generated source together with the frame '
                    'operands and n_global_cells of the assembled module (suite layout_fn_compiled), vs Models/Layout.v; '
                    'non-trivial = distinct declaration sequence')
    for c in direct:
        for s in c['seq']:
            ctx.bump('fn_shape_' + s)
    # (in the direct route a dynamic array is a `()` array and the FUNCTION is a SUB with a _retval local)
    n1 = run_fn_suite(ctx, exe, direct, 'layout_fn', direct=True)
    n2 = run_fn_suite(ctx, exe, compiled, 'layout_fn_compiled')
    return n1 + n2


def arr_suite(ctx, exe, tier):
    """Array.__init__ vs header_size / heap_array_cells; elem_index in/out of range"""
    cases = []
    es_l = [1, 2, 5] if tier == 'quick' else [1, 2, 3, 5, 9]
    P = S.PAIRS
    for es in es_l:
        for b1 in P:
            cases.append({'es': es, 'bounds': [list(b1)]})
        for i, b1 in enumerate(P):
            for j, b2 in enumerate(P):
                if tier == 'quick' and (i + j) % 3:
                    continue
                cases.append({'es': es, 'bounds': [list(b1), list(b2)]})
        for i, b1 in enumerate(P):
            for j, b2 in enumerate(P):
                for k, b3 in enumerate(P):
                    h = i * 5 + j * 3 + k
                    if h % 97 and (tier == 'quick' or h % 11):
                        continue
                    cases.append({'es': es, 'bounds': [list(b1), list(b2), list(b3)]})
    raws = vlib.run_impl('layoutfn.array_init', cases)
    mouts = vlib.run_model(exe, [[7, c['es'], c['bounds']] for c in cases])
    for c, r, mo in zip(cases, raws, mouts):
        if isinstance(r, dict) and (r.get('harness') or 'exc' in r) or isinstance(mo, str):
            ctx.broken.append(f'correspondence array_init: {r} {mo}')
            break
        n = 3 + 2 * len(c['bounds'])
        hdr = [['none'], [2, len(c['bounds'])], [2, c['es']]]
        for lb, ub in c['bounds']:
            hdr += [[2, lb], [2, ub]]
        if not (r['size'] == r['ncells'] == mo[2] + mo[1] and mo[2] == n and r['header'] == hdr
                and r['rest_unset'] and mo[1] >= mo[0]):
            ctx.report('C04/array-segment-differs', {'case': c, 'impl': r, 'model': mo}, False)
    ctx.count('array_init', len(cases), set(json.dumps(c) for c in cases))
    ctx.rule.append(f'a2: Array.__init__ on element sizes {es_l} x bounds over the 21 pairs, ranks 1-3 '
                    f'({len(cases)}): header cells, total size vs header_size + heap_array_cells')


# ---------------------------------------------------------------- main

BYVAL_SRC = '''SUB bump(p%)
p% = p% + 1
END SUB
DIM a%(3)
x% = 5
a%(2) = 7
bump x% + 0
PRINT x%
bump (x%)
PRINT x%
bump x% * 1
PRINT x%
bump 0 + x%
PRINT x%
bump 1 * x%
PRINT x%
bump x% - 0
PRINT x%
bump a%(2) + 0
PRINT a%(2)
bump x%
PRINT x%
bump a%(2)
PRINT a%(2)
'''
BYVAL_EXPECT = [5, 5, 5, 5, 5, 5, 7, 6, 8]


def byvalue_suite(ctx):
    """an expression argument aliases nothing, also when the expression is an
    identity (x + 0, x * 1, ...) that an optimiser might reduce to the variable"""
    cases = [{'src': BYVAL_SRC, 'level': lv, 'debug': dbg, 'script': {}, 'max_ticks': 20000}
             for lv in (0, 1, 2, 3) for dbg in (False, True)]
    raws = vlib.run_impl('machfn.run_case', cases)
    for c, r in zip(cases, raws):
        if not isinstance(r, dict) or 'result' not in r:
            ctx.report(f'C04/byvalue-program-failed(level={c["level"]})', {'src': c['src'], 'impl': r}, True)
            continue
        ev = r['result'][2][12]
        got = [''.join(chr(x) for x in e[1]).strip() for e in ev if e[0] == 1]
        want = [str(v) for v in BYVAL_EXPECT]
        if got != want:
            ctx.report(f'C04/expression-argument-aliases-caller-variable(level={c["level"]})',
                       {'src': c['src'], 'level': c['level'], 'debug': c['debug'], 'printed': got,
                        'expected': want}, True)
    ctx.count('byvalue-identity-expressions', len(cases), {(c['level'], c['debug']) for c in cases})
    ctx.rule.append('byvalue: one program passing x+0, (x), x*1, 0+x, 1*x, x-0, a(2)+0 and then x, a(2) to a SUB that '
                    'increments its parameter, at levels 0-3 x debug; expected printed values by construction')


def main(tier, seed):
    ctx = Ctx(PROP, tier, seed, 'proof')
    ctx.trusted_base = [
        'Coq 8.16.1 kernel (coqc, full .vo build; vm_compute only in Examples and the _refuted witnesses)',
        'no axioms: every theorem prints "Closed under the global context"',
        'extraction: ExtrOcamlBasic only; Z, positive kept inductive',
        'unverified glue: ocaml/driver.ml, tools/vlib, tools/props/c04*.py, tools/implfns/layoutfn.py, tools/implfns/machfn.py',
        'modelled not verified: qvm/memlayout.py, Array.__init__, _exec_arridx (Models/Layout.v); '
        'read*/readidx*/store*/storeidx*/storeref/deref*/refidx/pushref*/frame/ret (Models/Cpu.v); '
        'the code generator (gen_lvalue_ref, gen_lvalue_write, gen_code_for_args, gen_static_array_init) and the '
        'front end are inside the sentinel-program correspondence only',
        'the reference semantics of the sentinel programs (tools/props/c04gen.py) is the harness\'s own reading of '
        'the property: one independent value per declared scalar location, default 0 / "", by-reference parameters '
        'alias the named location, fresh locals per activation, STATIC per routine, SHARED global',
    ]
    ctx.prove()
    exe = ctx.model('Layout')
    mexe = ctx.model('Mem')
    fn_suite(ctx, exe, tier)
    arr_suite(ctx, exe, tier)
    G.sentinel_suite(ctx, tier)
    byvalue_suite(ctx)
    I.isa_suite(ctx, mexe, tier)
    return ctx.finish()


def replay(path):
    d = json.load(open(path))
    print(json.dumps(d, indent=1)[:6000])
    first = d.get('first') or {}
    if isinstance(first, dict) and first.get('src'):
        r = vlib.run_impl('layoutfn.run_sentinel',
                          [{'src': first['src'], 'level': first.get('level', 0),
                            'debug': first.get('debug', False)}])[0]
        print('--- rerun on the implementation ---')
        print(json.dumps(r, indent=1)[:3000])
        if 'expected' in first:
            print('--- expected text ---')
            print(first['expected'][:3000])
    return 0
