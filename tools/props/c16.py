"""C16 - numbers survive conversion to text and back.

Theorems: coq/Props/C16.v.  Models: Models/NumFmt.v (format_number, int(),
float()), Models/Literal.v (VAL = _exec_sdbl), Models/NumText.v (READ, INPUT,
STR$ call site).  Specification (oracle): Models/NumSpec.v, evaluated by the
extracted model, and recomputed here with fractions.Fraction.

Suites
  A  every INTEGER value (exhaustive)                         text + 3 read-backs
  B  LONG / SINGLE / DOUBLE families + seeded bit patterns     text + 3 read-backs
  V  VAL on arbitrary short texts (malformed stream, tie only)
  R  READ / INPUT on arbitrary short texts (tie only)
  P  compiled programs PRINT x / PRINT STR$(x) / VAL / READ / INPUT, 6 configurations
Every value is judged against the PROPERTY on the behaviour of the real code;
the model is compared on top of that (tie)."""
import itertools
import json
import math
import random
import re
import struct
import sys
import time
from fractions import Fraction

import vlib
from vlib import Ctx, l2s, s2l

PROP = 'C16'
LONG_TIMEOUT = 7200     # seconds per worker batch; only reached on an overloaded machine
TYN = {1: 'INTEGER', 2: 'LONG', 3: 'SINGLE', 4: 'DOUBLE'}
INF = float('inf')


def fb(x):
    return struct.unpack('>Q', struct.pack('>d', x))[0]


def bf(b):
    return struct.unpack('>d', struct.pack('>Q', b))[0]


def sgl(x):
    return struct.unpack('>f', struct.pack('>f', x))[0]


def s32(x):
    return struct.unpack('>I', struct.pack('>f', x))[0]


def f32(b):
    return struct.unpack('>f', struct.pack('>I', b & 0xffffffff))[0]


def finite(x):
    return x == x and abs(x) != INF


def neighbours(x, single):
    """x and both neighbours in its type"""
    out = [x]
    if single:
        b = s32(x)
        for d in (-1, 1):
            if (b & 0x7fffffff) == 0 and d == -1:
                continue
            y = f32(b + d)
            if finite(y):
                out.append(y)
    else:
        for y in (math.nextafter(x, INF), math.nextafter(x, -INF)):
            if finite(y):
                out.append(y)
    return out


_SEEN = {}


def phase(ctx, name):
    """wall time of each phase into the evidence; progress on stderr"""
    now = time.time()
    ph = ctx.extra.setdefault('phase_wall_s', {})
    ph[name] = round(now - ctx.extra.get('_t_last', ctx.t0), 1)
    ctx.extra['_t_last'] = now
    print(f'[C16] {name}: {ph[name]} s', file=sys.stderr, flush=True)


def report(ctx, sig, det, found):
    """ctx.report, keeping the full detail only for the first reports of a
    signature that is a known finding (hundreds of thousands of values fall in
    the D22/D23 classes; each is still counted)"""
    n, last = _SEEN.get(sig, (0, None))
    if last == 'known' and n >= 25:
        det = {k: det[k] for k in ('suite', 'type', 'value', 'text', 'case') if k in det}
    r = ctx.report(sig, det, found)
    _SEEN[sig] = (n + 1, r)
    return r


# ---------------------------------------------------------------------------
# python-side oracle (exact, fractions)

NUM_RE = re.compile(r' ?(-?)(\d+)(?:\.(\d+))?(?:[ED]([+-])(\d+))?')


def parse_text(t):
    m = NUM_RE.fullmatch(t)
    if not m:
        return None
    neg = m.group(1) == '-'
    fp = m.group(3) or ''
    c = int(m.group(2) + fp)
    k = -len(fp)
    if m.group(5):
        ex = int(m.group(5))
        k += -ex if m.group(4) == '-' else ex
    return neg, c, k


def norm_dec(c, k):
    while c and c % 10 == 0:
        c //= 10
        k += 1
    return c, k


def dec_value(neg, c, k):
    d = Fraction(c) * Fraction(10) ** k
    return -d if neg else d


def py_verdict(x, t):
    """[numeral, digits, half, sign] like NumSpec.judge_text"""
    p = parse_text(t)
    if p is None:
        return [0, 0, 0, 0], None
    neg, c, k = p
    c1, k1 = norm_dec(c, k)
    half = 2 * abs(Fraction(x) - dec_value(neg, c1, k1)) <= Fraction(10) ** k1
    if x == 0:
        sign = c == 0
    else:
        sign = (x < 0) == neg
    return [1, len(str(c1)), int(half), int(sign)], p


def py_close(x, y, p):
    d = dec_value(*p)
    return int(abs(Fraction(y) - d) <= abs(Fraction(x) - d))


def form_of(t):
    return 'exp' if ('E' in t or 'D' in t) else ('frac' if '.' in t else 'int')


def is_pow2(x):
    m, _ = math.frexp(abs(x))
    return m == 0.5


# ---------------------------------------------------------------------------
# value families

def frng(ctx, name):
    """one generator per family: the quick draws are a prefix of the thorough ones"""
    return random.Random(f'{ctx.seed}/{name}')


def int_family_long(ctx, nrand):
    vals = set()
    for e in range(0, 32):
        for d in (-1, 0, 1):
            for s in (1, -1):
                vals.add(s * (2 ** e + d))
    for e in range(0, 10):
        for d in (-1, 0, 1):
            for s in (1, -1):
                vals.add(s * (10 ** e + d))
    vals |= {2 ** 31 - 1, -2 ** 31, 0}
    out = sorted(v for v in vals if -2 ** 31 <= v < 2 ** 31)
    seen = set(out)
    rng = frng(ctx, 'long')
    for _ in range(nrand):
        nb = rng.randint(1, 31)
        v = rng.getrandbits(nb) * rng.choice((1, -1))
        if v not in seen:
            seen.add(v)
            out.append(v)
    return out


def float_families(ctx, tier):
    """list of (tag, ty, value) ; SINGLE values are exactly representable"""
    out = []
    thorough = tier != 'quick'

    def add(tag, ty, x):
        if not finite(x):
            return
        if ty == 3:
            try:
                x = sgl(x)
            except OverflowError:
                return
        out.append((tag, ty, x))
        out.append((tag, ty, -x))

    # powers of two, with both neighbours
    for e in range(-1074, 1024):
        for y in neighbours(2.0 ** e, False):
            add('pow2', 4, y)
    for e in range(-149, 128):
        for y in neighbours(2.0 ** e, True):
            add('pow2', 3, y)
    # powers of ten, with both neighbours
    for e in range(-324, 309):
        x = float('1e%d' % e)
        if x > 0:
            for y in neighbours(x, False):
                add('pow10', 4, y)
    for e in range(-46, 39):
        try:
            x = sgl(float('1e%d' % e))
        except OverflowError:
            continue
        if x > 0:
            for y in neighbours(x, True):
                add('pow10', 3, y)
    # type limits, zero, form thresholds
    lim4 = [0.0, 5e-324, 2.2250738585072014e-308, 2.225073858507201e-308,
            1.7976931348623157e308, 1e16, 9999999999999998.0, 1e-4, 0.00010000000000000002,
            9.999999999999999e-05, 2.0 ** 31, 2.0 ** 31 - 1, 2.0 ** 31 + 1, 2.0 ** 53, 2.0 ** 53 - 1,
            2.0 ** 63, 2.0 ** 64, 0.1, 0.5, 1.0, 1.5, 2.5, 1e22, 1e23, 123456789012345680.0]
    for x in lim4:
        for y in neighbours(x, False):
            add('limits', 4, y)
    lim3 = [0.0, f32(1), f32(0x007fffff), f32(0x00800000), f32(0x7f7fffff), 1e16, 1e-4, 2.0 ** 31,
            2.0 ** 24, 2.0 ** 24 - 1, 9999999.0, 99999.99, 999999.9, 9999999.5, 0.1, 0.5, 1.0, 1.5, 2.5,
            123456792.0, 1.5e-5, 1234.5678, 1e7, 1e8, 1e15, 3.4e38, 8388608.0, 16777216.0]
    for x in lim3:
        for y in neighbours(sgl(x), True):
            add('limits', 3, y)
    # subnormals on a grid
    for i in range(0, 52):
        for y in neighbours(bf(1 << i), False):
            add('subnormal', 4, y)
        add('subnormal', 4, bf((1 << i) * 3 // 2 + 1))
    for i in range(0, 23):
        for y in neighbours(f32(1 << i), True):
            add('subnormal', 3, y)
        add('subnormal', 3, f32((1 << i) * 3 // 2 + 1))
    # both neighbours of n-digit rounding boundaries  (c + 1/2) * 10^k ; the quick
    # exponent grid is a sub-grid of the thorough one, same digits at the same point
    grid4 = range(-320, 306, 5 if thorough else 35)
    grid3 = range(-44, 36, 1 if thorough else 8)
    per = 6 if thorough else 2
    for n in (7, 15, 16, 17):
        for ty, grid in ((4, grid4), (3, grid3)):
            for k in grid:
                rng = frng(ctx, f'boundary/{n}/{ty}/{k}')
                for _ in range(per):
                    c = rng.randrange(10 ** (n - 1), 10 ** n)
                    try:
                        x = float(Fraction(2 * c + 1, 2) * Fraction(10) ** (k - n))
                        if ty == 3:
                            x = sgl(x)
                    except OverflowError:
                        continue
                    for y in neighbours(x, ty == 3):
                        add('boundary%d' % n, ty, y)
    # plain-form magnitudes: integral and fractional values of every size
    rng = frng(ctx, 'plain')
    for _ in range(15000 if thorough else 1500):
        nd = rng.randint(1, 17)
        z = rng.randrange(10 ** (nd - 1), 10 ** nd)
        sh = rng.randint(0, 20)
        add('integral', 4, float(z))
        add('integral', 3, float(z))
        add('decimal', 4, z / 10.0 ** sh)
        add('decimal', 3, z / 10.0 ** sh)
    # seeded random bit patterns
    rng = frng(ctx, 'random')
    for _ in range(125000 if thorough else 5000):
        add('random', 4, bf(rng.getrandbits(64)))
        add('random', 3, f32(rng.getrandbits(32)))
    # distinct, order kept
    seen = set()
    res = []
    for tag, ty, x in out:
        key = (ty, fb(x))
        if key in seen:
            continue
        seen.add(key)
        res.append((tag, ty, x))
    return res


def model_cost_ms(ty, v):
    """estimated CPU time of one full model job (measured: the shortest-digit
    search of Base/Dec.v does ~34 big-number divisions for a typical double)"""
    if ty < 3:
        return 0.3
    if ty == 3:
        return 20.0
    if v == 0:
        return 1.0
    e10 = math.frexp(abs(v))[1] * 0.30103
    return 4.0 + (e10 / 300.0) ** 2 * (330.0 if e10 < 0 else 115.0)


def select_for_model(ctx, vals, budget_s):
    """indices of the values that also go through the extracted model (text tie,
    reader ties, Coq oracle).  Every family gets an equal share of the CPU
    budget and is sub-sampled with a constant stride."""
    fams = {}
    for i, (tag, ty, v) in enumerate(vals):
        fams.setdefault((tag, ty), []).append(i)
    share = budget_s * 1000.0 / max(1, len(fams))
    chosen = set()
    for key in sorted(fams):
        idx = fams[key]
        total = sum(model_cost_ms(vals[i][1], vals[i][2]) for i in idx)
        stride = max(1, int(math.ceil(total / share)))
        start = ctx.seed % stride
        chosen.update(idx[start::stride])
    return chosen


# ---------------------------------------------------------------------------
# normalisation of implementation results into the model's output format

SYN_CODES = [
    ('Invalid type character for numeric literal', 1),
    ('Invalid type char for integral value', 2),
    ('Illegal number (type char does not match DOUBLE', 3),
    ('Illegal number (type char does not match SINGLE', 4),
    ('Illegal number (numeric value incompatible', 5),
    ('Illegal number (does not fit in INTEGER)', 6),
    ('Illegal number (does not fit in LONG)', 7),
    ('Illegal number (does not fit in SINGLE)', 8),
    ('invalid literal for int() with base', 9),
]


def norm_rd(r):
    if r[0] == 'ok':
        if r[2] != 1:
            return ['stack-depth', r[2]]
        return [0, r[1]]
    if r[0] == 'trap' and r[1] == 'DEVICE_ERROR' and r[2] == 'BAD_ARG_TYPE':
        return [1]
    if r[0] == 'trap' and r[1] == 'INVALID_CELL_VALUE':
        return [2]
    if r[0] == 'reject':
        return [3]
    return ['other'] + list(r)


def norm_val(r):
    if r[0] == 'ok':
        if r[2] != 1 or r[1][0] != 4:
            return ['bad-push', r[1][0], r[2]]
        return [0, r[1][1]]
    if r[0] == 'exc' and r[1] == 'SyntaxError':
        for msg, code in SYN_CODES:
            if r[2].startswith(msg):
                return [1, code]
    return ['other'] + list(r)


# ---------------------------------------------------------------------------
# suites A/B: one value -> text -> three read-backs

def expected_neg_loses_digit(x, tneg):
    """is the text of -x exactly x rounded (half even, exact value) to ONE decimal
    place fewer than the positive text uses?  (the footprint of D22-negative:
    before_decimal counts the '-' sign)"""
    p = parse_text(tneg)
    if p is None or not p[0]:
        return False
    ax = abs(x)
    bd = len(repr(ax).split('.')[0])
    nd = 7 - bd - 1
    q = Fraction(ax) * Fraction(10) ** nd
    fl = q.numerator // q.denominator
    rem = q - fl
    if rem > Fraction(1, 2) or (rem == Fraction(1, 2) and fl % 2 == 1):
        fl += 1
    want = Fraction(fl) / Fraction(10) ** nd
    return dec_value(False, p[1], p[2]) == want


def run_values(ctx, suite, vals, exe, model_idx=None):
    """vals: list of (tag, ty, v) with v int (ty 1,2) or float (ty 3,4).
    model_idx: indices that also go through the extracted model (None = all)"""
    CH = 100000
    texts = {}
    nmodel = 0
    for off in range(0, len(vals), CH):
        chunk = vals[off:off + CH]
        cases = [[ty, (v if ty < 3 else fb(v)), 'full'] for _, ty, v in chunk]
        raws = vlib.run_impl('numtextfn.roundtrip', cases, timeout=LONG_TIMEOUT)
        if any(isinstance(r, dict) and r.get('harness') for r in raws):
            bad = [r for r in raws if isinstance(r, dict) and r.get('harness')][0]
            ctx.broken.append(f'correspondence {suite}: implementation worker failed: '
                              f'{bad.get("stderr", "")[-300:]}')
            return texts
        jobs = []
        jobpos = []
        ylists = []
        for j, ((tag, ty, v), c, raw) in enumerate(zip(chunk, cases, raws)):
            ys = []
            if ty >= 3 and 'text' in raw:
                for path in ('read', 'input', 'val'):
                    r = raw[path]
                    y = -1
                    if r[0] == 'ok' and r[1][0] in (3, 4):
                        yv = bf(r[1][1])
                        if path == 'val' and ty == 3:
                            try:
                                yv = sgl(yv)
                            except OverflowError:
                                yv = None
                        if yv is not None and finite(yv):
                            y = fb(yv)
                    ys.append(y)
            ylists.append(ys)
            if (model_idx is None or (off + j) in model_idx) and 'text' in raw:
                jobs.append([1, ty, c[1], raw['text'], ys])
                jobpos.append(j)
        mres = vlib.run_model(exe, jobs, timeout=LONG_TIMEOUT)
        mouts = [None] * len(chunk)
        for j, mo in zip(jobpos, mres):
            mouts[j] = mo
        nmodel += len(jobs)
        for (tag, ty, v), c, raw, mo, ys in zip(chunk, cases, raws, mouts, ylists):
            if isinstance(mo, str):
                ctx.broken.append(f'correspondence {suite}: model driver failed ({mo}) on {c!r}')
                return texts
            judge_value(ctx, suite, tag, ty, v, c, raw, mo, ys)
            if isinstance(raw, dict) and 'text' in raw:
                texts[(ty, c[1])] = raw['text']
    ctx.extra.setdefault('model_evaluations', {})[suite] = nmodel
    # "a number and its negation show the same digits"
    for tag, ty, v in vals:
        if ty < 3 or not (v > 0) or not finite(v):
            continue
        tp = texts.get((ty, fb(v)))
        tn = texts.get((ty, fb(-v)))
        if tp is None or tn is None:
            continue
        ctx.bump('negation-pairs')
        if tp[1:] != tn[1:] or tp[0] != ' ' or tn[0] != '-':
            fp, fn = form_of(tp), form_of(tn)
            if ty == 3 and fp != 'exp' and expected_neg_loses_digit(v, tn):
                sig = 'C16/single-negative-loses-digit'
            else:
                sig = f'C16/negation-differs({TYN[ty]},{fp},{fn})'
            report(ctx, sig, {'suite': suite, 'type': TYN[ty], 'value': repr(v), 'bits': fb(v),
                             'text_pos': tp, 'text_neg': tn}, True)
    keys = set((ty, (v if ty < 3 else fb(v))) for _, ty, v in vals)
    ctx.count(suite, len(vals), keys)
    for tag, ty, v in vals:
        ctx.bump(f'{TYN[ty]}:{tag}')
    if vals:
        tag, ty, v = vals[len(vals) // 2]
        ctx.sample({'suite': suite, 'family': tag, 'type': TYN[ty], 'value': repr(v),
                    'text': texts.get((ty, v if ty < 3 else fb(v)))})
    return texts


def judge_value(ctx, suite, tag, ty, v, case, raw, mo, ys):
    det = {'suite': suite, 'family': tag, 'type': TYN[ty], 'value': repr(v), 'case': case[:2],
           'impl': raw}
    if 'exc' in raw and 'text' not in raw:
        report(ctx, f'C16/format_number-raises({raw["exc"]},{TYN[ty]})', det, True)
        return
    t = raw['text']
    if mo is not None:
        mtext, mrd, minp, mval, mntos, mverdict = mo
        det['model'] = {'text': l2s(mtext), 'read': mrd, 'input': minp, 'val': mval}
    nrd, ninp, nval = norm_rd(raw['read']), norm_rd(raw['input']), norm_val(raw['val'])
    # --- the two call sites show the same text (PRINT adds one blank and the line end)
    if raw.get('ntos') != t or raw.get('print') != t + ' \r\n':
        report(ctx, f'C16/print-str-differ({TYN[ty]})', det, True)
    # --- property, on the behaviour of the real code
    bad = False
    if ty >= 3 and not finite(v):
        pass        # inf / nan: outside the property (finite values); only the tie below
    elif ty < 3:
        want = (' ' if v >= 0 else '-') + str(abs(v))
        if mo is not None and (t == want) != bool(mverdict[0]):
            ctx.broken.append(f'oracle {suite}: Coq plain_int_text and the harness disagree on {t!r}')
        if t != want:
            bad = True
            report(ctx, f'C16/int-text-not-plain-decimal({TYN[ty]})', det, True)
        for path, nr in (('READ', nrd), ('INPUT', ninp)):
            if nr != [0, [ty, v]]:
                bad = True
                report(ctx, f'C16/int-readback-wrong({path},{TYN[ty]})', det, True)
        if nval != [0, fb(float(v))]:
            bad = True
            report(ctx, f'C16/int-readback-wrong(VAL,{TYN[ty]})', det, True)
    else:
        form = form_of(t)
        pv, parsed = py_verdict(v, t)
        cv = mverdict[:4] if mo is not None else pv
        if pv != cv:
            ctx.broken.append(f'oracle {suite}: Coq judge_text {cv} and the harness {pv} disagree on '
                              f'{t!r} for {v!r}')
        limit = 7 if ty == 3 else 17
        if not pv[0]:
            bad = True
            report(ctx, f'C16/text-not-a-decimal-numeral({TYN[ty]})', det, True)
        else:
            if pv[1] > limit:
                bad = True
                if ty == 3 and form == 'exp':
                    sig = 'C16/single-exponent-form-unrounded'
                else:
                    sig = f'C16/too-many-digits({TYN[ty]},{form},{pv[1]})'
                report(ctx, sig, det, True)
            if not pv[2]:
                bad = True
                p2 = 'pow2' if is_pow2(v) else 'not-pow2'
                report(ctx, f'C16/beyond-half-unit({TYN[ty]},{form},{p2})', det, True)
            if not pv[3]:
                bad = True
                report(ctx, f'C16/wrong-sign({TYN[ty]},{form})', det, True)
            # read-back at the same type
            for i, (path, r, nr) in enumerate((('READ', raw['read'], nrd), ('INPUT', raw['input'], ninp),
                                               ('VAL', raw['val'], nval))):
                wantty = 4 if path == 'VAL' else ty
                if r[0] == 'ok' and r[2] == 1 and r[1][0] == wantty and ys[i] >= 0:
                    y = bf(ys[i])
                    pc = py_close(v, y, parsed)
                    cc = mverdict[4][i] if mo is not None else pc
                    if pc != cc:
                        ctx.broken.append(f'oracle {suite}: Coq reads_back_close {cc} and the harness '
                                          f'{pc} disagree on {t!r} x={v!r} y={y!r}')
                    if not pc:
                        bad = True
                        report(ctx, f'C16/readback-imprecise({path},{TYN[ty]},{form})',
                                   dict(det, readback=repr(y)), True)
                    elif ty == 4 and y != v:
                        bad = True
                        report(ctx, f'C16/double-readback-not-identical({path},{form})',
                                   dict(det, readback=repr(y)), True)
                else:
                    bad = True
                    if ty == 4 and 'D' in t and path in ('READ', 'INPUT') and nr in ([1], [3]):
                        sig = f'C16/double-D-marker-unreadable({path})'
                    elif (path == 'VAL' and form == 'int' and nr == [1, 7]
                          and not (-2 ** 31 <= dec_value(*parsed) <= 2 ** 31 - 1)):
                        sig = f'C16/val-host-SyntaxError(integer-text-beyond-LONG,{TYN[ty]})'
                    else:
                        sig = f'C16/readback-fails({path},{TYN[ty]},{form},{json.dumps(r[:2])})'
                    report(ctx, sig, det, True)
    # --- tie: the model describes the code
    if mo is None:
        return
    ties = (('format_number', s2l(t), mtext), ('READ', nrd, mrd), ('INPUT', ninp, minp),
            ('VAL', nval, mval), ('ntos', [0, s2l(raw.get('ntos'))] if isinstance(raw.get('ntos'), str)
                                  else ['other', raw.get('ntos')], mntos))
    for name, a, b in ties:
        if a != b:
            report(ctx, f'C16/tie-{name}({TYN[ty]})', dict(det, impl_norm=a, model_out=b), bad)


# ---------------------------------------------------------------------------
# suites V/R: arbitrary short texts (tie of the readers)

VAL_ALPHA = [' ', '\t', '+', '-', '.', '0', '1', '7', '9', 'e', 'D', '&', 'H', 'o', 'f', '%', '#', '!',
             '$', 'x']
VAL_PIECES = ['', ' ', '  ', '\t', '+', '-', '.', '0', '00', '1', '12', '123', '32767', '32768', '2147483647',
              '2147483648', '99999999999', '1.5', '.5', '5.', 'e', 'E', 'd', 'D', 'e5', 'E+5', 'd-5', 'D39',
              'e39', 'e400', 'd400', 'E-400', '&H', '&h', '&O', '&o', 'ff', 'FFFF', '7fffffff', '80000000', '17', '8',
              '%', '&', '!', '#', '$', '%&', 'x', ',', '_', 'inf', 'nan', '\n', '\r']


BIG_EXP = re.compile(r'[eEdD][+-]?[0-9_]{4,}')


def text_stream(ctx, name, alpha, pieces, maxlen, nrand):
    """every text of length <= maxlen over alpha, then seeded concatenations of
    pieces.  Texts with an exponent of four or more digits are left out: the
    model computes 10^|exponent| in Z (Python answers inf / 0.0 at once)."""
    seen = set()
    out = []
    for n in range(0, maxlen + 1):
        for tup in itertools.product(alpha, repeat=n):
            s = ''.join(tup)
            if s not in seen:
                seen.add(s)
                out.append(s)
    rng = frng(ctx, name)
    for _ in range(nrand):
        s = ''.join(rng.choice(pieces) for _ in range(rng.randint(1, 6)))
        if s not in seen and not BIG_EXP.search(s):
            seen.add(s)
            out.append(s)
    return out


def run_val_texts(ctx, tier, exe):
    texts = text_stream(ctx, 'val-texts', VAL_ALPHA, VAL_PIECES, 3, 4000 if tier == 'quick' else 60000)
    ctx.rule.append(f'V: VAL on every text of length <= 3 over {len(VAL_ALPHA)} characters plus seeded '
                    f'concatenations of 1..6 of {len(VAL_PIECES)} literal pieces ({len(texts)} distinct texts); '
                    f'model Literal.val_text vs real _exec_sdbl, including which host SyntaxError escapes')

    def judge(c, ni, mo, raw):
        return ('C16/tie-VAL-text', False)
    vlib.diff_suite(ctx, 'val_texts', texts, 'numtextfn.val_text', exe, lambda c: [2, c],
                    lambda c, raw: norm_val(raw), judge, key=lambda c: c, describe=repr)


READ_ALPHA = [' ', '\t', '\n', '+', '-', '.', '0', '1', '9', 'e', 'E', 'D', '_', ',', 'x']
READ_PIECES = ['', ' ', '\t', '+', '-', '.', '0', '1', '12', '32767', '32768', '-32769', '2147483647', '2147483648',
               '1.5', '.5', '5.', 'e5', 'E+5', 'D+5', 'e39', 'e400', 'e-400', '_', ',', 'inf', 'nan', 'Infinity',
               '3.5e38', '1e-46', 'x']


def run_read_texts(ctx, tier, exe):
    texts = text_stream(ctx, 'read-texts', READ_ALPHA, READ_PIECES, 3, 3000 if tier == 'quick' else 40000)
    cases = [[ty, s] for s in texts for ty in (1, 2, 3, 4)]
    ctx.rule.append(f'R: READ and INPUT of one numeric field at the four types on every text of length <= 3 '
                    f'over {len(READ_ALPHA)} characters plus seeded piece concatenations '
                    f'({len(texts)} texts x 4 types)')

    def judge(c, ni, mo, raw):
        return ('C16/tie-READ-INPUT-text', False)
    vlib.diff_suite(ctx, 'read_texts', cases, 'numtextfn.read_text', exe,
                    lambda c: [3, c[0], c[1]],
                    lambda c, raw: [norm_rd(raw['read']), norm_rd(raw['input'])] if 'read' in raw
                    else ['exc', raw],
                    judge, key=lambda c: json.dumps(c), describe=lambda c: f'{TYN[c[0]]} {c[1]!r}')


# ---------------------------------------------------------------------------
# suite P: compiled programs

SUF = {1: '%', 2: '&', 3: '!', 4: '#'}


def programs_for(ty, v, text):
    """three programs per value.  The value enters through INPUT typed as
    Python's own repr (exact), so no literal folding is involved."""
    s = SUF[ty]
    exact = str(v) if ty < 3 else repr(v)
    p1 = (f'INPUT x{s}\nPRINT x{s}\nPRINT STR$(x{s})\nPRINT "<"; STR$(x{s}); ">"\n'
          f'y{s} = VAL(STR$(x{s}))\nPRINT y{s}\n')
    p2 = f'INPUT x{s}\nPRINT x{s}\nINPUT y{s}\nPRINT y{s}\n'
    p3 = f'INPUT x{s}\nPRINT x{s}\nREAD y{s}\nPRINT y{s}\nDATA {text.strip()}\n'
    return [('print-str-val', p1, [exact]), ('input', p2, [exact, text]), ('read', p3, [exact])]


def run_programs(ctx, tier, texts_by_value):
    picks = []
    ints = [(1, 0), (1, 7), (1, -7), (1, 32767), (1, -32768), (2, 100000), (2, 2147483647),
            (2, -2147483648), (2, -1)]
    fl = [(4, 0.5), (4, 0.1), (4, -0.1), (4, 1.5), (4, 123456789.125), (4, 1e15), (4, 1e16), (4, 1e300),
          (4, -2.5e-7), (4, 3000000000.0), (4, 5e-324), (4, 2.0 ** -44), (4, 1.7976931348623157e308),
          (4, 0.0001), (4, 12345678901234567.0),
          (3, 0.5), (3, sgl(0.1)), (3, sgl(-0.1)), (3, 1.5), (3, 123456792.0), (3, -123456792.0),
          (3, sgl(1234.5678)), (3, sgl(-1234.5678)), (3, sgl(1.5e-5)), (3, sgl(1e20)), (3, sgl(3e9)),
          (3, sgl(0.000123456)), (3, 16777216.0), (3, sgl(3.4e38)), (3, f32(1))]
    picks += ints + fl
    n_extra = 2 if tier == 'quick' else 100
    prng = frng(ctx, 'programs')
    for _ in range(n_extra):
        picks.append((1, prng.randint(-32768, 32767)))
        picks.append((2, prng.randint(-2 ** 31, 2 ** 31 - 1)))
        x = prng.uniform(-1, 1) * 10.0 ** prng.randint(-8, 18)
        picks.append((4, x))
        picks.append((3, sgl(prng.uniform(-1, 1) * 10.0 ** prng.randint(-8, 18))))
        picks.append((4, bf(prng.getrandbits(64))))
        picks.append((3, f32(prng.getrandbits(32))))
    picks = [(ty, v) for ty, v in picks if ty < 3 or finite(v)]
    # the text of each value, from the real format_number
    traw = vlib.run_impl('numtextfn.fmt', [[ty, v if ty < 3 else fb(v)] for ty, v in picks])
    cases = []
    for (ty, v), t in zip(picks, traw):
        if not isinstance(t, str):
            report(ctx, f'C16/format_number-raises({TYN[ty]})', {'value': repr(v), 'impl': t}, True)
            continue
        for kind, src, lines in programs_for(ty, v, t):
            for level in (0, 1, 2):
                for dbg in (False, True):
                    cases.append({'kind': kind, 'ty': ty, 'v': v if ty < 3 else fb(v), 'text': t,
                                  'src': src, 'lines': lines, 'level': level, 'debug': dbg})
    ctx.rule.append(f'P: {len(picks)} values (fixed list + seeded) x 3 compiled programs '
                    f'(PRINT x / PRINT STR$(x) / VAL(STR$(x)); INPUT of the printed text; READ of the printed '
                    f'text as a DATA item) x levels 0,1,2 x debug on/off, run on the real machine; '
                    f'the value enters via INPUT of Python repr')
    raws = []
    for off in range(0, len(cases), 2400):      # batches: a worker never runs long
        raws += vlib.run_impl('numtextfn.run_prog', cases[off:off + 2400], timeout=LONG_TIMEOUT)
    for c, raw in zip(cases, raws):
        if isinstance(raw, dict) and raw.get('harness'):
            ctx.broken.append(f'correspondence programs: implementation worker failed: '
                              f'{raw.get("stderr", "")[-300:]}')
            break
        judge_program(ctx, c, raw)
    ctx.count('programs', len(cases), set((c['kind'], c['ty'], c['v']) for c in cases))
    if cases:
        c = cases[len(cases) // 2]
        ctx.sample({'suite': 'programs', 'src': c['src'], 'lines': c['lines'],
                    'config': f"-O{c['level']}{' -g' if c['debug'] else ''}"})
    ctx.extra['programs'] = len(cases)


def judge_program(ctx, c, raw):
    ty = c['ty']
    v = c['v'] if ty < 3 else bf(c['v'])
    t = c['text']
    form = form_of(t)
    det = {'suite': 'programs', 'kind': c['kind'], 'type': TYN[ty], 'value': repr(v), 'text': t,
           'src': c['src'], 'lines': c['lines'], 'level': c['level'], 'debug': c['debug'], 'impl': raw}
    cfg = f"O{c['level']}{'g' if c['debug'] else ''}"
    if 'out' not in raw:
        report(ctx, f'C16/program-does-not-compile({c["kind"]},{TYN[ty]},{raw.get("exc")})', det, True)
        return
    lines = raw['out'].split('\r\n')
    # line 0 (after the INPUT echo is absent: the scripted terminal prints nothing) = PRINT x
    first = lines[0] if lines else None
    if first != t + ' ':
        report(ctx, f'C16/compiled-PRINT-differs-from-format_number({TYN[ty]},{cfg})', det, True)
        return
    clean = raw['status'] == 'halt' and raw['outcome'][1] is None and raw['exc'] is None
    if c['kind'] == 'print-str-val':
        if len(lines) < 3 or lines[1] != t or lines[2] != '<' + t + '>':
            report(ctx, f'C16/print-str-differ({TYN[ty]})', det, True)
            return
        back = lines[3] if len(lines) > 4 else None
        path = 'VAL'
    else:
        back = lines[1] if len(lines) > 2 else None
        path = 'READ' if c['kind'] == 'read' else 'INPUT'
    if clean and back == first:
        return
    # the value did not come back with the same digits
    if path == 'INPUT':
        failed = raw['status'] == 'input-exhausted' and 'Redo from start' in raw['out']
    elif path == 'READ':
        failed = raw['outcome'][1] == 'DEVICE_ERROR'
    else:
        failed = bool(raw['exc']) and raw['exc'][0] == 'SyntaxError'
    if ty == 4 and 'D' in t and path in ('READ', 'INPUT') and failed:
        sig = f'C16/double-D-marker-unreadable({path})'
    elif (path == 'VAL' and ty >= 3 and form == 'int' and failed and parse_text(t) is not None
          and not (-2 ** 31 <= dec_value(*parse_text(t)) <= 2 ** 31 - 1)):
        sig = f'C16/val-host-SyntaxError(integer-text-beyond-LONG,{TYN[ty]})'
    elif ty == 3 and back is not None and clean:
        # read back fine but prints differently: tolerated only when the second text is one
        # of the unrounded exponent forms (D22) of the value read back
        p = parse_text(back.rstrip(' '))
        if p is not None and form_of(back) == 'exp' and len(str(norm_dec(p[1], p[2])[0])) > 7:
            sig = 'C16/single-exponent-form-unrounded'
        else:
            sig = f'C16/compiled-readback-differs({path},{TYN[ty]},{form})'
    else:
        sig = f'C16/compiled-readback-differs({path},{TYN[ty]},{form})'
    report(ctx, sig, det, True)


# ---------------------------------------------------------------------------

def main(tier, seed):
    _SEEN.clear()
    ctx = Ctx(PROP, tier, seed, 'proof')
    ctx.trusted_base = [
        'Coq 8.16.1 kernel (coqc, full .vo build; vm_compute in the Examples and the _refuted witnesses)',
        'no axioms: every theorem prints "Closed under the global context"',
        'extraction: ExtrOcamlBasic only; Z, positive kept inductive',
        'unverified glue: ocaml/driver.ml, tools/vlib, tools/props/c16.py, tools/implfns/numtextfn.py',
        'modelled not verified: qvm/utils.py format_number, Python repr/round/int()/float() (re-implemented in '
        'Base/Dec.v, Models/NumFmt.v, compared on every value explored), qvm/cpu.py _exec_ntos/_exec_sdbl, '
        'qbee/grammar.py numeric_literal + parse_num_literal and qbee/expr.py NumericLiteral.parse '
        '(Models/Literal.v, ASCII only), qvm/machine.py DataDevice._exec_read and push_vars for one numeric field '
        '(Models/NumText.v)',
        'not proved: that the shortest-digit search of Base/Dec.v always succeeds within 17 digits, and the '
        'correctness of dec_to_fl; the float theorems are conditional on the search result and the oracle '
        '(Models/NumSpec.v) is evaluated on every explored value instead',
        'the property oracle counts significant digits and the unit of the last digit after removing trailing '
        'zeros of the integer part (most favourable reading)',
    ]
    ctx.prove()
    exe = ctx.model('NumText')
    phase(ctx, 'coq-build')

    # ---- A: all INTEGER values
    valsA = [('all', 1, z) for z in range(-32768, 32768)]
    ctx.rule.append('A: all 65 536 INTEGER values (exhaustive): real format_number, _exec_ntos, _exec_print, then '
                    'READ (real DataDevice), INPUT (real _exec_input), VAL (real _exec_sdbl) of that text; '
                    'distinct = distinct (type, value)')
    run_values(ctx, 'integer_all', valsA, exe)
    phase(ctx, 'A-integer')
    ctx.extra['exhaustive_integer'] = True

    # ---- B: LONG, SINGLE, DOUBLE
    longs = int_family_long(ctx, 3000 if tier == 'quick' else 100000)
    valsL = [('long', 2, z) for z in longs]
    run_values(ctx, 'long', valsL, exe)
    phase(ctx, 'B-long')
    fam = float_families(ctx, tier)
    frng(ctx, 'order').shuffle(fam)      # spread the expensive exponents over the model processes
    # CPU budget of the extracted model on the float families (seconds, summed over
    # the parallel model processes): one full job costs 20 ms (SINGLE) to 300 ms (DOUBLE
    # at the ends of the exponent range)
    budget = 300 if tier == 'quick' else 4000
    midx = select_for_model(ctx, fam, budget)
    ctx.rule.append(f'B: LONG: +-(2^e + {{-1,0,1}}), +-(10^e + {{-1,0,1}}), limits, seeded random widths '
                    f'({len(longs)} values); SINGLE and DOUBLE ({len(fam)} values, closed under negation): every '
                    f'power of two and of ten with both neighbours, type limits and form thresholds, subnormal grid, '
                    f'both neighbours of (c + 1/2) 10^k for 7/15/16/17-digit c on an exponent grid, integral and '
                    f'decimal values of 1..17 digits, seeded random bit patterns.  Every value: real format_number '
                    f'+ both call sites + READ/INPUT/VAL of the text, judged against the property with exact '
                    f'rational arithmetic; {len(midx)} of them (constant stride per family, CPU budget {budget} s) '
                    f'additionally through the extracted model (text tie, reader ties, Coq oracle NumSpec)')
    run_values(ctx, 'floats', fam, exe, midx)
    # inf and nan are not in the property's scope; the model must still describe them
    nonfin = [('nonfinite', ty, x) for ty in (3, 4) for x in (INF, -INF, float('nan'))]
    run_values(ctx, 'nonfinite', nonfin, exe)
    phase(ctx, 'B-floats')

    # ---- V, R: readers on arbitrary texts
    run_val_texts(ctx, tier, exe)
    run_read_texts(ctx, tier, exe)
    phase(ctx, 'V-R-texts')

    # ---- P: compiled programs
    run_programs(ctx, tier, None)
    phase(ctx, 'P-programs')
    ctx.extra.pop('_t_last', None)
    return ctx.finish()


def replay(path):
    d = json.load(open(path))
    print(json.dumps(d, indent=1)[:6000])
    first = d.get('first') or {}
    case = first.get('case')
    if case:
        r = vlib.run_impl('numtextfn.roundtrip', [case + ['full']])
        print('implementation now:', json.dumps(r[0]))
    return 0
