"""C02 - optimisation and compile-time evaluation never change behaviour.
Two halves: the constant folder (coq/Props/C02_fold_part.v, tools/props/c02_fold.py)
and the peephole pass (coq/Props/C02_peep_part.v, tools/props/c02_peep.py)."""
import json
import vlib
from props import c02_fold, c02_peep

PROP = 'C02'


def main(tier, seed):
    ctx = vlib.Ctx(PROP, tier, seed, 'proof')
    ctx.trusted_base = [
        'Coq 8.16.1 kernel (coqc, full .vo build; vm_compute in refutation witnesses and Examples)',
        'no axioms: every theorem prints "Closed under the global context"',
        'extraction: ExtrOcamlBasic only; Z, positive kept inductive; floats are Base/Fl.v software floats',
        'machine model Models/Machine.v + Models/Cpu.v (tied to the real cpu by C07 T-isa/T-run)',
        'unverified glue: ocaml/driver.ml, tools/vlib, the harness modules of both halves',
    ]
    # folder half: theorems of Props/C02_fold_part.v
    ctx.prop = 'C02_fold_part'
    ctx.prove()
    ctx.prop = PROP
    ctx.checker_cmd = ctx.checker_cmd.replace('C02.v', 'C02_fold_part.v')
    if not ctx.broken:
        c02_fold.run(ctx, tier)
    # peephole half: proves Props/C02_peep_part.v itself and adds its obligations
    c02_peep.run(ctx, tier)
    return ctx.finish()


def replay(path):
    d = json.load(open(path))
    print(json.dumps(d, indent=1)[:6000])
    return 0
