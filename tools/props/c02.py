"""C02 - optimisation and compile-time evaluation never change behaviour.

TEMPORARY main for the constant-folder half (tools/props/c02_fold.py); it is
replaced when the folder half and the peephole half are merged.  It builds
coq/Props/C02_fold_part.v in place of coq/Props/C02.v."""
import json
import vlib
from props import c02_fold

PROP = 'C02'


def main(tier, seed):
    ctx = vlib.Ctx(PROP, tier, seed, 'proof')
    ctx.trusted_base = [
        'Coq 8.16.1 kernel (coqc, full .vo build; vm_compute in refutation witnesses and Examples)',
        'no axioms: every theorem prints "Closed under the global context"',
        'extraction: ExtrOcamlBasic only; Z, positive kept inductive; floats are Base/Fl.v software floats',
        'machine model Models/Machine.v + Models/Cpu.v (tied to the real cpu by C07 T-isa/T-run)',
    ]
    ctx.prop = 'C02_fold_part'
    ctx.prove()
    ctx.prop = PROP
    ctx.checker_cmd = ctx.checker_cmd.replace('C02.v', 'C02_fold_part.v')
    if not ctx.broken:
        c02_fold.run(ctx, tier)
    return ctx.finish()


def replay(path):
    d = json.load(open(path))
    print(json.dumps(d, indent=1)[:6000])
    return 0
