"""C02 - THROW-AWAY main of the peephole half (tools/props/c02_peep.py).  The
final tools/props/c02.py is assembled at merge from the constant-folder half
and this one; it only has to build the Ctx and call c02_peep.run(ctx, tier)."""
import json
from vlib import Ctx
from props import c02_peep

PROP = 'C02'


def main(tier, seed):
    ctx = Ctx(PROP, tier, seed, 'proof')
    ctx.trusted_base = [
        'Coq 8.16.1 kernel; theorems closed under the global context (no axioms)',
        'extraction ExtrOcamlBasic only; Z/positive inductive; floats are the Z-based Base/Fl.v',
        'unverified glue: ocaml/driver.ml, tools/vlib',
    ]
    c02_peep.run(ctx, tier)
    return ctx.finish()


def replay(path):
    d = json.load(open(path))
    print(json.dumps(d, indent=1)[:6000])
    return 0
