"""Deterministic input families of the C06 search (malformed stream).

Every generator returns a list of cases {'fam': family, 'cls': construct
class (for the input distribution), 'src': text}.  Nothing here is random:
sub-sampling / permuting is done by the check with ctx.rng."""
import itertools
import re

# ---------------------------------------------------------------------------
# context every statement form is placed in: a record type, a record
# variable, an array, a SUB and a FUNCTION, a label with DATA.

PRE = ('TYPE pt\n  px AS INTEGER\n  py AS LONG\nEND TYPE\n'
       'DIM rec AS pt\nDIM r2 AS pt\nDIM arr(3) AS INTEGER\n'
       'here: DATA 1, 2, "a"\n')
POST = ('\nEND\nnodata: PRINT 0\n'
        'SUB s0\nEND SUB\n'
        'SUB s1 (a%)\nEND SUB\n'
        'SUB s2 (a%())\nEND SUB\n'
        'FUNCTION f1% (a%)\nf1% = a%\nEND FUNCTION\n')

# statement forms: (name, lines before, template, lines after).  Slots:
# {n:..} numeric expression, {s:..} string expression, {v:..} variable,
# {l:..} label, {i:..} identifier, {t:..} type name
FORMS = [
    ('assign', '', '{v:x} = {n:1}', ''),
    ('assign-let', '', 'LET {v:x} = {n:1}', ''),
    ('assign-str', '', '{v:s$} = {s:"a"}', ''),
    ('assign-elem', '', 'arr({n:1}) = {n:2}', ''),
    ('assign-field', '', 'rec.px = {n:1}', ''),
    ('assign-record', '', '{v:rec} = {v:r2}', ''),
    ('beep', '', 'BEEP', ''),
    ('bload', '', 'BLOAD {s:"f"}, {n:0}', ''),
    ('bload1', '', 'BLOAD {s:"f"}', ''),
    ('bsave', '', 'BSAVE {s:"f"}, {n:0}, {n:10}', ''),
    ('call', '', 'CALL s1({n:1})', ''),
    ('call-bare', '', 's1 {n:1}', ''),
    ('call0', '', 'CALL s0', ''),
    ('call-array', '', 'CALL s2({v:arr}())', ''),
    ('call-func', '', '{v:x} = f1%({n:1})', ''),
    ('cls', '', 'CLS', ''),
    ('color3', '', 'COLOR {n:1}, {n:2}, {n:3}', ''),
    ('color1', '', 'COLOR {n:1}', ''),
    ('color-2', '', 'COLOR , {n:2}', ''),
    ('color1-3', '', 'COLOR {n:1}, , {n:3}', ''),
    ('color--3', '', 'COLOR , , {n:3}', ''),
    ('const', '', 'CONST {i:c1} = {n:5}', ''),
    ('data', '', 'DATA 1, 2, "a", b c', ''),
    ('defseg', '', 'DEF SEG = {n:0}', ''),
    ('defseg0', '', 'DEF SEG', ''),
    ('declare-sub', '', 'DECLARE SUB s1 ({v:a%})', ''),
    ('declare-func', '', 'DECLARE FUNCTION f1% ({v:a%})', ''),
    ('declare-any', '', 'DECLARE SUB s9 ({i:a} AS ANY)', ''),
    ('deftype', '', 'DEFINT {i:a}-{i:c}, {i:k}', ''),
    ('defstr', '', 'DEFSTR {i:q}', ''),
    ('dim', '', 'DIM {i:q}({n:5})', ''),
    ('dim-range', '', 'DIM {i:q}({n:1} TO {n:5}, {n:2}) AS {t:LONG}', ''),
    ('dim-shared', '', 'DIM SHARED {i:q} AS {t:INTEGER}', ''),
    ('dim-record', '', 'DIM {i:q} AS {t:pt}', ''),
    ('dim-many', '', 'DIM {i:q}, {i:q2$}, {i:q3}({n:2})', ''),
    ('static', 'SUB s5\n', 'STATIC {i:q} AS {t:INTEGER}', '\nEND SUB'),
    ('do-loop', '', 'DO\n{v:x} = 1\nLOOP', ''),
    ('do-while', '', 'DO WHILE {n:x}\nLOOP', ''),
    ('do-until', '', 'DO UNTIL {n:x}\nLOOP', ''),
    ('loop-while', '', 'DO\nLOOP WHILE {n:x}', ''),
    ('loop-until', '', 'DO\nLOOP UNTIL {n:x}', ''),
    ('exit-do', 'DO\n', 'EXIT DO', '\nLOOP'),
    ('while', '', 'WHILE {n:x}\nWEND', ''),
    ('for', '', 'FOR {v:i} = {n:1} TO {n:3}\nNEXT', ''),
    ('for-step', '', 'FOR {v:i} = {n:1} TO {n:3} STEP {n:2}\nNEXT {v:i}', ''),
    ('for-next2', '', 'FOR i = 1 TO 2\nFOR j = 1 TO 2\nNEXT {v:j}, {v:i}', ''),
    ('exit-for', 'FOR i = 1 TO 2\n', 'EXIT FOR', '\nNEXT'),
    ('if-line', '', 'IF {n:x} THEN {v:y} = {n:1} ELSE {v:y} = {n:2}', ''),
    ('if-line-goto', '', 'IF {n:x} THEN GOTO {l:here}', ''),
    ('if-block', '', 'IF {n:x} THEN\ny = 1\nELSEIF {n:z} THEN\ny = 2\nELSE\ny = 3\nEND IF', ''),
    ('select', '', 'SELECT CASE {n:x}\nCASE {n:1}\ny = 1\nCASE {n:2} TO {n:3}\ny = 2\n'
               'CASE IS > {n:4}\ny = 3\nCASE {n:7}, {n:8}\nCASE ELSE\ny = 4\nEND SELECT', ''),
    ('select-str', '', 'SELECT CASE {s:s$}\nCASE {s:"a"}\ny = 1\nEND SELECT', ''),
    ('randomize', '', 'RANDOMIZE {n:1}', ''),
    ('read', '', 'READ {v:x}, {v:s$}', ''),
    ('restore', '', 'RESTORE', ''),
    ('restore-label', '', 'RESTORE {l:here}', ''),
    ('resume', '', 'RESUME', ''),
    ('resume-next', '', 'RESUME NEXT', ''),
    ('screen', '', 'SCREEN {n:0}, {n:1}, {n:0}, {n:0}', ''),
    ('screen1', '', 'SCREEN {n:0}', ''),
    ('sub', '', 'SUB {i:s7} ({v:p%}, {v:q$})\nEXIT SUB\nEND SUB', ''),
    ('sub-static', '', 'SUB {i:s7} STATIC\nEND SUB', ''),
    ('function', '', 'FUNCTION {i:f7%} ({v:p%})\n{i:f7%} = {n:1}\nEXIT FUNCTION\nEND FUNCTION', ''),
    ('function-as', '', 'FUNCTION {i:f8} ({v:p} AS {t:LONG}, {v:q}() AS {t:INTEGER})\nEND FUNCTION', ''),
    ('gosub', '', 'GOSUB {l:here}', ''),
    ('return', '', 'RETURN', ''),
    ('return-label', '', 'RETURN {l:here}', ''),
    ('goto', '', 'GOTO {l:here}', ''),
    ('goto-lineno', '10 x = 1\n', 'GOTO {l:10}', ''),
    ('input', '', 'INPUT {v:x}', ''),
    ('input-prompt', '', 'INPUT {s:"p"}; {v:x}', ''),
    ('input-full', '', 'INPUT ; {s:"p"}, {v:x}, {v:s$}', ''),
    ('kill', '', 'KILL {s:"f"}', ''),
    ('locate', '', 'LOCATE {n:1}, {n:2}, {n:1}, {n:0}, {n:7}', ''),
    ('locate2', '', 'LOCATE {n:1}, {n:2}', ''),
    ('on-error', '', 'ON ERROR GOTO {l:here}', ''),
    ('on-error-0', '', 'ON ERROR GOTO 0', ''),
    ('on-error-next', '', 'ON ERROR RESUME NEXT', ''),
    ('play', '', 'PLAY {s:"c"}', ''),
    ('poke', '', 'POKE {n:0}, {n:1}', ''),
    ('print', '', 'PRINT {n:1}; {s:"a"}, {n:2}', ''),
    ('print-using', '', 'PRINT USING {s:"##"}; {n:1}; {n:2}', ''),
    ('print0', '', 'PRINT', ''),
    ('rem', '', "REM x = 1 ' y", ''),
    ('comment', '', "x = 1 ' comment", ''),
    ('sound', '', 'SOUND {n:440}, {n:1}', ''),
    ('view-print', '', 'VIEW PRINT {n:1} TO {n:5}', ''),
    ('view-print0', '', 'VIEW PRINT', ''),
    ('width', '', 'WIDTH {n:80}, {n:25}', ''),
    ('width1', '', 'WIDTH {n:80}', ''),
    ('width-2', '', 'WIDTH , {n:25}', ''),
    ('end', '', 'END', ''),
    ('system', '', 'SYSTEM', ''),
    ('type', '', 'TYPE {i:t7}\n{i:fa} AS {t:INTEGER}\n{i:fb} AS {t:pt}\nEND TYPE', ''),
    ('label', '', '{i:lab}: {v:x} = 1', ''),
    ('lineno', '', '100 {v:x} = 1', ''),
    ('multi', '', '{v:x} = 1: {v:y} = 2 :: PRINT {n:x}', ''),
]

BUILTINS = [
    ('abs', 'ABS({n:1})'), ('asc', 'ASC({s:"a"})'), ('chr$', 'CHR$({n:65})'),
    ('cint', 'CINT({n:1.5})'), ('clng', 'CLNG({n:1.5})'), ('err', 'ERR'),
    ('inkey$', 'INKEY$'), ('instr2', 'INSTR({s:"ab"}, {s:"b"})'),
    ('instr3', 'INSTR({n:1}, {s:"ab"}, {s:"b"})'), ('int', 'INT({n:1.5})'),
    ('lbound', 'LBOUND({v:arr})'), ('lbound2', 'LBOUND({v:arr}, {n:1})'),
    ('lcase$', 'LCASE$({s:"A"})'), ('left$', 'LEFT$({s:"ab"}, {n:1})'),
    ('len', 'LEN({s:"ab"})'), ('ltrim$', 'LTRIM$({s:" a"})'),
    ('mid$2', 'MID$({s:"abc"}, {n:2})'), ('mid$3', 'MID$({s:"abc"}, {n:2}, {n:1})'),
    ('peek', 'PEEK({n:0})'), ('right$', 'RIGHT$({s:"ab"}, {n:1})'), ('rnd', 'RND'),
    ('rnd1', 'RND({n:1})'), ('rtrim$', 'RTRIM$({s:"a "})'), ('space$', 'SPACE$({n:3})'),
    ('str$', 'STR$({n:1})'), ('string$', 'STRING$({n:3}, {s:"a"})'),
    ('string$n', 'STRING$({n:3}, {n:65})'), ('timer', 'TIMER'),
    ('ubound', 'UBOUND({v:arr})'), ('ucase$', 'UCASE$({s:"a"})'), ('val', 'VAL({s:"1"})'),
]
STR_BUILTINS = {'chr$', 'inkey$', 'lcase$', 'left$', 'ltrim$', 'mid$2', 'mid$3', 'right$',
                'rtrim$', 'space$', 'str$', 'string$', 'string$n', 'ucase$'}

for _name, _t in BUILTINS:
    _lhs = 's$' if _name in STR_BUILTINS else 'x'
    FORMS.append(('fn-' + _name, '', _lhs + ' = ' + _t, ''))
    FORMS.append(('fn-print-' + _name, '', 'PRINT ' + _t, ''))

SLOT = re.compile(r'\{([nsvlit]):([^}]*)\}')

# replacements of an operand (the "wrong type" alphabet)
REPL = [
    ('string', '"str"'), ('strvar', 's$'), ('record', 'rec'), ('array', 'arr'),
    ('arraypass', 'arr()'), ('field', 'rec.px'), ('elem', 'arr(1)'),
    ('kw-then', 'THEN'), ('kw-print', 'PRINT'), ('kw-to', 'TO'), ('kw-end', 'END'),
    ('single', '1.5'), ('double', '1.5#'), ('long', '100000'), ('big', '99999999999'),
    ('neg', '-1'), ('func', 'f1%'), ('funccall', 'f1%(1)'), ('sub', 's1'),
    ('minus', '-'), ('lpar', '('), ('rpar', ')'), ('two', '5 5'), ('comma', ','),
    ('paren', '(1)'), ('undef', 'zz9'), ('lineno', '10'), ('label', 'here'),
    ('badfield', 'rec.nope'), ('recelem', 'rec(1)'), ('elemfield', 'arr(1).px'),
    ('expr-str', '"a" + "b"'), ('expr-mixed', '1 + "a"'), ('not', 'NOT'),
    ('builtin', 'TIMER'), ('const-like', '&HFFFF'), ('dollar', '1$'),
]


def fill(template, choose):
    """replace every slot i by choose(i, kind, default)"""
    idx = [0]

    def sub(m):
        r = choose(idx[0], m.group(1), m.group(2))
        idx[0] += 1
        return r
    return SLOT.sub(sub, template)


def nslots(template):
    return len(SLOT.findall(template))


_WORD = re.compile(r'[A-Za-z][A-Za-z0-9]*')


def context(text):
    """the part of PRE / POST that `text` refers to (parsing is per line and
    slow, so unreferenced declarations are left out)"""
    words = set(w.lower() for w in _WORD.findall(text))
    pre, post = '', ''
    if words & {'pt', 'rec', 'r2'}:
        pre += 'TYPE pt\n  px AS INTEGER\n  py AS LONG\nEND TYPE\n'
    if 'rec' in words:
        pre += 'DIM rec AS pt\n'
    if 'r2' in words:
        pre += 'DIM r2 AS pt\n'
    if 'arr' in words:
        pre += 'DIM arr(3) AS INTEGER\n'
    if 'here' in words:
        pre += 'here: DATA 1, 2, "a"\n'
    if words & {'s0', 's1', 's2', 'f1'}:
        post += '\nEND\n'
    if 's0' in words:
        post += 'SUB s0\nEND SUB\n'
    if 's1' in words:
        post += 'SUB s1 (a%)\nEND SUB\n'
    if 's2' in words:
        post += 'SUB s2 (a%())\nEND SUB\n'
    if 'f1' in words:
        post += 'FUNCTION f1% (a%)\nf1% = a%\nEND FUNCTION\n'
    return pre, (post if post else '\n')


def wrap(pre, body, post):
    a, b = context(pre + body + post)
    return a + pre + body + post + b


def statement_forms():
    """(1) every statement form, valid, and with each operand missing /
    duplicated (blank- and comma-separated) / replaced by each element of REPL"""
    out = []
    for name, pre, t, post in FORMS:
        valid = fill(t, lambda i, k, d: d)
        out.append({'fam': 'form', 'cls': f'{name}/valid', 'src': wrap(pre, valid, post)})
        # the bare statement without the context too
        out.append({'fam': 'form', 'cls': f'{name}/bare', 'src': pre + valid + post})
        n = nslots(t)
        for j in range(n):
            def mut(kind, text, j=j):
                src = fill(t, lambda i, k, d: (text(d) if i == j else d))
                out.append({'fam': 'form', 'cls': f'{name}/{kind}', 'src': wrap(pre, src, post)})
            mut('missing', lambda d: '')
            mut('dup-blank', lambda d: d + ' ' + d)
            mut('dup-comma', lambda d: d + ', ' + d)
            for rk, rv in REPL:
                mut('repl-' + rk, lambda d, rv=rv: rv)
    return out


# ---------------------------------------------------------------------------
# token-level mutation

TOKEN = re.compile(r'''
    "[^"\n]*"?            |   # string (possibly unterminated)
    '[^\n]*               |   # comment
    \d+\.?\d*(?:[eEdD][+-]?\d+)?[%&!\#]?  |
    \.\d+(?:[eEdD][+-]?\d+)?[%&!\#]?    |
    &[hHoO][0-9a-fA-F]+[%&]?  |
    [A-Za-z][A-Za-z0-9]*[%&!\#$]?  |
    <=|>=|<>|><|=<|=>      |
    \n                     |
    [^\s]
''', re.X)


def tokenize(src):
    return TOKEN.findall(src)


def join(toks):
    out = []
    for t in toks:
        if t == '\n':
            while out and out[-1] == ' ':
                out.pop()
            out.append('\n')
        else:
            out.append(t)
            out.append(' ')
    return ''.join(out).rstrip(' ')


def mutation_space(toks):
    """all single token mutations of one token list, as descriptors"""
    n = len(toks)
    distinct = []
    for t in toks:
        if t not in distinct and t != '\n':
            distinct.append(t)
    for i in range(n):
        yield ('del', i, 0)
        yield ('dup', i, 0)
        if i + 1 < n:
            yield ('swap', i, 0)
        for j, t in enumerate(distinct):
            if t != toks[i]:
                yield ('rep', i, j)


def apply_mutation(toks, m):
    kind, i, j = m
    t = list(toks)
    if kind == 'del':
        del t[i]
    elif kind == 'dup':
        t.insert(i, t[i])
    elif kind == 'swap':
        t[i], t[i + 1] = t[i + 1], t[i]
    elif kind == 'rep':
        distinct = []
        for x in toks:
            if x not in distinct and x != '\n':
                distinct.append(x)
        t[i] = distinct[j]
    return join(t)


def form_token_mutations():
    """token-level del/dup/swap of every valid statement form (keywords and
    punctuation included) - exhaustive"""
    out = []
    for name, pre, t, post in FORMS:
        valid = fill(t, lambda i, k, d: d)
        toks = tokenize(pre + valid + post)
        for m in mutation_space(toks):
            if m[0] == 'rep':
                continue
            out.append({'fam': 'form-token', 'cls': f'{name}/{m[0]}',
                        'src': wrap('', apply_mutation(toks, m), '')})
    return out


# ---------------------------------------------------------------------------
# (2) block keywords

BLOCK_KW = [
    ('if', 'IF x THEN'), ('else', 'ELSE'), ('elseif', 'ELSEIF x THEN'), ('endif', 'END IF'),
    ('for', 'FOR i = 1 TO 2'), ('next', 'NEXT'), ('do', 'DO'), ('loop', 'LOOP'),
    ('while', 'WHILE x'), ('wend', 'WEND'), ('select', 'SELECT CASE x'), ('case', 'CASE 1'),
    ('caseelse', 'CASE ELSE'), ('endselect', 'END SELECT'), ('sub', 'SUB sq'),
    ('endsub', 'END SUB'), ('function', 'FUNCTION fq'), ('endfunction', 'END FUNCTION'),
    ('type', 'TYPE tq'), ('endtype', 'END TYPE'), ('exitdo', 'EXIT DO'), ('exitfor', 'EXIT FOR'),
    ('exitsub', 'EXIT SUB'), ('exitfunction', 'EXIT FUNCTION'), ('stmt', 'y = 1'),
    ('field', 'fq AS INTEGER'), ('nextv', 'NEXT i'), ('loopw', 'LOOP WHILE x'),
    ('data', 'DATA 1'), ('label', 'lq:'),
]


def block_keywords(maxlen):
    out = []
    for n in range(1, maxlen + 1):
        for combo in itertools.product(BLOCK_KW, repeat=n):
            names = '+'.join(c[0] for c in combo)
            lines = [c[1] for c in combo]
            out.append({'fam': f'block{n}', 'cls': names, 'src': '\n'.join(lines) + '\n'})
            if n == 2:
                out.append({'fam': 'block2-colon', 'cls': names, 'src': ' : '.join(lines)})
    return out


SKELETONS = [
    ('if', ['IF x THEN', 'y = 1', 'ELSEIF z THEN', 'y = 2', 'ELSE', 'y = 3', 'END IF']),
    ('select', ['SELECT CASE x', 'CASE 1', 'y = 1', 'CASE 2 TO 3', 'CASE ELSE', 'y = 2', 'END SELECT']),
    ('for', ['FOR i = 1 TO 2', 'y = 1', 'EXIT FOR', 'NEXT i']),
    ('do', ['DO', 'y = 1', 'EXIT DO', 'LOOP']),
    ('while', ['WHILE x', 'y = 1', 'WEND']),
    ('sub', ['SUB sq (a%)', 'y = 1', 'EXIT SUB', 'END SUB']),
    ('function', ['FUNCTION fq% (a%)', 'fq% = 1', 'EXIT FUNCTION', 'END FUNCTION']),
    ('type', ['TYPE tq', 'fa AS INTEGER', 'fb AS STRING', 'END TYPE']),
    ('nested', ['FOR i = 1 TO 2', 'IF x THEN', 'DO', 'LOOP', 'END IF', 'NEXT']),
    ('if-in-sub', ['SUB sq', 'IF x THEN', 'ELSE', 'END IF', 'END SUB']),
]


def block_skeletons():
    """every valid block with one line deleted / duplicated / swapped with
    its successor / one block keyword line inserted at any position"""
    out = []
    for name, lines in SKELETONS:
        def emit(kind, ls):
            out.append({'fam': 'block-skel', 'cls': f'{name}/{kind}', 'src': '\n'.join(ls) + '\n'})
        emit('valid', lines)
        for i in range(len(lines)):
            emit('del', lines[:i] + lines[i + 1:])
            emit('dup', lines[:i] + [lines[i]] + lines[i:])
            if i + 1 < len(lines):
                emit('swap', lines[:i] + [lines[i + 1], lines[i]] + lines[i + 2:])
        for i in range(len(lines) + 1):
            for kn, kw in BLOCK_KW:
                emit('ins-' + kn, lines[:i] + [kw] + lines[i:])
    return out


# ---------------------------------------------------------------------------
# (5) expressions

OPERANDS = [
    ('int', '1'), ('long', '100000'), ('single', '1.5'), ('double', '1.5#'),
    ('string', '"a"'), ('ivar', 'a%'), ('dvar', 'd#'),
    ('strvar', 'e$'), ('record', 'rec'), ('array', 'arr'), ('field', 'rec.px'),
    ('elem', 'arr(1)'), ('lvar', 'b&'), ('svar', 'c!'), ('zero', '0'), ('neg', '-1'), ('funccall', 'f1%(1)'),
    ('builtin-str', 'CHR$(65)'), ('intmax', '32767'), ('longmax', '2147483647'),
    ('sglmax', '3E+38'), ('dblmax', '1D+308'),
]
BINOPS = ['+', '-', '*', '/', '\\', 'MOD', '^', '=', '<>', '><', '<', '>', '<=', '>=', '=<', '=>',
          'AND', 'OR', 'XOR', 'EQV', 'IMP']
UNOPS = ['-', '+', 'NOT', '- -', 'NOT NOT', '- NOT', 'NOT -', '+ -']
EPRE = 'TYPE pt\n  px AS INTEGER\nEND TYPE\nDIM rec AS pt\nDIM arr(3) AS INTEGER\n'
EPOST = '\nSUB s1 (a%)\nEND SUB\nFUNCTION f1% (a%)\nf1% = a%\nEND FUNCTION\n'
EXPR_CTX = [
    ('assign', 'y = {}'), ('assign-str', 'y$ = {}'), ('assign-int', 'y% = {}'),
    ('print', 'PRINT {}'), ('if', 'IF {} THEN PRINT 1'), ('const', 'CONST kc = {}'),
    ('while', 'WHILE {}\nWEND'), ('index', 'arr({}) = 1'), ('arg', 'CALL s1({})'),
    ('select', 'SELECT CASE {}\nCASE 1\nEND SELECT'), ('loopw', 'DO\nLOOP WHILE {}'),
    ('dountil', 'DO UNTIL {}\nLOOP'), ('elseif', 'IF 0 THEN\nELSEIF {} THEN\nEND IF'),
    ('for', 'FOR i = {} TO 2\nNEXT'), ('dim', 'DIM qq({})'),
]


COND_CTX = [('if', 'IF {} THEN PRINT 1'), ('while', 'WHILE {}\nWEND'), ('index', 'arr({}) = 1'),
            ('arg', 'CALL s1({})'), ('select', 'SELECT CASE {}\nCASE 1\nEND SELECT'),
            ('dim', 'DIM qq({})')]


def expressions():
    out = []

    def add(cls, e, ctxs=EXPR_CTX):
        for cn, ct in ctxs:
            out.append({'fam': 'expr', 'cls': f'{cls}/{cn}', 'src': wrap('', ct.format(e), '')})
    main_ctx = EXPR_CTX[:6]
    # every operand alone in every context (string / record / array as a condition ...)
    for an, a in OPERANDS:
        add(f'operand/{an}', a)
    # every binary operator x every pair of operand kinds (the 14 type kinds
    # pairwise; the value-like extras against int / double / string / themselves)
    for op in BINOPS:
        for ai, (an, a) in enumerate(OPERANDS):
            for bi, (bn, b) in enumerate(OPERANDS):
                if (ai >= 12 or bi >= 12) and not (an == bn or an in ('int', 'double', 'string')
                                                   or bn in ('int', 'double', 'string')):
                    continue
                core = an in ('int', 'string') and bn in ('int', 'string')
                add(f'bin/{op}/{an}/{bn}', f'{a} {op} {b}', EXPR_CTX if core else main_ctx[:1])
        # a condition of each kind built with the operator
        for an, a in OPERANDS[:12]:
            add(f'bin-cond/{op}/{an}', f'{a} {op} {a}', COND_CTX)
    # every unary operator (and pairs) x operand kinds
    for u in UNOPS:
        for an, a in OPERANDS:
            add(f'un/{u}/{an}', f'{u} {a}', main_ctx[:1] + main_ctx[3:5])
    # unary operator after every binary operator
    for op in BINOPS:
        for u in UNOPS:
            for an, a in (('int', '1'), ('ivar', 'a%'), ('double', '2.5#'), ('paren', '(3)')):
                add(f'bin-un/{op}/{u}/{an}', f'2 {op} {u} {a}', main_ctx[:1] + main_ctx[2:3])
                add(f'bin-un-chain/{op}/{u}/{an}', f'2 {op} {u} {a} {op} 3', main_ctx[:1])
    # nested parentheses
    for d in list(range(1, 41)):
        add(f'paren/{d}', '(' * d + '1' + ')' * d, main_ctx[:2])
        add(f'paren-sum/{d}', '(1 + ' * d + '1' + ')' * d, main_ctx[:1])
        add(f'paren-unbalanced/{d}', '(' * d + '1' + ')' * (d - 1), main_ctx[:1])
        add(f'index-nest/{d}', 'arr(' * d + '1' + ')' * d, main_ctx[:1])
        add(f'fn-nest/{d}', 'ABS(' * d + '1' + ')' * d, main_ctx[:1])
        if d <= 12 or d in (16, 20, 30, 40):
            # (parse time of a sign chain and the value of a power tower grow
            # exponentially: the deep ones run into the time limit)
            add(f'neg-nest/{d}', '-' * d + '1', main_ctx[:1])
            add(f'not-nest/{d}', 'NOT ' * d + '1', main_ctx[:1])
            add(f'exp-chain/{d}', ' ^ '.join(['2'] * (d + 1)), main_ctx[:1])
            add(f'exp-chain-var/{d}', ' ^ '.join(['a%'] * (d + 1)), main_ctx[:1])
    # long lines
    for n in (50, 200, 1000, 4000):
        add(f'long-sum/{n}', ' + '.join(['1'] * n), main_ctx[:1])
        add(f'long-strcat/{n}', ' + '.join(['"a"'] * n), [('assign-str', 'y$ = {}')])
        out.append({'fam': 'expr', 'cls': f'long-print/{n}', 'src': 'PRINT ' + '; '.join(['1'] * n)})
        out.append({'fam': 'expr', 'cls': f'long-colon/{n}', 'src': ' : '.join(['x = 1'] * n)})
        out.append({'fam': 'expr', 'cls': f'long-string/{n}', 'src': 'PRINT "' + 'a' * (n * 10) + '"'})
        out.append({'fam': 'expr', 'cls': f'long-ident/{n}', 'src': 'v' + 'a' * n + ' = 1'})
        out.append({'fam': 'expr', 'cls': f'long-data/{n}', 'src': 'DATA ' + ','.join(['1'] * n)})
        out.append({'fam': 'expr', 'cls': f'long-blank/{n}', 'src': 'x = 1' + ' ' * (n * 10) + '+ 1'})
        out.append({'fam': 'expr', 'cls': f'many-lines/{n}', 'src': 'x = x + 1\n' * n})
        out.append({'fam': 'expr', 'cls': f'many-vars/{n}',
                    'src': '\n'.join(f'v{i} = {i}' for i in range(n))})
        out.append({'fam': 'expr', 'cls': f'many-strings/{n}',
                    'src': '\n'.join(f'PRINT "s{i}"' for i in range(n))})
        out.append({'fam': 'expr', 'cls': f'many-labels/{n}',
                    'src': '\n'.join(f'l{i}: GOTO l{(i + 1) % n}' for i in range(n))})
        out.append({'fam': 'expr', 'cls': f'deep-if/{n}',
                    'src': 'IF x THEN\n' * min(n, 200) + 'END IF\n' * min(n, 200)})
        out.append({'fam': 'expr', 'cls': f'big-array/{n}', 'src': f'DIM a({n * 10}, {n}) AS DOUBLE\na(1, 1) = 1'})
        out.append({'fam': 'expr', 'cls': f'many-dims/{n}',
                    'src': 'DIM a(' + ', '.join(['1'] * min(n, 300)) + ')'})
        out.append({'fam': 'expr', 'cls': f'many-args/{n}',
                    'src': 'CALL sz(' + ', '.join(['1'] * min(n, 300)) + ')\nSUB sz(' +
                           ', '.join(f'p{i}%' for i in range(min(n, 300))) + ')\nEND SUB'})
    # lengths around the 16-bit fields of the module format (D30)
    for n in (33000, 66000):
        out.append({'fam': 'expr', 'cls': f'field16/string/{n}', 'src': 'PRINT "' + 'a' * n + '"'})
        out.append({'fam': 'expr', 'cls': f'field16/data/{n}', 'src': 'DATA ' + 'a' * n})
        out.append({'fam': 'expr', 'cls': f'field16/data-quoted/{n}', 'src': 'DATA "' + 'a' * n + '"'})
        out.append({'fam': 'expr', 'cls': f'field16/data-items/{n}', 'src': 'DATA ' + ','.join(['1'] * (n // 2))})
        out.append({'fam': 'expr', 'cls': f'field16/comment/{n}', 'src': "x = 1 ' " + 'c' * n})
    # degenerate texts
    misc = ['', ' ', '\n', '\n\n\n', ':', '::', "'", 'REM', 'x:', '10', '10 20', '10:', 'x = 1 :',
            ': x = 1', 'x = 1 ::: y = 2', '\t x = 1', 'x = 1\n\n\ny = 2\n', 'x =', '= 1', '(', ')', '"',
            '"abc', 'PRINT "abc', 'DATA "abc', 'x = 1 \' "', '?', 'PRINT ?', '? 1', '#', '1x = 2',
            'x%% = 1', 'x$% = 1', 'a.b.c = 1', 'a..b = 1', '.a = 1', 'a. = 1', 'x(1)(2) = 3',
            'x() = 1', 'x(,) = 1', 'x(1,) = 1', 'x = y()', 'x = y(,)', 'x = ()', 'x = (,)', 'x = 1,',
            'x, y = 1', 'x = 1 2', 'x = = 1', 'x == 1', 'x = 1 =', 'x = <> 1', 'x = 1 <', 'LET', 'LET x',
            'LET = 1', 'PRINT ;', 'PRINT ,', 'PRINT ;;', 'PRINT 1 2', 'PRINT USING', 'PRINT USING "#"',
            'PRINT USING "#";', 'PRINT USING ; 1', 'INPUT', 'INPUT ;', 'INPUT "a"', 'INPUT "a";',
            'INPUT x y', 'INPUT 1', 'INPUT "a" x', 'DIM', 'DIM x(', 'DIM x()', 'DIM x AS', 'DIM AS INTEGER',
            'DIM x(1 TO)', 'DIM x(TO 1)', 'DIM SHARED', 'CONST', 'CONST x', 'CONST x =', 'CONST = 1',
            'CONST x = y', 'CONST x = x', 'CONST x = 1\nCONST x = 2', 'CONST x = 1\nx = 2',
            'x = 1\nCONST x = 2', 'CONST x% = 1.5', 'CONST x$ = 1', 'CONST x% = "a"', 'CONST x = 1\nPRINT x(1)',
            'CONST x = 1\nPRINT x.y', 'GOTO', 'GOSUB', 'RETURN 1 2', 'ON', 'ON ERROR', 'ON ERROR GOTO',
            'ON ERROR RESUME', 'ON x GOTO 1', 'DEF', 'DEF SEG =', 'DEF FNa(x) = 1', 'DEFINT', 'DEFINT A-',
            'DEFINT 1', 'DEFINT Z-A', 'DEFINT A-Z, B', 'DEFINT AA', 'TYPE', 'TYPE t\nEND TYPE',
            'TYPE t\nx AS t\nEND TYPE', 'TYPE t\nx AS INTEGER\nx AS LONG\nEND TYPE',
            'TYPE t\nx AS INTEGER\nEND TYPE\nTYPE t\ny AS LONG\nEND TYPE',
            'TYPE t\nx(3) AS INTEGER\nEND TYPE', 'TYPE t\nx AS STRING * 5\nEND TYPE',
            'TYPE t\nx AS INTEGER\nEND TYPE\nDIM t AS t', 'TYPE integer\nx AS INTEGER\nEND TYPE',
            'DIM a AS t', 'DIM a(3) AS t', 'DIM a AS INTEGER\nDIM a AS LONG', 'DIM a\nDIM a(3)',
            'a(1) = 1\nDIM a(3)', 'a = 1\nDIM a', 'DIM a(3)\na = 1', 'DIM a(3)\na(1, 2) = 1',
            'DIM a(3, 3)\na(1) = 1', 'DIM a()', 'DIM a(-1)', 'DIM a(5 TO 1)', 'DIM a(x)', 'DIM a(x)\na(1) = 2',
            'DIM a(1.5)', 'DIM a("a")', 'DIM a(3) AS STRING\na(1) = 1', 'DIM s AS STRING\ns = 1',
            'SUB', 'SUB s(', 'SUB s()', 'SUB s(a, a)\nEND SUB', 'SUB s\nSUB t\nEND SUB\nEND SUB',
            'SUB s\nEND SUB\nSUB s\nEND SUB', 'SUB s\nEND FUNCTION', 'FUNCTION f\nEND SUB',
            'SUB s\ns\nEND SUB', 'FUNCTION f\nf = f\nEND FUNCTION', 'FUNCTION f$\nf$ = 1\nEND FUNCTION',
            'FUNCTION f%\nf% = "a"\nEND FUNCTION', 'FUNCTION f\nf$ = "a"\nEND FUNCTION',
            'FUNCTION f(a)\nEND FUNCTION\nx = f', 'FUNCTION f(a)\nEND FUNCTION\nx = f(1, 2)',
            'FUNCTION f(a)\nEND FUNCTION\nf = 1', 'FUNCTION f(a)\nEND FUNCTION\nf(1) = 1',
            'FUNCTION f(a)\nEND FUNCTION\nCALL f(1)', 'SUB s(a)\nEND SUB\nx = s(1)',
            'SUB s(a)\nEND SUB\ns = 1', 'SUB s(a)\nEND SUB\nDIM s', 'SUB s(a AS t)\nEND SUB',
            'SUB s(a() AS INTEGER)\na(1) = 1\nEND SUB\nDIM b(3) AS INTEGER\ns b()',
            'SUB s(a() AS INTEGER)\nEND SUB\nDIM b(3) AS LONG\ns b()', 'SUB s(a())\nEND SUB\ns 1',
            'SUB s(a)\nEND SUB\nDIM b(3)\ns b', 'SUB s(a)\nEND SUB\nDIM b(3)\ns b()',
            'SUB s(a$)\nEND SUB\ns 1', 'SUB s(a%)\nEND SUB\ns "a"', 'SUB s(a%)\nEND SUB\ns b&',
            'SUB s(a%)\nEND SUB\ns (b&)', 'SUB s(a%)\nEND SUB\nCALL s', 'SUB s(a%)\nEND SUB\nCALL s()',
            'SUB s\nEND SUB\nCALL s(1)', 'CALL nowhere', 'nowhere 1', 'nowhere', 'x = nowhere(1)',
            'DECLARE', 'DECLARE SUB', 'DECLARE SUB s (a%)\ns 1', 'DECLARE FUNCTION f% (a%)\nx = f%(1)',
            'DECLARE SUB s\nSUB s(a)\nEND SUB', 'SUB s\nSHARED x\nEND SUB', 'SUB s\nDIM SHARED x\nEND SUB',
            'STATIC x', 'SUB s\nSTATIC x\nSTATIC x\nEND SUB', 'SUB s\nx: y = 1\nGOTO x\nEND SUB\nx: y = 2',
            'SUB s\nDATA 1\nEND SUB', 'SUB s\nTYPE t\nx AS INTEGER\nEND TYPE\nEND SUB',
            'SUB s\nCONST k = 1\nPRINT k\nEND SUB\nPRINT k', 'SUB s\nEND\nEND SUB', 'SUB s\nRETURN\nEND SUB',
            'SUB s\nON ERROR GOTO 0\nEND SUB', 'SUB s\nRESUME\nEND SUB', 'EXIT', 'EXIT IF', 'EXIT WHILE',
            'EXIT SELECT', 'END x', 'END WHILE', 'END FOR', 'END DO', 'NEXT x, y', 'NEXT 1', 'NEXT x y',
            'FOR i = 1 TO 2\nNEXT j', 'FOR i = 1 TO 2\nFOR j = 1 TO 2\nNEXT i, j',
            'FOR i = 1 TO 2\nFOR j = 1 TO 2\nNEXT j, i, k', 'FOR i = 1 TO 2: NEXT', 'FOR i = 1 TO 2: NEXT: NEXT',
            'FOR i$ = 1 TO 2\nNEXT', 'FOR i = "a" TO 2\nNEXT', 'FOR i = 1 TO 2 STEP "a"\nNEXT',
            'FOR i = 1 TO 2 STEP 0\nNEXT', 'FOR a(1) = 1 TO 2\nNEXT', 'FOR r.x = 1 TO 2\nNEXT',
            'CONST k = 1\nFOR k = 1 TO 2\nNEXT', 'DIM arr(3)\nFOR arr = 1 TO 2\nNEXT',
            'IF THEN', 'IF x', 'IF x THEN ELSE', 'IF x THEN 10', 'IF x THEN 10 ELSE 20', 'IF x GOTO 10',
            'IF x THEN : ELSE :', 'IF x THEN IF y THEN z = 1 ELSE z = 2 ELSE z = 3',
            'IF x THEN y = 1: z = 2 ELSE w = 3: v = 4', "IF x THEN y = 1 ' c", 'IF x THEN REM', 'IF x THEN END IF',
            'IF x THEN FOR i = 1 TO 2', 'IF x THEN NEXT', 'IF x THEN\nELSEIF\nEND IF', 'IF x THEN\nELSE y = 1\nEND IF',
            'IF x THEN\nELSEIF y THEN z = 1\nEND IF', 'IF x THEN\nEND IF y', 'IF x THEN y = 1 END IF',
            'IF x THEN SUB s', 'IF x THEN DATA 1', 'IF x THEN DIM a(3)', 'IF x THEN CONST k = 1',
            'IF x THEN lbl: y = 1', 'IF x THEN 10 y = 1', 'SELECT', 'SELECT x', 'SELECT CASE', 'CASE',
            'SELECT CASE x\nEND SELECT', 'SELECT CASE x\nCASE\nEND SELECT', 'SELECT CASE x\nCASE ELSE\nEND SELECT',
            'SELECT CASE x\nCASE 1 TO\nEND SELECT', 'SELECT CASE x\nCASE IS\nEND SELECT',
            'SELECT CASE x\nCASE IS 1\nEND SELECT', 'SELECT CASE x\nCASE IS > \nEND SELECT',
            'SELECT CASE x\nCASE ELSE\nCASE 1\nEND SELECT', 'SELECT CASE x\nCASE ELSE\nCASE ELSE\nEND SELECT',
            'SELECT CASE x\nCASE "a"\nEND SELECT', 'SELECT CASE x$\nCASE 1\nEND SELECT',
            'SELECT CASE x$\nCASE "a" TO "b"\nCASE IS > "c"\nEND SELECT', 'SELECT CASE rec\nCASE 1\nEND SELECT',
            'SELECT CASE arr\nCASE 1\nEND SELECT', 'SELECT CASE x\nCASE rec\nEND SELECT',
            'SELECT CASE x\nCASE arr\nEND SELECT', 'SELECT CASE x\nCASE 1 TO rec\nEND SELECT',
            'SELECT CASE x\nCASE IS > arr\nEND SELECT', 'SELECT CASE x: CASE 1: y = 1: END SELECT',
            'WHILE', 'WHILE x: WEND', 'WEND x', 'DO WHILE', 'DO x', 'DO WHILE x\nLOOP UNTIL y', 'LOOP WHILE',
            'DO: LOOP', 'DO\nLOOP x', 'DO UNTIL rec\nLOOP', 'DO\nLOOP WHILE rec', 'WHILE rec\nWEND',
            'IF rec THEN x = 1', 'IF rec THEN\nEND IF', 'IF arr THEN x = 1', 'IF x$ THEN\nEND IF',
            'IF 0 THEN\nELSEIF rec THEN\nEND IF', 'IF 0 THEN\nELSEIF x$ THEN\nEND IF',
            'x = rec', 'rec = 1', 'rec = "a"', 'rec = arr', 'arr = rec', 'arr = 1', 'arr = arr', 'x = arr',
            'x$ = rec', 'rec.px = rec', 'rec.px = "a"', 'rec.px.z = 1', 'rec.nope = 1', 'x = rec.nope',
            'rec(1) = 1', 'rec(1).px = 1', 'arr.px = 1', 'arr(1).px = 1', 'arr(rec) = 1', 'arr("a") = 1',
            'arr(1, 2) = 1', 'arr() = 1', 'x = arr()', 'PRINT rec', 'PRINT arr', 'PRINT arr()', 'PRINT rec.nope',
            'PRINT USING rec; 1', 'PRINT USING "#"; rec', 'PRINT USING 1; 1', 'INPUT rec', 'INPUT arr', 'INPUT rec.px',
            'INPUT arr(1)', 'INPUT "a", rec', 'READ rec.px, arr(1)', 'SWAP x, y', 'ERASE arr', 'REDIM arr(5)',
            'OPTION BASE 1', 'LINE INPUT x$', 'LPRINT 1', 'OPEN "f" FOR INPUT AS #1', 'CLOSE', 'WRITE 1',
            'GET #1', 'PUT #1', 'CHAIN "f"', 'RUN', 'STOP', 'SLEEP 1', 'CLEAR', 'SHELL "ls"', 'ERROR 5',
            'MID$(x$, 1) = "a"', 'x = ERL', 'x = ERR', 'x = FRE(0)', 'x = POS(0)', 'x = CSRLIN', 'x$ = DATE$',
            'x$ = TIME$', 'x = SGN(1)', 'x = SQR(4)', 'x = SIN(1)', 'x$ = HEX$(1)', 'x = FIX(1.5)', 'x = CDBL(1)',
            'x = CSNG(1)', 'x$ = INPUT$(1)', 'x = EOF(1)', 'x = LOF(1)', 'x = VARPTR(x)', 'x = INP(1)',
            'OUT 1, 2', 'WAIT 1, 2', 'PSET (1, 2)', 'LINE (1, 2)-(3, 4)', 'CIRCLE (1, 2), 3', 'PAINT (1, 2)',
            'DRAW "u1"', 'PALETTE 1, 2', 'PCOPY 1, 2', 'KEY OFF', 'VIEW', 'WINDOW', 'SEEK #1, 2', 'FIELD #1, 2 AS x$',
            'LSET x$ = "a"', 'RSET x$ = "a"', 'NAME "a" AS "b"', 'MKDIR "a"', 'RMDIR "a"', 'CHDIR "a"', 'FILES',
            'RESET', 'SYSTEM 1', 'END 1', 'TRON', 'TROFF', 'COMMON x', 'ENVIRON "a"', 'IOCTL #1, "a"',
            'LOCK #1', 'UNLOCK #1', 'PEN ON', 'STRIG ON', 'COM(1) ON', 'TIMER ON', 'ON TIMER(1) GOSUB 10',
            'ON KEY(1) GOSUB 10', 'KEY 1, "a"', 'BEEP 1', 'CLS 1', 'RANDOMIZE', 'RANDOMIZE TIMER', 'RESTORE 1.5',
            'RESUME 10', 'RESUME x', 'VIEW PRINT 1', 'VIEW PRINT 1 TO', 'VIEW PRINT "a" TO 2', 'VIEW PRINT rec TO 2',
            'WIDTH "a"', 'WIDTH rec', 'SCREEN "a"', 'SCREEN rec', 'SCREEN 0, "a"', 'SCREEN 0, 0, rec',
            'POKE rec, 1', 'POKE 1, rec', 'POKE "a", 1', 'SOUND rec, 1', 'SOUND 1, "a"', 'PLAY 1', 'PLAY rec',
            'PLAY arr', 'KILL 1', 'KILL rec', 'BLOAD 1, 2', 'BLOAD rec, 1', 'BLOAD "a", "b"', 'BLOAD "a", rec',
            'BSAVE 1, 2, 3', 'BSAVE "a", "b", 3', 'BSAVE "a", 1, "c"', 'BSAVE rec, 1, 2', 'RANDOMIZE "a"',
            'RANDOMIZE rec', 'DEF SEG = rec', 'DEF SEG = "a"', 'COLOR rec', 'COLOR , rec', 'COLOR , , rec',
            'LOCATE rec', 'LOCATE , rec', 'LOCATE , , rec', 'LOCATE , , , rec', 'LOCATE , , , , rec',
            'LOCATE , , , "a"', 'LOCATE , , , , "a"', 'LOCATE 1, 2, 3, 4', 'LOCATE , , , 4', 'LOCATE , , , , 5']
    for i, m in enumerate(misc):
        out.append({'fam': 'expr', 'cls': f'misc/{i}', 'src': wrap('', m, '') if m.strip() else m})
    # literals at and beyond the type limits
    lits = ['0', '32767', '32768', '-32768', '-32769', '65535', '65536', '2147483647',
            '2147483648', '-2147483648', '-2147483649', '4294967296', '9999999999999999999999',
            '1E38', '3.4E38', '3.5E38', '1E39', '1E-45', '1E-46', '1D308', '1.8D308', '1D309',
            '1D-324', '1D-400', '1E400', '.', '1.', '.5', '1.5.5', '1E', '1E+', '1D', '1..2',
            '&H0', '&H7FFF', '&H8000', '&HFFFF', '&H10000', '&H7FFFFFFF', '&H80000000',
            '&HFFFFFFFF', '&H100000000', '&HG', '&H', '&O0', '&O77777', '&O177777', '&O200000',
            '&O37777777777', '&O40000000000', '&O8', '&O', '&', '&B1', '1E5%', '1.5%', '1.5&']
    sufs = ['', '%', '&', '!', '#', '$']
    lit_ctx = [('assign', 'y = {}'), ('assign-int', 'y% = {}'), ('const', 'CONST kc = {}'),
               ('dim', 'DIM qq({})'), ('data', 'DATA {}'),
               ('index', 'arr({}) = 1'), ('arith', 'y% = -{} + 1')]
    for l in lits:
        for s in sufs:
            add(f'literal/{l}{s}', l + s, lit_ctx)
    # constant arithmetic whose result leaves the type (folding at -O1/-O2)
    arith = ['32767 + 1', '-32768 - 1', '32767 * 2', '2000000000 + 2000000000', '2147483647 + 1',
             '-2147483648 - 1', '65536 * 65536', '1E38 * 10', '1E38 * 1E38', '1D308 * 10',
             '1D308 * 1D308', '1 / 0', '1 \\ 0', '1 MOD 0', '0 / 0', '1.5 / 0', '1# / 0',
             '0 ^ (-1)', '(-8) ^ .5', '10# ^ 400', '10 ^ 400', '2 ^ 15', '2 ^ 31', '2 ^ 1024',
             '2 ^ .5', '(-1) ^ .5', '1E38 - (-1E38)', '1D308 - (-1D308)', '1D308 * 10 - 1D308 * 10',
             '(1D308 * 10) * 0', 'CINT(1D308 * 10)', 'CINT(1E10)', 'CLNG(1E10)', 'CINT(40000)',
             'INT(1D308 * 10)', 'ABS(-32768)', '-(-32768)', 'NOT 32767', '- 32768', '-(3E10)',
             '32768 \\ 1', '100000 \\ 1', '3E10 \\ 1', '3E10 MOD 7', '1 \\ .4', '1 MOD .4',
             '32767 AND 65536', '3E10 AND 1', '1 AND 3E10', '1.5 AND 2.5', 'NOT 3E10',
             '"a" = "b"', '"a" < "b"', '"a" + "b" = "ab"', '"a" <> "a"', '"a" >= "b"',
             'CHR$(256)', 'CHR$(-1)', 'STRING$(3, 256)', 'STRING$(-1, 65)', 'SPACE$(-1)',
             'LEFT$("ab", -1)', 'MID$("ab", 0)', 'MID$("ab", 1, -1)', 'RIGHT$("ab", -1)',
             'ASC("")', 'VAL("x")', 'VAL("1e999")', 'STR$(1E38 * 10)', 'LEN("a") + 32767',
             'INSTR(0, "a", "a")', 'INSTR(-1, "a", "a")', 'LBOUND(arr, 0)', 'UBOUND(arr, 2)',
             'LBOUND(arr, 1.5)', 'PEEK(-1)', 'PEEK(70000)', 'RND(1E39)', 'SPACE$(1E10)']
    for a in arith:
        add(f'arith/{a}', a, [('assign', 'y = {}'), ('assign-int', 'y% = {}'),
                              ('assign-lng', 'y& = {}'), ('assign-dbl', 'y# = {}'),
                              ('print', 'PRINT {}'), ('const', 'CONST kc = {}'),
                              ('if', 'IF {} THEN PRINT 1'), ('dim', 'DIM qq({})'),
                              ('assign-str', 'y$ = {}')])
    # characters outside cp437 / control characters (D36)
    chars = ['€', '→', '\U0001F600', 'é', 'α', 'Ā', '\x00', '\t', '\r',
             '\x1a', '\x7f', ' ', ' ', '﻿', '\x0c', '\x0b', '\x1b']
    for ch in chars:
        cp = f'U+{ord(ch):04X}'
        for cn, ct in [('string', 'PRINT "{}"'), ('string-cat', 'y$ = "a{}" + "b"'),
                       ('ident', 'v{} = 1'), ('comment', "x = 1 ' {}"), ('rem', 'REM {}'),
                       ('data', 'DATA {}'), ('data-quoted', 'DATA "{}"'), ('bare', '{}'),
                       ('between', 'x ={}1'), ('label', 'l{}: x = 1'), ('const', 'CONST ks = "{}"'),
                       ('select', 'SELECT CASE a$\nCASE "{}"\nEND SELECT'),
                       ('eol', 'x = 1{}\ny = 2'), ('play', 'PLAY "{}"')]:
            out.append({'fam': 'expr', 'cls': f'char/{cp}/{cn}', 'src': ct.format(ch)})
    # RESTORE / GOTO family with labels in odd places (D12)
    lab = [('nodata', 'RESTORE nodata\nREAD x\nEND\nnodata: PRINT 1\nDATA 5'),
           ('nodata-atall', 'RESTORE l1\nl1: PRINT 1'),
           ('data-later', 'RESTORE l1\nl1: x = 1\nl2: DATA 1'),
           ('label-on-data', 'RESTORE l1\nl1: DATA 1'),
           ('lineno-nodata', 'RESTORE 10\n10 PRINT 1\n20 DATA 1'),
           ('lineno-data', 'RESTORE 10\n10 DATA 1'),
           ('undefined', 'RESTORE nowhere'), ('in-sub', 'SUB sx\nRESTORE l1\nEND SUB\nl1: DATA 1'),
           ('label-in-sub', 'RESTORE l1\nSUB sx\nl1: x = 1\nEND SUB'),
           ('restore-first-label', 'l0: x = 1\nRESTORE l0\nDATA 1'),
           ('two-labels', 'l1: l2: DATA 1'), ('label-lineno', '10 l1: DATA 1\nRESTORE l1\nRESTORE 10'),
           ('restore-empty-data', 'RESTORE l1\nl1: DATA'),
           ('data-in-sub', 'SUB sx\nDATA 1\nEND SUB'), ('data-in-if', 'IF x THEN\nl1: DATA 1\nEND IF\nRESTORE l1'),
           ('data-in-line-if', 'IF x THEN DATA 1'), ('data-after-colon', 'l1: x = 1: DATA 1, 2\nRESTORE l1'),
           ('read-no-data', 'READ x'), ('read-record', 'READ rec'), ('read-array', 'READ arr'),
           ('read-const', 'CONST k = 1\nREAD k'), ('read-func', 'READ f1%'), ('read-elem', 'READ arr(1), rec.px'),
           ('goto-sub-label', 'GOTO l1\nSUB sx\nl1: x = 1\nEND SUB'),
           ('gosub-undefined', 'GOSUB nowhere'), ('return-undefined', 'RETURN nowhere'),
           ('on-error-undefined', 'ON ERROR GOTO nowhere'), ('on-error-sub-label', 'ON ERROR GOTO l1\nSUB sx\nl1: x = 1\nEND SUB'),
           ('on-error-in-sub', 'l1: x = 1\nSUB sx\nON ERROR GOTO l1\nEND SUB'),
           ('dup-label', 'l1: x = 1\nl1: y = 1'), ('dup-lineno', '10 x = 1\n10 y = 1'),
           ('label-kw', 'print: x = 1'), ('label-eq-var', 'x: x = 1\nGOTO x'),
           ('lineno-big', '99999999999 x = 1\nGOTO 99999999999'), ('lineno-0', '0 x = 1\nGOTO 0'),
           ('lineno-neg', 'GOTO -1'), ('lineno-float', 'GOTO 1.5'), ('goto-string', 'GOTO "a"')]
    for n, s in lab:
        out.append({'fam': 'expr', 'cls': f'labels/{n}', 'src': wrap('', s, '')})
        out.append({'fam': 'expr', 'cls': f'labels-bare/{n}', 'src': s})
    # LOCATE / COLOR / SCREEN / WIDTH / VIEW PRINT with 0..6 arguments, some left out (D09)
    for kw in ('LOCATE', 'COLOR', 'SCREEN', 'WIDTH', 'VIEW PRINT', 'POKE', 'SOUND', 'BSAVE', 'BLOAD',
               'PRINT', 'INPUT', 'READ', 'RANDOMIZE', 'DEF SEG =', 'PLAY', 'KILL'):
        for n in range(0, 7):
            for mask in itertools.product((0, 1, 2), repeat=n):
                if n > 3 and any(m == 2 for m in mask):
                    continue
                if n > 4 and sum(mask) not in (0, n, 1):
                    continue
                args = ', '.join({0: '', 1: '1', 2: '"a"'}[m] for m in mask)
                out.append({'fam': 'expr', 'cls': f'args/{kw}/{n}',
                            'src': (kw + ' ' + args).rstrip() + '\n'})
    return out


# ---------------------------------------------------------------------------
# (4) grammar-directed random programs with random type errors

class ProgGen:
    """small generator of valid constructs; with probability `perr` an
    operand of the wrong kind is used.  Deterministic in the rng."""

    NUMV = ['a%', 'b&', 'c!', 'd#', 'n', 'arr(1)', 'rec.px', 'rec.py', 'm(2, 1)']
    STRV = ['s$', 't$', 'names$(1)']
    OTHER = ['rec', 'arr', 'm', 'r2', 'names$', 'arr()', 's1', 'f1%', 'f1%(1, 2)', 'rec.nope', 'pt',
             'THEN', '', '(', '1 1', 'kq', 'ks']

    def __init__(self, rng, perr):
        self.r = rng
        self.perr = perr
        self.nlab = 0

    def num(self, d=0):
        r = self.r
        if r.random() < self.perr:
            return self.wrong('n', d)
        k = r.randint(0, 9 if d < 3 else 3)
        if k <= 1:
            return r.choice(['0', '1', '2', '7', '32767', '100000', '1.5', '2.5#', '&HFF', '-3', '1E3'])
        if k <= 3:
            return r.choice(self.NUMV)
        if k == 4:
            return '(' + self.num(d + 1) + ')'
        if k == 5:
            return r.choice(['-', 'NOT ', '+']) + self.num(d + 1)
        if k == 6:
            return r.choice(['ABS', 'INT', 'CINT', 'CLNG']) + '(' + self.num(d + 1) + ')'
        if k == 7:
            return r.choice(['LEN', 'ASC', 'VAL']) + '(' + self.str(d + 1) + ')'
        if k == 8:
            return r.choice(['f1%(' + self.num(d + 1) + ')', 'RND', 'TIMER', 'kq', 'UBOUND(arr)',
                             'INSTR(' + self.str(d + 1) + ', ' + self.str(d + 1) + ')',
                             self.str(d + 1) + r.choice([' = ', ' < ', ' <> ']) + self.str(d + 1)])
        return self.num(d + 1) + ' ' + r.choice(BINOPS) + ' ' + self.num(d + 1)

    def str(self, d=0):
        r = self.r
        if r.random() < self.perr:
            return self.wrong('s', d)
        k = r.randint(0, 6 if d < 3 else 2)
        if k <= 1:
            return r.choice(['"a"', '""', '"hello"', 'ks'])
        if k == 2:
            return r.choice(self.STRV)
        if k == 3:
            return self.str(d + 1) + ' + ' + self.str(d + 1)
        if k == 4:
            return r.choice(['UCASE$', 'LCASE$', 'LTRIM$', 'RTRIM$']) + '(' + self.str(d + 1) + ')'
        if k == 5:
            return r.choice(['CHR$', 'STR$', 'SPACE$']) + '(' + self.num(d + 1) + ')'
        return r.choice(['LEFT$', 'RIGHT$']) + '(' + self.str(d + 1) + ', ' + self.num(d + 1) + ')'

    def wrong(self, want, d):
        r = self.r
        k = r.randint(0, 2)
        if k == 0:
            return r.choice(self.OTHER)
        old, self.perr = self.perr, 0.0
        try:
            return self.str(d + 1) if want == 'n' else self.num(d + 1)
        finally:
            self.perr = old

    def lv(self, kind):
        r = self.r
        if r.random() < self.perr:
            return r.choice(self.OTHER + self.NUMV + self.STRV)
        return r.choice(self.NUMV if kind == 'n' else self.STRV)

    def stmt(self, d, in_sub=False, in_loop=None):
        r = self.r
        k = r.randint(0, 27)
        n, s = self.num, self.str
        if k == 0:
            return [f'{self.lv("n")} = {n()}']
        if k == 1:
            return [f'{self.lv("s")} = {s()}']
        if k == 2:
            items = [r.choice([n(), s()]) for _ in range(r.randint(0, 3))]
            return ['PRINT ' + r.choice(['; ', ', ']).join(items) + r.choice(['', ';', ','])]
        if k == 3 and d < 3:
            body = self.block(d + 1, in_sub, in_loop)
            out = [f'IF {n()} THEN'] + body
            if r.random() < .4:
                out += [f'ELSEIF {n()} THEN'] + self.block(d + 1, in_sub, in_loop)
            if r.random() < .4:
                out += ['ELSE'] + self.block(d + 1, in_sub, in_loop)
            return out + ['END IF']
        if k == 4 and d < 3:
            v = r.choice(['i%', 'j&', 'k!', 'l#', 'n']) if r.random() > self.perr else self.lv('n')
            step = f' STEP {n()}' if r.random() < .3 else ''
            return [f'FOR {v} = {n()} TO {n()}{step}'] + self.block(d + 1, in_sub, 'for') + \
                   [r.choice(['NEXT', f'NEXT {v}'])]
        if k == 5 and d < 3:
            form = r.randint(0, 4)
            head = ['DO', f'DO WHILE {n()}', f'DO UNTIL {n()}', 'DO', 'DO'][form]
            tail = ['LOOP', 'LOOP', 'LOOP', f'LOOP WHILE {n()}', f'LOOP UNTIL {n()}'][form]
            return [head] + self.block(d + 1, in_sub, 'do') + [tail]
        if k == 6 and d < 3:
            return [f'WHILE {n()}'] + self.block(d + 1, in_sub, in_loop) + ['WEND']
        if k == 7 and d < 3:
            sel = n() if r.random() < .7 else s()
            out = [f'SELECT CASE {sel}']
            for _ in range(r.randint(0, 3)):
                c = r.randint(0, 3)
                out.append(['CASE ' + n(), f'CASE {n()} TO {n()}',
                            'CASE IS ' + r.choice(['<', '>', '=', '<>', '<=']) + ' ' + n(),
                            f'CASE {n()}, {s()}'][c])
                out += self.block(d + 1, in_sub, in_loop)
            if r.random() < .4:
                out += ['CASE ELSE'] + self.block(d + 1, in_sub, in_loop)
            return out + ['END SELECT']
        if k == 8:
            return [f'IF {n()} THEN {self.stmt(3, in_sub, in_loop)[0]}' +
                    (f' ELSE {self.stmt(3, in_sub, in_loop)[0]}' if r.random() < .4 else '')]
        if k == 9:
            return [r.choice([f'CALL s1({n()})', f's1 {n()}', 'CALL s0', 's0', 'CALL s2(arr())',
                              f'CALL s3({n()}, {s()})', f's3 {n()}, {s()}', f'CALL s1({self.lv("n")})'])]
        if k == 10:
            return [f'INPUT {r.choice(["", "; "])}{r.choice(["", s() + "; ", s() + ", "])}'
                    f'{self.lv(r.choice("ns"))}']
        if k == 11:
            return [f'READ {self.lv(r.choice("ns"))}', 'DATA 1, "x", 2.5'][:1 if in_sub else 2]
        if k == 12:
            return [r.choice(['RESTORE', 'RESTORE dl', 'GOSUB gs', 'GOTO skip', 'ON ERROR GOTO eh',
                              'ON ERROR RESUME NEXT', 'ON ERROR GOTO 0']) if not in_sub else 'RESTORE']
        if k == 13:
            return [r.choice([f'LOCATE {n()}, {n()}', f'LOCATE , {n()}', f'LOCATE {n()}',
                              f'COLOR {n()}, {n()}', f'COLOR {n()}', f'COLOR , {n()}',
                              f'SCREEN {n()}', f'WIDTH {n()}, {n()}', f'VIEW PRINT {n()} TO {n()}',
                              'CLS', 'BEEP', f'SOUND {n()}, {n()}', f'PLAY {s()}',
                              f'POKE {n()}, {n()}', f'DEF SEG = {n()}', f'RANDOMIZE {n()}',
                              f'PRINT USING {s()}; {n()}; {s()}', f'KILL {s()}'])]
        if k == 14:
            return [f'DIM {r.choice(["z1", "z2%", "z3$", "z4"])}{self.nlab}'
                    f'{r.choice(["", "(" + n() + ")", "(" + n() + " TO " + n() + ")"])}'
                    f'{r.choice(["", "", " AS INTEGER", " AS STRING", " AS pt", " AS nope"])}']
        if k == 15:
            self.nlab += 1
            return [f'CONST kk{self.nlab} = {r.choice([n(), s()])}']
        if k == 16:
            return [r.choice(['EXIT DO', 'EXIT FOR']) if in_loop is None or r.random() < .3
                    else ('EXIT DO' if in_loop == 'do' else 'EXIT FOR')]
        if k == 17:
            return [r.choice(['EXIT SUB', 'EXIT FUNCTION', 'RETURN', 'END', 'RESUME', 'RESUME NEXT'])]
        if k == 18:
            return [f'rec.px = {n()}', f'arr({n()}) = {n()}', f'm({n()}, {n()}) = {n()}',
                    'r2 = rec', f'names$({n()}) = {s()}'][r.randint(0, 4):][:1]
        if k == 19:
            return [f'{self.lv("n")} = {n()} : {self.lv("s")} = {s()}']
        if k == 20:
            self.nlab += 1
            return [f'lb{self.nlab}: {self.lv("n")} = {n()}']
        return [f'{self.lv("n")} = {n()}']

    def block(self, d, in_sub=False, in_loop=None):
        out = []
        for _ in range(self.r.randint(0, 3)):
            out += self.stmt(d, in_sub, in_loop)
        return out

    def program(self):
        r = self.r
        self.nlab = 0
        lines = ['TYPE pt', '  px AS INTEGER', '  py AS LONG', 'END TYPE',
                 'DIM rec AS pt', 'DIM r2 AS pt', 'DIM arr(3) AS INTEGER', 'DIM m(2, 2)',
                 'DIM names$(4)', 'CONST kq = 5', 'CONST ks = "k"']
        if r.random() < .3:
            lines.insert(0, r.choice(['DEFINT A-Z', 'DEFSTR S-T', 'DEFDBL D', 'DEFLNG A-C, N']))
        if r.random() < .5:
            lines += ['DECLARE SUB s1 (a%)', 'DECLARE FUNCTION f1% (a%)']
        for _ in range(r.randint(1, 6)):
            lines += self.stmt(0)
        lines += ['skip: END', 'dl: DATA 3, 4', 'gs: RETURN', 'eh: RESUME NEXT',
                  'SUB s0', 'END SUB', 'SUB s1 (a%)']
        lines += self.block(1, True) + ['END SUB', 'SUB s2 (a%())', 'END SUB',
                                        'SUB s3 (a&, b$) STATIC'] + self.block(1, True) + ['END SUB']
        lines += ['FUNCTION f1% (a%)'] + self.block(1, True) + ['f1% = a% + 1', 'END FUNCTION']
        return '\n'.join(lines) + '\n'


# ---------------------------------------------------------------------------
# (6) jump-only control skeletons, constants at the type boundaries, repeated
#     statements with different indentation (position oracle)

def _jump_stmt(kind, target):
    return {'goto': f'GOTO {target}', 'gosub': f'GOSUB {target}',
            'ifgoto': f'IF x THEN GOTO {target}', 'ifthen': f'IF x THEN {target}',
            'ifelse': f'IF x THEN GOTO {target} ELSE GOTO {target}',
            'ongoto': f'ON x GOTO {target}, {target}',
            'return': 'RETURN', 'returnto': f'RETURN {target}', 'real': 'x = x + 1',
            'end': 'END'}[kind]


JUMP_STYLES = ['lineno', 'label', 'label-own-line', 'reached']


def _jump_program(style, stmts):
    """stmts: [(kind, target index or None)]; node i carries label i"""
    n = len(stmts)
    if style == 'lineno':
        name = [str(10 * (i + 1)) for i in range(n)]
    else:
        name = [['ping', 'pong', 'pang', 'pung'][i] for i in range(n)]
    body = [_jump_stmt(k, name[t] if t is not None else None) for k, t in stmts]
    if style == 'lineno':
        return ''.join(f'{name[i]} {body[i]}\n' for i in range(n))
    if style == 'label':
        return ''.join(f'{name[i]}: {body[i]}\n' for i in range(n))
    if style == 'label-own-line':
        return ''.join(f'{name[i]}:\n    {body[i]}\n' for i in range(n))
    # the skeleton is reached through an IF block, after an END
    return ('INPUT x\nIF x THEN\n    GOTO ' + name[0] + '\nEND IF\nEND\n' +
            ''.join(f'{name[i]}:\n    {body[i]}\n' for i in range(n)))


def jump_skeletons():
    """-> (exhaustive, mixes).  exhaustive: every map of n <= 3 labels / line
    numbers to GOTO targets (all functional graphs: self loops, 2- and
    3-cycles, chains into cycles) in 4 layouts, plus the single cycle of
    length 4..6.  mixes: every assignment of {GOTO t, GOSUB t, IF x THEN GOTO
    t, IF x THEN t, IF..ELSE GOTO, ON x GOTO, RETURN, RETURN t, a real
    statement, END} to n <= 3 nodes."""
    exh, mix = [], []
    for n in (1, 2, 3):
        for tg in itertools.product(range(n), repeat=n):
            for st in JUMP_STYLES:
                exh.append({'fam': 'jumps', 'cls': f'goto-map/{n}/{st}/' + ''.join(map(str, tg)),
                            'src': _jump_program(st, [('goto', t) for t in tg])})
    for n in (4, 5, 6):
        for st in JUMP_STYLES[:2]:
            stmts = [('goto', (i + 1) % n) for i in range(n)]
            # label names only for n <= 4
            if st == 'label' and n > 4:
                continue
            exh.append({'fam': 'jumps', 'cls': f'goto-cycle/{n}/{st}', 'src': _jump_program(st, stmts)})
    kinds_t = ['goto', 'gosub', 'ifgoto', 'ifthen', 'ifelse', 'ongoto', 'returnto']
    kinds_0 = ['return', 'real', 'end']
    for n in (1, 2, 3):
        # three nodes: GOTO / GOSUB / IF..GOTO / RETURN / a real statement only
        kt = kinds_t if n < 3 else kinds_t[:3]
        k0 = kinds_0 if n < 3 else kinds_0[:2]
        opts = [(k, t) for k in kt for t in range(n)] + [(k, None) for k in k0]
        for combo in itertools.product(opts, repeat=n):
            if all(k == 'goto' for k, _ in combo):
                continue
            cls = f'mix/{n}/' + '+'.join(k + ('' if t is None else str(t)) for k, t in combo)
            for st in (('lineno', 'label') if n < 3 else ('lineno',)):
                if st == 'label' and any(k == 'ifthen' for k, _ in combo):
                    continue        # IF x THEN <label> is not a jump
                mix.append({'fam': 'jumps', 'cls': cls + '/' + st, 'src': _jump_program(st, list(combo))})
    return exh, mix


INT_MIN, INT_MAX, LNG_MIN, LNG_MAX = -32768, 32767, -2147483648, 2147483647
SNG_MAX, DBL_MAX = '3.402823E+38', '1.797693134862315D+308'


def _typed_const(ty, v):
    """a constant expression of type `ty` with value v, written as
    (literal op literal) so that it has that type: a literal 32768 alone is a
    LONG, -32768 is the negation of a LONG"""
    if ty in ('int', 'lng'):
        suf = '%' if ty == 'int' else '&'
        if v < 0:
            return f'(-{-v - 1}{suf} - 1{suf})'
        if v == 0:
            return f'(1{suf} - 1{suf})'
        return f'({v - 1}{suf} + 1{suf})'
    suf, big = ('!', SNG_MAX) if ty == 'sng' else ('#', DBL_MAX)
    return {'max': f'({big} * 1{suf})', '-max': f'(-{big} * 1{suf})', 'half': f'({big} / 2{suf})',
            'tiny': ('(1E-38 / 1E7)' if ty == 'sng' else '(1D-308 / 1D10)'),
            0: f'(1{suf} - 1{suf})', 1: f'(0{suf} + 1{suf})', -1: f'(0{suf} - 1{suf})',
            2: f'(1{suf} + 1{suf})', 0.5: f'(1{suf} / 2{suf})',
            40000: f'(39999{suf} + 1{suf})', 3e9: f'(2999999999{suf} + 1{suf})'}[v]


BOUND_VALS = {
    'int': [INT_MIN, INT_MIN + 1, -2, -1, 0, 1, 2, INT_MAX - 1, INT_MAX],
    'lng': [LNG_MIN, LNG_MIN + 1, INT_MIN - 1, INT_MIN, -1, 0, 1, 2, INT_MAX, INT_MAX + 1, LNG_MAX - 1, LNG_MAX],
    'sng': ['-max', -1, 0, 0.5, 1, 2, 40000, 3e9, 'tiny', 'half', 'max'],
    'dbl': ['-max', -1, 0, 0.5, 1, 2, 40000, 3e9, 'tiny', 'half', 'max'],
}
BOUND_RHS = {
    'int': [INT_MIN, -1, 0, 1, 2, INT_MAX],
    'lng': [LNG_MIN, -1, 0, 1, 2, LNG_MAX],
    'sng': ['-max', -1, 0, 0.5, 2, 'max'],
    'dbl': ['-max', -1, 0, 0.5, 2, 'max'],
}
BOUND_CTX = [('assign', 'y = {}'), ('assign-int', 'y% = {}'), ('assign-lng', 'y& = {}'),
             ('dim', 'DIM qq({})'), ('const', 'CONST kc = {}\nPRINT kc'),
             ('index', 'arr(0) = 1\narr({}) = 1'), ('print', 'PRINT {}'),
             ('operand', 'a& = 5\nb& = a& + {}\nPRINT b&')]
UN_BOUND = ['-', '+', 'NOT', '- -', '- NOT', 'NOT -']
_ARITH = {'+': lambda a, b: a + b, '-': lambda a, b: a - b, '*': lambda a, b: a * b,
          '\\': lambda a, b: (abs(a) // abs(b)) * (1 if (a < 0) == (b < 0) else -1) if b else None,
          'MOD': lambda a, b: 0 if b else None}


def _near_bound(r):
    return r is None or any(abs(r - b) <= 1 for b in (INT_MIN, INT_MAX, LNG_MIN, LNG_MAX))


def const_boundaries():
    """constant expressions at the boundaries of the four numeric types, for
    every unary and binary operator, as assignment source / DIM bound / CONST
    value / array index / PRINT item / operand of a variable expression.
    -> (all contexts, assignment context only)"""
    allctx, assign = [], []

    def add(lst, cls, e, ctxs):
        for cn, ct in ctxs:
            lst.append({'fam': 'constbound', 'cls': f'{cls}/{cn}',
                        'src': 'DIM arr(3) AS INTEGER\n' + ct.format(e) + '\n'})
    for ty, vals in BOUND_VALS.items():
        for v in vals:
            e = _typed_const(ty, v)
            add(allctx, f'val/{ty}/{v}', e, BOUND_CTX)
            for u in UN_BOUND:
                add(allctx, f'un/{u}/{ty}/{v}', f'{u} {e}', BOUND_CTX)
        for op in BINOPS:
            for a in vals:
                for b in BOUND_RHS[ty]:
                    if op == '^' and ty in ('int', 'lng') and abs(b) > 2 and abs(a) > 2:
                        # folding an integer power with a huge exponent runs
                        # into the CPU-time limit (outcome would depend on
                        # the speed of the host)
                        continue
                    e = f'{_typed_const(ty, a)} {op} {_typed_const(ty, b)}'
                    cls = f'bin/{op}/{ty}/{a}/{b}'
                    # the exact result at or next to a boundary (or undefined):
                    # every context; the rest of the grid: as assignment source
                    near = False
                    if ty in ('int', 'lng') and op in _ARITH:
                        near = _near_bound(_ARITH[op](a, b))
                    elif a in (INT_MIN, LNG_MIN, '-max', 'max') and b in (-1, 2, 'max'):
                        near = True
                    if near:
                        add(allctx, cls, e, BOUND_CTX)
                    else:
                        add(assign, cls, e, BOUND_CTX[:1])
        # mixed types: the boundary of the narrower type met from the wider one
    for op in ('+', '-', '*', '\\', 'MOD', '/', 'AND', '^'):
        for ta, a, tb, b in [('int', INT_MAX, 'lng', 1), ('int', INT_MIN, 'lng', -1),
                             ('lng', LNG_MAX, 'int', 1), ('lng', LNG_MIN, 'int', -1),
                             ('lng', LNG_MAX, 'sng', 1), ('lng', LNG_MIN, 'dbl', -1),
                             ('sng', 'max', 'dbl', 2), ('dbl', 'max', 'sng', 2),
                             ('int', INT_MIN, 'sng', -1), ('int', INT_MAX, 'dbl', 0.5)]:
            e = f'{_typed_const(ta, a)} {op} {_typed_const(tb, b)}'
            add(allctx, f'mixed/{op}/{ta}/{a}/{tb}/{b}', e, BOUND_CTX)
    return allctx, assign


# statements that are accepted in one place and rejected in another:
# (name, accepted occurrence as lines with {S} = the indented statement,
#  lines before the rejected occurrence, kind of error)
INDENT_CATALOGUE = [
    ('exit-sub', 'EXIT SUB', ['SUB sq', '{S}', 'END SUB'], []),
    ('exit-function', 'EXIT FUNCTION', ['FUNCTION fq', '{S}', 'END FUNCTION'], []),
    ('exit-for', 'EXIT FOR', ['FOR i = 1 TO 2', '{S}', 'NEXT'], []),
    ('exit-do', 'EXIT DO', ['DO', '{S}', 'LOOP'], []),
    ('endif-closes-for', 'END IF', ['IF x THEN', 'y = 1', '{S}'], ['FOR i = 1 TO 2']),
    ('next-closes-if', 'NEXT', ['FOR i = 1 TO 2', '{S}'], ['IF x THEN']),
    ('loop-closes-while', 'LOOP', ['DO', '{S}'], ['WHILE x']),
    ('wend-closes-do', 'WEND', ['WHILE x', '{S}'], ['DO']),
    ('endselect-closes-if', 'END SELECT', ['SELECT CASE x', 'CASE 1', '{S}'], ['IF x THEN']),
    ('endsub-closes-function', 'END SUB', ['SUB sq', '{S}'], ['FUNCTION fq']),
    ('endfunction-closes-sub', 'END FUNCTION', ['FUNCTION fq', '{S}'], ['SUB sq']),
    ('endif-alone', 'END IF', ['IF x THEN', '{S}'], []),
    ('next-alone', 'NEXT', ['FOR i = 1 TO 2', '{S}'], []),
    ('loop-alone', 'LOOP', ['DO', '{S}'], []),
    ('wend-alone', 'WEND', ['WHILE x', '{S}'], []),
    ('endsub-alone', 'END SUB', ['SUB sq', '{S}'], []),
    ('dup-dim', 'DIM qa(5)', ['{S}'], []),
    ('dup-dim-scalar', 'DIM qs AS INTEGER', ['{S}'], []),
    ('dup-const', 'CONST kq = 1', ['{S}'], []),
    ('dup-label', 'lq: y = 1', ['{S}'], []),
    ('dup-lineno', '10 y = 1', ['{S}'], []),
    ('goto-undefined-after-sub', 'GOTO lq', ['SUB sq', 'lq: y = 1', '{S}', 'END SUB'], []),
    ('undefined-sub-arg', 'CALL sq(1)', ['{S}', 'SUB sq(a%)', 'END SUB', 'SUB sr', '{S}', 'END SUB'], ['CONST sq = 1']),
]
INDENTS = [(4, 0), (40, 1), ('\t\t', 0), (1, 12)]
TAILS = [('eot', ''), ('nl', '\n'), ('short-line', "\n'")]


def indent_positions():
    """programs with the same statement twice, differently indented: first
    where it is accepted, later (at the end of the text) where it is rejected.
    'errline' = index of the line the diagnostic has to be on.  The variant
    'two-texts' has the accepted occurrence in a text compiled before in the
    same process ('warm')."""
    out = []
    for name, stmt, acc, before in INDENT_CATALOGUE:
        for i1, i2 in INDENTS:
            p1 = i1 if isinstance(i1, str) else ' ' * i1
            p2 = i2 if isinstance(i2, str) else ' ' * i2
            first = [l.replace('{S}', p1 + stmt) for l in acc]
            for tn, tail in TAILS:
                second = before + [p2 + stmt]
                src = '\n'.join(first + second) + tail
                cls = f'{name}/{len(p1)}-{len(p2)}/{tn}'
                out.append({'fam': 'indent-pos', 'cls': cls + '/one-text', 'src': src,
                            'errline': len(first) + len(second) - 1})
                out.append({'fam': 'indent-pos', 'cls': cls + '/two-texts',
                            'src': '\n'.join(second) + tail, 'warm': ['\n'.join(first) + '\n'],
                            'errline': len(second) - 1})
    return out
