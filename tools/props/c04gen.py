"""placeholder"""
