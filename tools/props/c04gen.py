"""C04 sentinel programs: a small typed program representation, its QBASIC
text, and the REFERENCE semantics of the property (one independent value per
declared scalar location, defaults 0 / "", by-reference parameters alias the
named location, expression arguments are copies, fresh locals per activation,
STATIC per routine, SHARED everywhere).  The reference interpreter knows
nothing about cells, frames or the machine model.

Program representation
  expr:  ('int', n) | ('str', s) | ('lv', name, idx_exprs|None, fields)
         | ('bin', op, a, b)  op in + - *   | ('chr', e) | ('par', e) | ('arr', name)
  stmt:  ('let', lv, e) | ('print', [e], trailing_semicolon) | ('for', var, lo, hi, step, body)
         | ('call', name, [e]) | ('ifgt', a, b, stmt) | ('dim', kw, name, type)
         | ('tag', text) | ('end',)
  routine: {'name', 'params': [(name, type)], 'body': [stmt]}
  types: c04shapes shape types; ('d', rank, base, lbs) = dynamic array lbs(i) TO nq%"""
import json
import vlib
from props import c04shapes as S

DYNVAR = 'nq%'
DYNUB = 2


# ---------------------------------------------------------------- text

def e_src(e):
    k = e[0]
    if k == 'int':
        return str(e[1])
    if k == 'str':
        return '"' + e[1] + '"'
    if k == 'lv':
        s = e[1]
        if e[2] is not None:
            s += '(' + ', '.join(e_src(x) for x in e[2]) + ')'
        for f in e[3]:
            s += '.' + f
        return s
    if k == 'bin':
        return f'{e_src(e[2])} {e[1]} {e_src(e[3])}'
    if k == 'chr':
        return f'CHR$({e_src(e[1])})'
    if k == 'par':
        return f'({e_src(e[1])})'
    if k == 'arr':
        return e[1] + '()'
    raise ValueError(e)


def s_src(st, ind, out):
    k = st[0]
    pad = ' ' * ind
    if k == 'let':
        out.append(f'{pad}{e_src(st[1])} = {e_src(st[2])}')
    elif k == 'print':
        out.append(pad + 'PRINT ' + '; '.join(e_src(x) for x in st[1]) + (';' if st[2] else ''))
    elif k == 'for':
        _, var, lo, hi, step, body = st
        out.append(f'{pad}FOR {var} = {e_src(lo)} TO {e_src(hi)}' + (f' STEP {step}' if step != 1 else ''))
        for b in body:
            s_src(b, ind + 1, out)
        out.append(f'{pad}NEXT {var}')
    elif k == 'call':
        args = ', '.join(e_src(x) for x in st[2])
        out.append(f'{pad}CALL {st[1]}' + (f'({args})' if st[2] else ''))
    elif k == 'ifgt':
        tmp = []
        s_src(st[3], 0, tmp)
        out.append(f'{pad}IF {e_src(st[1])} > {e_src(st[2])} THEN {tmp[0]}')
    elif k == 'dim':
        kw = {'dim': 'DIM', 'shared': 'DIM SHARED', 'static': 'STATIC'}[st[1]]
        out.append(pad + S.decl_src(kw, st[2], st[3], DYNVAR))
    elif k == 'end':
        out.append(pad + 'END')
    elif k == 'tag':
        pass
    else:
        raise ValueError(st)


def program_src(prog):
    out = [S.type_src(prog['recs']).rstrip('\n')] if prog['recs'] else []
    for st in prog['main']:
        s_src(st, 0, out)
    for r in prog['subs']:
        ps = ', '.join(S.param_src(n, t) for n, t in r['params'])
        out.append(f'SUB {r["name"]}' + (f' ({ps})' if ps else ''))
        for st in r['body']:
            s_src(st, 1, out)
        out.append('END SUB')
    return '\n'.join(out) + '\n'


# ---------------------------------------------------------------- reference semantics

class Cell:
    __slots__ = ('v', 'k')

    def __init__(self, k):
        self.v = None
        self.k = k


class Rec:
    def __init__(self, name):
        self.fields = {fn: mk_obj(ft) for fn, ft in S.RECMAP[name]}


class Arr:
    def __init__(self, bounds, base):
        self.bounds = bounds
        self.elems = {}
        idxs = [()]
        for lb, ub in bounds:
            idxs = [i + (j,) for i in idxs for j in range(lb, ub + 1)]
        for i in idxs:
            self.elems[i] = mk_obj(base)


def mk_obj(t, dyn_ub=None):
    if t[0] == 'b':
        return Cell(t[1])
    if t[0] == 'r':
        return Rec(t[1])
    if t[0] == 'a':
        return Arr(list(t[1]), t[2])
    return Arr([(lb, dyn_ub) for lb in t[3]], t[2])


def obj_leaves(o):
    if isinstance(o, Cell):
        return [o]
    if isinstance(o, Rec):
        return [c for f in o.fields.values() for c in obj_leaves(f)]
    return [c for e in o.elems.values() for c in obj_leaves(e)]


class Stop(Exception):
    pass


class RefError(Exception):
    """the generated program does something the reference semantics leaves undefined"""


def fmt(v):
    if isinstance(v, str):
        return v
    return (' ' if v >= 0 else '-') + str(abs(v)) + ' '


class Interp:
    def __init__(self, prog):
        self.prog = prog
        self.subs = {r['name']: r for r in prog['subs']}
        self.out = []
        self.pos = 0
        self.shared = {}
        self.statics = {}       # routine -> {name: obj}
        self.marks = []         # (pos, kind, info)
        self.tags = [(0, 'start')]
        self.steps = 0

    def emit(self, s):
        self.out.append(s)
        self.pos += len(s)

    def run(self):
        try:
            self.activation('_main', self.prog['main'], {})
        except Stop:
            pass
        return ''.join(self.out)

    # env: name -> (obj, kind, type)
    def lookup(self, env, rname, name):
        if name in env:
            return env[name]
        st = self.statics.get(rname, {})
        if name in st:
            return st[name]
        if name in self.shared:
            return self.shared[name]
        # implicit scalar with a type character
        k = {'%': 1, '&': 2, '!': 3, '#': 4, '$': 5}.get(name[-1])
        if k is None:
            raise RefError('implicit variable without type character: ' + name)
        env[name] = (Cell(k), 'implicit', ('b', k))
        return env[name]

    def resolve(self, env, rname, lv, for_read=False):
        _, name, idxs, fields = lv
        obj, kind, t = self.lookup(env, rname, name)
        top = obj
        if idxs is not None:
            if not isinstance(obj, Arr):
                raise RefError('indexing a non-array ' + name)
            ii = tuple(self.ev(env, rname, x) for x in idxs)
            if ii not in obj.elems:
                raise RefError(f'index out of range {name}{ii}')
            obj = obj.elems[ii]
        for f in fields:
            obj = obj.fields[f]
        if for_read and isinstance(obj, Cell) and obj.v is None and fields and idxs is None \
                and kind in ('local', 'static', 'shared') and t[0] == 'r':
            # a never-assigned field of a plain record variable, not the first cell
            off = [id(c) for c in obj_leaves(top)].index(id(obj))
            if off > 0:
                self.marks.append((self.pos, 'd15', 'global' if kind in ('static', 'shared') else 'local'))
        return obj

    def ev(self, env, rname, e):
        k = e[0]
        if k == 'int' or k == 'str':
            return e[1]
        if k == 'lv':
            c = self.resolve(env, rname, e, for_read=True)
            if not isinstance(c, Cell):
                raise RefError('reading a non-scalar')
            if c.v is None:
                return '' if c.k == 5 else 0
            return c.v
        if k == 'bin':
            a = self.ev(env, rname, e[2])
            b = self.ev(env, rname, e[3])
            if e[1] == '+':
                return a + b
            if e[1] == '-':
                return a - b
            return a * b
        if k == 'chr':
            return bytes([self.ev(env, rname, e[1])]).decode('cp437')
        if k == 'par':
            return self.ev(env, rname, e[1])
        raise RefError(e)

    def activation(self, rname, body, env):
        for st in body:
            self.stmt(env, rname, st)

    def stmt(self, env, rname, st):
        self.steps += 1
        if self.steps > 2000000:
            raise RefError('reference interpreter step limit')
        k = st[0]
        if k == 'let':
            c = self.resolve(env, rname, st[1])
            v = self.ev(env, rname, st[2])
            if (c.k == 5) != isinstance(v, str):
                raise RefError('type confusion in generated program')
            c.v = v
        elif k == 'print':
            s = ''.join(fmt(self.ev(env, rname, x)) for x in st[1])
            self.emit(s + ('' if st[2] else '\r\n'))
        elif k == 'for':
            _, var, lo, hi, step, body = st
            c = self.resolve(env, rname, ('lv', var, None, ()))
            c.v = self.ev(env, rname, lo)
            h = self.ev(env, rname, hi)
            while (c.v <= h) if step > 0 else (c.v >= h):
                for b in body:
                    self.stmt(env, rname, b)
                c.v += step
        elif k == 'ifgt':
            if self.ev(env, rname, st[1]) > self.ev(env, rname, st[2]):
                self.stmt(env, rname, st[3])
        elif k == 'dim':
            _, kw, name, t = st
            if kw == 'shared':
                self.shared[name] = (mk_obj(t, self.dynub(env, rname, t)), 'shared', t)
            elif kw == 'static':
                d = self.statics.setdefault(rname, {})
                if name not in d:
                    d[name] = (mk_obj(t, self.dynub(env, rname, t)), 'static', t)
            else:
                env[name] = (mk_obj(t, self.dynub(env, rname, t)), 'local', t)
        elif k == 'call':
            r = self.subs[st[1]]
            new = {}
            for (pn, pt), a in zip(r['params'], st[2]):
                if a[0] == 'lv':
                    o = self.resolve(env, rname, a)
                    new[pn] = (o, 'param', pt)
                elif a[0] == 'arr':
                    o, akind, at = self.lookup(env, rname, a[1])
                    new[pn] = (o, 'param', pt)
                    if at[0] == 'd':
                        # the argument is a dynamic array or itself an array parameter
                        self.marks.append((self.pos, 'd45', 'param' if akind == 'param' else 'dynamic'))
                else:
                    c = Cell(pt[1])
                    c.v = self.ev(env, rname, a)
                    new[pn] = (c, 'param', pt)
                if pt[0] == 'r' and len(S.leaves(pt)) >= 2:
                    self.marks.append((self.pos, 'd14', len(S.leaves(pt))))
            self.activation(r['name'], r['body'], new)
        elif k == 'tag':
            self.tags.append((self.pos, st[1]))
        elif k == 'end':
            raise Stop()
        else:
            raise RefError(st)

    def dynub(self, env, rname, t):
        if t[0] != 'd':
            return None
        return self.ev(env, rname, ('lv', DYNVAR, None, ()))


# ---------------------------------------------------------------- generator

I = lambda n: ('int', n)              # noqa: E731
LV = lambda n, idx=None, f=(): ('lv', n, idx, tuple(f))    # noqa: E731
LOOPV = ['i1%', 'i2%', 'i3%']
PREFIX = 'abcdefghijklmnopqrstuvwxyz'


def add(*es):
    r = es[0]
    for e in es[1:]:
        r = ('bin', '+', r, e)
    return r


def var_bounds(t):
    """index ranges of an array-shaped variable at run time"""
    if t[0] == 'a':
        return list(t[1])
    return [(lb, DYNUB) for lb in t[3]]


class VarPlan:
    """how one variable is written and read: sentinel formulas per scalar location"""

    def __init__(self, name, t, vi, plain_record_ok):
        self.name = name
        self.t = t
        self.vi = vi
        self.base_t = t if t[0] in ('b', 'r') else t[2]
        self.leaves = S.leaves(self.base_t)          # [(path, kind)]
        self.is_arr = t[0] in ('a', 'd')
        self.bounds = var_bounds(t) if self.is_arr else []
        # multipliers for the index part of a sentinel
        self.mult = []
        m = 1
        for lb, ub in reversed(self.bounds):
            self.mult.insert(0, m)
            m *= (ub - lb + 1)
        self.nelem = m if self.is_arr else 1
        self.first_cell_only = False      # set for plain record variables in the strict variant
        # locations never written in the first write phase
        if self.is_arr:
            lb, ub = self.bounds[0]
            self.unset_first = ub if ub > lb else None       # the slice i1 = ub stays unset
            self.unset_leaves = set()
        else:
            self.unset_first = None
            if t[0] == 'r':
                cand = [li for li in range(len(self.leaves)) if li % 2 == 1]
                self.unset_leaves = set(cand) if plain_record_ok else set()
                if not plain_record_ok and len(self.leaves) >= 1 and vi == 2:
                    self.unset_leaves = {0}
            else:
                self.unset_leaves = {0} if vi == 2 else set()

    def sentinel(self, li, gen):
        """expression for the sentinel of leaf li (arrays: in terms of the loop variables)"""
        path, kind = self.leaves[li]
        idx_terms = []
        c = 0
        for d, ((lb, ub), m) in enumerate(zip(self.bounds, self.mult)):
            c -= lb * m
            v = LV(LOOPV[d])
            idx_terms.append(v if m == 1 else ('bin', '*', v, I(m)))
        if kind == 5:
            pre = PREFIX[(self.vi * 8 + li + gen * 3) % 26] + PREFIX[(li + gen) % 26]
            if not self.is_arr:
                return ('str', pre + 'q')
            return add(('str', pre), ('chr', add(I(65 + c), *idx_terms)))
        base = (self.vi + 1) * 4000 + li * 300 + gen * 16000 + 40
        if not self.is_arr:
            return I(base)
        return add(I(base + c), *idx_terms)

    def loc(self, li):
        path, kind = self.leaves[li]
        idx = [LV(LOOPV[d]) for d in range(len(self.bounds))] if self.is_arr else None
        return LV(self.name, idx, path)

    def loops(self, body, reverse=False, skip_unset=False, only_unset=False):
        """wrap body in the FOR loops over all elements"""
        if not self.is_arr:
            return body
        st = body
        for d in reversed(range(len(self.bounds))):
            lb, ub = self.bounds[d]
            if d == 0 and self.unset_first is not None:
                if skip_unset:
                    ub = ub - 1
                if only_unset:
                    lb = ub
            lo, hi, step = (I(ub), I(lb), -1) if reverse else (I(lb), I(ub), 1)
            st = [('for', LOOPV[d], lo, hi, step, st)]
        return st

    def write(self, gen, first=False, only_unset=False):
        body = []
        for li in range(len(self.leaves)):
            if first and li in self.unset_leaves:
                continue
            if only_unset and not self.is_arr and li not in self.unset_leaves:
                continue
            body.append(('let', self.loc(li), self.sentinel(li, gen)))
        if not body:
            return []
        if only_unset and self.is_arr and self.unset_first is None:
            return []
        return self.loops(body, skip_unset=first, only_unset=only_unset)

    def read(self, reverse=False, fresh=False):
        order = list(range(len(self.leaves)))
        if fresh and self.first_cell_only:
            order = [0]
        if reverse:
            order.reverse()
        items = [self.loc(li) for li in order]
        if not self.is_arr:
            return [('print', items, False)]
        return self.loops([('print', items, True)], reverse=reverse) + [('print', [], False)]

    def one_loc(self, which):
        """a fixed scalar location (no loop variables): which = 0 first, 1 last"""
        li = 0 if which == 0 else len(self.leaves) - 1
        path, kind = self.leaves[li]
        idx = None
        if self.is_arr:
            idx = [I(lb if which == 0 else ub) for lb, ub in self.bounds]
        return LV(self.name, idx, path), kind


KSUF = {1: 'INTEGER', 2: 'LONG', 3: 'SINGLE', 4: 'DOUBLE', 5: 'STRING'}


def bump(kind, lv, n):
    """lv = lv + n  (numeric)  /  lv = lv + "x" (string)"""
    return ('let', lv, ('bin', '+', lv, ('str', 'x') if kind == 5 else I(n)))


def ref_subs(kind):
    """SUBs for by-reference passing of a scalar of builtin type kind:
    ra<k>: recursion, re-passing the parameter, a by-value companion, a fresh local and a STATIC counter
    rb<k> -> rc<k> -> rd<k>: three levels, the write happens at the bottom"""
    k = str(kind)
    T = ('b', kind)
    ra = {'name': 'ra' + k, 'params': [('p', T), ('v', ('b', 1)), ('d', ('b', 1))], 'body': [
        ('dim', 'static', 'cnt', ('b', 1)),
        ('dim', 'dim', 'lv', ('b', 2)),
        ('print', [('str', 'ra'), LV('d'), LV('p'), LV('v'), LV('lv'), LV('cnt')], False),
        bump(1, LV('cnt'), 1),
        ('let', LV('lv'), ('bin', '*', LV('d'), I(11))),
        bump(kind, LV('p'), 1),
        bump(1, LV('v'), 100),
        ('ifgt', LV('d'), I(1), ('call', 'ra' + k, [LV('p'), ('par', LV('v')), ('bin', '-', LV('d'), I(1))])),
        ('print', [('str', 're'), LV('d'), LV('p'), LV('v'), LV('lv'), LV('cnt')], False),
    ]}
    rb = {'name': 'rb' + k, 'params': [('q', T)], 'body': [
        ('call', 'rc' + k, [LV('q')]), ('print', [('str', 'rb'), LV('q')], False)]}
    rc = {'name': 'rc' + k, 'params': [('q', T)], 'body': [
        ('dim', 'dim', 'pad', ('b', 5)),
        ('call', 'rd' + k, [LV('q'), LV('q')]), ('print', [('str', 'rc'), LV('q'), LV('pad')], False)]}
    rd = {'name': 'rd' + k, 'params': [('q', T), ('r', T)], 'body': [
        bump(kind, LV('q'), 7),
        ('print', [('str', 'rd'), LV('q'), LV('r')], False)]}     # q and r are the same location
    return [ra, rb, rc, rd]


def call_phase(plans, depth):
    """by-reference calls on the first and the last scalar location of the focus variable"""
    focus = plans[1]
    st = [('tag', 'calls')]
    kinds = []
    for which in (0, 1):
        lv, kind = focus.one_loc(which)
        if kind not in kinds:
            kinds.append(kind)
        k = str(kind)
        st.append(('call', 'ra' + k, [lv, add(I(5), I(which)), I(depth)]))
        st.append(('print', [('str', 'm'), lv], False))
        st.append(('call', 'rb' + k, [lv]))
        st.append(('print', [('str', 'm'), lv], False))
    return st, kinds


CLASSES = ['main', 'shared', 'local', 'static', 'param']
# focus shapes of the sentinel suite (arrays of rank 2-3 keep <= 3 indices per dimension)
FOCUS = ['int', 'lng', 'sng', 'dbl', 'str', 'ra', 'rb', 'rd', 'a1', 'a2', 'a3', 'a3f', 'ar', 'ar2', 'dy1', 'dy2', 'dyr']
NEIGH = ['int', 'str', 'rb', 'a1', 'ar', 'dbl']
SMALL = [(lb, ub) for lb, ub in S.PAIRS if ub - lb <= 2]


def focus_type(code, salt):
    P = S.PAIRS
    if code in ('int', 'lng', 'sng', 'dbl', 'str'):
        return ('b', ['int', 'lng', 'sng', 'dbl', 'str'].index(code) + 1)
    if code in ('ra', 'rb', 'rc', 'rd'):
        return ('r', code)
    if code == 'a1':
        return ('a', [P[(salt * 5 + 2) % 21]], ('b', 1 + salt % 5))
    if code == 'a2':
        return ('a', [SMALL[(salt * 7 + 1) % 15], SMALL[(salt * 4 + 3) % 15]], ('b', 1 + (salt + 2) % 5))
    if code == 'a3':
        return ('a', [SMALL[(salt * 3) % 15], SMALL[(salt * 5 + 4) % 15], SMALL[(salt * 11 + 7) % 15]],
                ('b', 1 + (salt + 4) % 5))
    if code == 'a3f':
        # a full rank-3 shape (every dimension has 2 or 3 elements, non-zero lower bounds)
        return ('a', [(0, 1), (1, 2), (-1, 1)], ('b', 1 + (salt + 1) % 5))
    if code == 'ar':
        return ('a', [P[(salt * 2 + 6) % 21]], ('r', ['rb', 'rc', 'rd'][salt % 3]))
    if code == 'ar2':
        return ('a', [SMALL[(salt * 2 + 1) % 15], SMALL[(salt * 9 + 5) % 15]], ('r', ['rc', 'rb', 'ra'][salt % 3]))
    if code == 'dy1':
        return ('d', 1, ('b', 1 + salt % 5), (P[(salt * 3) % 21][0] if P[(salt * 3) % 21][0] <= DYNUB else 0,))
    if code == 'dy2':
        return ('d', 2, ('b', 1 + (salt + 3) % 5), (salt % 3, 1 - salt % 2))
    if code == 'dyr':
        return ('d', 1 + salt % 2, ('r', ['rc', 'rb'][salt % 2]), (0, 1)[:1 + salt % 2])
    raise ValueError(code)


def build(cls, focus, prev, nxt, salt, variant):
    """variant: 'A' strict | 'B' with reads of never-assigned record fields (D15 trigger)
    | 'C' record parameters of two or more cells (D14 trigger, param class only)"""
    tys = [focus_type(prev, salt + 1), focus_type(focus, salt), focus_type(nxt, salt + 2)]
    names = ['va', 'vb', 'vc']
    is_plain_rec = [t[0] == 'r' and cls != 'param' for t in tys]
    plans = [VarPlan(n, t, vi, plain_record_ok=(variant == 'B' or not is_plain_rec[vi]))
             for vi, (n, t) in enumerate(zip(names, tys))]
    # in variant A a plain record variable may only have its FIRST cell unset
    for p, plain in zip(plans, is_plain_rec):
        if plain and variant != 'B':
            p.unset_leaves = {0} if p.vi != 1 else set()
            p.first_cell_only = True
    recs = needed(tys + [('r', 'rb')])
    uses_dyn = any(t[0] == 'd' for t in tys)
    depth = 2 + salt % 3
    calls, kinds = call_phase(plans, depth)
    subs = []
    for k in kinds:
        subs += ref_subs(k)

    def rw(gen_first=0):
        st = [('tag', 'write1')]
        for p in plans:
            st += p.write(gen_first, first=True)
        st.append(('tag', 'read1'))
        for p in plans:
            st += p.read()
        st.append(('tag', 'read2-reverse'))
        for p in reversed(plans):
            st += p.read(reverse=True)
        st.append(('tag', 'write2'))
        st += plans[1].write(gen_first + 1)
        st += plans[0].write(gen_first, only_unset=True)
        st.append(('tag', 'read3'))
        for p in plans:
            st += p.read()
        return st

    def readall(tag, fresh=False):
        st = [('tag', tag)]
        for p in plans:
            st += p.read(fresh=fresh)
        return st

    def dims(kw):
        return [('dim', kw, p.name, p.t) for p in plans]

    main = []
    pre = [('let', LV(DYNVAR), I(DYNUB))] if uses_dyn else []
    if cls == 'main':
        main = pre + dims('dim') + [('tag', 'read0-unset')] + readall('read0', fresh=True)[1:] + rw() + calls + readall('read4')
    elif cls == 'shared':
        main = [('dim', 'shared', p.name, p.t) for p in plans if p.t[0] != 'd'] + pre + \
               [('dim', 'shared', p.name, p.t) for p in plans if p.t[0] == 'd']
        hs = {'name': 'hs', 'params': [], 'body': readall('sub-read') + [('tag', 'sub-write')] +
              plans[1].write(1) + plans[2].write(0, only_unset=True) + calls}
        hr = {'name': 'hr', 'params': [('x', ('b', 1))], 'body': readall('sub2-read')}
        subs += [hs, hr]
        main += rw() + [('call', 'hs', [])] + readall('read4') + [('call', 'hr', [I(1)])]
    elif cls == 'local':
        body = pre + dims('dim') + readall('fresh-read', fresh=True) + [('tag', 'act-write')]
        for p in plans:
            body += p.write(0, first=True)
        # make the activation's values depth dependent through one location
        lv0, k0 = plans[1].one_loc(0)
        body.append(bump(k0, lv0, 1) if k0 == 5 else ('let', lv0, add(lv0, LV('d'))))
        body += readall('act-read')
        body.append(('ifgt', LV('d'), I(1), ('call', 'hl', [('bin', '-', LV('d'), I(1))])))
        body += readall('act-read-after-return')
        body += [('ifgt', I(2), LV('d'), ('call', 'hl2', []))]
        hl = {'name': 'hl', 'params': [('d', ('b', 1))], 'body': body}
        hl2 = {'name': 'hl2', 'params': [], 'body': pre + dims('dim') + rw() + calls + readall('read4')}
        subs += [hl, hl2]
        main = [('call', 'hl', [I(depth)]), ('call', 'hl', [I(1)])]
    elif cls == 'static':
        def sbody(gen):
            b = pre + dims('static') + readall('static-read', fresh=True) + [('tag', 'static-write')]
            for p in plans:
                b += p.write(gen, first=True)
            lv0, k0 = plans[1].one_loc(0)
            b.append(bump(k0, lv0, 1) if k0 == 5 else ('let', lv0, add(lv0, LV('n'))))
            return b
        ht = {'name': 'ht', 'params': [('n', ('b', 1))], 'body': sbody(0) + calls + readall('static-read2')}
        hu = {'name': 'hu', 'params': [('n', ('b', 1))], 'body': sbody(1) + readall('static-read2')}
        subs += [ht, hu]
        main = [('call', 'ht', [I(1)]), ('call', 'hu', [I(1)]), ('call', 'ht', [I(2)]),
                ('call', 'hu', [I(2)]), ('call', 'ht', [I(3)])]
    elif cls == 'param':
        mnames = ['ma', 'mb', 'mc']
        mplans = [VarPlan(n, t, vi, plain_record_ok=False) for vi, (n, t) in enumerate(zip(mnames, tys))]
        for p in mplans:
            if p.t[0] == 'r':
                p.unset_leaves = {0} if p.vi != 1 else set()
        for p, mp in zip(plans, mplans):
            p.unset_leaves = set(mp.unset_leaves)
        main = pre + [('dim', 'dim', p.name, p.t) for p in mplans] + [('tag', 'write1')]
        for p in mplans:
            main += p.write(0, first=True)
        args = [('arr', p.name) if p.t[0] in ('a', 'd') else LV(p.name) for p in mplans]
        hp = {'name': 'hp', 'params': [(p.name, S.param_ty(p.t) if p.t[0] in ('a', 'd') else p.t) for p in plans],
              'body': readall('param-read') + [('tag', 'param-write')] + plans[1].write(1) +
              plans[0].write(0, only_unset=True) + readall('param-read2') + calls + readall('param-read3')}
        subs.append(hp)
        main += [('call', 'hp', args), ('tag', 'read-after-call')]
        for p in mplans:
            main += p.read()
        if tys[1][0] in ('a', 'd'):
            # at the very end: the array parameter is passed on to a second routine
            wp = VarPlan('w', tys[1], 1, plain_record_ok=False)
            wl, wk = wp.one_loc(0)
            wt = S.param_ty(tys[1])
            subs.append({'name': 'hq', 'params': [('w', wt)], 'body': [
                ('print', [('str', 'q1'), wl], False), ('call', 'hw', [('arr', 'w')]),
                ('print', [('str', 'q2'), wl], False)]})
            subs.append({'name': 'hw', 'params': [('w', wt)], 'body': [
                ('print', [('str', 'w1'), wl], False), bump(wk, wl, 3)]})
            main += [('tag', 're-pass'), ('call', 'hq', [('arr', 'mb')]), ('print', [mplans[1].one_loc(0)[0]], False)]
    main.append(('end',))
    prog = {'recs': recs, 'main': main, 'subs': subs}
    return prog


def needed(tys):
    need = set()

    def addn(n):
        if n in need:
            return
        need.add(n)
        for fn, ft in S.RECMAP[n]:
            if ft[0] == 'r':
                addn(ft[1])
    for t in tys:
        b = t if t[0] == 'r' else (t[2] if t[0] in ('a', 'd') else None)
        if b is not None and b[0] == 'r':
            addn(b[1])
    return [(n, fs) for n, fs in S.RECORDS if n in need]


# ---------------------------------------------------------------- suite

CONFIGS = [[0, False], [0, True], [1, False], [1, True], [2, False], [2, True]]


def shapes(tier):
    """deterministic enumeration: (class, focus, prev, next, salt, variant)"""
    out = []
    n = 0
    for ci, cls in enumerate(CLASSES):
        for fi, f in enumerate(FOCUS):
            reps = 1 if tier == 'quick' else 2
            if cls == 'static' and f in ('dy1', 'dy2', 'dyr'):
                continue      # a STATIC array with run-time bounds is re-allocated by every call
            if cls == 'param' and f in ('rb', 'rd'):
                continue      # record parameters of two or more cells: the D14 family below
            for r in range(reps):
                salt = ci * 31 + fi * 7 + r * 13
                prev = NEIGH[(ci + fi + r * 2) % len(NEIGH)]
                nxt = NEIGH[(ci * 2 + fi * 3 + r + 1) % len(NEIGH)]
                if cls == 'param':
                    prev = 'ra' if prev == 'rb' else prev
                    nxt = 'ra' if nxt == 'rb' else nxt
                out.append((cls, f, prev, nxt, salt, 'A'))
                has_plain_rec = cls != 'param' and any(x in ('ra', 'rb', 'rc', 'rd') for x in (f, prev, nxt))
                if has_plain_rec:
                    out.append((cls, f, prev, nxt, salt, 'B'))
                n += 1
    return out


def judge(shape, prog, expected, marks, tags, res, cfg):
    """None | (signature, detail)"""
    if 'compile_exc' in res:
        # the front end / code generator rejected or crashed on a valid program
        return (f'C04/sentinel-compile-failed({res["compile_exc"][0]},{res["compile_exc"][1]})', res)
    text = res['text']
    ok_end = res['exc'] is None and not res['limit'] and res['outcome'][0] in ('INSTRUCTION', 'END_OF_CODE')
    if text == expected and ok_end:
        return None
    m = 0
    lim = min(len(text), len(expected))
    while m < lim and text[m] == expected[m]:
        m += 1
    for pos, kind, info in marks:
        if pos <= m:
            if kind == 'd15':
                return (f'C04/sentinel(d15-readidx-unset-field,scope={info})', {'at': m})
            if kind == 'd14':
                return (f'C04/sentinel(d14-record-parameter,cells={info})', {'at': m})
            if kind == 'd45':
                return (f'C04/sentinel(d45-array-argument,kind={info})', {'at': m})
    tag = [t for p, t in tags if p <= m][-1]
    how = 'text' if text != expected else 'end'
    if res['exc'] is not None:
        how = 'exc-' + res['exc'][0]
    elif res['outcome'][1]:
        how = 'trap-' + res['outcome'][1]
    elif res['limit']:
        how = 'tick-limit'
    cls, f, prev, nxt, salt, variant = shape
    return (f'C04/sentinel-mismatch(class={cls},focus={f},phase={tag},{how})', {'at': m})


def sentinel_suite(ctx, tier, only=None):
    shs = shapes(tier)
    # record parameters with two or more cells: the D14 family
    d14 = [('param', f, 'int', 'str', 3 + i, 'A') for i, f in enumerate(['rb', 'rd'])]
    if tier != 'quick':
        d14 += [('param', 'int', 'rb', 'int', 9, 'A'), ('param', 'a1', 'int', 'rc', 10, 'A')]
    shs = shs + d14
    if only is not None:
        shs = [s for s in shs if only(s)]
    cases = []
    for sh in shs:
        prog = build(*sh)
        it = Interp(prog)
        try:
            expected = it.run()
        except RefError as e:
            ctx.broken.append(f'sentinel generator: reference semantics undefined for {sh}: {e}')
            continue
        if sh[5] == 'A' and any(k == 'd15' for _, k, _ in it.marks):
            ctx.broken.append(f'sentinel generator: strict variant reads an unset record field: {sh}')
            continue
        cases.append({'shape': sh, 'src': program_src(prog), 'expected': expected,
                      'marks': it.marks, 'tags': it.tags})
    # quick: all six configurations for every third program, -O0 and -O2 -g for the others
    # (the pyparsing front end dominates the cost and is paid once per configuration)
    for i, c in enumerate(cases):
        c['configs'] = CONFIGS if (tier != 'quick' or i % 3 == 0 or len(CONFIGS) < 6) else [CONFIGS[0], CONFIGS[5]]
    raws = vlib.run_impl('layoutfn.run_sentinel_configs',
                         [{'src': c['src'], 'configs': c['configs']} for c in cases], timeout=40000)
    nrun = 0
    for c, rs in zip(cases, raws):
        if isinstance(rs, dict):
            ctx.broken.append(f'correspondence sentinel: implementation worker failed: {str(rs)[:300]}')
            break
        for cfg, res in zip(c['configs'], rs):
            nrun += 1
            j = judge(c['shape'], None, c['expected'], c['marks'], c['tags'], res, cfg)
            if j is None:
                continue
            sig, det = j
            det.update({'suite': 'sentinel', 'shape': list(c['shape']), 'level': cfg[0], 'debug': cfg[1],
                        'src': c['src'], 'expected': c['expected'],
                        'actual': res.get('text'), 'outcome': res.get('outcome'), 'exc': res.get('exc')})
            ctx.report(sig, det, True)
        ctx.bump('sentinel_class_' + c['shape'][0])
        ctx.bump('sentinel_focus_' + c['shape'][1])
        ctx.bump('sentinel_variant_' + c['shape'][5])
        ctx.bump('sentinel_lines', c['src'].count('\n'))
        ctx.bump('sentinel_expected_chars', len(c['expected']))
    ctx.count('sentinel', nrun, set(json.dumps(c['shape']) for c in cases))
    ctx.rule.append(
        f'b(T-run): sentinel programs for storage class in {CLASSES} x focus shape in {FOCUS} '
        f'({"1 neighbour pair" if tier == "quick" else "2 neighbour pairs"} each from {NEIGH}; variant B adds reads of '
        f'never-assigned record fields; + record-parameter family): {len(cases)} programs, {nrun} compile+run at '
        f'levels 0,1,2 x debug on/off ({"all six for every third program, -O0 and -O2 -g for the others" if tier == "quick" else "all six configurations each"}), compiled by the real compiler and run on the real machine; judged against '
        f'the reference semantics of tools/props/c04gen.py (every location written with its own sentinel, read back '
        f'forward / reverse / after overwriting, unassigned neighbours, by-reference passing of the first and last '
        f'scalar location through recursion depth 2-4 and a 3-level chain with aliasing parameters, fresh locals per '
        f'activation, STATIC per routine, SHARED in every routine, whole arrays / records as parameters); '
        f'non-trivial = distinct program')
    if cases:
        c = cases[len(cases) // 2]
        ctx.sample({'suite': 'sentinel', 'case': c['src'][:1500]})
    return cases
