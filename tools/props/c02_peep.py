"""C02, peephole half: QvmCode.optimize never changes behaviour.
`run(ctx, tier)` is called by tools/props/c02.py (which owns the Ctx).

Theorems: coq/Props/C02_peep_part.v (model Models/Peephole.v).
T-fn: the REAL QvmCode.optimize() on all instruction windows of length <= 2,
all push/push/binary-op triples, sampled triples and seeded longer lists over
an ~80-symbol alphabet, against the extracted model (attribute level).
Property oracle (independent of the model): every window that optimize()
changes is executed before and after on the real machine from the same
constructed states; whole programs are compiled at levels 0..3 and run with
the same scripted inputs."""
import json
import random
import re
import vlib
from props import peepgen as pg
from implfns import peepobs

PART = 'C02_peep_part'
EXC = {1: 'OverflowError', 2: 'ValueError', 3: 'TypeError', 4: 'EvalError', 5: 'KeyError'}


# ------------------------------------------------------------------ proof obligations

def prove_part(ctx):
    """build Props/C02_peep_part.vo and record its theorems as obligations of
    the C02 context (Ctx.prove only knows Props/<prop>.v)"""
    with vlib.Lock():
        ok, log = vlib.coq_make([f'Props/{PART}.vo'])
        if ok:
            ok2, thms, assum, out = vlib.coq_props(PART)
        else:
            src = open(f'{vlib.COQ}/Props/{PART}.v').read()
            thms = re.findall(r'^\s*Theorem\s+([A-Za-z0-9_\']+)', src, re.M)
            ok2, assum, out = False, {}, log
    ctx.obligations += list(thms)
    ctx.assumptions.update(assum)
    ctx.checker_cmd = (ctx.checker_cmd + ' ; ' if ctx.checker_cmd else '') + \
        f'cd {vlib.COQ} && make -j{vlib.NPROC} Props/{PART}.vo && coqc -Q . QV Props/{PART}.v'
    if ok and ok2:
        for t in thms:
            ax = assum.get(t)
            if ax is None:
                ctx.broken.append(f'theorem {t}: no Print Assumptions output')
            elif any(a not in vlib.ALLOWED_AXIOMS for a in ax):
                ctx.broken.append(f'theorem {t}: depends on non-allowed axioms {ax}')
            else:
                ctx.discharged.append(t)
    else:
        m = re.search(r'File "\./([^"]+)", line (\d+)', out)
        where = f'{m.group(1)}:{m.group(2)}' if m else 'unknown file'
        ctx.broken.append(f'Coq build of Props/{PART}.v failed at {where}')
        ctx.extra['coq_error_tail'] = out[-1500:]
    return ok and ok2


# ------------------------------------------------------------------ T-fn

def tfn_suites(ctx, exe, suites):
    """real optimize() vs extracted model on instruction lists.
    suites: [(name, windows)]; one worker batch and one model batch for all.
    Returns {name: [windows that the real optimize() changed]}"""
    flat = [(name, w) for name, ws in suites for w in ws]
    raws = pg.run_chunked('peepfn.opt_list', [{'instrs': w} for _, w in flat], 40000, timeout=3300)
    jobs, its, ok_idx = [], [], []
    for k, ((suite, w), r) in enumerate(zip(flat, raws)):
        if not isinstance(r, dict) or 'in' not in r:
            ctx.broken.append(f'correspondence {suite}: worker failed: {str(r)[:300]}')
            return {}
        it = pg.Intern()
        try:
            jobs.append([1, pg.to_pins(r['in'], it)])
        except pg.Unsupported as e:
            ctx.report(f'C02/peephole-model-cannot-express({pg.window_class(w)})',
                       {'suite': suite, 'window': w, 'what': str(e)}, False)
            continue
        its.append(it)
        ok_idx.append(k)
    mouts = vlib.run_model(exe, jobs)
    keys = {name: set() for name, _ in suites}
    changed = {name: [] for name, _ in suites}
    for k, it, mo in zip(ok_idx, its, mouts):
        (suite, w), r = flat[k], raws[k]
        if isinstance(mo, str):
            ctx.broken.append(f'correspondence {suite}: model driver failed ({mo}) on {w!r}')
            return changed
        st, ml = mo
        if 'exc' not in r and r['in'] != r['out']:
            changed[suite].append(w)
        if st == [3]:
            ctx.bump('tfn:unmodelled(float // or **)')
            continue
        keys[suite].add(json.dumps(w))
        if 'exc' in r:
            # a host exception escaping optimize(): a defect by itself
            cls = pg.window_class(r.get('minimal', w))
            ctx.report(f'C02/peephole-crash({r["exc"]},{cls})',
                       {'suite': suite, 'window': w, 'minimal': r.get('minimal'), 'msg': r.get('msg')}, True)
            ctx.bump('tfn:crash')
            if not (st[0] == 2 and EXC.get(st[1]) == r['exc']):
                ctx.report(f'C02/peephole-model-differs(crash,{pg.window_class(w)})',
                           {'suite': suite, 'window': w, 'impl': r['exc'], 'model_status': st}, False)
            continue
        try:
            ro = pg.to_pins(r['out'], it)
        except pg.Unsupported as e:
            # e.g. a complex number as push operand: outside the model's value type
            ctx.bump('tfn:unmodelled(result value)')
            continue
        if st != [0] or ro != ml:
            ctx.report(f'C02/peephole-model-differs({pg.window_class(w)})',
                       {'suite': suite, 'window': w, 'impl': r['out'], 'model': ml, 'model_status': st}, False)
        ctx.bump('tfn:changed' if r['in'] != r['out'] else 'tfn:unchanged')
    for name, ws in suites:
        ctx.count(name, len(ws), keys[name])
        if ws:
            ctx.sample({'suite': name, 'window': ws[len(ws) // 2]})
    return changed


# ------------------------------------------------------------------ property oracle on windows

def pre_states_for(w, tier):
    if tier == 'thorough' or len(w) <= 2:
        return pg.PRE_STATES
    tcs = {i[0][4] for i in w if i[0].startswith('push') and len(i[0]) == 5}
    want = {'empty'}
    want.add({'%': 'ints', '&': 'longs', '!': 'singles', '#': 'doubles'}.get(sorted(tcs)[0] if tcs else '%', 'ints'))
    return [p for p in pg.PRE_STATES if p[0] in want]


def exec_suites(ctx, suites, tier):
    """suites: [(name, windows the real optimize() changes)]: executed before
    and after on the real machine from the constructed pre-states"""
    cases = []
    for suite, ws in suites:
        for w in ws:
            for name, pre in pre_states_for(w, tier):
                cases.append({'pre': pre, 'window': w, 'pname': name, 'suite': suite})
    rs = pg.run_chunked('peepfn.exec_window', [{'pre': c['pre'], 'window': c['window']} for c in cases], 8000, timeout=3300)
    keys = {name: set() for name, _ in suites}
    n = {name: 0 for name, _ in suites}
    for c, r in zip(cases, rs):
        suite = c['suite']
        if not isinstance(r, dict) or 'harness' in r:
            ctx.broken.append(f'oracle {suite}: worker failed: {str(r)[:300]}')
            return
        n[suite] += 1
        if not r.get('changed') or 'before' not in r:
            ctx.bump('exec:same-final-form')      # e.g. push% 1.0 -> push1%
            continue
        keys[suite].add(json.dumps([c['pname'], c['window']]))
        dk = r['diff']
        ctx.bump('exec:' + ('same' if dk is None else 'differs'))
        if dk is None:
            continue
        cls = pg.window_class(r['minimal'])
        ctx.report(f'C02/peephole-exec-differs({cls},{r["min_diff"]})',
                   {'suite': suite, 'pre_state': c['pname'], 'window': c['window'],
                    'minimal': r['minimal'], 'optimized_to': r.get('after_final'),
                    'before': [peepobs.short(r['before']), r['before'][1] if r['before'][0] == 'end' else None],
                    'after': [peepobs.short(r['after']), r['after'][1] if r['after'][0] == 'end' else None]}, True)
    for name, ws in suites:
        ctx.count(name, n[name], keys[name])
    ctx.bump('exec:windows-changed-by-optimize', sum(len(ws) for _, ws in suites))
    if cases:
        c = cases[len(cases) // 2]
        ctx.sample({'suite': c['suite'], 'pre_state': c['pname'], 'window': c['window']})


# ------------------------------------------------------------------ whole programs at levels 0..3

# (source, construct class): programs known to behave differently at some level
LEVEL_WITNESSES = [
    ('PRINT 1.5 < 1.6\n', 'compare-nonint'),                        # D01
    ('x& = 2000000000 + 2000000000\n', 'long-overflow-const'),      # D02
    ('PRINT "a" = "b"\n', 'string-compare-const'),                  # D03
    ('PRINT -(3e10)\n', 'unary-minus-large-float'),                 # D04
    ('PRINT -0!\n', 'negative-zero-const'),
    ('x# = 3e10\nPRINT x#\n', 'single-literal-converted'),          # peephole push+conv
    ('x% = 0.5000000001!\nPRINT x%\n', 'single-literal-converted'),
    ('a% = -32768\nPRINT -a%\n', 'ok-neg-min-variable'),
    ('PRINT "a" + "b"\n', 'ok-string-concat'),
    ('PRINT 1 / 2\nPRINT 7 \\ 2; 7 MOD 3; 2 ^ 3\n', 'ok-int-arith'),
    ('x! = 0\nPRINT -x!\n', 'ok-neg-zero-variable'),
    ('IF 0 THEN PRINT "a" ELSE PRINT "b"\nIF 1 THEN PRINT "c"\nWHILE 0\nPRINT "never"\nWEND\n', 'ok-constant-conditions'),
    ('GOTO l\nPRINT "dead"\nl:\nPRINT "x"\nEND\nPRINT "dead"\n', 'ok-dead-code'),
    ('a% = 5\na% = a%\nb% = a%\nPRINT a%; b%\n', 'ok-read-store'),
]


def level_pool(ctx, tier):
    corp = vlib.run_impl('corpus.load', [None])[0]
    corp = [c for c in corp if 'src' in c]
    if tier == 'quick':
        off = ctx.rng.randrange(4)
        corp = corp[off::4]
    progs = []
    for c in corp:
        progs.append({'id': f"corpus:{c['file']}:{c['idx']}", 'cls': f"corpus:{c['file']}:{c['idx']}",
                      'src': c['src'],
                      'script': {'lines': ['1', '2', '3'],
                                 'rnd': [pg.fb(x) for x in c['rnd']] + [pg.fb(0.25)] * 5,
                                 'timer': [pg.fb(x) for x in c['timer']] + [pg.fb(1.5)] * 5,
                                 'inkey': c['inkey']}})
    ks = range(120) if tier == 'thorough' else sorted(ctx.rng.sample(range(60), 20))
    for k in ks:
        # fixed pool, seeded by the index only; VERIF_SEED sub-samples it
        progs.append({'id': f'gen{k}', 'cls': f'gen{k}', 'src': pg.gen_program(random.Random(1000 + k), 'opt'),
                      'script': {'lines': ['1', '2', '3'], 'rnd': [pg.fb(0.25)] * 5,
                                 'timer': [pg.fb(1.5)] * 5, 'inkey': []}})
    for k, (src, cls) in enumerate(LEVEL_WITNESSES):
        progs.append({'id': f'witness{k}', 'cls': cls, 'src': src, 'script': {}})
    return progs


def level_suite(ctx, tier):
    progs = level_pool(ctx, tier)
    cases = [{'src': p['src'], 'script': p['script'], 'levels': [0, 1, 2, 3], 'max_ticks': 20000}
             for p in progs]
    rs = pg.run_chunked('peepfn.level_case', cases, 128, timeout=3300)
    keys = set()
    for p, r in zip(progs, rs):
        if not isinstance(r, dict) or 'harness' in r or 'exc' in r:
            ctx.broken.append(f'oracle levels: worker failed on {p["id"]}: {str(r)[:300]}')
            return
        base = dict(r['0'])
        base.pop('ticks', None)
        keys.add(p['id'])
        ctx.bump('levels:verdict:' + (base['verdict'] if base['verdict'] == 'ok' else base['verdict'][0]))
        bad = []
        for lv in ('1', '2', '3'):
            x = dict(r[lv])
            x.pop('ticks', None)
            if x != base:
                bad.append(lv)
        if bad:
            def brief(x):
                if x['verdict'] != 'ok':
                    return {'verdict': x['verdict']}
                if 'asm_exc' in x:
                    return {'assembler': x['asm_exc']}
                return {'stop': x['stop'], 'exc': x['exc'], 'reason': x['reason'], 'trap': x['trap'],
                        'last_events': x['events'][-2:]}
            ctx.report(f'C02/level-differs({p["cls"]},{"+".join(bad)})',
                       {'suite': 'levels', 'program': p['id'], 'src': p['src'],
                        'level0': brief(r['0']), f'level{bad[0]}': brief(r[bad[0]])}, True)
    ctx.count('levels', len(cases) * 4, keys)
    ctx.rule.append(f'levels: {len(progs)} programs (repository corpus{" (every 4th)" if tier == "quick" else ""}, '
                    f'generated programs from a fixed pool, {len(LEVEL_WITNESSES)} witness programs) compiled at levels '
                    '0,1,2,3 and run with the same scripted inputs: acceptance, device events and outcome must equal level 0')
    if progs:
        ctx.sample({'suite': 'levels', 'program': progs[-1]['id'], 'src': progs[-1]['src']})


# ------------------------------------------------------------------ entry

def run(ctx, tier):
    ctx.trusted_base += [
        'peephole half: unverified glue tools/props/peepgen.py (alphabet, encoding of the real QvmInstr attributes into the '
        'model type, interning of names) and tools/implfns/peepfn.py (embedding of a window into a real compiled QvmCode, '
        'machine runs, canonical outcomes)',
        'peephole half, modelled not verified: QvmCode.optimize, expr.UnaryOp.eval, expr.BinaryOp.eval on two literals of one '
        'type, Type.can_hold/py_type in the push+conv rule; float // and float ** beyond small integer exponents are not '
        'modelled (counted as unmodelled); integer ** with exponent >= 2^31-1 is excluded from the enumeration (the real '
        'optimize() does not terminate in reasonable time on it)',
    ]
    prove_part(ctx)
    exe = ctx.model('Peephole')

    w2 = pg.windows_upto2()
    ppb = pg.windows_ppb()
    # fixed pools (independent of VERIF_SEED): thorough takes all of them, quick
    # a seed-chosen slice, so quick is a subset of thorough for every seed
    N3, NL = 120000, 15000
    w3 = pg.window3_stream(random.Random(17), N3)
    wl = pg.long_lists(random.Random(29), NL)
    n3, nl = N3, len(wl)
    if tier == 'quick':
        n3, nl = 4000, 800
        a = ctx.rng.randrange(0, N3 - n3)
        b = ctx.rng.randrange(0, NL - nl)
        w3 = w3[a:a + n3]
        wl = wl[b:b + nl] + wl[-2:]
    suites = [('peep-windows<=2', w2), ('peep-push-push-op', ppb), ('peep-windows3-sampled', w3),
              ('peep-long-lists', wl)]
    nhaz = sum(1 for _, ws in suites for w in ws if pg.exp_hazard(w))
    suites = [(name, [w for w in ws if not pg.exp_hazard(w)]) for name, ws in suites]
    changed = tfn_suites(ctx, exe, suites)
    ctx.bump('excluded(integer ** with huge exponent)', nhaz)
    ctx.rule.append(f'T-fn: real QvmCode.optimize() vs extracted model on ALL windows of length <= 2 ({len(w2)}) over an '
                    f'{len(pg.ALPHABET)}-symbol alphabet (pushes of each type with boundary operands, every conv, read/store of '
                    'local/global variables, not/neg, 12 foldable binary ops + cmp, jmp/jz/ijmp/ret/retv/halt, _label, '
                    f'_dbg_info_start/_end, _empty_block, io/pop/dupl), ALL push/push/op triples ({len(ppb)}), {n3} sampled '
                    f'triples and {nl} seeded lists of length 4..12; compared at attribute level (op, type chars, scope, args '
                    'with Python type); non-trivial = distinct instruction list')
    ex = []
    for name, _ in suites[:3]:
        ws = changed.get(name, [])
        ex.append((name.replace('peep-', 'exec-'), ws))
    exec_suites(ctx, ex, tier)
    ctx.rule.append('property oracle (no model involved): every window the real optimize() changes is assembled by the real '
                    'QvmCode into a real module (variables declared, jump targets defined) and run on the real machine before '
                    f'and after, from {len(pg.PRE_STATES)} constructed states (typed operands on the stack, variables set/unset): '
                    'stack, variables (an unset cell = its default), control outcome and events must agree')
    level_suite(ctx, tier)
