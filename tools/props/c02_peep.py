"""C02, peephole half: QvmCode.optimize never changes behaviour.
`run(ctx, tier)` is called by tools/props/c02.py (which owns the Ctx).

Theorems: coq/Props/C02_peep_part.v (model Models/Peephole.v).
T-fn: the REAL QvmCode.optimize() on all instruction windows of length <= 2,
all push/push/binary-op triples, sampled triples and seeded longer lists over
an ~80-symbol alphabet, against the extracted model (attribute level).
Property oracle (independent of the model): every window that optimize()
changes is executed before and after on the real machine from the same
constructed states; whole programs are compiled at levels 0..3 and run with
the same scripted inputs."""
import json
import random
import re
import vlib
from props import peepgen as pg

PART = 'C02_peep_part'
EXC = {1: 'OverflowError', 2: 'ValueError', 3: 'TypeError', 4: 'EvalError', 5: 'KeyError'}
NEGZERO = 0x8000000000000000


# ------------------------------------------------------------------ proof obligations

def prove_part(ctx):
    """build Props/C02_peep_part.vo and record its theorems as obligations of
    the C02 context (Ctx.prove only knows Props/<prop>.v)"""
    with vlib.Lock():
        ok, log = vlib.coq_make([f'Props/{PART}.vo'])
        if ok:
            ok2, thms, assum, out = vlib.coq_props(PART)
        else:
            src = open(f'{vlib.COQ}/Props/{PART}.v').read()
            thms = re.findall(r'^\s*Theorem\s+([A-Za-z0-9_\']+)', src, re.M)
            ok2, assum, out = False, {}, log
    ctx.obligations += list(thms)
    ctx.assumptions.update(assum)
    ctx.checker_cmd = (ctx.checker_cmd + ' ; ' if ctx.checker_cmd else '') + \
        f'cd {vlib.COQ} && make -j{vlib.NPROC} Props/{PART}.vo && coqc -Q . QV Props/{PART}.v'
    if ok and ok2:
        for t in thms:
            ax = assum.get(t)
            if ax is None:
                ctx.broken.append(f'theorem {t}: no Print Assumptions output')
            elif any(a not in vlib.ALLOWED_AXIOMS for a in ax):
                ctx.broken.append(f'theorem {t}: depends on non-allowed axioms {ax}')
            else:
                ctx.discharged.append(t)
    else:
        m = re.search(r'File "\./([^"]+)", line (\d+)', out)
        where = f'{m.group(1)}:{m.group(2)}' if m else 'unknown file'
        ctx.broken.append(f'Coq build of Props/{PART}.v failed at {where}')
        ctx.extra['coq_error_tail'] = out[-1500:]
    return ok and ok2


# ------------------------------------------------------------------ T-fn

def tfn_suite(ctx, exe, suite, windows):
    """real optimize() vs extracted model on instruction lists"""
    raws = vlib.run_impl('peepfn.opt_list', [{'instrs': w} for w in windows])
    jobs, its, ok_idx = [], [], []
    for k, (w, r) in enumerate(zip(windows, raws)):
        if not isinstance(r, dict) or 'in' not in r:
            ctx.broken.append(f'correspondence {suite}: worker failed: {str(r)[:300]}')
            return
        it = pg.Intern()
        try:
            jobs.append([1, pg.to_pins(r['in'], it)])
        except pg.Unsupported as e:
            ctx.report(f'C02/peephole-model-cannot-express({pg.window_class(w)})',
                       {'suite': suite, 'window': w, 'what': str(e)}, False)
            continue
        its.append(it)
        ok_idx.append(k)
    mouts = vlib.run_model(exe, jobs)
    keys = set()
    for k, it, mo in zip(ok_idx, its, mouts):
        w, r = windows[k], raws[k]
        if isinstance(mo, str):
            ctx.broken.append(f'correspondence {suite}: model driver failed ({mo}) on {w!r}')
            return
        st, ml = mo
        if st == [3]:
            ctx.bump('tfn:unmodelled(float // or **)')
            continue
        keys.add(json.dumps(w))
        if 'exc' in r:
            # a host exception escaping optimize(): a defect by itself
            cls = pg.window_class(r.get('minimal', w))
            ctx.report(f'C02/peephole-crash({r["exc"]},{cls})',
                       {'suite': suite, 'window': w, 'minimal': r.get('minimal'), 'msg': r.get('msg')}, True)
            ctx.bump('tfn:crash')
            if not (st[0] == 2 and EXC.get(st[1]) == r['exc']):
                ctx.report(f'C02/peephole-model-differs(crash,{pg.window_class(w)})',
                           {'suite': suite, 'window': w, 'impl': r['exc'], 'model_status': st}, False)
            continue
        try:
            ro = pg.to_pins(r['out'], it)
        except pg.Unsupported as e:
            # e.g. a complex number as push operand: outside the model's value type
            ctx.bump('tfn:unmodelled(result value)')
            continue
        if st != [0] or ro != ml:
            ctx.report(f'C02/peephole-model-differs({pg.window_class(w)})',
                       {'suite': suite, 'window': w, 'impl': r['out'], 'model': ml, 'model_status': st}, False)
        ctx.bump('tfn:changed' if r['in'] != r['out'] else 'tfn:unchanged')
    ctx.count(suite, len(windows), keys)
    if windows:
        ctx.sample({'suite': suite, 'window': windows[len(windows) // 2]})


# ------------------------------------------------------------------ property oracle on windows

def short(o):
    if o[0] == 'end':
        reason, trap = o[5], o[6]
        return f'trap({trap})' if reason == 3 else 'ok'
    if o[0] in ('asm-exc', 'host-exc'):
        return f'{o[0]}({o[1]})'
    return o[0]


def unsign(x):
    if isinstance(x, list):
        if len(x) == 2 and x[0] in (3, 4) and x[1] == NEGZERO:
            return [x[0], 0]
        return [unsign(y) for y in x]
    return x


DEFAULTS = ([1, 0], [2, 0], [3, 0], [4, 0], [5, []])


def obs_cells(a, b):
    """cell lists equal up to: an unset cell = the default a read materialises"""
    if len(a) != len(b):
        return False
    for x, y in zip(a, b):
        if x == y:
            continue
        if (x == [] and y in DEFAULTS) or (y == [] and x in DEFAULTS):
            continue
        return False
    return True


def obs_heap(ha, hb):
    if len(ha) != len(hb):
        return False
    return all(ka == kb and obs_cells(ca, cb) for (ka, ca), (kb, cb) in zip(ha, hb))


def diffkind(b, a):
    """None when the two outcomes are observably equal"""
    if b[0] != a[0]:
        return f'{short(b)}->{short(a)}'
    if b[0] == 'limit':
        return None if b[1] == a[1] else 'events'
    if b[0] != 'end':
        return None if b == a else f'{short(b)}->{short(a)}'
    if b[4:9] != a[4:9]:
        return f'{short(b)}->{short(a)}'
    if b[11] != a[11]:
        return 'events'
    if b[1] != a[1]:
        if unsign(b[1]) == unsign(a[1]):
            return 'zero-sign'
        if b[1] and a[1] and b[1][-1] != a[1][-1] and b[1][:-1] == a[1][:-1]:
            return 'path'
        return 'stack'
    if b[3] != a[3] or b[9:11] != a[9:11]:
        return 'control'
    if not obs_heap(b[2], a[2]):
        return 'zero-sign' if obs_heap(unsign(b[2]), unsign(a[2])) else 'vars'
    return None


def pre_states_for(w, tier):
    if tier == 'thorough' or len(w) <= 2:
        return pg.PRE_STATES
    tcs = {i[0][4] for i in w if i[0].startswith('push') and len(i[0]) == 5}
    want = {'empty'}
    want.add({'%': 'ints', '&': 'longs', '!': 'singles', '#': 'doubles'}.get(sorted(tcs)[0] if tcs else '%', 'ints'))
    return [p for p in pg.PRE_STATES if p[0] in want]


def exec_suite(ctx, suite, windows, tier):
    """windows that the real optimize() changes, executed before and after"""
    probe = vlib.run_impl('peepfn.exec_window', [{'pre': [], 'window': w} for w in windows])
    cases = []
    for w, r in zip(windows, probe):
        if not isinstance(r, dict) or 'harness' in r:
            ctx.broken.append(f'oracle {suite}: worker failed: {str(r)[:300]}')
            return
        if r.get('changed'):
            for name, pre in pre_states_for(w, tier):
                cases.append({'pre': pre, 'window': w, 'pname': name})
        elif 'exc' in r:
            ctx.bump('exec:optimize-raised')      # reported by the T-fn suite
    rs = vlib.run_impl('peepfn.exec_window', cases)
    keys = set()
    for c, r in zip(cases, rs):
        if not isinstance(r, dict) or 'harness' in r or 'before' not in r:
            ctx.broken.append(f'oracle {suite}: worker failed: {str(r)[:300]}')
            return
        keys.add(json.dumps([c['pname'], c['window']]))
        dk = diffkind(r['before'], r['after'])
        ctx.bump('exec:' + ('same' if dk is None else 'differs'))
        if dk is None:
            continue
        cls = pg.window_class(r.get('minimal', c['window']))
        ctx.report(f'C02/peephole-exec-differs({cls},{dk})',
                   {'suite': suite, 'pre_state': c['pname'], 'window': c['window'],
                    'minimal': r.get('minimal'), 'optimized_to': r.get('after_final'),
                    'before': [short(r['before']), r['before'][1] if r['before'][0] == 'end' else None],
                    'after': [short(r['after']), r['after'][1] if r['after'][0] == 'end' else None]}, True)
    ctx.count(suite, len(cases), keys)
    ctx.bump('exec:windows-changed-by-optimize', len({json.dumps(c['window']) for c in cases}))
    if cases:
        c = cases[len(cases) // 2]
        ctx.sample({'suite': suite, 'pre_state': c['pname'], 'window': c['window']})


# ------------------------------------------------------------------ whole programs at levels 0..3

# (source, construct class): programs known to behave differently at some level
LEVEL_WITNESSES = [
    ('PRINT 1.5 < 1.6\n', 'compare-nonint'),                        # D01
    ('x& = 2000000000 + 2000000000\n', 'long-overflow-const'),      # D02
    ('PRINT "a" = "b"\n', 'string-compare-const'),                  # D03
    ('PRINT -(3e10)\n', 'unary-minus-large-float'),                 # D04
    ('PRINT -0!\n', 'negative-zero-const'),
    ('x# = 3e10\nPRINT x#\n', 'single-literal-converted'),          # peephole push+conv
    ('x% = 0.5000000001!\nPRINT x%\n', 'single-literal-converted'),
    ('a% = -32768\nPRINT -a%\n', 'ok-neg-min-variable'),
    ('PRINT "a" + "b"\n', 'ok-string-concat'),
    ('PRINT 1 / 2\nPRINT 7 \\ 2; 7 MOD 3; 2 ^ 3\n', 'ok-int-arith'),
    ('x! = 0\nPRINT -x!\n', 'ok-neg-zero-variable'),
    ('IF 0 THEN PRINT "a" ELSE PRINT "b"\nIF 1 THEN PRINT "c"\nWHILE 0\nPRINT "never"\nWEND\n', 'ok-constant-conditions'),
    ('GOTO l\nPRINT "dead"\nl:\nPRINT "x"\nEND\nPRINT "dead"\n', 'ok-dead-code'),
    ('a% = 5\na% = a%\nb% = a%\nPRINT a%; b%\n', 'ok-read-store'),
]


def level_pool(ctx, tier):
    corp = vlib.run_impl('corpus.load', [None])[0]
    corp = [c for c in corp if 'src' in c]
    if tier == 'quick':
        off = ctx.rng.randrange(4)
        corp = corp[off::4]
    progs = []
    for c in corp:
        progs.append({'id': f"corpus:{c['file']}:{c['idx']}", 'cls': f"corpus:{c['file']}:{c['idx']}",
                      'src': c['src'],
                      'script': {'lines': ['1', '2', '3'],
                                 'rnd': [pg.fb(x) for x in c['rnd']] + [pg.fb(0.25)] * 5,
                                 'timer': [pg.fb(x) for x in c['timer']] + [pg.fb(1.5)] * 5,
                                 'inkey': c['inkey']}})
    ks = range(180) if tier == 'thorough' else sorted(ctx.rng.sample(range(60), 20))
    for k in ks:
        # fixed pool, seeded by the index only; VERIF_SEED sub-samples it
        progs.append({'id': f'gen{k}', 'cls': f'gen{k}', 'src': pg.gen_program(random.Random(1000 + k), 'opt'),
                      'script': {'lines': ['1', '2', '3'], 'rnd': [pg.fb(0.25)] * 5,
                                 'timer': [pg.fb(1.5)] * 5, 'inkey': []}})
    for k, (src, cls) in enumerate(LEVEL_WITNESSES):
        progs.append({'id': f'witness{k}', 'cls': cls, 'src': src, 'script': {}})
    return progs


def level_suite(ctx, tier):
    progs = level_pool(ctx, tier)
    cases = [{'src': p['src'], 'script': p['script'], 'levels': [0, 1, 2, 3], 'max_ticks': 20000}
             for p in progs]
    rs = vlib.run_impl('peepfn.level_case', cases)
    keys = set()
    for p, r in zip(progs, rs):
        if not isinstance(r, dict) or 'harness' in r or 'exc' in r:
            ctx.broken.append(f'oracle levels: worker failed on {p["id"]}: {str(r)[:300]}')
            return
        base = dict(r['0'])
        base.pop('ticks', None)
        keys.add(p['id'])
        ctx.bump('levels:verdict:' + (base['verdict'] if base['verdict'] == 'ok' else base['verdict'][0]))
        bad = []
        for lv in ('1', '2', '3'):
            x = dict(r[lv])
            x.pop('ticks', None)
            if x != base:
                bad.append(lv)
        if bad:
            def brief(x):
                if x['verdict'] != 'ok':
                    return {'verdict': x['verdict']}
                if 'asm_exc' in x:
                    return {'assembler': x['asm_exc']}
                return {'stop': x['stop'], 'exc': x['exc'], 'reason': x['reason'], 'trap': x['trap'],
                        'last_events': x['events'][-2:]}
            ctx.report(f'C02/level-differs({p["cls"]},{"+".join(bad)})',
                       {'suite': 'levels', 'program': p['id'], 'src': p['src'],
                        'level0': brief(r['0']), f'level{bad[0]}': brief(r[bad[0]])}, True)
    ctx.count('levels', len(cases) * 4, keys)
    ctx.rule.append(f'levels: {len(progs)} programs (repository corpus{" (every 4th)" if tier == "quick" else ""}, '
                    f'generated programs from a fixed pool, {len(LEVEL_WITNESSES)} witness programs) compiled at levels '
                    '0,1,2,3 and run with the same scripted inputs: acceptance, device events and outcome must equal level 0')
    if progs:
        ctx.sample({'suite': 'levels', 'program': progs[-1]['id'], 'src': progs[-1]['src']})


# ------------------------------------------------------------------ entry

def run(ctx, tier):
    ctx.trusted_base += [
        'peephole half: unverified glue tools/props/peepgen.py (alphabet, encoding of the real QvmInstr attributes into the '
        'model type, interning of names) and tools/implfns/peepfn.py (embedding of a window into a real compiled QvmCode, '
        'machine runs, canonical outcomes)',
        'peephole half, modelled not verified: QvmCode.optimize, expr.UnaryOp.eval, expr.BinaryOp.eval on two literals of one '
        'type, Type.can_hold/py_type in the push+conv rule; float // and float ** beyond small integer exponents are not '
        'modelled (counted as unmodelled); integer ** with exponent >= 2^31-1 is excluded from the enumeration (the real '
        'optimize() does not terminate in reasonable time on it)',
    ]
    prove_part(ctx)
    exe = ctx.model('Peephole')

    w2 = pg.windows_upto2()
    ppb = pg.windows_ppb()
    # fixed pools (independent of VERIF_SEED): thorough takes all of them, quick
    # a seed-chosen slice, so quick is a subset of thorough for every seed
    N3, NL = 120000, 15000
    w3 = pg.window3_stream(random.Random(17), N3)
    wl = pg.long_lists(random.Random(29), NL)
    n3, nl = N3, len(wl)
    if tier == 'quick':
        n3, nl = 4000, 800
        a = ctx.rng.randrange(0, N3 - n3)
        b = ctx.rng.randrange(0, NL - nl)
        w3 = w3[a:a + n3]
        wl = wl[b:b + nl] + wl[-2:]
    suites = [('peep-windows<=2', w2), ('peep-push-push-op', ppb), ('peep-windows3-sampled', w3),
              ('peep-long-lists', wl)]
    nhaz = 0
    for name, ws in suites:
        keep = [w for w in ws if not pg.exp_hazard(w)]
        nhaz += len(ws) - len(keep)
        tfn_suite(ctx, exe, name, keep)
    ctx.bump('excluded(integer ** with huge exponent)', nhaz)
    ctx.rule.append(f'T-fn: real QvmCode.optimize() vs extracted model on ALL windows of length <= 2 ({len(w2)}) over an '
                    f'{len(pg.ALPHABET)}-symbol alphabet (pushes of each type with boundary operands, every conv, read/store of '
                    'local/global variables, not/neg, 12 foldable binary ops + cmp, jmp/jz/ijmp/ret/retv/halt, _label, '
                    f'_dbg_info_start/_end, _empty_block, io/pop/dupl), ALL push/push/op triples ({len(ppb)}), {n3} sampled '
                    f'triples and {nl} seeded lists of length 4..12; compared at attribute level (op, type chars, scope, args '
                    'with Python type); non-trivial = distinct instruction list')
    for name, ws in suites[:3]:
        keep = [w for w in ws if not pg.exp_hazard(w)]
        if name == 'peep-windows3-sampled' and tier == 'quick':
            keep = keep[:1500]
        exec_suite(ctx, name.replace('peep-', 'exec-'), keep, tier)
    ctx.rule.append('property oracle (no model involved): every window the real optimize() changes is assembled by the real '
                    'QvmCode into a real module (variables declared, jump targets defined) and run on the real machine before '
                    f'and after, from {len(pg.PRE_STATES)} constructed states (typed operands on the stack, variables set/unset): '
                    'stack, variables (an unset cell = its default), control outcome and events must agree')
    level_suite(ctx, tier)
