"""C04 T-isa: the memory instructions of the real QvmCpu.tick vs Models/Cpu.v
on constructed states: a globals segment, two call frames (the current one
holds parameters, a by-value temporary and an in-line static array), and a
heap array segment.  In-range and out-of-range operands, every cell type."""
import json
import struct
import vlib


def fb(x):
    return struct.unpack('>Q', struct.pack('>d', x))[0]


def S(s):
    return [5, [ord(c) for c in s]]


NONE = []
I = lambda z: [1, z]          # noqa: E731
L = lambda z: [2, z]          # noqa: E731
R = lambda g, i: [7, g, i]    # noqa: E731
SG = [3, fb(1.5)]
DB = [4, fb(-2.25)]

# heap of the test state
GLOBALS = [I(5), NONE, S('g'), R(3, 0), NONE, DB]
F1 = [R(0, 0), I(1), NONE, L(7), I(9)]                       # original size 4, one temporary
F2 = [R(1, 1), R(2, 10), NONE, L(1), L(1), L(-1), L(1),      # params 0,1; static array rank 1 at base 2
      I(70), NONE, S('e'), I(55)]                            #   elements 7..9; temporary at 10
ARR = [NONE, L(2), L(2), L(0), L(1), L(-1), L(0)] + \
      [I(100), S('a0'), NONE, NONE, L(102), NONE, NONE, SG] + [NONE] * 8   # rank 2, es 2, (0..1) x (-1..0)


def heap():
    return [[0, [list(c) for c in GLOBALS]],
            [[1, -1, 5, 5, 4], [list(c) for c in F1]],
            [[1, 1, 20, 30, 10], [list(c) for c in F2]],
            [2, [list(c) for c in ARR]]]


def state(stack, cur=2, hp=None):
    """(impl state dict, model state sx)"""
    hp = hp if hp is not None else heap()
    sd = {'pc': 0, 'stack': stack, 'heap': hp, 'cur': cur}
    sx = [0, stack, hp, cur, 0, 1, 0, 1, -1, 0, 0, 0, 0, 0, [], [[], [], [], []]]
    return sd, sx


def module(code):
    code = list(code) + [100]         # halt
    md = {'code': code, 'literals': [], 'data': [], 'nglobals': len(GLOBALS), 'stmts': None}
    sx = [code, [], [], len(GLOBALS), []]
    return md, sx


TCH = {1: '%', 2: '&', 3: '!', 4: '#', 5: '$', 7: '@'}
VALS = [I(3), L(-4), SG, DB, S('v'), R(0, 1)]
REFS = [R(0, 0), R(0, 1), R(0, 5), R(0, 6), R(0, -1), R(1, 2), R(1, 4), R(1, 5), R(2, 0), R(2, 2), R(2, 8),
        R(2, 10), R(2, 11), R(3, 0), R(3, 7), R(3, 9), R(3, 22), R(3, 23), R(3, -24), R(2, 70000)]


def cases(tier):
    """list of (tag, [instr...], stack, cur)"""
    out = []
    big = tier != 'quick'
    gidx = [0, 1, 2, 3, 5, 6, 7, 65535]
    lidx = [0, 1, 2, 3, 7, 8, 9, 10, 11, 12, 65535]
    for ty in (1, 2, 3, 4, 5, 7):
        for i in gidx:
            out.append(('readg', [['readg' + TCH[ty], i]], [], 2))
        for i in lidx:
            out.append(('readl', [['readl' + TCH[ty], i]], [I(1)], 2))
        out.append(('readl-noframe', [['readl' + TCH[ty], 0]], [], -1))
    pairs = [(0, 0), (0, 1), (1, 1), (2, 1), (0, 4), (1, 3), (2, 6), (7, 1), (7, 0), (6, 2), (2, 7), (4, 4),
             (10, 1), (9, 2), (11, 0), (0, 11), (65535, 1), (1, 65535), (3, 1), (1, 0)]
    for ty in (1, 2, 3, 4, 5):
        for v, i in pairs:
            out.append(('readidxg', [['readidxg' + TCH[ty], v, i]], [], 2))
            out.append(('readidxl', [['readidxl' + TCH[ty], v, i]], [], 2))
        out.append(('readidxl-noframe', [['readidxl' + TCH[ty], 0, 1]], [], -1))
    for val in VALS:
        for i in gidx:
            out.append(('storeg', [['storeg', i]], [L(1), val], 2))
        for i in lidx:
            out.append(('storel', [['storel', i]], [L(1), val], 2))
        for v, i in pairs[:12] + pairs[12:] * (1 if big else 0):
            out.append(('storeidxg', [['storeidxg', v, i]], [val], 2))
            out.append(('storeidxl', [['storeidxl', v, i]], [val], 2))
        for r in REFS:
            out.append(('storeref', [['storeref']], [I(8), val, r], 2))
    out.append(('storel-noframe', [['storel', 0]], [I(1)], -1))
    for op in (['storeg', 0], ['storel', 0], ['storeidxl', 1, 1], ['storeref'], ['deref%'], ['refidx'],
               ['arridx', 1], ['frame', 1, 1], ['ret'], ['retv']):
        out.append(('empty-stack', [op], [], 2))
    out.append(('storeref-noref', [['storeref']], [I(1), I(2)], 2))
    out.append(('storeref-onlyref', [['storeref']], [R(0, 0)], 2))
    for ty in (1, 2, 3, 4, 5):
        for r in REFS:
            out.append(('deref', [['deref' + TCH[ty]]], [S('k'), r], 2))
        out.append(('deref-nonref', [['deref' + TCH[ty]]], [I(1)], 2))
    for r in REFS[:12]:
        for ix in (I(0), I(1), I(-1), L(2), L(70000), SG, S('x'), R(0, 0)):
            out.append(('refidx', [['refidx']], [r, ix], 2))
    for i in (0, 1, 5, 6, 65535):
        out.append(('pushrefg', [['pushrefg', i]], [], 2))
        out.append(('pushrefl', [['pushrefl', i]], [], 2))
        out.append(('pushrefl', [['pushrefl', i]], [], 1))
    out.append(('pushrefl-noframe', [['pushrefl', 0]], [], -1))
    # arridx: the in-line static array of the current frame (rank 1, -1..1), the heap array (rank 2)
    for ix in (-2, -1, 0, 1, 2):
        out.append(('arridx-frame', [['arridx', 1]], [L(ix), R(2, 2)], 2))
        out.append(('arridx-frame-int', [['arridx', 1]], [I(ix), R(2, 2)], 2))
    for a in (-1, 0, 1, 2):
        for b in (-2, -1, 0, 1):
            out.append(('arridx-heap', [['arridx', 2]], [L(a), L(b), R(3, 0)], 2))
    out.append(('arridx-rank', [['arridx', 1]], [L(0), R(3, 0)], 2))
    out.append(('arridx-rank', [['arridx', 2]], [L(0), L(0), R(2, 2)], 2))
    out.append(('arridx-rank', [['arridx', 3]], [L(0), L(0), L(0), R(3, 0)], 2))
    out.append(('arridx-rank', [['arridx', 0]], [R(3, 0)], 2))
    out.append(('arridx-nohdr', [['arridx', 1]], [L(0), R(0, 0)], 2))      # cells that are no header
    out.append(('arridx-nohdr', [['arridx', 1]], [L(0), R(0, 3)], 2))
    out.append(('arridx-nohdr', [['arridx', 1]], [L(0), R(1, 1)], 2))
    out.append(('arridx-nohdr', [['arridx', 1]], [L(0), R(2, 9)], 2))
    out.append(('arridx-short', [['arridx', 2]], [L(0), R(3, 0)], 2))
    for op in ('lbound', 'ubound'):
        for d in (0, 1, 2, 3):
            out.append((op, [[op]], [R(3, 0), L(d)], 2))
            out.append((op, [[op]], [R(2, 2), L(d)], 2))
        out.append((op, [[op]], [R(0, 0), L(1)], 2))
    # frame: argument kinds, too few arguments, sizes
    argsets = [[], [I(1)], [R(0, 2)], [I(1), R(2, 7)], [R(3, 8), S('t')], [R(0, 0), I(2), DB],
               [SG, L(3), R(1, 1), I(4)]]
    for p in (0, 1, 2, 3, 4):
        for lsz in (0, 1, 3):
            for args in argsets:
                out.append(('frame', [['frame', p, lsz]], [L(77)] + args + [L(40)], 2))
    out.append(('frame-noret', [['frame', 1, 1]], [I(1), I(2)], 2))
    out.append(('frame-noframe', [['frame', 1, 0]], [I(1), L(40)], -1))
    # ret / retv
    for stk in ([L(12)], [I(12)], [L(9), L(12)], [S('x')]):
        out.append(('ret', [['ret']], stk, 2))
        out.append(('ret', [['ret']], stk, 1))
        out.append(('ret-noframe', [['ret']], stk, -1))
    # (retv of a reference to an UNSET cell is left out: Models/Cpu.v raises the
    #  AttributeError before the return address is popped, the code after; both crash)
    for rv in VALS[:5] + [R(2, 7), R(0, 0), R(0, 6)]:
        out.append(('retv', [['retv']], [L(12), rv], 2))
    # allocarr / initarr
    for n, es in ((1, 1), (2, 1), (2, 3), (3, 2), (0, 1)):
        bl = [L(0), L(1), L(-1), L(1), L(2), L(2)][:2 * n]
        out.append(('allocarr', [['allocarr', n, es]], [I(9)] + bl, 2))
    out.append(('allocarr-badbounds', [['allocarr', 1, 1]], [L(2), L(1)], 2))
    for base in (0, 2, 4, 8):
        out.append(('initarrl', [['initarrl', base, 1, 1]], [L(-2), L(0)], 2))
        out.append(('initarrl', [['initarrl', base, 2, 2]], [L(0), L(1), L(1), L(1)], 2))
        out.append(('initarrg', [['initarrg', base, 1, 1]], [L(-2), L(0)], 2))
    return out


# sequences: several ticks from a constructed state
def sequences():
    out = []
    # field of a record parameter: readl@ p; push% 1; refidx; deref%  and then the parameter again
    out.append(('refidx-after-readref', [['readl@', 0], ['push1%'], ['refidx'], ['deref%'], ['readl@', 0], ['deref%']],
                [], 2, 6))
    out.append(('refidx-after-pushref', [['pushrefl', 7], ['push1%'], ['refidx'], ['deref%'], ['pushrefl', 7], ['deref%']],
                [], 2, 6))
    # write through a parameter, read the caller's cell back (frame 1 cell 1)
    out.append(('storeref-through-param', [['push%', 42], ['readl@', 0], ['storeref'], ['readl@', 0], ['deref%']],
                [], 2, 5))
    # element of the in-line array: write, read neighbours
    out.append(('array-elem-write', [['push%', 9], ['push&', 0], ['pushrefl', 2], ['arridx', 1], ['storeref'],
                                     ['push&', -1], ['pushrefl', 2], ['arridx', 1], ['deref%'],
                                     ['push&', 1], ['pushrefl', 2], ['arridx', 1], ['deref$']], [], 2, 13))
    # frame then ret: the caller's frame is current again and unchanged
    out.append(('frame-ret', [['frame', 1, 2], ['push%', 5], ['storel', 1], ['readl@', 0], ['deref%'], ['pop'], ['ret']],
                [I(3), L(20)], 2, 7))
    return out


def run_ticks(ctx, mexe, cs):
    """cs: (tag, instrs, stack, cur[, n]) -> list of (case, impl, model)"""
    asm = vlib.run_impl('layoutfn.assemble', [c[1] for c in cs])
    icases, jobs = [], []
    for c, code in zip(cs, asm):
        if isinstance(code, dict):
            ctx.broken.append(f'correspondence isa: cannot assemble {c[1]}: {code}')
            return []
        md, mx = module(code)
        sd, sx = state(c[2], c[3])
        n = c[4] if len(c) > 4 else 1
        icases.append({'module': md, 'state': sd, 'n': n})
        jobs.append([3, mx, sx, n])
    raws = vlib.run_impl('layoutfn.ticks_case', icases)
    mouts = vlib.run_model(mexe, jobs)
    return list(zip(cs, raws, mouts))


def norm(raw):
    if isinstance(raw, list) and raw and raw[0] == 1:
        return raw[:4]
    return raw


def isa_suite(ctx, mexe, tier):
    cs = cases(tier)
    res = run_ticks(ctx, mexe, cs)
    ops = set()
    for c, raw, mo in res:
        if isinstance(raw, dict) or isinstance(mo, str):
            ctx.broken.append(f'correspondence isa: {str(raw)[:200]} {str(mo)[:100]} on {c}')
            break
        ops.add(c[1][0][0])
        ctx.bump('isa_' + c[0])
        if norm(raw) != mo:
            ctx.report(f'C04/isa-differs({c[1][0][0]},{c[0]})',
                       {'suite': 'isa', 'case': list(c), 'impl': raw, 'model': mo}, False)
    ctx.count('isa', len(cs), set(json.dumps(c[1:]) for c in cs))
    seqs = sequences()
    res = run_ticks(ctx, mexe, seqs)
    for c, raw, mo in res:
        if isinstance(raw, dict) or isinstance(mo, str):
            ctx.broken.append(f'correspondence isa-seq: {str(raw)[:200]} {str(mo)[:100]} on {c}')
            break
        if norm(raw) != mo:
            # the property demands what the model says here (computing a field
            # reference must not change the parameter): an implementation failure
            ctx.report(f'C04/isa-seq-differs({c[0]})',
                       {'suite': 'isa-seq', 'case': list(c), 'impl': raw, 'model': mo}, True)
    ctx.count('isa_seq', len(seqs), set(c[0] for c in seqs))
    ctx.rule.append(f'c(T-isa): one real tick vs Models/Cpu.v on a constructed state (globals, two frames with '
                    f'parameters / a by-value temporary / an in-line static array, a heap array): '
                    f'{len(cs)} cases over {sorted(ops)} with in-range, out-of-range, negative and 65535 operands, '
                    f'every cell type, unset cells, references into every segment, empty stack, no current frame; '
                    f'+ {len(seqs)} multi-tick sequences (field of a record parameter, store through a parameter, '
                    f'array element neighbours, frame/ret)')
    if cs:
        ctx.sample({'suite': 'isa', 'case': json.dumps(cs[len(cs) // 3][:4])})
