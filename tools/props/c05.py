"""C05 - static errors are rejected at compile time with a located diagnostic.

Theorems: coq/Props/C05.v (block assembler against the block grammar; operator
typing table of the code against the typing rule).
Ties:  T-gen  tools/gen_c05_tables.py regenerates coq/Gen/TypeTable.v from the
              imported code; the table is also checked end to end (one-line programs);
       T-txt  fault enumeration: ~60 valid base programs x every applicable site x
              the fault catalogue (tools/c05faults.py) against the REAL compiler at
              the six configurations; repeat families (label reuse across routines,
              CONST operands referenced elsewhere, statements repeated verbatim:
              tools/c05faults.py repeat_families); the extracted Blocks model on the real
              statement stream of every block fault and on synthetic streams."""
import itertools
import json
import os
import random
import re
import subprocess

import vlib
from vlib import Ctx

import c05gen
import c05faults
import gen_c05_tables

PROP = 'C05'
CFGS = [[lv, dbg] for lv in (0, 1, 2) for dbg in (0, 1)]


def cfg_name(c):
    return f"-O{c[0]}{' -g' if c[1] else ''}"


def impl(fn, cases):
    """vlib.run_impl in batches (a worker then handles ~60 cases: its time-out of
    two hours is only reached on a machine that is not usable anyway)"""
    out = []
    for i in range(0, len(cases), 1000):
        out += vlib.run_impl(fn, cases[i:i + 1000], timeout=7200)
    return out


# developer aids (never set by ./check itself): C05_KINDS=a,b restricts the fault
# kinds, C05_SKIP=table,unrelated,quirks,repeat,blocks,streams,corpus skips suites
DEV_KINDS = [k for k in os.environ.get('C05_KINDS', '').split(',') if k]
DEV_SKIP = [k for k in os.environ.get('C05_SKIP', '').split(',') if k]


# --------------------------------------------------------------------------
# judging a verdict against the catalogue

def category_ok(expect, v):
    if v['v'] not in ('syntax', 'compile'):
        return False
    k = expect[0]
    if k == 'compile':
        return v['v'] == 'compile' and v['code'] in expect[1]
    if k == 'syntax':
        return v['v'] == 'syntax'
    if k == 'diag':
        return True
    if k == 'diag-block':
        return v['v'] == 'syntax' or v['code'] == 'BLOCK_MISMATCH'
    if k == 'diag-misplaced':
        return v['v'] == 'syntax' or v['code'] in ('ELSE_WITHOUT_IF', 'BLOCK_MISMATCH')
    raise ValueError(expect)


def expect_text(expect):
    if expect[0] == 'compile':
        return 'CompileError ' + '/'.join(sorted(expect[1]))
    return {'syntax': 'SyntaxError', 'diag': 'any located diagnostic',
            'diag-block': 'SyntaxError or BLOCK_MISMATCH',
            'diag-misplaced': 'SyntaxError, ELSE_WITHOUT_IF or BLOCK_MISMATCH'}[expect[0]]


def judge_fault(kind, expect, lines_ok, nlines, v):
    """-> None (as the property demands) | signature"""
    if v['v'] == 'ok':
        return f'C05/accepted({kind})'
    if v['v'] == 'exc':
        return f"C05/internal-exception({v['exc']},{kind})"
    if not category_ok(expect, v):
        got = v['code'] if v['v'] == 'compile' else 'SyntaxError'
        return f'C05/wrong-category({kind},{got})'
    if v.get('loc') is None or v.get('line') is None:
        return f'C05/no-position({kind})'
    if lines_ok is None:
        if not (1 <= v['line'] <= nlines):
            return f'C05/wrong-line({kind})'
    elif v['line'] not in lines_ok:
        return f'C05/wrong-line({kind})'
    return None


# --------------------------------------------------------------------------
# synthetic statement streams for the Blocks model

SYM = {
    0: ['zqv% = 1'], 1: ['IF zqa% THEN'], 2: ['ELSEIF zqb% THEN'], 3: ['ELSE'], 4: ['END IF'],
    5: ['FOR i% = 1 TO 2', 'FOR j% = 1 TO 2'], 6: ['NEXT', 'NEXT i%', 'NEXT j%'],
    7: ['DO', 'DO WHILE zqa%'], 8: ['LOOP', 'LOOP UNTIL zqa%'], 9: ['WHILE zqa%'], 10: ['WEND'],
    11: ['SELECT CASE zqa%'], 12: ['CASE 1'], 13: ['CASE ELSE'], 14: ['END SELECT'],
    15: ['SUB zqs{n}'], 16: ['END SUB'], 17: ['FUNCTION zqf{n}'], 18: ['END FUNCTION'],
    19: ['TYPE zqt{n}'], 20: ['fa AS INTEGER', 'fb AS LONG'], 21: ['END TYPE'],
}
ALPHA = [(c, i) for c in sorted(SYM) for i in range(len(SYM[c]))]     # 29 symbols


def stream_text(sym_seq):
    return '\n'.join(SYM[c][i].replace('{n}', str(n + 1)) for n, (c, i) in enumerate(sym_seq)) + '\n'


def balanced_streams(rng, n):
    """random well-formed forests (flattened), depth <= 3"""
    def items(depth, budget):
        out = []
        k = rng.randint(0, 3)
        for _ in range(k):
            if budget[0] <= 0:
                break
            r = rng.random()
            if depth >= 3 or r < 0.35:
                out.append((0, 0))
                budget[0] -= 1
                continue
            budget[0] -= 2
            b = rng.choice(['if', 'for', 'do', 'while', 'select', 'sub', 'function', 'type'])
            if b == 'if':
                out.append((1, 0))
                out += items(depth + 1, budget)
                for _e in range(rng.randint(0, 2)):
                    out.append((2, 0))
                    out += items(depth + 1, budget)
                if rng.random() < 0.5:
                    out.append((3, 0))
                    out += items(depth + 1, budget)
                out.append((4, 0))
            elif b == 'for':
                v = rng.randint(0, 1)
                out.append((5, v))
                out += items(depth + 1, budget)
                out.append((6, rng.choice([0, v + 1])))
            elif b == 'do':
                c = rng.randint(0, 1)
                out.append((7, c))
                out += items(depth + 1, budget)
                out.append((8, 0 if c else rng.randint(0, 1)))
            elif b == 'while':
                out.append((9, 0))
                out += items(depth + 1, budget)
                out.append((10, 0))
            elif b == 'select':
                out.append((11, 0))
                for _c in range(rng.randint(0, 2)):
                    out.append((12, 0))
                    out += items(depth + 1, budget)
                    if rng.random() < 0.3:
                        out.append((13, 0))
                        out += items(depth + 1, budget)
                out.append((14, 0))
            elif b in ('sub', 'function') and depth == 0:
                o, e = (15, 16) if b == 'sub' else (17, 18)
                out.append((o, 0))
                out += items(depth + 1, budget)
                out.append((e, 0))
            elif b == 'type' and depth == 0:
                out.append((19, 0))
                out.append((20, 0))
                if rng.random() < 0.5:
                    out.append((20, 1))
                out.append((21, 0))
            else:
                out.append((0, 0))
        return out
    res = []
    for _ in range(n):
        res.append(items(0, [14]))
    return res


def mutate(rng, s):
    s = list(s)
    for _ in range(rng.randint(1, 2)):
        op = rng.choice(['del', 'ins', 'rep', 'swap'])
        if op == 'del' and s:
            del s[rng.randrange(len(s))]
        elif op == 'ins':
            s.insert(rng.randint(0, len(s)), rng.choice(ALPHA))
        elif op == 'rep' and s:
            s[rng.randrange(len(s))] = rng.choice(ALPHA)
        elif op == 'swap' and len(s) > 1:
            i = rng.randrange(len(s) - 1)
            s[i], s[i + 1] = s[i + 1], s[i]
    return s


def stray_case_else(tree_list, parent=None):
    for t in tree_list:
        if t[0] == 0:
            if t[1] == 13 and parent != 5:
                return True
        elif stray_case_else(t[3], t[1]):
            return True
    return False


def norm_front(r):
    """impl-side verdict in the model's format, trees dropped"""
    if r[0] == 2:
        return [2, r[1]]
    return r


# --------------------------------------------------------------------------

def table_program(tab, e):
    """a small program applying operator e=(op,a,b,..) to variables of kinds a, b"""
    var = {1: 'zi%', 2: 'zl&', 3: 'zs!', 4: 'zd#', 5: 'zt$', 6: 'zru', 7: 'zrv'}
    pre = []
    ks = set(e[1:3]) if len(e) == 5 else {e[1]}
    if 6 in ks or 7 in ks:
        pre += ['TYPE zqtu', '  a AS INTEGER', 'END TYPE', 'TYPE zqtv', '  a AS INTEGER', 'END TYPE']
    if 6 in ks:
        pre.append('DIM zru AS zqtu')
    if 7 in ks:
        pre.append('DIM zrv AS zqtv')
    if len(e) == 5:
        tok = tab['tokens'][str(e[0])].upper()
        expr = f'{var[e[1]]} {tok} {var[e[2]]}'
    else:
        tok = tab['utokens'][str(e[0])].upper()
        expr = f'{tok} {var[e[1]]}'
    return pre, f'PRINT {expr}'


def main(tier, seed):
    ctx = Ctx(PROP, tier, seed, 'proof')
    ctx.trusted_base = [
        'Coq 8.16.1 kernel (coqc, full .vo build; vm_compute for the finite table obligations, the _refuted witnesses and the Examples)',
        'no axioms: every theorem prints "Closed under the global context"',
        'extraction: ExtrOcamlBasic only; Z, positive kept inductive; a seeded sample of the model runs is recomputed with vm_compute (cases file)',
        'unverified glue: ocaml/driver.ml, tools/vlib, tools/props/c05.py, tools/c05gen.py, tools/c05faults.py (generator, injectors, expected category/line = the oracle), tools/gen_c05_tables.py, tools/implfns/staticfn.py',
        'modelled not verified: qbee/parser.py parse_string (block stack), qbee/stmt.py Block.create + create_block methods, the block-related checks of Pass1 (Models/Blocks.v); qbee/expr.py BinaryOp.type / UnaryOp.type / Type.is_coercible_to and Pass2.process_binary_op_pre / process_unary_op_pre as a generated finite table (Gen/TypeTable.v)',
        'not modelled: the pyparsing grammar (statement classification is taken from the real grammar), the other checks of Pass1/2/3 and NumericLiteral.parse: covered by fault enumeration only',
    ]
    master = random.Random(seed)

    # ---- T-gen: regenerate the table, then the obligations
    tab = None
    try:
        tab, changed = gen_c05_tables.main()
        ctx.extra['type_table_rewritten'] = bool(changed)
    except Exception as e:  # noqa
        ctx.broken.append(f'translator tie gen_c05_tables failed: {e}')
    proved = ctx.prove()
    exe = ctx.model('Blocks')

    progs = [c05faults.Prog(n, l) for n, l in c05gen.base_programs()]
    pidx = {p.name: i for i, p in enumerate(progs)}
    pmap = {p.name: p for p in progs}

    # ---- suite: the generated table end to end (every entry = a small program)
    if tab is not None and 'table' not in DEV_SKIP:
        bad = gen_c05_tables.failing_entries(tab)
        entries = [('bin', e) for e in tab['binops']] + [('un', e) for e in tab['unops']]
        order = list(range(len(entries)))
        random.Random(seed + 1).shuffle(order)
        take = order if tier != 'quick' else order[:150]
        # failing entries of the rule are always run: their program is the replay
        keys_bad = {tuple(b['codes']) for b in bad}
        cases, meta = [], []
        for i in sorted(set(take) | {j for j, (_w, e) in enumerate(entries)
                                     if tuple(e[:3] if _w == 'bin' else e[:2]) in keys_bad}):
            w, e = entries[i]
            pre, stmt = table_program(tab, e)
            src = '\n'.join(pre + [stmt]) + '\n'
            cases.append({'src': src, 'cfgs': [[0, 0]]})
            meta.append((w, e, src, len(pre) + 1))
        res = impl('staticfn.compile_cfgs', cases)
        ops = {o[0]: o for o in tab['ops']}
        replay_of = {}
        for (w, e, src, fl), r in zip(meta, res):
            if isinstance(r, dict):
                ctx.broken.append(f'table suite: worker failed {r}')
                break
            v = r[0]
            replay_of[tuple(e[:3] if w == 'bin' else e[:2])] = {'program': src, 'verdict': v}
            if w == 'bin':
                o = ops[e[0]]
                want = gen_c05_tables.rule_bin(e[0], o[3], o[4], o[1], e[1], e[2])
                got_tab = gen_c05_tables.effective(e[3], e[4])
                what = f"{o[1]},{tab['kinds'][e[1] - 1]},{tab['kinds'][e[2] - 1]}"
            else:
                o = ops[e[0]]
                want = gen_c05_tables.rule_un(o[1], e[1])
                got_tab = gen_c05_tables.effective(e[2], e[3])
                what = f"{o[1]},{tab['kinds'][e[1] - 1]}"
            detail = {'program': src, 'verdict': v, 'rule': want, 'table': got_tab, 'entry': e}
            if want is None:
                sig = judge_fault(f'operator:{what}', ('compile', {'TYPE_MISMATCH'}), {fl},
                                  src.count('\n'), v)
                if sig:
                    ctx.report(sig, detail, True)
            else:
                if v['v'] != 'ok':
                    ctx.report(f'C05/rejected-valid(operator:{what})', detail, True)
            if (got_tab is None) != (v['v'] != 'ok'):
                # the table (internals called directly) and the end-to-end verdict disagree
                ctx.report(f'C05/type-table-tie(operator:{what})', detail, False)
        ctx.count('type_table_programs', len(cases), {m[2] for m in meta})
        if meta:
            ctx.sample({'suite': 'type_table_programs', 'program': meta[len(meta) // 3][2]})
        ctx.rule.append(f'type table: {len(tab["binops"])} binary + {len(tab["unops"])} unary entries '
                        f'(21 operators x 7 type kinds [x 7]) regenerated from the code; '
                        f'{len(cases)} entries also compiled as a one-line program '
                        f'(PRINT <var> op <var>) and compared with the rule')
        for b in bad:
            # the failing entry of the finite obligation, as a concrete operator /
            # type pair and a one-line program with its real compile verdict
            b = dict(b)
            b.update(replay_of.get(tuple(b['codes']), {}))
            ctx.report(f"C05/type-rule({b.get('op', 'coerce')},{b.get('lt', b.get('t', b.get('from')))},"
                       f"{b.get('rt', b.get('to', ''))})", b, bool(b['verdict_differs']))
        if not proved and not bad:
            pass  # a Coq failure elsewhere: reported by ctx.broken

    # ---- suite: base programs are valid at the six configurations
    res = impl('staticfn.compile_cfgs',
                        [{'src': '\n'.join(p.lines) + '\n', 'cfgs': CFGS} for p in progs])
    for p, r in zip(progs, res):
        for c, v in zip(CFGS, r if isinstance(r, list) else []):
            if v['v'] != 'ok':
                ctx.report(f'C05/rejected-valid(base:{p.name})',
                           {'program': p.lines, 'cfg': cfg_name(c), 'verdict': v}, True)
    ctx.count('base_valid', len(progs) * 6, {p.name for p in progs})
    ctx.rule.append(f'{len(progs)} hand-written valid base programs (procedures, nested blocks, '
                    f'single-line IFs, DIM/SHARED/STATIC/CONST/TYPE/DEFtype, arrays, records, labels, '
                    f'GOTO/GOSUB, SELECT, FOR, DO, EXIT forms, DATA/READ) accepted at all 6 configurations')

    # ---- suite: an unrelated valid statement elsewhere never causes a rejection
    un_cases, un_meta = [], []
    for p in (progs if 'unrelated' not in DEV_SKIP else []):
        pts = p.points()
        variants = [('prepend', 0, ['zqu% = 1']), ('append', len(p.lines), ['PRINT "zq"; 1'])]
        sel = pts if tier != 'quick' else pts[::4]
        for q in sel:
            variants.append((f'at{q}', q, ['zqok% = 1']))
        for q in pts:
            if c05faults.top(p.ctx[q]) == 'select':
                variants.append((f'label-in-case-body{q}', q, ['zqul: zqok% = 1']))
        for (nm, at, ls) in variants:
            d = {'at': at, 'lines': ls, 'where': [('ins', 0)]}
            src, _ = c05faults.build(p, d)
            cf = CFGS if nm in ('prepend', 'append') else [CFGS[(at + pidx[p.name]) % 6]]
            un_cases.append({'src': src, 'cfgs': cf})
            un_meta.append((p.name, nm, cf, src))
    res = impl('staticfn.compile_cfgs', un_cases)
    n_un = 0
    for (pn, nm, cf, src), r in zip(un_meta, res):
        for c, v in zip(cf, r if isinstance(r, list) else []):
            n_un += 1
            if v['v'] != 'ok':
                what = 'label-in-case-body' if nm.startswith('label-in-case-body') \
                    else f'unrelated-statement:{pn}'
                ctx.report(f'C05/rejected-valid({what})',
                           {'program': src, 'cfg': cfg_name(c), 'verdict': v, 'where': nm}, True)
    ctx.count('unrelated_statement', n_un, {m[3] for m in un_meta})

    # ---- suite: valid programs with constructs next to a static check
    quirks = [
        ('restore-label-without-adjacent-data', 'RESTORE a\nREAD x%\nPRINT x%\nEND\na:\nb:\nDATA 1\n'),
        ('restore-label-without-adjacent-data', 'DATA 1\nRESTORE a\na:\nPRINT 1\n'),
        ('restore-label-without-adjacent-data', '10 RESTORE 20\n20 PRINT 1\n30 DATA 1\n'),
        ('case-else-first', 'x% = 1\nSELECT CASE x%\nCASE ELSE\n  PRINT 1\nEND SELECT\n'),
        ('label-in-case-body', 'x% = 1\nSELECT CASE x%\nCASE 1\nagain: PRINT 1\nEND SELECT\n'),
        ('restore-label-with-data', 'RESTORE a\nREAD x%\nPRINT x%\nEND\na:\nDATA 1\n'),
        ('select-without-case', 'x% = 1\nSELECT CASE x%\nEND SELECT\n'),
        ('next-list', 'FOR i% = 1 TO 2\nFOR j% = 1 TO 2\nNEXT j%, i%\n'),
        ('sub-before-use', 'SUB p (a AS INTEGER)\nEND SUB\np 1\n'),
        ('record-field-compare', 'TYPE t\n  a AS INTEGER\nEND TYPE\nDIM r AS t\nIF r.a = 0 THEN PRINT 1\n'),
    ]
    if 'quirks' in DEV_SKIP:
        quirks = []
    res = impl('staticfn.compile_cfgs', [{'src': s, 'cfgs': CFGS} for _n, s in quirks])
    for (nm, src), r in zip(quirks, res):
        for c, v in zip(CFGS, r if isinstance(r, list) else []):
            if v['v'] != 'ok':
                ctx.report(f'C05/rejected-valid({nm})',
                           {'program': src, 'cfg': cfg_name(c), 'verdict': v}, True)
    ctx.count('valid_quirks', len(quirks) * 6, {s for _n, s in quirks})

    # ---- the fault enumeration
    all_inj = []
    for i, p in enumerate(progs):
        all_inj += c05faults.enumerate_injections(p, i)
    if DEV_KINDS:
        all_inj = [d for d in all_inj if d['kind'] in DEV_KINDS]
        print(f'DEV MODE (not a full check): fault kinds {DEV_KINDS}, skipped suites {DEV_SKIP}')
        ctx.extra['dev_mode'] = {'kinds': DEV_KINDS, 'skip': DEV_SKIP}
    order = list(range(len(all_inj)))
    random.Random(seed + 2).shuffle(order)
    n6 = 600 if tier == 'quick' else 4500
    six = set(order[:n6])
    if tier == 'quick':
        chosen = sorted(six)
    else:
        chosen = list(range(len(all_inj)))
    kinds_all = sorted({d['kind'] for d in all_inj})
    ctx.rule.append(f'fault enumeration: {len(all_inj)} injections = {len(progs)} programs x every '
                    f'applicable site ({sum(len(p.points()) for p in progs)} insertion points + edits of '
                    f'the programs own terminators/labels/definitions) x {len(kinds_all)} fault kinds '
                    f'(variant and wrapper [plain, after colon, in single-line IF THEN/ELSE, after label] '
                    f'rotate with the site); {"seeded sample of " + str(len(chosen)) if tier == "quick" else "all"} '
                    f'compiled by the real compiler; {n6} of them at all 6 configurations, the others '
                    f'at one configuration rotating with the index; non-trivial = distinct source text')

    # controls: the helper lines of every variant are valid
    ctrl_cases, ctrl_meta, seen_ctrl = [], [], {}
    chosen_q = sorted(order[:600])
    in_q = set(chosen_q)
    cap = 2 if tier == 'quick' else 4       # quick's two per variant come first
    for i in chosen_q + [j for j in chosen if j not in in_q]:
        d = all_inj[i]
        if 'control' not in d:
            continue
        key = (d['kind'], d['variant'].split('/')[0])
        if seen_ctrl.get(key, 0) >= cap:
            continue
        seen_ctrl[key] = seen_ctrl.get(key, 0) + 1
        src, _ = c05faults.build(pmap[d['prog']], d, control=True)
        ctrl_cases.append({'src': src, 'cfgs': [[0, 0]]})
        ctrl_meta.append((d, src))
    res = impl('staticfn.compile_cfgs', ctrl_cases)
    for (d, src), r in zip(ctrl_meta, res):
        v = r[0] if isinstance(r, list) else {'v': 'harness'}
        if v['v'] != 'ok':
            ctx.report(f"C05/rejected-valid(control:{d['kind']})",
                       {'program': src, 'verdict': v, 'variant': d['variant']}, True)
    ctx.count('controls', len(ctrl_cases), {m[1] for m in ctrl_meta})

    cases, meta = [], []
    for i in chosen:
        d = all_inj[i]
        src, lines_ok = c05faults.build(pmap[d['prog']], d)
        cf = CFGS if i in six else [CFGS[i % 6]]
        cases.append({'src': src, 'cfgs': cf})
        meta.append((i, d, src, lines_ok, cf))
    res = impl('staticfn.compile_cfgs', cases)
    n_eval = 0
    outcome_dist = {}
    for (i, d, src, lines_ok, cf), r in zip(meta, res):
        if not isinstance(r, list):
            ctx.broken.append(f'fault suite: implementation worker failed: {str(r)[-300:]}')
            break
        ctx.bump('kind:' + d['kind'])
        for c, v in zip(cf, r):
            n_eval += 1
            sig = judge_fault(d['kind'], d['expect'], lines_ok, src.count('\n'), v)
            key = 'as-demanded' if sig is None else sig.split('(')[0]
            outcome_dist[key] = outcome_dist.get(key, 0) + 1
            if sig:
                ctx.report(sig, {'program': src, 'fault_kind': d['kind'], 'variant': d['variant'],
                                 'base': d['prog'], 'cfg': cfg_name(c),
                                 'expected': expect_text(d['expect']),
                                 'expected_lines': sorted(lines_ok) if lines_ok else 'any',
                                 'verdict': v}, True)
    ctx.count('fault_injection', n_eval, {m[2] for m in meta})
    ctx.extra['fault_outcomes'] = outcome_dist
    if meta:
        m = meta[len(meta) // 2]
        ctx.sample({'suite': 'fault_injection', 'kind': m[1]['kind'], 'variant': m[1]['variant'],
                    'program': m[2]})

    # ---- repeat families (same set at both tiers): the offending construct also
    # occurs validly / verbatim elsewhere in the program, so that anything the
    # compiler remembers per name or shares per node shows up as an accepted
    # fault or as a diagnostic on the line of the other occurrence
    rep = c05faults.repeat_families() if 'repeat' not in DEV_SKIP else []
    if DEV_KINDS:
        rep = [c for c in rep if c['kind'].split(':')[0] in DEV_KINDS or c['family'] in DEV_KINDS]
    rep_cases = []
    for n, c in enumerate(rep):
        cf = CFGS if n % 8 == 0 else [CFGS[n % 6]]
        rep_cases.append({'src': c['src'], 'cfgs': cf})
    res = impl('staticfn.compile_cfgs', rep_cases)
    n_rep = 0
    rep_out = {}
    for c, rc, r in zip(rep, rep_cases, res):
        if not isinstance(r, list):
            ctx.broken.append(f'repeat families: implementation worker failed: {str(r)[-300:]}')
            break
        ctx.bump('repeat:' + c['family'] + (':control' if c.get('valid') else ''))
        for cfg, v in zip(rc['cfgs'], r):
            n_rep += 1
            if c.get('valid'):
                sig = None if v['v'] == 'ok' else f"C05/rejected-valid({c['kind']})"
            else:
                # const-operand / duplicated-statement: the catalogue's own kind, so
                # that a known defect of the kind is recognised as the same defect
                base = c['kind'].split(':')[0] if c['family'] != 'label-reuse' else c['kind']
                sig = judge_fault(base, c['expect'], c['lines_ok'], c['src'].count('\n'), v)
                if sig and sig.startswith(('C05/wrong-line(', 'C05/no-position(')):
                    sig = sig[:-1] + ',' + c['family'] + ')'
            key = (c['family'], 'as-demanded' if sig is None else sig.split('(')[0].replace('C05/', ''))
            rep_out['/'.join(key)] = rep_out.get('/'.join(key), 0) + 1
            if sig:
                ctx.report(sig, {'program': c['src'], 'family': c['family'], 'fault_kind': c['kind'],
                                 'variant': c['variant'], 'cfg': cfg_name(cfg),
                                 'expected': 'accepted' if c.get('valid') else expect_text(c['expect']),
                                 'expected_lines': sorted(c.get('lines_ok', [])),
                                 'verdict': v}, True)
    ctx.count('repeat_families', n_rep, {c['src'] for c in rep})
    ctx.extra['repeat_outcomes'] = rep_out
    if rep:
        for fam in ('label-reuse', 'const-operand', 'duplicated-statement'):
            m = [c for c in rep if c['family'] == fam and not c.get('valid')]
            if m:
                m = m[len(m) // 2]
                ctx.sample({'suite': 'repeat_families', 'family': fam, 'kind': m['kind'],
                            'variant': m['variant'], 'program': m['src']})
        nf = {}
        for c in rep:
            nf[c['family']] = nf.get(c['family'], 0) + 1
        ctx.rule.append(
            f'repeat families, {len(rep)} small self-contained programs (bounded exhaustive, every 8th at '
            f'all 6 configurations, the others at one configuration rotating with the index; {n_rep} '
            f'evaluations): label-reuse {nf.get("label-reuse", 0)} = faulty jump GOTO/GOSUB/RESTORE/RETURN '
            f'into another routine x valid jump to the same label/line number in its own routine (GOTO, '
            f'GOSUB, RETURN, RESTORE, ON ERROR GOTO, none) x label/line number x 6 routine pairs over '
            f'main/SUB/FUNCTION x source order of the routines x valid jump before/after the definition, '
            f'+ controls without the foreign jump; const-operand {nf.get("const-operand", 0)} = '
            f'{len(c05faults.CONST_STR_TEMPLATES)} + {len(c05faults.CONST_NUM_TEMPLATES)} type/argument fault '
            f'templates with the offending operand a string/numeric CONST (literal and composite values) x '
            f'6 placements of further valid references (none, before, after, both, inside a later SUB) x '
            f'module level / SUB with global CONST / SUB with local CONST, + controls; duplicated-statement '
            f'{nf.get("duplicated-statement", 0)} = every label-free variant of every statement-style fault '
            f'kind repeated verbatim 2 and 3 times at module level, in a SUB and in a FUNCTION (diagnostic '
            f'must be on the first occurrence)')

    # ---- Blocks model on the real statement stream of every block fault
    bl = [(i, d, src) for (i, d, src, _lo, _cf) in meta if d.get('block')]
    # quick: the block faults of the seeded sample (a subset of thorough's list,
    # which takes every 2nd of all block faults plus quick's)
    if 'blocks' in DEV_SKIP:
        bl = []
    bl_q = [x for x in bl if x[0] in set(order[:600])][:400]
    if tier == 'quick':
        bl = bl_q
    else:
        ids = {x[0] for x in bl_q}
        bl = bl_q + [x for n, x in enumerate(bl) if x[0] not in ids and n % 2 == 0]
    bres = impl('staticfn.blocks_case', [{'src': s} for (_i, _d, s) in bl])
    jobs_a, jobs_f, keep = [], [], []
    for (i, d, src), r in zip(bl, bres):
        if not isinstance(r, dict) or 'stream' not in r:
            ctx.broken.append(f'blocks suite: worker failed {str(r)[-200:]}')
            break
        if r['stream_kind'] != 'ok':
            continue
        keep.append((i, d, src, r))
        jobs_a.append([2, r['stream']])
        jobs_f.append([1, r['stream']])
    ma = vlib.run_model(exe, jobs_a)
    mf = vlib.run_model(exe, jobs_f)
    sample_jobs = []
    for (i, d, src, r), a, f in zip(keep, ma, mf):
        if isinstance(a, str) or isinstance(f, str):
            ctx.broken.append(f'blocks suite: model driver failed ({a} {f})')
            break
        ip, ifr = norm_front(r['parse']), norm_front(r['front'])
        fm = f[:1] if (f[0] == 0 and ifr == [0]) else f
        if a != ip:
            ctx.report(f"C05/blocks-model-differs(assemble,{d['kind']})",
                       {'program': src, 'impl': ip, 'model': a, 'stream': r['stream']}, False)
        if fm != ifr:
            ctx.report(f"C05/blocks-model-differs(front,{d['kind']})",
                       {'program': src, 'impl': r['front'], 'model': f, 'stream': r['stream']}, False)
        if len(sample_jobs) < 25:
            sample_jobs.append(([1, r['stream']], f))
    ctx.count('blocks_model_on_faults', 2 * len(keep), {k[2] for k in keep})
    ctx.rule.append(f'Blocks model: the real grammar classifies every statement of {len(keep)} block-fault '
                    f'programs; extracted assemble/front vs parse_string / Compiler.compile '
                    f'(result tree, error class, block kind, line)')

    # ---- Blocks model on synthetic streams (bounded exhaustive + mutated balanced)
    maxlen = 2 if tier == 'quick' else 3
    streams = []
    for n in range(0, 3):
        streams += [list(s) for s in itertools.product(ALPHA, repeat=n)]
    if maxlen >= 3:
        alpha1 = [(c, 0) for c in sorted(SYM)]          # one form per statement kind
        streams += [list(s) for s in itertools.product(alpha1, repeat=3)]
    rs = random.Random(seed + 3)
    nb = 150 if tier == 'quick' else 1500
    nbq = 150
    bal = balanced_streams(rs, 1500)            # thorough's prefix = quick's list
    mut = [mutate(random.Random(seed * 7919 + j), b) for j, b in enumerate(bal)]
    streams += bal[:nb if tier != 'quick' else nbq] + mut[:nb if tier != 'quick' else nbq]
    if 'streams' in DEV_SKIP:
        streams = []
    sres = impl('staticfn.blocks_case', [{'src': stream_text(s)} for s in streams])
    jobs_a, jobs_f, keep = [], [], []
    for s, r in zip(streams, sres):
        if not isinstance(r, dict) or 'stream' not in r:
            ctx.broken.append(f'streams suite: worker failed {str(r)[-200:]}')
            break
        if r['stream_kind'] != 'ok':
            ctx.broken.append(f'streams suite: canonical text not parsed: {stream_text(s)!r}')
            break
        keep.append((s, r))
        jobs_a.append([2, r['stream']])
        jobs_f.append([1, r['stream']])
    ma = vlib.run_model(exe, jobs_a)
    mf = vlib.run_model(exe, jobs_f)
    for (s, r), a, f in zip(keep, ma, mf):
        if isinstance(a, str) or isinstance(f, str):
            ctx.broken.append(f'streams suite: model driver failed ({a} {f})')
            break
        src = stream_text(s)
        ip, ifr = norm_front(r['parse']), norm_front(r['front'])
        fm = f[:1] if (f[0] == 0 and ifr == [0]) else f
        if a != ip:
            ctx.report('C05/blocks-model-differs(assemble,stream)',
                       {'program': src, 'impl': ip, 'model': a}, False)
        if fm != ifr:
            ctx.report('C05/blocks-model-differs(front,stream)',
                       {'program': src, 'impl': r['front'], 'model': f}, False)
        # the property on streams: no internal exception, no stray CASE ELSE accepted
        if r['front'][0] == 2:
            msg = r.get('front_msg', '')
            if r['front'][1] == 1:
                cls = 'second-else'
            elif r.get('front_exc') == 'AttributeError':
                cls = 'stray-case'
            elif 'VarDeclClause' in msg:
                cls = 'stray-field'
            elif 'Else' in msg:
                cls = 'stray-else'
            else:
                cls = 'other'
            ctx.report(f"C05/internal-exception({r.get('front_exc')},stream:{cls})",
                       {'program': src, 'verdict': r['front'], 'msg': msg}, True)
        elif r['front'] == [0] and f[0] == 0 and stray_case_else(f[1]):
            ctx.report('C05/accepted(stream:case-else-without-select)', {'program': src}, True)
        elif r['front'] == [1, 6, 0, r['front'][-1]] and len(s) >= 2 and \
                any(s[j][0] == 11 and s[j + 1][0] == 13 for j in range(len(s) - 1)):
            # SELECT CASE x / CASE ELSE ... is in the grammar of the language
            ctx.report('C05/rejected-valid(stream:case-else-first)', {'program': src}, True)
        if len(sample_jobs) < 50:
            sample_jobs.append(([1, r['stream']], f))
    ctx.count('blocks_model_on_streams', 2 * len(keep), {stream_text(k[0]) for k in keep})
    if keep:
        k = keep[-1]
        ctx.sample({'suite': 'blocks_model_on_streams', 'text': stream_text(k[0]),
                    'stream': k[1]['stream'], 'real_parser': k[1]['parse'], 'real_compiler': k[1]['front']})
    ctx.rule.append(f'Blocks model on synthetic streams: every stream of length <= {maxlen} over '
                    f'{len(ALPHA)} statement forms, plus seeded balanced forests (depth <= 3) and 1-2 point '
                    f'mutations of them, rendered to text; model vs real parser and compiler')

    # ---- the repository's own compile-error tests pin the categories
    corpus = impl('corpus.load', [None])[0] if 'corpus' not in DEV_SKIP else []
    if isinstance(corpus, list):
        errs = [c for c in corpus if c.get('expected_result') in ('compileerror', 'syntaxerror')]
        res = impl('staticfn.compile_cfgs', [{'src': c['src'], 'cfgs': CFGS} for c in errs])
        for c, r in zip(errs, res):
            for cf, v in zip(CFGS, r if isinstance(r, list) else []):
                want = 'syntax' if c['expected_result'] == 'syntaxerror' else 'compile'
                if v['v'] != want or v.get('line') is None:
                    ctx.report(f"C05/corpus-verdict({c['file']}#{c['idx']})",
                               {'program': c['src'], 'expected': c['expected_result'],
                                'cfg': cfg_name(cf), 'verdict': v}, True)
        ctx.count('repo_error_tests', len(errs) * 6, {c['src'] for c in errs})
        ctx.rule.append(f'{len(errs)} compile-error/syntax-error programs of the repository test suite at '
                        f'6 configurations: rejected with a position')
    else:
        ctx.broken.append(f'corpus loader failed: {str(corpus)[:300]}')

    # ---- extraction is not trusted blindly: recompute a sample inside Coq
    if sample_jobs:
        lines = ['From Coq Require Import ZArith List.', 'From QV Require Import Sx BlocksEntry.',
                 'Import ListNotations.', 'Open Scope Z_scope.']
        for n, (job, out) in enumerate(sample_jobs[:40]):
            lines.append(f'Example case_{n} : blocks_entry ({vlib.sx_gallina(job)}) = '
                         f'({vlib.sx_gallina(out)}).')
            lines.append('Proof. vm_compute. reflexivity. Qed.')
        d = os.path.join(vlib.BUILD, 'cases')
        os.makedirs(d, exist_ok=True)
        path = os.path.join(d, 'C05cases.v')
        open(path, 'w').write('\n'.join(lines) + '\n')
        with vlib.Lock():
            rc, out = vlib._run(['timeout', '600', 'coqc', '-Q', '.', 'QV', '-w', '-all', path],
                                cwd=vlib.COQ, timeout=630)
        if rc != 0:
            ctx.broken.append('vm_compute re-evaluation of sampled model runs differs from the '
                              'extracted model: ' + out[-400:])
        ctx.extra['vm_compute_cases'] = min(40, len(sample_jobs))
    return ctx.finish()


def replay(path):
    d = json.load(open(path))
    print(json.dumps(d, indent=1)[:6000])
    first = d.get('first') or {}
    src = first.get('program')
    if isinstance(src, list):
        src = '\n'.join(src) + '\n'
    if src:
        r = impl('staticfn.compile_cfgs', [{'src': src, 'cfgs': CFGS}])[0]
        print('real compiler now:')
        for c, v in zip(CFGS, r if isinstance(r, list) else []):
            print(' ', cfg_name(c), json.dumps(v))
    return 0
