"""C09 suite (b): synthetic modules at the field-width limits (built through the
real QvmCode/QvmInstr classes), every opcode with boundary operands at byte
level (real disassembler and machine decoder on hand-made code sections), and
a malformed stream for the loader."""
import json
import struct

import vlib

U32 = 2 ** 32


def lit(cps):
    return ['lit', ['cps', cps]]


def synth_cases(tier):
    """(name, case, options); options: legit_reject (the writer must refuse: the value
    has no representation in the format), limit (label used in the signature)"""
    C = []

    def add(name, case, thorough_only=False, **opt):
        if thorough_only and tier == 'quick':
            return
        c = dict(case)
        c['desc'] = 'synthetic:' + name
        c.update(opt)
        c['replay'] = {'fn': 'codecfn.synth', 'case': dict(case)}
        C.append(c)
    # ---- literal counts around the signed/unsigned boundary of the push$ operand
    add('literals-32767,push$-last', {'literals': [['range', 0, 32767]],
                                      'instrs': [['push$', '"L32766"'], ['push$', '"L0"'], ['halt']]})
    add('literals-32768,push$-32767', {'literals': [['range', 0, 32768]],
                                       'instrs': [['push$', '"L32767"'], ['halt']]})
    add('literals-32769,push$-32768', {'literals': [['range', 0, 32769]],
                                       'instrs': [['push$', '"L32768"'], ['push$', '"L5"'], ['halt']]})
    add('literals-40000,push$-39999', {'literals': [['range', 0, 40000]],
                                       'instrs': [['push$', '"L39999"'], ['push$', '"L32768"'], ['halt']]},
        thorough_only=True)
    add('literals-65535,push$-65534', {'literals': [['range', 0, 65535]],
                                       'instrs': [['push$', '"L65534"'], ['halt']]}, thorough_only=True)
    add('literals-65536,push$-65535', {'literals': [['range', 0, 65536]],
                                       'instrs': [['push$', '"L65535"'], ['halt']]}, thorough_only=True)
    add('literals-65537,push$-65536', {'literals': [['range', 0, 65537]],
                                       'instrs': [['push$', '"L65536"'], ['halt']]},
        thorough_only=True, legit_reject=True, limit='literal-index>65535')
    add('literals-65537,unused', {'literals': [['range', 0, 65537]], 'instrs': [['push$', '"L7"'], ['halt']]},
        thorough_only=True)
    # ---- DATA items per part: written '>h', read '>H'
    add('part-0-items', {'data': [[]]})
    add('part-1-empty-item', {'data': [[['empty', 1]]]})
    add('part-32767-empty-items', {'data': [[['empty', 32767]]]})
    add('part-32767-mixed-items', {'data': [[['items', 16000], ['empty', 767], ['items', 16000]]]})
    add('part-32768-items', {'data': [[['empty', 32768]]]}, limit='data-part-count>32767')
    add('part-65535-items', {'data': [[['empty', 65535]]]}, thorough_only=True,
        limit='data-part-count>32767')
    add('part-65536-items', {'data': [[['empty', 65536]]]}, thorough_only=True, legit_reject=True,
        limit='data-part-count>65535')
    # ---- item length: written '>h', read '>h' (-1 = Empty)
    add('item-0-length', {'data': [[['cps', []], ['empty', 1], ['cps', []]]]})
    add('item-32767-bytes', {'data': [[['rep', 32767, [120]], ['empty', 1], ['cps', [121]]]]})
    add('item-32768-bytes', {'data': [[['rep', 32768, [120]]]]}, legit_reject=True, limit='item-length>32767')
    # ---- literal length: '>H' both ways
    add('literal-0-length', {'literals': [['cps', []], ['cps', [97]]],
                             'instrs': [['push$', lit([])], ['push$', lit([97])], ['halt']]})
    add('literal-65535-bytes', {'literals': [['rep', 65535, [120]], ['cps', [97]]],
                                'instrs': [['push$', lit([97])], ['halt']]})
    add('literal-65536-bytes', {'literals': [['rep', 65536, [120]]]}, legit_reject=True,
        limit='literal-length>65535')
    # ---- number of parts: '>H' both ways
    add('parts-0', {'data': []})
    add('parts-300', {'data': [[['items', i % 4], ['empty', i % 3]] for i in range(300)]})
    add('parts-65535', {'data': [[] for _ in range(65535)]}, thorough_only=True)
    add('parts-65536', {'data': [[] for _ in range(65536)]}, thorough_only=True, legit_reject=True,
        limit='part-count>65535')
    # ---- literal contents
    add('literal-with-quote', {'literals': [['cps', [97, 34, 98]], ['cps', [34]], ['cps', [34, 34]]],
                               'instrs': [['push$', lit([97, 34, 98])], ['push$', lit([34])],
                                          ['push$', lit([34, 34])], ['halt']]})
    add('literal-all-256-cp437', {'literals': [['bytes437', 0, 256]],
                                  'instrs': [['push$', ['lit', ['bytes437', 0, 256]]], ['halt']],
                                  'data': [[['bytes437', 0, 256], ['empty', 1], ['bytes437', 128, 256]]]})
    add('literals-each-cp437-byte', {'literals': [['bytes437', n, n + 1] for n in range(256)],
                                     'instrs': [['push$', ['lit', ['bytes437', n, n + 1]]] for n in range(256)]
                                     + [['halt']]})
    add('literal-semicolon-comment-like', {'literals': [['cps', [59, 32, 34, 120]], ['cps', [32, 32]]],
                                           'instrs': [['push$', lit([59, 32, 34, 120])],
                                                      ['push$', lit([32, 32])], ['halt']]})
    add('literal-outside-cp437', {'literals': [['cps', [8364]]]}, legit_reject=True, limit='character-outside-cp437')
    add('data-item-outside-cp437', {'data': [[['cps', [97, 1234]]]]}, legit_reject=True,
        limit='character-outside-cp437')
    # ---- instruction level through QvmInstr: operand field limits
    add('dims-255', {'instrs': [['allocarr', 255, 1], ['arridx', 255], ['allocarr', 0, -2147483648],
                                ['allocarr', 1, 2147483647], ['halt']]})
    add('dims-256', {'instrs': [['allocarr', 256, 1], ['halt']]}, legit_reject=True, limit='dims>255')
    add('arridx-256', {'instrs': [['arridx', 256], ['halt']]}, legit_reject=True, limit='dims>255')
    add('frame-65535', {'instrs': [['frame', 65535, 65535], ['frame', 0, 0], ['halt']]})
    add('frame-65536', {'instrs': [['frame', 65536, 0], ['halt']]}, legit_reject=True, limit='frame>65535')
    add('push-int-limits', {'instrs': [['push%', 32767], ['push%', -32768], ['push%', 3], ['push&', 2147483647],
                                       ['push&', -2147483648], ['push&', 40000],
                                       ['pushm1%'], ['push1&'], ['push0%']] +
                                      [[f'push{t}', v] for t in '%&' for v in (-2, -1, 0, 1, 2)] +
                                      [[f'push{t}', ['f', b]] for t in '!#'
                                       for b in (0xc000000000000000, 0xbff0000000000000, 0,
                                                 0x3ff0000000000000, 0x4000000000000000)] +
                                      [['halt']]})
    add('push-int-32768', {'instrs': [['push%', 32768], ['halt']]}, legit_reject=True, limit='push%>32767')
    add('push-long-2^31', {'instrs': [['push&', 2147483648], ['halt']]}, legit_reject=True, limit='push&>2^31-1')
    F = lambda b: ['f', b]
    add('push-floats', {'instrs': [
        ['push!', F(0x3fb999999999999a)], ['push#', F(0x3fb999999999999a)], ['push!', F(0x7ff0000000000000)],
        ['push!', F(0xfff0000000000000)], ['push!', F(0x7ff8000000000000)], ['push#', F(0x7ff8000000000000)],
        ['push#', F(0x8000000000000000)], ['push!', F(0x8000000000000000)], ['push!', 3], ['push#', 7],
        ['push%', F(0x4008000000000000)], ['push&', F(0xc00c000000000000)],
        ['push!', F(0x47efffffe0000000)], ['push!', F(0x36a0000000000000)], ['push!', F(0x3690000000000000)],
        ['push#', F(0x0000000000000001)], ['push#', F(0x7fefffffffffffff)], ['push!', F(0x3ff0000000000001)],
        ['push!', F(0x4059000000000000)], ['push#', F(0x4415af1d78b58c40)], ['push#', F(0x3eb0c6f7a0b5ed8d)],
        ['push!', F(0x4415af1d78b58c40)], ['push!', F(0x3eb0c6f7a0b5ed8d)], ['push#', F(0x3f1a36e2eb1c432d)],
        ['halt']]})
    add('push-single-overflow', {'instrs': [['push!', F(0x7fe0000000000000)], ['halt']]}, legit_reject=True,
        limit='push!-overflow')
    add('labels', {'instrs': [['_label', 'a'], ['jmp', 'b'], ['jz', 'a'], ['call', 'c'], ['_label', 'b'],
                              ['errhand', 0], ['errhand', 1], ['errhand', 'c'], ['_label', 'c'], ['ret'],
                              ['_label', 'dup'], ['nop'], ['_label', 'dup'], ['jmp', 'dup'], ['halt']]})
    add('label-missing', {'instrs': [['jmp', 'nowhere'], ['halt']]}, legit_reject=True, limit='unknown-label')
    # a label after the last instruction: its offset is the end of the code, no instruction
    # start - unreachable from source (every routine ends in ret); the checker must say so
    add('label-at-end', {'instrs': [['jmp', 'fin'], ['halt'], ['_label', 'fin']]},
        expected_sigs=['C09/target-not-instruction-start'])
    add('io-all', {'instrs': [['io', d, o] for d, o in IO_ALL] + [['halt']]})
    add('io-unknown', {'instrs': [['io', 'terminal', 'nosuchop'], ['halt']]}, legit_reject=True,
        limit='unknown-device-op')
    add('every-plain-mnemonic', {'instrs': [[op] for op in PLAIN_OPS] + [['halt']]})
    return C


IO_ALL = []
PLAIN_OPS = []


# ------------------------------------------------------------------ byte level

KVALS = {
    'KU8': [0, 1, 255],
    'KI16': [-32768, -1, 0, 32767],
    'KU16': [0, 1, 32767, 32768, 65535],
    'KI32': [-2 ** 31, -1, 0, 2 ** 31 - 1],
    'KLabel': [0, 1, 5, 2 ** 32 - 1],
    'KF32': [0, 0x3f800000, 0x80000000, 0x7f800000, 0xff800000, 0x7fc00000, 0x00000001,
             0x7f7fffff, 0x3dcccccd, 0x00800000, 0x4b800000, 0x461c4000, 0x501502f9, 0x358637bd],
    'KF64': [0, 0x3ff0000000000000, 0x8000000000000000, 0x7ff0000000000000, 0xfff0000000000000,
             0x7ff8000000000000, 1, 0x7fefffffffffffff, 0x3fb999999999999a, 0x0010000000000000,
             0x4340000000000000, 0x4415af1d78b58c40, 0x3eb0c6f7a0b5ed8d, 0x3f1a36e2eb1c432d],
    'KStrLit': [0, 1, 2],
}
KFMT = {'KU8': '>B', 'KI16': '>h', 'KU16': '>H', 'KI32': '>i', 'KLabel': '>I', 'KF32': '>I',
        'KF64': '>Q', 'KStrLit': '>H'}
KOUT = {'KU8': (-1, 256), 'KI16': (-32769, 32768), 'KU16': (-1, 65536), 'KI32': (-2 ** 31 - 1, 2 ** 31),
        'KLabel': (-1, 2 ** 32), 'KStrLit': (-1, 65536)}


def product(lists):
    out = [[]]
    for l in lists:
        out = [o + [v] for o in out for v in l]
    return out


def boundary_instrs(tables):
    """[(op, opcode, kinds, vals, bytes)] every opcode x boundary operand tuple"""
    out = []
    for op, code, kinds in tables['instrs']:
        ks = [k for k, _ in kinds]
        for vals in product([KVALS[k] for k in ks]):
            b = bytes([code])
            for k, v in zip(ks, vals):
                b += struct.pack(KFMT[k], v)
            out.append((op, code, ks, vals, b))
    return out


def run_bytelevel(ctx, ck, tables):
    ins = boundary_instrs(tables)
    lits = ['zero', 'one', 'two']
    chunks = [ins[i:i + 40] for i in range(0, len(ins), 40)]
    cases = [{'literals': lits, 'code': list(b''.join(x[4] for x in ch))} for ch in chunks]
    r_dis = vlib.run_impl('codecfn.disasm_bytes', cases)
    r_cpu = vlib.run_impl('codecfn.cpu_decode', cases)
    jobs = []
    for c in cases:
        jobs.append([3, c['literals'], c['code']])
        jobs.append([10, c['code']])
    mo = vlib.run_model(ck.exe, jobs)
    for i, (c, rd, rc) in enumerate(zip(cases, r_dis, r_cpu)):
        md, mc = mo[2 * i], mo[2 * i + 1]
        desc = 'bytelevel chunk %d (%s ..)' % (i, chunks[i][0][0])
        if isinstance(md, str) or isinstance(mc, str):
            ctx.broken.append(f'correspondence bytelevel: model driver failed on {desc}')
            continue
        if 'text' not in rd:
            ck.rep('C09/disasm-model-differs(bytelevel-raise)', desc, {'impl': rd}, False)
        else:
            t = vlib.l2s(md[1]) if md[0] == 0 else None
            if t != rd['text']:
                from props.c09 import text_diff
                ck.rep('C09/disasm-model-differs(bytelevel)', desc,
                       text_diff(rd['text'], t or ''), False)
        if 'cpu' not in rc:
            ck.rep('C09/cpu-decode-model-differs(bytelevel-raise)', desc, {'impl': rc}, False)
        elif mc[0] != 0:
            ck.rep('C09/cpu-decode-model-differs(bytelevel)', desc, {'model': mc}, False)
        else:
            ck.check_cpu(desc, {'cpu': rc['cpu']}, mc[1], lits)
    ctx.count('bytelevel_decode', len(ins), set((x[0], tuple(x[3])) for x in ins))
    ctx.sample({'suite': 'bytelevel_decode', 'case': [ins[len(ins) // 2][0], ins[len(ins) // 2][3]]})
    # ---- operand packing of the model (encode_plain) against struct.pack by the table's kinds
    enc = [(op, ks, vals, b) for op, code, ks, vals, b in ins
           if not any(k in ('KF32', 'KF64') for k in ks)]
    outside = []
    for op, code, kinds in tables['instrs']:
        ks = [k for k, _ in kinds]
        if any(k in ('KF32', 'KF64') for k in ks):
            continue
        for pos, k in enumerate(ks):
            for v in KOUT[k]:
                vals = [KVALS[kk][1] for kk in ks]
                vals[pos] = v
                outside.append((op, ks, vals, None))
    allc = enc + outside
    res = vlib.run_model(ck.exe, [[11, [[op, list(vals)] for op, ks, vals, b in allc]]])[0]
    if isinstance(res, str) or res[0] != 0:
        ctx.broken.append(f'correspondence operand_packing: model job failed: {res}')
    else:
        for (op, ks, vals, b), o in zip(allc, res[1]):
            want = [0, list(b)] if b is not None else [1, 2]
            if o != want:
                ck.rep(f'C09/operand-packing-model-differs({op})', f'{op} {vals}',
                       {'model': o, 'struct_pack': want}, False)
        ctx.count('operand_packing', len(allc), set((x[0], tuple(x[2])) for x in allc))
    return len(ins)


# ------------------------------------------------------------------ malformed stream

def section(sid, body):
    return bytes([sid]) + struct.pack('>I', len(body)) + body


def malformed_cases(tier, bases):
    out = []
    vals = [0, 255, 6] if tier == 'quick' else [0, 1, 4, 6, 127, 128, 255]
    for name, b in bases:
        b = bytes(b)
        for n in range(len(b)):
            out.append((f'{name}:truncate@{n}', b[:n]))
        step = 1
        for pos in range(0, len(b), step):
            for v in vals:
                if b[pos] != v:
                    out.append((f'{name}:byte@{pos}={v}', b[:pos] + bytes([v]) + b[pos + 1:]))
    # section-level shapes
    lit = struct.pack('>H', 2) + b'hi'
    dat = struct.pack('>H', 1) + struct.pack('>H', 2) + struct.pack('>h', 1) + b'x' + struct.pack('>h', -1)
    glb = struct.pack('>I', 3)
    cod = bytes([36, 100])
    S = {1: section(1, lit), 2: section(2, dat), 3: section(3, glb), 4: section(4, cod)}
    import itertools
    for perm in itertools.permutations([1, 2, 3, 4]):
        out.append(('order' + ''.join(map(str, perm)), b''.join(S[i] for i in perm)))
    for drop in (1, 2, 3, 4):
        out.append((f'without-section-{drop}', b''.join(S[i] for i in (1, 2, 3, 4) if i != drop)))
    for dup in (1, 2, 3, 4):
        out.append((f'duplicate-section-{dup}', b''.join(S[i] for i in (1, 2, 3, 4)) + S[dup]))
    out.append(('unknown-section-9', S[1] + section(9, b'zz') + S[3]))
    out.append(('empty-input', b''))
    out.append(('globals-3-bytes', S[1] + section(3, b'\0\0\1') + S[4]))
    out.append(('globals-5-bytes', section(3, b'\0\0\0\0\1')))
    out.append(('literals-odd-tail', section(1, lit + b'\0') + S[3]))
    out.append(('literals-overlong', section(1, struct.pack('>H', 5) + b'hi') + S[3]))
    out.append(('data-empty-body', section(2, b'') + S[3]))
    out.append(('data-extra-tail', section(2, dat + b'\0') + S[3]))
    out.append(('data-item-overlong', section(2, struct.pack('>HHh', 1, 1, 9) + b'x') + S[3]))
    out.append(('data-item-overlong-then-item', section(2, struct.pack('>HHh', 1, 2, 9) + b'x') + S[3]))
    out.append(('data-negative-sizes', section(2, struct.pack('>HHhh', 1, 2, -2, -32768)) + S[3]))
    out.append(('data-count-65535', section(2, struct.pack('>HH', 1, 65535) + b'\xff\xff' * 65535) + S[3]))
    return out


def run_malformed(ctx, ck, tier, bases):
    cases = malformed_cases(tier, bases)
    raws = vlib.run_impl('codecfn.parse_bytes', [{'bytes': list(b)} for _, b in cases])
    mos = vlib.run_model(ck.exe, [[1, list(b)] for _, b in cases])
    from props.c09 import model_mod, _short
    skipped = 0
    classes = {}
    for (name, b), raw, mo in zip(cases, raws, mos):
        if isinstance(mo, str) or (isinstance(raw, dict) and raw.get('harness')):
            ctx.broken.append(f'correspondence malformed: driver failed on {name}')
            break
        m = model_mod(mo)
        if 'exc' in raw:
            if (raw.get('where') or '').startswith('qvm/debug_info.py') or raw['exc'] in ('BadGzipFile',):
                skipped += 1
                continue
            icls = {'SystemExit': 1, 'error': 2, 'UnboundLocalError': 3}.get(raw['exc'], raw['exc'])
            mcls = m.get('err')
            classes[str(icls)] = classes.get(str(icls), 0) + 1
            if icls != mcls:
                ck.rep('C09/decode-model-differs(malformed)', name,
                       {'impl': raw, 'model': _short(m), 'bytes': list(b)[:80]}, False)
        else:
            classes['ok'] = classes.get('ok', 0) + 1
            if 'err' in m:
                ck.rep('C09/decode-model-differs(malformed)', name,
                       {'impl': 'ok', 'model': m, 'bytes': list(b)[:80]}, False)
                continue
            if m['debug'] or raw['debug']:
                skipped += 1
                continue
            for f in ('literals', 'data', 'nglobals', 'code'):
                if m[f] != raw[f]:
                    ck.rep(f'C09/decode-model-differs(malformed,{f})', name,
                           {'impl': _short(raw[f]), 'model': _short(m[f]), 'bytes': list(b)[:80]}, False)
    ctx.count('malformed_loader', len(cases), set(b for _, b in cases))
    for k, v in classes.items():
        ctx.bump('malformed:' + k, v)
    ctx.bump('malformed:skipped-debug-section', skipped)
    ctx.sample({'suite': 'malformed_loader', 'case': cases[len(cases) // 3][0]})
    ctx.rule.append(f'b3: malformed loader stream: {len(cases)} byte strings (every truncation and single-byte '
                    f'replacement of {len(bases)} real modules, section permutations/duplicates/omissions, '
                    f'overlong and negative lengths): result class and content of QModule.parse vs decode_module')


# ------------------------------------------------------------------ entry

def run(ctx, ck, tier, tables):
    global IO_ALL, PLAIN_OPS
    IO_ALL = [(d, o) for d, _, ops in tables['devices'] for o, _ in ops]
    import re as _re
    PLAIN_OPS = [op for op, _, kinds in tables['instrs']
                 if not kinds and not _re.fullmatch(r'push(m?[0-2])[%&!#]', op)]
    cases = synth_cases(tier)
    results = vlib.run_impl('codecfn.synth', cases, par=8)
    mouts = ck.run_models(results)
    bases = []
    for c, r, mo in zip(cases, results, mouts):
        ck.check('synthetic', c, r, mo if mo is not None else {})
        if isinstance(r, dict) and 'bytes14' in r and len(r['bytes14']) < 200 and len(bases) < 3 \
                and c['desc'] in ('synthetic:item-0-length', 'synthetic:literal-with-quote', 'synthetic:labels'):
            bases.append((c['desc'], r['bytes14']))
    ctx.count('synthetic', len(cases), set(c['desc'] for c in cases))
    ctx.sample({'suite': 'synthetic', 'case': cases[2]['desc']})
    ctx.rule.append(f'b1: {len(cases)} synthetic modules built through the real QvmCode/QvmInstr classes at the '
                    f'field-width limits (32767/32768/32769/65535/65536 literals and items, 0 and 32767-byte '
                    f'items, 65535-byte literal, quotes, all 256 cp437 bytes, 255/256 dims, operand limits, '
                    f'duplicate / missing / trailing labels, every device operation, every operand-free mnemonic)')
    n = run_bytelevel(ctx, ck, tables)
    ctx.rule.append(f'b2: every opcode of the table x boundary operand tuples ({n} instructions) encoded by '
                    f'struct.pack, read by the real disassembler and the real machine decoder vs the models; '
                    f'encode_plain vs struct.pack incl. one value outside each field')
    run_malformed(ctx, ck, tier, bases)
