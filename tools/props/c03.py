"""C03 - type- and stack-safety of accepted programs.  Theorems: coq/Props/C03.v.
Per module/run: the extracted monitor (Models/Monitor.v) replays the run of the
real machine (tie: final state equality) and evaluates the invariant at every
tick, with the layout certificate taken from the compiler's own symbol tables."""
import itertools
import json
import struct
import vlib
from vlib import Ctx, isa

PROP = 'C03'


def fb(x):
    return struct.unpack('>Q', struct.pack('>d', float(x)))[0]


SCRIPT = {'lines': ['x', '5', '1,2', 'bad,3', '7,8', '9'], 'rnd': [fb(0.25)] * 8,
          'timer': [fb(1.5)] * 8, 'inkey': ['a']}

TYPES = [('%', 3, 2), ('&', 70000, 3), ('!', 2.5, 1.5), ('#', 6.25, 0.5)]
ARITH = ['+', '-', '*', '/', '\\', 'MOD', 'AND', 'OR', 'XOR', 'EQV', 'IMP']
CMP = ['=', '<>', '<', '>', '<=', '>=']


def matrix_programs():
    """every binary operator x every numeric type pair, operands in variables; the
    integer-division operator gets its own program per type pair"""
    progs = []
    for (lc, lv, _), (rc, _, rv) in itertools.product(TYPES, TYPES):
        head = [f'a{lc} = {lv}', f'b{rc} = {rv}']
        lines = list(head)
        for op in ARITH + CMP:
            if op == '\\':
                continue
            lines.append(f'r# = a{lc} {op} b{rc}')
            lines.append(f'PRINT a{lc} {op} b{rc}')
        lines.append(f'r# = a{lc} ^ 2')
        lines.append(f'PRINT NOT a{lc}; -a{lc}; ABS(b{rc}); INT(b{rc}); CINT(b{rc}); CLNG(a{lc})')
        lines.append(f'IF a{lc} THEN PRINT "t"')
        lines.append(f'WHILE b{rc} > 100\nWEND')
        progs.append(('matrix:' + lc + rc, '\n'.join(lines)))
        progs.append(('intdiv:' + lc + rc,
                      '\n'.join(head + [f'r# = a{lc} \\ b{rc}', f'PRINT a{lc} \\ b{rc}', 'PRINT r#'])))
    s = ['s$ = "ab"', 't$ = "cd"', 'PRINT s$ + t$', 'u$ = s$ + t$']
    for op in CMP:
        s.append(f'PRINT s$ {op} t$')
    s.append('PRINT LEN(s$); ASC(s$); CHR$(65); LEFT$(s$, 1); RIGHT$(s$, 1); MID$(s$, 1, 1); MID$(s$, 2)')
    s.append('PRINT UCASE$(s$); LCASE$(s$); LTRIM$(s$); RTRIM$(s$); SPACE$(2); STRING$(2, "x"); STRING$(2, 65); STR$(5); INSTR(s$, "b"); INSTR(1, s$, "b")')
    progs.append(('matrix:strings', '\n'.join(s)))
    return progs


PROGS = [
    ('gosub-nest', 'GOSUB a\nPRINT "end"\nEND\na:\nPRINT "a"\nGOSUB b\nPRINT "a2"\nRETURN\nb:\nPRINT "b"\nRETURN'),
    ('for-select', 'FOR i% = 1 TO 4\nSELECT CASE i%\nCASE 1\nPRINT "one"\nCASE 2 TO 3\nPRINT "mid"\nCASE ELSE\nPRINT "else"\nEND SELECT\nNEXT'),
    ('do-loops', 'i% = 0\nDO WHILE i% < 3\ni% = i% + 1\nLOOP\nDO\ni% = i% - 1\nLOOP UNTIL i% = 0\nPRINT i%'),
    ('function-rec', 'FUNCTION f&(n&)\nIF n& <= 1 THEN\nf& = 1\nELSE\nf& = n& * f&(n& - 1)\nEND IF\nEND FUNCTION\nPRINT f&(5)'),
    ('byref', 'SUB inc(x%)\nx% = x% + 1\nEND SUB\na% = 1\ninc a%\ninc (a%)\nCALL inc(a%)\nPRINT a%'),
    ('records', 'TYPE p\nx AS INTEGER\ny AS DOUBLE\nn AS STRING\nEND TYPE\nDIM v AS p\nv.x = 1\nv.y = 2.5\nv.n = "q"\nPRINT v.x; v.y; v.n'),
    ('arrays', 'DIM a(1 TO 3) AS LONG\nDIM b(2, 2) AS STRING\nFOR i% = 1 TO 3\na(i%) = i% * 10\nNEXT\nb(1, 2) = "z"\nPRINT a(2); b(1, 2); b(0, 0)'),
    ('dyn-array', 'n% = 4\nDIM a(n%) AS SINGLE\na(3) = 1.5\nPRINT a(3); UBOUND(a)'),
    ('shared-static', 'DIM SHARED g AS INTEGER\nSUB s\nSTATIC c AS LONG\nc = c + 1\ng = g + 2\nPRINT c; g\nEND SUB\ns\ns'),
    ('input-ok', 'INPUT a$\nINPUT b%\nPRINT a$; b%'),
    ('read-data', 'DATA 1, 2.5, "x", 70000\nREAD a%, b!, c$, d&\nPRINT a%; b!; c$; d&'),
    ('exit-forms', 'FOR i% = 1 TO 9\nIF i% = 3 THEN EXIT FOR\nNEXT\nDO\nEXIT DO\nLOOP\nPRINT i%'),
    ('single-line-if', 'a% = 1\nIF a% = 1 THEN PRINT "y" ELSE PRINT "n"\nIF a% = 2 THEN PRINT "y" ELSE PRINT "n"'),
    ('print-using', 'PRINT USING "##.#"; 2.25\nPRINT USING "&"; "s"'),
    ('arrays-same-elem-type', 'DIM a(2) AS INTEGER\nDIM b(20) AS INTEGER\nDIM s AS STRING\nDIM c(1 TO 2, 1 TO 9) AS INTEGER\ns = "x"\nb(20) = 5\nc(2, 9) = 7\na(2) = 1\nPRINT a(2); b(20); c(2, 9); s; LEN(s)'),
    ('arrays-in-sub', 'SUB t\nDIM p(1) AS LONG\nDIM q(30) AS LONG\nDIM z AS STRING\nz = "k"\nq(30) = 9\nPRINT p(0); q(30); z\nEND SUB\nt\nt'),
    ('arrays-shared', 'DIM SHARED g1(3) AS DOUBLE\nDIM SHARED g2(40) AS DOUBLE\nDIM SHARED gs AS STRING\ngs = "g"\ng2(40) = 2.5\nPRINT g1(3); g2(40); gs'),
    ('tail-calls', 'SUB a1\nDIM x AS INTEGER\nx = 5\nb1\nEND SUB\nSUB b1\nDIM y AS INTEGER\ny = 4\nPRINT y\nEND SUB\nSUB c1\nDIM w AS STRING\nw = "c"\na1\nPRINT w; LEN(w)\nEND SUB\nc1\nGOSUB l1\nEND\nl1:\nGOSUB l2\nRETURN\nl2:\nPRINT "l2"\nRETURN'),
    ('const-deftype', 'DEFINT A-C\nCONST k = 5\na = k * 2\nPRINT a'),
]

def nearmiss_programs():
    """argument/parameter type pairs: most are rejected at compile time (then nothing
    is run); whatever the compiler ACCEPTS must be safe under the monitor"""
    progs = []
    tcs = ['%', '&', '!', '#', '$']
    for pt in tcs:
        for at in tcs:
            inc = f'p{pt} = p{pt} + "x"' if pt == '$' else f'p{pt} = p{pt} + 1'
            init = f'a{at} = "s"' if at == '$' else f'a{at} = 1'
            progs.append((f'byref:{at}->{pt}',
                          f'SUB s(p{pt})\n{inc}\nPRINT p{pt}\nEND SUB\n{init}\ns a{at}\nPRINT a{at}\n'
                          f'b{at} = a{at}\nPRINT b{at}'))
            progs.append((f'byref-fn:{at}->{pt}',
                          f'FUNCTION f{pt}(p{pt})\n{inc}\nf{pt} = p{pt}\nEND FUNCTION\n{init}\n'
                          f'r{pt} = f{pt}(a{at})\nPRINT r{pt}; a{at}'))
            progs.append((f'assign:{at}->{pt}',
                          f'{init}\nv{pt} = a{at}\nPRINT v{pt}'))
    return progs


# programs that violate the property on the unchanged tree (known findings)
BAD_PROGS = [
    ('D13-input-rejected-line', 'INPUT a$\nINPUT a%\nINPUT c%, d%\nINPUT a%, b%\nPRINT a%; b%\nGOSUB s\nEND\ns:\nRETURN'),
    ('D08-loop-while-noninteger', 'x! = 2\nDO\nx! = x! - 1\nLOOP WHILE x!\nPRINT "done"'),
    ('D26-return-in-procedure', 'SUB f\nRETURN\nEND SUB\nDIM a AS STRING\nf\na = "x"\nPRINT a'),
    ('D14-record-parameter', 'TYPE r\na AS INTEGER\nb AS INTEGER\nEND TYPE\nSUB f(p AS r)\nPRINT p.a\nEND SUB\nDIM v AS r\nv.a = 1\nf v'),
    ('D21-resume-next-mid-expression', 'ON ERROR GOTO h\na% = 0\nPRINT 5 + (1 \\ a%)\nPRINT "after"\nEND\nh:\nRESUME NEXT'),
]

KIND = {6: 'access-outside-segment', 1: 'ill-typed-operands', 2: 'forbidden-trap', 3: 'cell-type', 4: 'pc-not-boundary',
        5: 'stack-depth-at-statement'}


def main(tier, seed):
    ctx = Ctx(PROP, tier, seed, 'proof')
    ctx.trusted_base = [
        'Coq 8.16.1 kernel; theorems closed under the global context (no axioms)',
        'extraction ExtrOcamlBasic only; the monitor (Models/Monitor.v) and the machine model are run extracted',
        'unverified glue: ocaml/driver.ml, tools/vlib, tools/implfns/machfn.py incl. build_cert (layout certificate from the compiler symbol tables via qvm.memlayout)',
        'proved: instruction- and block-level type/stack safety for the stack instructions (domain of eff); certificates of stack types are invariants of all executions inside a region of stack instructions (cfg_step/cfg_run/cert_frame), and the certificate observed in each run is checked statically; NOT proved: a whole-program verifier soundness theorem (memory typing, frames, calls, reference opcodes): that part is the per-run monitor and therefore exploration of paths actually run',
        'modelled not verified: qvm/cpu.py; the monitor observes the model run, which the tie checks equal to the real run (final state, events, tick count)',
    ]
    ctx.prove()
    exe = ctx.model('Monitor')

    corp = vlib.run_impl('corpus.load', [None])[0]
    cprogs = [(f"{c['file']}:{c['idx']}", c['src'], c) for c in corp
              if c.get('expected_result') in ('success', 'trap') and not c.get('no_run')]
    if tier == 'quick':
        cprogs = cprogs[::4]
    cases = []
    for tag, src, c in cprogs:
        for level in ((0, 2) if tier == 'quick' else (0, 1, 2)):
            for dbg in ((True,) if tier == 'quick' else (True, False)):
                cases.append({'src': src, 'level': level, 'debug': dbg, 'tag': tag, 'bad': False,
                              'script': {'lines': [], 'rnd': [fb(x) for x in c['rnd']] + [fb(0.25)] * 5,
                                         'timer': [fb(x) for x in c['timer']] + [fb(1.5)] * 5,
                                         'inkey': c['inkey']}, 'max_ticks': 20000})
    for tag, src in matrix_programs() + PROGS:
        for level in (0, 1, 2):
            for dbg in (True, False):
                cases.append({'src': src, 'level': level, 'debug': dbg, 'tag': tag, 'bad': False,
                              'script': SCRIPT, 'max_ticks': 20000})
    for tag, src in nearmiss_programs():
        for level in (0, 2):
            cases.append({'src': src, 'level': level, 'debug': True, 'tag': tag, 'bad': False,
                          'nearmiss': True, 'script': SCRIPT, 'max_ticks': 20000})
    for tag, src in BAD_PROGS:
        for level in (0, 2):
            cases.append({'src': src, 'level': level, 'debug': True, 'tag': tag, 'bad': True,
                          'script': SCRIPT, 'max_ticks': 20000})
    ctx.rule.append(f'{len(cprogs)} corpus programs + {len(matrix_programs())} operator/type-matrix programs '
                    f'(18 binary operators x 16 numeric type pairs with operands in variables, unary ops, builtins, strings) '
                    f'+ {len(PROGS)} control/memory programs + {len(nearmiss_programs())} argument/parameter/assignment type-pair programs (run only if the compiler accepts them) + {len(BAD_PROGS)} known-bad programs, x levels x debug; '
                    'each run is replayed by the extracted monitor: static decode + targets, then per tick: eff premise, '
                    'forbidden traps, declared cell types, pc boundary, stack depth at statement starts; non-trivial = distinct (program, configuration)')
    raws = vlib.run_impl('machfn.run_case_cert', cases)
    jobs, idx = [], []
    for i, (c, r) in enumerate(zip(cases, raws)):
        if isinstance(r, dict) and 'cert' in r:
            ct = r['cert']
            if ct['problems'] or not ct['nglobals_match']:
                ctx.report(f'C03/certificate-mismatch({c["tag"].split(":")[0]})',
                           {'src': c['src'], 'level': c['level'], 'problems': ct['problems'],
                            'nglobals_match': ct['nglobals_match']}, True)
            jobs.append([1, isa.module_sx(r['module']), isa.script_sx(c['script']),
                         [ct['globals'], ct['frames']], c['max_ticks']])
            idx.append(i)
        elif isinstance(r, dict) and r.get('harness'):
            ctx.broken.append('correspondence monitor: worker failed ' + r.get('stderr', '')[-200:])
            return ctx.finish()
        elif c.get('nearmiss') and r.get('exc') in ('CompileError', 'SyntaxError'):
            ctx.bump('nearmiss:rejected-at-compile-time')
        else:
            ctx.report(f'C03/compile-failed({r.get("exc")},{c["tag"]})',
                       {'src': c['src'], 'level': c['level'], 'impl': r}, False)
    mouts = vlib.run_model(exe, jobs)
    keys = set()
    for i, mo in zip(idx, mouts):
        c, r = cases[i], raws[i]
        keys.add((c['tag'], c['level'], c['debug']))
        if isinstance(mo, str):
            ctx.broken.append(f'monitor driver failed ({mo}) on {c["tag"]}')
            break
        ok, bad, stop, n, viol, trapped, st = mo
        res = r['result']
        if stop == [2, 99]:
            ctx.bump('unmodelled(pow/val)')
            continue
        if [stop, n, st] != res:
            ctx.report(f'C03/monitor-run-differs-from-real-run({c["tag"]})',
                       {'src': c['src'], 'level': c['level'], 'debug': c['debug'],
                        'impl_head': res[:2], 'model_head': [stop, n]}, False)
            continue
        if not ok:
            ctx.report(f'C03/code-does-not-decode({c["tag"]})',
                       {'src': c['src'], 'level': c['level'], 'debug': c['debug']}, True)
        if bad:
            ctx.report(f'C03/target-not-instruction-boundary({c["tag"]})',
                       {'src': c['src'], 'level': c['level'], 'debug': c['debug'], 'targets': bad}, True)
        seen = set()
        for (tick, kind, pc, detail) in viol:
            if kind == 6 and detail != 1:
                continue      # host crashes other than IndexError (access outside a segment) are C07's subject
            if kind in seen:
                continue
            seen.add(kind)
            ctx.bump('violation:' + KIND[kind])
            ctx.report(f'C03/monitor({KIND[kind]},{c["tag"]})',
                       {'src': c['src'], 'level': c['level'], 'debug': c['debug'], 'tick': tick,
                        'pc': pc, 'detail': detail, 'after_earlier_trap': bool(trapped),
                        'script': c['script']['lines']}, True)
        ctx.bump('ticks', n)
    ctx.count('monitor', len(cases), keys)

    # ---- control-flow certificates (Models/CertObs.v + C03_cfg_run / C03_cert_frame):
    # for every run with debug info the extracted model collects the stack types of every
    # executed stack instruction relative to the depth at the start of its source statement
    # and checks the collected certificate STATICALLY against the decoded code (check_cert)
    cjobs, cidx = [], []
    for i, job in zip(idx, jobs):
        c = cases[i]
        if c['debug'] and not c.get('bad'):
            cjobs.append([2, job[1], job[2], c['max_ticks']])
            cidx.append(i)
    couts = vlib.run_model(exe, cjobs)
    ckeys, ncert, nseen = set(), 0, 0
    for i, co in zip(cidx, couts):
        c = cases[i]
        if isinstance(co, str) or co == [-999, -999, -999]:
            ctx.broken.append(f'certificate entry failed ({co}) on {c["tag"]}')
            break
        okc, conflicts, failing, size, seen_n = co
        ncert += size
        nseen += seen_n
        ckeys.add((c['tag'], c['level']))
        if conflicts:
            ctx.report(f'C03/certificate-join-conflict({c["tag"]})',
                       {'src': c['src'], 'level': c['level'], 'debug': c['debug'],
                        'addresses': conflicts[:10]}, True)
        if not okc:
            ctx.report(f'C03/certificate-rejected({c["tag"]})',
                       {'src': c['src'], 'level': c['level'], 'debug': c['debug'],
                        'failing_addresses': failing[:10]}, True)
    ctx.count('certificates', len(cjobs), ckeys)
    ctx.bump('certificate:addresses', ncert)
    ctx.bump('certificate:stack-instructions-executed', nseen)
    ctx.rule.append('certificates: every run with debug info is replayed once more by the extracted obs_run: '
                    '(address, stack types relative to the statement-start depth) of every executed stack instruction; '
                    'a second visit with other types is a join conflict; the collected certificate must pass check_cert '
                    '(every successor observed anywhere in the run carries exactly the abstract result types), which by '
                    'C03_cert_frame + C03_cfg_run makes it an invariant of every execution inside the observed region')
    ctx.sample({'program': cases[-10]['src'], 'level': cases[-10]['level']})
    ctx.sample({'program': matrix_programs()[5][1][:300]})
    return ctx.finish()


def replay(path):
    d = json.load(open(path))
    print(json.dumps(d, indent=1)[:6000])
    return 0
