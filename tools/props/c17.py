"""C17 - PRINT layout.  Theorems: coq/Props/C17.v.  Correspondence: the real
TerminalDevice._exec_print on constructed stacks (T-fn) and compiled PRINT
statements at the six configurations (T-run) against Models/Print.v."""
import itertools
import json
import struct
import vlib
from vlib import Ctx, diff_suite, l2s, s2l

PROP = 'C17'


def fb(x):
    return struct.unpack('>Q', struct.pack('>d', x))[0]


def sgl(x):
    return struct.unpack('>f', struct.pack('>f', x))[0]


# value alphabet: (impl cell, model cell, source text or None)
VALS = [
    (['I', 0], [1, 0], '0'), (['I', 1], [1, 1], '1'), (['I', 2], [1, 2], '2'),
    (['I', 3], [1, 3], '3'), (['I', -5], [1, -5], '-5'), (['I', 32767], [1, 32767], '32767'),
    (['L', 100000], [2, 100000], '100000'), (['L', -2147483648], [2, -2147483648], None),
    (['S', fb(0.5)], [3, fb(0.5)], '.5'), (['S', fb(sgl(1234.5678))], [3, fb(sgl(1234.5678))], '1234.5678'),
    (['D', fb(0.1)], [4, fb(0.1)], '.1#'), (['D', fb(1e-7)], [4, fb(1e-7)], '1D-7'),
    (['S', fb(2.0)], [3, fb(2.0)], '2!'), (['D', fb(3.0)], [4, fb(3.0)], '3#'),
    (['$', ''], [5, ''], '""'), (['$', 'a'], [5, 'a'], '"a"'),
    (['$', 'x' * 13], [5, 'x' * 13], '"' + 'x' * 13 + '"'),
    (['$', 'y' * 14], [5, 'y' * 14], '"' + 'y' * 14 + '"'),
    (['$', 'z' * 15], [5, 'z' * 15], '"' + 'z' * 15 + '"'),
    (['$', 'w' * 30], [5, 'w' * 30], '"' + 'w' * 30 + '"'),
]
SMALL = [0, 2, 4, 6, 8, 10, 14, 15, 16, 17]   # indices used for exhaustive enumeration


def enc_impl(items):
    """items: list of ('v', idx) | ';' | ','  -> stack (bottom->top) incl. count"""
    st = []
    for it in items:
        if it == ';':
            st.append(['I', 1])
        elif it == ',':
            st.append(['I', 2])
        else:
            st.append(['I', 0])
            st.append(VALS[it[1]][0])
    st.append(['I', len(st)])
    return st


def enc_model_args(items):
    out = []
    for it in items:
        if it == ';':
            out.append(1)
        elif it == ',':
            out.append(2)
        else:
            out.append([0, VALS[it[1]][1]])
    return out


SUF = {'I': '%', 'L': '&', 'S': '!', 'D': '#', '$': '$'}


def src_of(items, mode='lit'):
    """mode: lit = literals in place; var = values through variables; const = through
    CONST names; sub = the statement inside a SUB; after = after another PRINT ending in ';'"""
    parts = []
    pre = []
    for k, it in enumerate(items):
        if it in (';', ','):
            parts.append(it)
        else:
            lit = VALS[it[1]][2]
            if mode in ('var', 'const'):
                name = f'q{k}{SUF[VALS[it[1]][0][0]]}'
                pre.append((f'CONST {name} = {lit}' if mode == 'const' else f'{name} = {lit}'))
                parts.append(' ' + name + ' ')
            else:
                parts.append(' ' + lit + ' ')
    stmt = 'PRINT ' + ''.join(parts)
    if mode == 'sub':
        return 'p\nSUB p\n' + stmt + '\nEND SUB'
    if mode == 'after':
        return 'x% = 1\nIF x% = 1 THEN\n' + stmt + '\nEND IF'
    return '\n'.join(pre + [stmt])


def describe(items):
    return ' '.join(it if isinstance(it, str) else repr(VALS[it[1]][0]) for it in items)


def norm_exec(case, raw):
    if 'exc' in raw:
        k = {'IndexError': 1, 'RuntimeError': 2, 'TypeError': 3, 'OverflowError': 4,
             'ValueError': 5, 'AttributeError': 6}.get(raw['exc'], 99)
        return [2, k]
    if raw['res'] == 'trap':
        return [1]
    return [0, raw['calls']]


def seqs(alpha, maxlen):
    for n in range(0, maxlen + 1):
        yield from itertools.product(alpha, repeat=n)


def main(tier, seed):
    ctx = Ctx(PROP, tier, seed, 'proof')
    ctx.trusted_base = [
        'Coq 8.16.1 kernel (coqc, full .vo build; vm_compute only in the Example)',
        'no axioms: every theorem prints "Closed under the global context"',
        'extraction: ExtrOcamlBasic only (bool/option/list/prod/unit/sumbool to OCaml types); Z, positive kept inductive',
        'unverified glue: ocaml/driver.ml, tools/vlib, tools/props/c17.py, tools/implfns/printfn.py',
        'modelled not verified: qvm/machine.py TerminalDevice._exec_print, qbee/qvm_codegen.py gen_print_stmt (Models/Print.v), qvm/utils.py format_number (Models/NumFmt.v); pyparsing grammar of PRINT is inside the correspondence only',
    ]
    ctx.prove()
    exe = ctx.model('Print')

    # ---- suite A: _exec_print on constructed stacks (exhaustive over the small alphabet)
    alpha = [('v', i) for i in SMALL] + [';', ',']
    maxlen = 3 if tier == 'quick' else 4
    cases = [list(s) for s in seqs(alpha, maxlen)]
    # longer sequences over the full alphabet, seeded
    full = [('v', i) for i in range(len(VALS))] + [';', ',', ',', ';']
    nrand = 1500 if tier == 'quick' else 20000
    for _ in range(nrand):
        n = ctx.rng.randint(4, 9)
        cases.append([ctx.rng.choice(full) for _ in range(n)])
    ctx.rule.append(f'A: every item sequence of length <= {maxlen} over {len(alpha)} symbols '
                    f'(numbers of each type, strings of length 0,1,13,14,15,30, both separators), '
                    f'plus {nrand} seeded sequences of length 4..9 over {len(VALS)} values; '
                    f'non-trivial = distinct sequence')

    def judgeA(c, ni, mo, raw):
        return (f'C17/exec_print-differs', True)
    diff_suite(ctx, 'exec_print', cases, 'printfn.exec_print', exe,
               lambda c: [3, [], enc_model_args(c)],
               lambda c, raw: norm_exec(c, raw) if isinstance(raw, dict) else raw,
               judgeA, key=lambda c: json.dumps(c), describe=describe, impl_case=enc_impl)
    # feed the real encoder too: impl stack is built by the harness like gen_print_stmt does
    # ---- suite A2: malformed protocol stacks (model of the decoder, not a C17 claim)
    mal = []
    tags = [['I', 0], ['I', 1], ['I', 2], ['I', 3], ['I', 4], ['L', 0], ['S', fb(1.0)],
            ['$', ''], ['D', fb(0.0)]]
    for n in range(0, 4 if tier == 'quick' else 5):
        for t in itertools.product(range(len(tags)), repeat=n):
            st = [tags[i] for i in t]
            mal.append(st)
    mcell = {'I': 1, 'L': 2, 'S': 3, 'D': 4, '$': 5}

    def judgeM(c, ni, mo, raw):
        return ('C17/decoder-model-differs', False)
    diff_suite(ctx, 'exec_print_malformed', mal, 'printfn.exec_print', exe,
               lambda c: [1, [[mcell[x[0]], x[1]] for x in c]],
               lambda c, raw: norm_exec(c, raw),
               judgeM, key=lambda c: json.dumps(c),
               describe=lambda c: 'stack ' + json.dumps(c),
               impl_case=lambda c: c + [['I', len(c)]])
    # the impl pops a count first: give it one
    # (cases above are passed with the count appended by the adapter below)

    # ---- suite B: compiled PRINT statements, six configurations
    srcable = [i for i in range(len(VALS)) if VALS[i][2] is not None]
    alphaB = [('v', i) for i in srcable] + [';', ',']
    progs = []
    nB = 60 if tier == 'quick' else 600
    for _ in range(nB):
        n = ctx.rng.randint(0, 6)
        items = [ctx.rng.choice(alphaB) for _ in range(n)]
        # the grammar needs a separator between two values
        fixed = []
        for it in items:
            if fixed and not isinstance(fixed[-1], str) and not isinstance(it, str):
                fixed.append(ctx.rng.choice([';', ',']))
            fixed.append(it)
        progs.append(fixed)
    # long statements (many items): the argument protocol carries a count and the
    # layout must be that of ONE statement however long it is
    nL = 25 if tier == 'quick' else 250
    for k in range(nL):
        n = 7 + (k * 5 + ctx.rng.randint(0, 4)) % 28
        fixed = []
        for j in range(n):
            it = ctx.rng.choice(alphaB)
            if fixed and not isinstance(fixed[-1], str) and not isinstance(it, str):
                fixed.append(ctx.rng.choice([';', ';', ',']))
            fixed.append(it)
        progs.append(fixed)
    # deterministic long shapes: k numbers joined by ';' then a comma item
    for k in (8, 11, 12, 13, 16, 20, 32, 40):
        fixed = []
        for j in range(k):
            fixed += [('v', srcable[j % 6]), ';']
        fixed[-1] = ','
        fixed.append(('v', srcable[-1]))
        progs.append(fixed)
        progs.append(fixed + [','] + [('v', srcable[1])])
    casesB = []
    for k, items in enumerate(progs):
        for level in (0, 1, 2):
            for dbg in (False, True):
                casesB.append({'items': items, 'src': src_of(items), 'level': level, 'debug': dbg})
        # the same items computed differently / placed elsewhere: same text demanded
        mode = ('var', 'const', 'sub', 'after')[k % 4]
        for level in (0, 2):
            casesB.append({'items': items, 'src': src_of(items, mode), 'level': level,
                           'debug': bool(k % 2)})
    ctx.rule.append(f'B: {nB} seeded PRINT statements (0..6 items), {nL} seeded long ones (7..34 items) and 16 fixed long shapes, compiled by the real compiler '
                    f'at levels 0,1,2 x debug on/off and run on the real machine')

    def normB(c, raw):
        if 'exc' in raw:
            return ['exc', raw['exc'], raw.get('where')]
        calls = [e[1] for e in raw['events'] if e[0] == 'terminal_print']
        if raw['outcome'][1] is not None:
            return ['trap', raw['outcome'][1]]
        return [0, calls]
    diff_suite(ctx, 'compiled_print', casesB, 'printfn.run_src', exe,
               lambda c: [3, [], enc_model_args(c['items'])],
               normB, lambda c, ni, mo, raw: ('C17/compiled-print-differs', True),
               key=lambda c: c['src'], describe=lambda c: f"-O{c['level']}{' -g' if c['debug'] else ''}: {c['src']}")
    return ctx.finish()


def replay(path):
    d = json.load(open(path))
    print(json.dumps(d, indent=1)[:4000])
    return 0
