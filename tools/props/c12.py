"""C12 - debugger stepping and breakpoints are transparent and stop correctly.
Theorems: coq/Props/C12.v.  Correspondence (T-dbg): the real qvm.dbg.Cmd driven
by command histories over compiled programs vs Models/Debugger.v; every run is
also judged against the property directly (free run of the same program)."""
import itertools
import json
import random
import time
import vlib
from vlib import Ctx
from props.c12_programs import programs, tagged_programs

PROP = 'C12'
LEVELS = (0, 2)
FUEL = 20000
HR = {1: 'NONE', 2: 'INSTRUCTION', 3: 'TRAP', 4: 'END_OF_CODE', 5: 'BREAKPOINT'}
CMD = {1: 'step', 2: 'next', 3: 'stepi', 4: 'nexti', 5: 'continue'}


def cname(c):
    return CMD[c] if isinstance(c, int) else ('break' if c[0] == 6 else 'delbr')


def ctext(c):
    return CMD[c] if isinstance(c, int) else f'{cname(c)} {c[1]}'


def module_sx(md):
    return [md['code'], md['literals'],
            [[([] if it is None else [it]) for it in part] for part in md['data']],
            md['nglobals'], [[[a, b] for a, b in md['stmts']]] if md['stmts'] is not None else []]


def script_sx(sc):
    sc = sc or {}
    return [list(sc.get('lines', [])), list(sc.get('rnd', [])), list(sc.get('timer', [])),
            list(sc.get('inkey', []))]


# ---------------------------------------------------------------- line choice

def resolve(F, line):
    """independent reading of the property: first executable statement at or
    after the line, in source order -> (address, its line) or None"""
    best = None
    for (l, col, a, b) in F['records']:
        if l >= line and b - a > 0:
            if best is None or (l, col) < best[0]:
                best = ((l, col), a, l)
    return None if best is None else (best[1], best[2])


def choose_lines(F):
    recs = F['records']
    visits = {}
    for (_n, _pc, idx) in F['trace']:
        visits[idx] = visits.get(idx, 0) + 1
    # L1: line of the most visited statement (loops, recursion); ties -> later line
    if visits:
        best = max(visits, key=lambda i: (visits[i], recs[i][0]))
        l1 = recs[best][0]
    else:
        l1 = 1
    starts = {l for (l, c, a, b) in recs if b - a > 0}
    nl = F['nlines']
    cand = [l for l in range(1, nl + 1) if l not in starts and resolve(F, l) is not None]
    l2 = cand[0] if cand else max(starts) if starts else 1
    if l2 == l1:
        l2 = cand[1] if len(cand) > 1 else (min(starts) if starts else 1)
    return l1, l2, nl + 7


def long_history(name, level, k, lines):
    rng = random.Random(f'{name}/{level}/{k}')
    n = rng.randint(5, 30)
    out = []
    for _ in range(n):
        r = rng.random()
        if r < 0.30:
            out.append(1)
        elif r < 0.50:
            out.append(2)
        elif r < 0.60:
            out.append(3)
        elif r < 0.70:
            out.append(4)
        elif r < 0.78:
            out.append(5)
        elif r < 0.92:
            out.append([6, rng.choice(lines)])
        else:
            out.append([7, rng.choice(lines)])
    return out


# ---------------------------------------------------------------- property judges

def judge_run(F, h, run, kind):
    """direct reading of the property on the implementation's behaviour.
    Returns a list of (signature, info)."""
    fails = []
    snaps = [run['start']] + run['snaps']
    extras = run['extras']
    cmds = list(h) + [5] * run['ncont']
    N, pcs, nev = F['n'], F['pcs'], F['nev']
    active = []
    resumed = False
    if run['start'][0] != 0:
        return [('C12/debugger-start-failed', {'start': run['start']})]
    for i in range(len(run['snaps'])):
        c, b, a, ex = cmds[i], snaps[i], snaps[i + 1], extras[i]
        cn = cname(c)
        bh, br = b[2] == 1, b[3]
        blocked = bh and br in (2, 4)
        if a[7] == 1 and b[7] == 0:
            th = ex['before'].get('true_halt')
            fails.append((f'C12/resumes-halted-program(halt={HR.get(th, th)},shown={HR.get(br, br)},cmd={cn})',
                          {'at': i, 'cmd': ctext(c), 'ticks_free_run': N, 'ticks_after': a[6]}))
            resumed = True
            break
        if a[0] != 0:
            fails.append((f'C12/debugger-host-exception(cmd={cn},exc={run.get("exc")})', {'at': i}))
            break
        n = a[6]
        # commands only tick: the state is the free run's state after n ticks
        if n > N:
            fails.append((f'C12/ran-past-free-run-end(cmd={cn})', {'at': i, 'n': n, 'N': N}))
            break
        if n >= 1 and (a[1] != pcs[n - 1] or a[5] != nev[n - 1]):
            fails.append((f'C12/state-not-a-free-run-prefix(cmd={cn})',
                          {'at': i, 'n': n, 'pc': a[1], 'free_pc': pcs[n - 1],
                           'nevents': a[5], 'free_nevents': nev[n - 1]}))
            break
        if n < b[6]:
            fails.append((f'C12/tick-count-decreased(cmd={cn})', {'at': i}))
        if isinstance(c, list):
            r = resolve(F, c[1]) if c[1] >= 0 else None
            if c[0] == 6:
                if r is None:
                    exp = [6] if c[1] >= 0 else [7]      # "-1" is not numeric: read as a routine name
                else:
                    exp = ([[5, r[1]]] if r[1] > c[1] else []) + [[4, r[0], r[1]]]
                    active.append(r[0])
            else:
                if r is None:
                    exp = [10] if c[1] >= 0 else [11]
                else:
                    pre = [[5, r[1]]] if r[1] > c[1] else []
                    if r[0] in active:
                        active.remove(r[0])
                        exp = pre + [[8, r[0], r[1]]]
                    else:
                        exp = pre + [9]
            if a[11] != exp or a[10] != active or a[6] != b[6] or a[1] != b[1]:
                fails.append((f'C12/breakpoint-resolution-differs(cmd={cn})',
                              {'at': i, 'cmd': ctext(c), 'msgs': a[11], 'expected_msgs': exp,
                               'bps': a[10], 'expected_bps': list(active)}))
                break
            continue
        if blocked:
            if a[11] != [1] or a[6] != b[6]:
                fails.append((f'C12/command-on-finished-program-acts(cmd={cn})', {'at': i}))
            continue
        hitmsg = 2 in a[11]
        if c in (1, 2):
            # progress: a different non-empty statement, or finished, or stopped by a user breakpoint
            if not (a[2] == 1 or hitmsg or ex['after']['stmt'] != ex['before']['stmt']):
                fails.append((f'C12/no-progress(cmd={cn})', {'at': i, 'stmt': ex['before']['stmt']}))
        if c == 2 and a[2] == 0 and not hitmsg and a[9] > ex['before']['depth'] + ex['before']['at_frame']:
            if ex['after']['cstart'] == ex['before']['cstart']:
                fails.append(('C12/next-stops-inside-recursive-callee',
                              {'at': i, 'depth_before': ex['before']['depth'], 'depth_after': a[9],
                               'line': a[4]}))
            else:
                fails.append(('C12/next-stops-inside-callee(non-recursive)',
                              {'at': i, 'depth_before': ex['before']['depth'], 'depth_after': a[9]}))
        if c == 5:
            n0 = b[6]
            # the tick that finishes the program (tick N) is not a breakpoint stop: control does not
            # reach the next statement (a hit reported there is the D25b symptom, judged at the end)
            stop = next((k for k in range(n0 + 1, N) if pcs[k - 1] in active), None)
            exp_n = stop if stop is not None else N
            if a[6] != exp_n:
                what = 'stopped-early' if a[6] < exp_n else 'ran-past-breakpoint'
                fails.append((f'C12/continue-stop-differs({what})',
                              {'at': i, 'n': a[6], 'expected_n': exp_n, 'active': list(active)}))
                break
            if stop is not None and not (hitmsg and a[1] in active):
                fails.append(('C12/continue-stop-differs(no-hit-reported)', {'at': i}))
            if stop is None and a[2] != 1:
                fails.append(('C12/continue-stop-differs(returned-not-halted-without-breakpoint)', {'at': i}))
    last = snaps[len(run['snaps'])]
    if not fails and last[0] == 0:
        if last[2] != 1:
            fails.append(('C12/did-not-finish', {'ncont': run['ncont']}))
        elif run['final'] != F['final']:
            fi, ff = run['final'], F['final']
            same_but_reason = fi[:5] + fi[6:] == ff[:5] + ff[6:]
            if same_but_reason and fi[5] == 5:
                fails.append((f'C12/halt-reason-overwritten(halt={HR.get(ff[5], ff[5])},by=BREAKPOINT)',
                              {'final_reason': fi[5], 'free_reason': ff[5]}))
            else:
                diff = [k for k in range(len(fi)) if fi[k] != ff[k]]
                fails.append((f'C12/final-state-differs(fields={diff})', {'impl': fi, 'free': ff}))
    if kind in ('stepall', 'tag-stepall') and not resumed and run['start'][0] == 0 and extras:
        visits = [[run['start'][6], run['start'][1], extras[0]['before']['stmt']]]
        finished = False
        for i in range(len(run['snaps'])):
            if cmds[i] != 1:
                break
            a = snaps[i + 1]
            if a[2] == 1:
                finished = True
                break
            visits.append([a[6], a[1], extras[i]['after']['stmt']])
        exp = F['trace'] if finished else F['trace'][:len(visits)]
        if visits != exp:
            k = next((j for j in range(min(len(visits), len(exp))) if visits[j] != exp[j]),
                     min(len(visits), len(exp)))
            fails.append(('C12/step-visits-differ', {'first_difference': k, 'visits': visits[:k + 2],
                                                       'expected': exp[:k + 2], 'finished': finished}))
    return fails


def tags_of(F):
    """the line tags printed by the free run of a tagged program, in order (None = not a tag)"""
    out = []
    for e in F['final'][-1]:
        s = ''
        if e and e[0] == 1 and len(e) > 1 and isinstance(e[1], list):
            s = ''.join(chr(c) for c in e[1]).strip()
        out.append(int(s[1:]) if s[:1] == 'L' and s[1:].isdigit() else None)
    return out


def judge_tagged(info, F, h, run, kind):
    """tagged programs: every `PRINT "L<n>"` sits alone on line n, so what the
    program printed says which simple statements ran, in which order - an
    expectation that does not come from the debug section.  (a) the debugger
    starts before the first statement; (b) repeated step stops at every
    executed tagged statement, in order, each time before it prints; (c) break
    on an executable line is not relocated and continue stops there."""
    fails = []
    st = run['start']
    if st[0] != 0:
        return fails
    tags = tags_of(F)
    tagged = set(info['tagged'])
    if info['first_exec'] and (st[4] != 1 or st[5] != 0):
        fails.append((f'C12/debugger-does-not-start-at-first-statement(start_line={st[4]},'
                      f'events_before_first_stop={st[5]})', {'start': st}))
    if kind == 'tag-stepall':
        visits = [(st[4], st[5])]
        finished = False
        for i, a in enumerate(run['snaps']):
            if i >= len(h) or a[0] != 0 or a[7] == 1:
                break
            if a[2] == 1:
                finished = True
                break
            visits.append((a[4], a[5]))
        tv = [(l, e) for (l, e) in visits if l in tagged]
        got = [l for l, _e in tv]
        exp = tags if finished else tags[:len(got)]
        early = [(l, e) for (l, e) in tv if e >= len(tags) or tags[e] != l]
        if got != exp or early:
            missing = next((exp[j] for j in range(len(exp)) if j >= len(got) or got[j] != exp[j]), None)
            fails.append((f'C12/step-misses-executed-statement(line={missing})',
                          {'stops_at_tagged_lines': got, 'printed_tags': tags, 'finished': finished,
                           'stops_not_before_their_print': early}))
    if kind == 'tag-break' and run['snaps']:
        L = h[0][1]
        a = run['snaps'][0]
        sets = [m for m in a[11] if isinstance(m, list) and m[0] == 4]
        if not (len(a[11]) == 1 and sets and sets[0][2] == L):
            fails.append((f'C12/break-relocated-from-executable-line(line={L})', {'messages': a[11]}))
        elif len(run['snaps']) >= 2 and L in tagged:
            c = run['snaps'][1]
            e0 = a[5]
            cand = [j for j in range(len(tags)) if tags[j] == L and (j > e0 if a[4] == L else j >= e0)]
            if c[0] == 0 and c[7] == 0:
                if cand and not (2 in c[11] and c[4] == L and c[5] == cand[0]):
                    fails.append((f'C12/break-on-line-stops-elsewhere(line={L})',
                                  {'after_continue': c, 'expected_events_before_stop': cand[0]}))
                if not cand and c[2] != 1:
                    fails.append((f'C12/break-on-line-stops-elsewhere(line={L})',
                                  {'after_continue': c, 'expected': 'runs to the end'}))
    return fails


def first_diff(impl, model):
    """(index of the first differing snapshot, field) for the tie report"""
    names = ['status', 'pc', 'halted', 'reason', 'line', 'nevents', 'nticks', 'resumed', 'last',
             'depth', 'bps', 'msgs']
    isn = [impl[0]] + impl[1]
    try:
        msn = [model[0]] + model[1]
    except Exception:  # noqa
        return -1, 'malformed'
    for i, (x, y) in enumerate(zip(isn, msn)):
        if x != y:
            for k in range(min(len(x), len(y))):
                if x[k] != y[k]:
                    return i, names[k]
            return i, 'length'
    if len(isn) != len(msn):
        return min(len(isn), len(msn)), 'count'
    return len(isn), 'final-state'


# ---------------------------------------------------------------- main

def main(tier, seed):
    ctx = Ctx(PROP, tier, seed, 'proof')
    ctx.trusted_base = [
        'Coq 8.16.1 kernel (coqc, full .vo build); vm_compute in the Examples and in the D25 witness (C12_next_skips_calls_refuted)',
        'no axioms: every theorem prints "Closed under the global context"',
        'extraction: ExtrOcamlBasic only; Z, positive, nat kept inductive',
        'unverified glue: ocaml/driver.ml, tools/vlib, tools/props/c12.py, tools/implfns/dbgfn.py (instance-level counting wrappers around cpu.tick / cpu.run, stdout parsing of the debugger messages)',
        'modelled not verified: qvm/dbg.py (Cmd.__init__/load_instructions/start_debugging, find_nonempty_stmt, parse_breakpoint_spec for line numbers, do_step/do_next/do_stepi/do_nexti/do_continue/do_break/do_delbr, unhalted), qvm/cpu.py run/next/add_breakpoint/del_breakpoint, qvm/debug_info.py find_stmt (Models/Debugger.v) over the machine model Models/Machine.v + Models/Cpu.v',
        'not modelled: routine/address breakpoint specs, print/bt/cur/annotate commands, auto-status output, OS signals; ISdbl (VAL) is absent from the machine model and from the programs',
    ]
    ph = {}
    t0 = time.time()
    ctx.prove()
    exe = ctx.model('Debugger')
    ph['coq_build'] = round(time.time() - t0, 1)

    progs = programs(tier)
    tprogs = tagged_programs()
    pl = [(p, lvl) for p in progs + tprogs for lvl in LEVELS]
    fcases = [{'src': p[1], 'level': lvl, 'script': p[2]} for (p, lvl) in pl]
    t0 = time.time()
    frees = vlib.run_impl('dbgfn.free', fcases, par=4)
    ph['free_runs'] = round(time.time() - t0, 1)
    for (p, lvl), F in zip(pl, frees):
        if not isinstance(F, dict) or 'pcs' not in F or F.get('status') != 0:
            ctx.broken.append(f'correspondence free-run: program {p[0]} -O{lvl} did not run freely: {str(F)[:300]}')
            return ctx.finish()

    # ---- histories
    work = []          # (prog, level, F, kind, history)
    n4, n3 = 250, 150
    nlong = 4 if tier == 'quick' else 12
    for (p, lvl), F in zip(pl, frees):
        if len(p) > 3:
            # tagged program: all-step history and break L; continue for every tagged line and line 1
            work.append((p, lvl, F, 'tag-stepall', [1] * (len(F['trace']) + F['nevents'] + 4)))
            for L in sorted(set(p[3]['tagged']) | ({1} if p[3]['first_exec'] else set())):
                work.append((p, lvl, F, 'tag-break', [[6, L], 5]))
            continue
        l1, l2, l3 = choose_lines(F)
        a7 = [1, 2, 3, 4, 5, [6, l1], [7, l1]]
        a9 = a7 + [[6, l2], [7, l2]]
        a11 = a9 + [[6, l3], [7, l3]]
        # quick is a subset of thorough: same a7^3, a9^2 < a11^2, long k<4 < k<12
        for h in itertools.product(a7, repeat=3):
            work.append((p, lvl, F, 'hist3', list(h)))
        for h in itertools.product(a9 if tier == 'quick' else a11, repeat=2):
            work.append((p, lvl, F, 'hist2', list(h)))
        if tier != 'quick':
            for _ in range(n3):
                work.append((p, lvl, F, 'hist3s', [ctx.rng.choice(a11) for _ in range(3)]))
            for _ in range(n4):
                work.append((p, lvl, F, 'hist4s', [ctx.rng.choice(a11) for _ in range(4)]))
        for k in range(nlong):
            work.append((p, lvl, F, 'long', long_history(p[0], lvl, k, [l1, l2, l3, 1, 0, -1])))
        work.append((p, lvl, F, 'stepall', [1] * (len(F['trace']) + 2)))
        ctx.bump(f'lines:{p[0]}-O{lvl}:{l1},{l2},{l3}')
    ctx.rule.append(
        f'{len(progs)} programs (loops, IF, SELECT, GOSUB, SUB/FUNCTION incl. recursion, several statements per '
        f'line, empty blocks, END in the middle, traps, ON ERROR) x debug levels -O0/-O2: every command history of '
        f'length 3 over {{step,next,stepi,nexti,continue,break L,delbr L}} with L = the line of the most visited '
        f'statement, every history of length 2 with L in '
        + ('2 lines (one without a statement)' if tier == 'quick' else
           '3 lines (one without a statement, one beyond the end)')
        + (f', {n3}+{n4} seeded histories of length 3 and 4 over the 11-symbol alphabet per program/level'
           if tier != 'quick' else '')
        + f', {nlong} seeded histories of length 5..30, and the all-step history; each followed by continue until '
        f'the machine halts; snapshots (status pc halted reason line #events #ticks resumed last_breakpoint depth '
        f'breakpoints messages) after every command and the final machine state compared with the model; '
        f'non-trivial = distinct (program, level, history)')
    ctx.rule.append(
        f'{len(tprogs)} tagged programs x -O0/-O2 whose first character starts an executable statement (PRINT, '
        f'assignment, FOR, IF, DO, WHILE, SELECT, CALL, GOSUB) and whose PRINTs print their own line number: the '
        f'all-step history and break L; continue for every tagged line and line 1, judged against the printed '
        f'tags (an expectation independent of the debug section)')

    # group by program/level into chunks
    groups = {}
    for w in work:
        groups.setdefault((w[0][0], w[1]), []).append(w)
    chunks = []
    CH = 60
    for key, ws in groups.items():
        for i in range(0, len(ws), CH):
            chunks.append(ws[i:i + CH])
    order = list(range(len(chunks)))
    ctx.rng.shuffle(order)      # balance the workers; results are re-associated by index
    chunks = [chunks[i] for i in order]
    icases = [{'src': ch[0][0][1], 'level': ch[0][1], 'script': ch[0][0][2], 'final': True,
               'max_ticks': FUEL, 'histories': [w[4] for w in ch]} for ch in chunks]
    t0 = time.time()
    raws = vlib.run_impl('dbgfn.history', icases, timeout=7000)
    ph['impl_histories'] = round(time.time() - t0, 1)
    jobs = []
    ok_chunks = []
    for ch, raw in zip(chunks, raws):
        if not isinstance(raw, dict) or 'runs' not in raw:
            ctx.broken.append(f'correspondence T-dbg: implementation worker failed: {str(raw)[:300]}')
            continue
        hs = [w[4] + [5] * run['ncont'] for w, run in zip(ch, raw['runs'])]
        jobs.append([2, module_sx(raw['module']), raw['dbginfo'], script_sx(ch[0][0][2]), FUEL, hs])
        ok_chunks.append((ch, raw))
    t0 = time.time()
    mouts = vlib.run_model(exe, jobs, timeout=7000, par=vlib.NPROC)
    ph['model_histories'] = round(time.time() - t0, 1)
    ctx.extra['phase_seconds'] = ph
    t0 = time.time()
    nprop = {}
    sampled = set()
    for (ch, raw), mo in zip(ok_chunks, mouts):
        if isinstance(mo, str) or len(mo) != len(ch):
            ctx.broken.append(f'correspondence T-dbg: model driver failed ({str(mo)[:100]})')
            continue
        for w, run, m1 in zip(ch, raw['runs'], mo):
            p, lvl, F, kind, h = w
            key = f'{p[0]}/O{lvl}/' + ' '.join(ctext(c) for c in h)
            ctx.count(kind, 1, [key])
            ctx.bump('len:%d' % len(h))
            fails = judge_run(F, h, run, kind)
            if len(p) > 3:
                fails += judge_tagged(p[3], F, h, run, kind)
            new_failure = False
            for sig, info in fails:
                info = dict(info)
                info.update({'program': p[0], 'level': lvl, 'src': p[1], 'history': [ctext(c) for c in h],
                             'continues_appended': run['ncont']})
                if ctx.report(sig, info, True) == 'violation':
                    new_failure = True
                nprop[sig] = nprop.get(sig, 0) + 1
            if kind not in sampled:
                sampled.add(kind)
                ctx.sample({'suite': kind, 'program': p[0], 'level': lvl, 'src': p[1],
                            'history': [ctext(c) for c in h], 'continues_appended': run['ncont'],
                            'snapshot_after_start': run['start'], 'snapshots': run['snaps'][:6],
                            'free_run_ticks': F['n'], 'property_failures': [s for s, _ in fails]})
            impl = [run['start'], run['snaps'], run['final']]
            if (isinstance(m1, list) and len(m1) == 3 and impl[1] and impl[1][-1][0] != 0
                    and len(m1[1]) > len(impl[1])
                    and all(s == m1[1][len(impl[1]) - 1][:11] + [[]] for s in m1[1][len(impl[1]):])):
                # the session is over after a host exception: the model repeats the dead state
                m1 = [m1[0], m1[1][:len(impl[1])], m1[2]]
            if impl != m1:
                at, field = first_diff(impl, m1)
                allc = h + [5] * run['ncont']
                cn = 'start' if at <= 0 else (cname(allc[at - 1]) if at - 1 < len(allc) else 'end')
                ctx.report(f'C12/model-differs(cmd={cn},field={field})',
                           {'program': p[0], 'level': lvl, 'src': p[1], 'history': [ctext(c) for c in h],
                            'at': at, 'impl': impl[1][at - 1] if 0 < at <= len(impl[1]) else impl[0],
                            'model': (m1[1][at - 1] if 0 < at <= len(m1[1]) else m1[0]) if isinstance(m1, list) and len(m1) == 3 else m1,
                            'property_failures_on_this_run': [s for s, _ in fails]},
                           new_failure)
    ph['judging'] = round(time.time() - t0, 1)
    ctx.extra['property_failure_signatures'] = nprop
    ctx.extra['programs'] = len(pl)
    ctx.extra['traces_validated_against_impl'] = sum(len(ch) for ch, _ in ok_chunks)
    return ctx.finish('T-dbg: real qvm.dbg.Cmd vs extracted Models/Debugger.v; property judged directly '
                      'against a free run of the same module')


def replay(path):
    d = json.load(open(path))
    print(json.dumps(d, indent=1)[:6000])
    first = d.get('first') or {}
    if 'src' in first and 'history' in first:
        inv = {v: k for k, v in CMD.items()}
        h = []
        for t in first['history']:
            parts = t.split()
            h.append(inv[parts[0]] if len(parts) == 1 else [6 if parts[0] == 'break' else 7, int(parts[1])])
        case = {'src': first['src'], 'level': first.get('level', 0), 'final': True, 'histories': [h]}
        r = vlib.run_impl('dbgfn.history', [case])[0]
        fr = vlib.run_impl('dbgfn.free', [case])[0]
        print('replayed history on the implementation:')
        for c, s in zip(h + [5] * r['runs'][0]['ncont'], r['runs'][0]['snaps']):
            print('  ', ctext(c), s)
        for sig, info in judge_run(fr, h, r['runs'][0], 'hist'):
            print('  property failure:', sig, info)
    return 0
