"""C19 - PRINT USING fields keep their width, rounding and overflow mark.
Theorems: coq/Props/C19.v (model Models/Using.v + the USING branch of
Models/Print.v, specification Models/UsingSpec.v).  Correspondence:
  scanner    fmt_parts of the real PrintUsingFormatter on every format string
             up to a length over a 10-character alphabet,
  formatter  the real PrintUsingFormatter(fmt).format(values) (text and host
             exception) on those formats x value lists,
  formatter_extreme  field shapes x values far from the everyday range,
  exec_print_using   the real TerminalDevice._exec_print USING hand-over on
             constructed stacks,
  compiled_using     compiled PRINT USING statements at the six configurations,
  compiled_repeat    programs that execute ONE PRINT USING statement several
             times with different format strings (array element in a loop,
             format grown at run time, SUB with a format parameter),
against the extracted model.  Every result on which model and code agree is
then judged against the Coq specification (Models/UsingSpec.v: equal inside
the guard - theorem C19_using_partial -, a listed defect class outside) and
against "no host exception".  All suites share one implementation pass and one
model pass (cases interleaved over the worker processes)."""
import glob
import itertools
import json
import os
import random
import struct
import time
import vlib
from vlib import Ctx, l2s

PROP = 'C19'


def fb(x):
    return struct.unpack('>Q', struct.pack('>d', x))[0]


def sgl(x):
    return struct.unpack('>f', struct.pack('>f', x))[0]


ALPHA = '#.,+-&!_a '

# numeric values: (impl cell, source literal or None)
NUM = [
    (['D', fb(0.0)], '0#'), (['D', fb(0.5)], '.5#'), (['D', fb(1.5)], '1.5#'),
    (['D', fb(2.5)], '2.5#'), (['D', fb(-0.5)], '-.5#'), (['D', fb(9.995)], '9.995#'),
    (['D', fb(99.5)], '99.5#'), (['I', -1], '-1'), (['D', fb(1234567.0)], '1234567#'),
    (['D', fb(1e10)], '1D10'), (['D', fb(0.001)], '.001#'), (['S', fb(sgl(2.7))], '2.7'),
    (['I', 7], '7'), (['L', 100000], '100000'),
    (['D', fb(0.125)], '.125#'), (['D', fb(-0.04)], '-.04#'), (['D', fb(999.5)], '999.5#'),
    (['D', fb(1e16)], '1D16'), (['L', -1234567], '-1234567'), (['D', fb(-0.0)], None),
    (['I', 0], '0'), (['S', fb(2.0)], '2!'), (['D', fb(123456.789)], '123456.789#'),
    (['D', fb(-99.995)], '-99.995#'), (['I', 55], '55'), (['I', -55], '-55'),
]
STR = [(['$', 'a'], '"a"'), (['$', 'hello'], '"hello"'), (['$', 'x y,'], '"x y,"')]
EMPTY = (['$', ''], '""')
# values far from the everyday range: only in a small separate stream (the
# extracted model does exact big-integer decimal conversion on them)
EXTREME = [['D', fb(1e22)], ['D', fb(5e-324)], ['D', fb(1.7976931348623157e308)],
           ['D', fb(float('inf'))], ['D', fb(float('-inf'))], ['D', 0x7ff8000000000000],
           ['D', fb(1e-7)], ['S', fb(sgl(16777216.0))], ['L', 2147483647], ['L', -2147483648],
           ['D', fb(9007199254740993.0)], ['D', fb(0.3)], ['D', fb(2.675)], ['D', fb(1.005)],
           ['D', fb(-1e-300)], ['S', fb(sgl(3.4e38))], ['D', fb(0.045)], ['D', fb(8.5)]]
SHAPES = ['#', '###', '#.##', '##.#', '#,###.##', '+#.#', '#.#-', '##+', '-##', '#.', '#,#',
          '####################', '#.####################', '##,.#', '######,.###',
          '#.###', '#.####', '#,#.#####', '+#.###-']
MC = {'I': 1, 'L': 2, 'S': 3, 'D': 4, '$': 5}
EXC = {'IndexError': 1, 'RuntimeError': 2, 'TypeError': 3, 'OverflowError': 4,
       'ValueError': 5, 'AttributeError': 6}
EXCN = {v: k for k, v in EXC.items()}

REASON = {1: 'float-without-decimal-point', 2: 'trailing-sign-after-decimals',
          3: 'comma-after-point', 4: 'point-without-decimals', 5: 'trailing-sign-nonnegative',
          6: 'not-finite', 7: 'int-too-big', 9: 'malformed-options',
          10: 'trailing-underscore', 11: 'too-few-values',
          12: 'too-many-values', 13: 'number-for-string-field', 14: 'string-for-numeric-field',
          15: 'bang-empty-string', 16: 'empty-values'}
# text defects (D24 and relatives): signature by the first reason present, in this order
TEXT_SIG = [(1, 'C19/no-rounding-without-decimal-point'),
            (2, 'C19/trailing-sign-counted-as-decimal'),
            (3, 'C19/comma-after-point-counted-as-decimal'),
            (4, 'C19/decimal-point-not-printed(no-decimals)'),
            (5, 'C19/trailing-sign-nonnegative-misplaced')]
# crash classes (D16): reason -> the host exception the unchanged code raises
CRASH_EXC = {10: 'IndexError', 11: 'IndexError', 12: 'RuntimeError', 13: 'RuntimeError',
             14: 'TypeError', 15: 'IndexError', 16: 'IndexError'}
SEPS = [[';'], [','], [';', ',']]


def mval(c):
    return [MC[c[0]], c[1]]


def cell_text(c):
    if c[0] in ('S', 'D'):
        return f"{c[0]}:{struct.unpack('>d', struct.pack('>Q', c[1]))[0]!r}"
    return f'{c[0]}:{c[1]!r}'


def formats(maxlen, minlen=0):
    for n in range(minlen, maxlen + 1):
        for t in itertools.product(ALPHA, repeat=n):
            yield ''.join(t)


def field_kinds(parts):
    """parts: model result of job 2 -> list of 'n' / 's' per field, or None
    when the scanner crashes"""
    if isinstance(parts, str) or parts[0] != 0:
        return None
    return ['n' if p[0] == 2 else 's' for p in parts[1] if p[0] != 0]


def value_lists(kinds, nlists, off=0, malformed='all'):
    """matched lists: list j gives field i the value (off + j + 7 i) of its
    own kind; then the malformed stream: too few, too many, any type, swapped
    types, empty strings (malformed='one': only one of them, chosen by off)"""
    if not kinds:
        return [[], [NUM[3][0]], [STR[1][0]]] if malformed == 'all' else [[], [NUM[off % len(NUM)][0]]]
    out = []
    k = len(kinds)
    for j in range(nlists):
        vs = []
        for i, kd in enumerate(kinds):
            pool = NUM if kd == 'n' else STR
            vs.append(pool[(off + j + 7 * i) % len(pool)][0])
        out.append(vs)
    allv = [v[0] for v in NUM] + [v[0] for v in STR] + [EMPTY[0]]
    mal = [out[0][:-1],                                                    # too few
           out[0] + [NUM[12][0]],                                          # too many
           [allv[(off + 11 + 5 * i) % len(allv)] for i in range(k)],       # any type
           [(STR if kd == 'n' else NUM)[(off + i) % 3][0] for i, kd in enumerate(kinds)]]
    if 's' in kinds:
        mal.append([EMPTY[0] if kd == 's' else NUM[(off + i) % len(NUM)][0]
                    for i, kd in enumerate(kinds)])
    return out + (mal if malformed == 'all' else [mal[off % len(mal)]])


# --------------------------------------------------------------------------
# running: one implementation pass and one model pass for everything

def spread(items, n=vlib.NPROC):
    """order in which contiguous chunks of size len/n each hold a 1/n share of
    every region of the list (heavy cases are spread over the workers)"""
    return [i for r in range(n) for i in range(r, len(items), n)]


def run_both(exe, impl_cases, jobs):
    """impl_cases: ['fmt'|'stack'|'src', case] for usingfn.dispatch; jobs: sx
    jobs of the model.  Returns (raws, outs) in the original order."""
    oi = spread(impl_cases)
    ri = vlib.run_impl('usingfn.dispatch', [impl_cases[i] for i in oi])
    raws = [None] * len(impl_cases)
    for i, r in zip(oi, ri):
        raws[i] = r
    oj = spread(jobs)
    rj = vlib.run_model(exe, [jobs[i] for i in oj])
    outs = [None] * len(jobs)
    for i, r in zip(oj, rj):
        outs[i] = r
    return raws, outs


def bad_results(ctx, suite, raws, *mouts):
    for raw in raws:
        if isinstance(raw, dict) and raw.get('harness'):
            ctx.broken.append(f'correspondence {suite}: implementation worker failed: '
                              f'{raw.get("stderr", "")[-300:]}')
            return True
    for mo in mouts:
        for m in mo:
            if isinstance(m, str) or m == [-999, -999, -999]:
                ctx.broken.append(f'correspondence {suite}: model driver failed ({m})')
                return True
    return False


def fmt_impl(c):
    return ['fmt', c]


def fmt_job(c):
    return [3, c['fmt'], [mval(v) for v in c['vals']]]


def enc_stack(fmt, items):
    """what gen_print_stmt pushes: items = list of cell | ';' | ','"""
    st = [['I', 3], ['$', fmt]]
    for it in items:
        if it == ';':
            st.append(['I', 1])
        elif it == ',':
            st.append(['I', 2])
        else:
            st.append(['I', 0])
            st.append(it)
    return st


def stack_impl(c):
    st = enc_stack(c['fmt'], c['items'])
    return ['stack', st + [['I', len(st)]]]


def stmt_jobs(c):
    """job 4: what _exec_print does with the cells; job 3: formatter model,
    guard reasons and specification"""
    return ([4, [mval(x) for x in enc_stack(c['fmt'], c['items'])]],
            [3, c['fmt'], [mval(x) for x in c['items'] if x not in (';', ',')]])


# --------------------------------------------------------------------------
# judging

_SEEN = {}


def report(ctx, signature, detail, found):
    """ctx.report keeps every detail of a known finding in memory: after the
    first 20 of a signature only the input text is kept"""
    n = _SEEN[signature] = _SEEN.get(signature, 0) + 1
    if n > 20:
        detail = {'text': detail.get('text')}
    return ctx.report(signature, detail, found)


def first_crash_reason(reasons, novalues=False):
    """the crash class the unchanged code runs into first: scanner, then the
    empty printables list, then parts left to right, 'too many' last"""
    if 10 in reasons:
        return 10
    if novalues:
        return 16
    for r in reasons:
        if r in (11, 13, 14, 15):
            return r
    if 12 in reasons:
        return 12
    return None


def judge(ctx, suite, case, impl, model, reasons, spec, text, novalues=False):
    """impl/model: [0, text-or-calls] | [2, exckind] | [1] (trap).  spec: what
    the specification demands, or None where it is silent.  Returns the
    verdict: 'ok' | 'known' | 'violation'."""
    detail = {'suite': suite, 'case': case, 'impl': impl, 'model': model,
              'reasons': [REASON.get(r, r) for r in reasons], 'spec': spec, 'text': text}
    if impl != model:
        # the model no longer describes the code.  A concrete property failure
        # is exhibited when the specification speaks and is contradicted, or
        # when a host exception escapes.
        contradicts = (impl[0] == 2) or (spec is not None and impl != [0, spec])
        return report(ctx, f'C19/{suite}-differs-from-model', detail, contradicts)
    if impl[0] == 2:
        r = first_crash_reason(reasons, novalues)
        exc = EXCN.get(impl[1], 'other')
        if r is None or CRASH_EXC[r] != exc:
            return report(ctx, f'C19/host-exception({exc},unexplained)', detail, True)
        return report(ctx, f'C19/crash({exc},{REASON[r]})', detail, True)
    if impl[0] == 1:
        return report(ctx, 'C19/unexpected-trap', detail, True)
    if spec is None or impl == [0, spec]:
        return 'ok'
    for r, sig in TEXT_SIG:
        if r in reasons:
            return report(ctx, sig, detail, True)
    # inside the guard theorem C19_using_partial says model = specification
    return report(ctx, 'C19/specification-violated(inside-guard)', detail, True)


def fmt_text(c):
    return f"USING {c['fmt']!r}; " + ', '.join(cell_text(v) for v in c['vals'])


def judge_formatter(ctx, suite, cases, raws, mouts):
    """text / exception of the real formatter vs the model, then the
    specification"""
    verdicts = []
    if bad_results(ctx, suite, raws, mouts):
        return verdicts
    for c, raw, mo in zip(cases, raws, mouts):
        if 'ctor_exc' in raw:
            impl = [2, EXC.get(raw['ctor_exc'], 99)]
        elif 'exc' in raw:
            impl = [2, EXC.get(raw['exc'], 99)]
        else:
            impl = [0, raw['text']]
        m = mo[0]
        model = [0, l2s(m[1])] if m[0] == 0 else m
        spec = l2s(mo[2][0]) if mo[2] else None
        verdicts.append(judge(ctx, suite, c, impl, model, mo[1], spec, fmt_text(c)))
        ctx.bump(suite + ':' + ('host-exception' if impl[0] == 2 else
                                'inside-guard' if not mo[1] else 'text-outside-guard'))
    ctx.count(suite, len(cases), set(json.dumps([c['fmt'], c['vals']]) for c in cases))
    if cases:
        ctx.sample({'suite': suite, 'case': fmt_text(cases[len(cases) // 2])})
    return verdicts


def judge_scanner(ctx, fmts, raws, parts):
    """fmt_parts of the real constructor vs parse_format (the constructor
    result does not depend on the values: raws are formatter results)"""
    if bad_results(ctx, 'scanner', raws, parts):
        return
    for f, raw, p in zip(fmts, raws, parts):
        if 'ctor_exc' in raw:
            impl = [2, EXC.get(raw['ctor_exc'], 99)]
        else:
            impl = [0, raw['parts']]
        if impl != p:
            ctx.report('C19/scanner-differs-from-model',
                       {'suite': 'scanner', 'case': {'fmt': f}, 'impl': impl, 'model': p,
                        'text': f'PrintUsingFormatter({f!r}).fmt_parts'}, False)
        ctx.bump('scanner:' + ('trailing-underscore' if impl[0] == 2 else
                               f'{sum(1 for x in impl[1] if x[0] != 0)}-fields'))
    ctx.count('scanner', len(fmts), set(fmts))


LITS = {json.dumps(c): s for c, s in NUM + STR + [EMPTY] if s is not None}
LITS[json.dumps(['D', fb(-1.5)])] = '-1.5#'


def stmt_source(fmt, items):
    parts = []
    for it in items:
        if it in (';', ','):
            parts.append(it)
        else:
            parts.append(' ' + LITS[json.dumps(it)] + ' ')
    return f'PRINT USING "{fmt}";' + ''.join(parts)


def stmt_items(vals, seps, end):
    items = []
    for i, v in enumerate(vals):
        if i:
            items.append(seps[i % len(seps)])
        items.append(v)
    if end:
        items.append(end)
    return items


def judge_stmt(ctx, suite, mp, mo, case, impl, text):
    """mp = model pout (job 4), mo = [ures, reasons, spec] (job 3)"""
    model = [0, [l2s(x) for x in mp[1]]] if mp[0] == 0 else mp
    ends = bool(case['items']) and case['items'][-1] in (';', ',')
    spec = None
    if mo[2]:
        spec = [l2s(mo[2][0])] + ([] if ends else ['\r\n'])
    return judge(ctx, suite, case, impl, model, mo[1], spec, text, novalues=not case['items'])


def judge_stack(ctx, cases, raws, mp, mo):
    suite = 'exec_print_using'
    verdicts = []
    if bad_results(ctx, suite, raws, mp, mo):
        return verdicts
    for c, raw, p, o in zip(cases, raws, mp, mo):
        text = 'stack of: PRINT USING ' + repr(c['fmt']) + '; ' + \
            ' '.join(x if isinstance(x, str) else cell_text(x) for x in c['items'])
        if 'exc' in raw:
            impl = [2, EXC.get(raw['exc'], 99)]
        elif raw['res'] == 'trap':
            impl = [1]
        else:
            impl = [0, [l2s(x) for x in raw['calls']]]
            if raw['stack'] != 0 or raw['others']:
                ctx.report('C19/exec-print-leaves-state', {'suite': suite, 'case': c, 'raw': raw,
                                                           'text': text}, True)
        verdicts.append(judge_stmt(ctx, suite, p, o, c, impl, text))
    ctx.count(suite, len(cases), set(json.dumps(c) for c in cases))
    if cases:
        ctx.sample({'suite': suite, 'case': json.dumps(cases[len(cases) // 3])})
    return verdicts


def judge_compiled(ctx, cases, raws, mp, mo):
    suite = 'compiled_using'
    verdicts = []
    if bad_results(ctx, suite, raws, mp, mo):
        return verdicts
    for c, raw, p, o in zip(cases, raws, mp, mo):
        text = f"-O{c['level']}{' -g' if c['debug'] else ''}: {c['src']}"
        if 'exc' in raw and 'events' not in raw:
            # the compiler (not the machine) raised: not a PRINT USING matter,
            # but the statement generator promises compilable statements
            verdicts.append(ctx.report(f"C19/compile-failed({raw['exc']})",
                                       {'suite': suite, 'case': c, 'raw': raw, 'text': text}, False))
            continue
        calls = [l2s(e[1]) for e in raw['events'] if e[0] == 'terminal_print']
        if 'exc' in raw:
            impl = [2, EXC.get(raw['exc'], 99)]
            if calls:
                ctx.report('C19/output-before-crash', {'suite': suite, 'case': c, 'raw': raw,
                                                       'text': text}, True)
        elif raw['outcome'][1] is not None:
            impl = [1]
        else:
            impl = [0, calls]
            if raw['stack'] != 0:
                ctx.report('C19/compiled-statement-leaves-stack',
                           {'suite': suite, 'case': c, 'raw': raw, 'text': text}, True)
        verdicts.append(judge_stmt(ctx, suite, p, o, c, impl, text))
        ctx.bump(f"compiled:-O{c['level']}{'-g' if c['debug'] else ''}")
    ctx.count(suite, len(cases), set(c['src'] for c in cases))
    if cases:
        ctx.sample({'suite': suite, 'case': cases[len(cases) // 2]['src']})
    return verdicts


def vm_recheck(ctx, cases, outs, n=16):
    """extraction is not trusted blindly: a seeded sample of formatter jobs is
    recomputed inside Coq with vm_compute and must equal what the extracted
    OCaml model printed"""
    rng = random.Random(f'{ctx.seed}-vm')
    light = [i for i, c in enumerate(cases) if len(c['vals']) <= 2 and not isinstance(outs[i], str)]
    pick = rng.sample(light, min(n, len(light)))
    d = os.path.join(vlib.BUILD, 'cases')
    os.makedirs(d, exist_ok=True)
    lines = ['From Coq Require Import ZArith List.', 'From QV Require Import Sx UsingEntry.',
             'Import ListNotations.', 'Open Scope Z_scope.']
    for k, i in enumerate(pick):
        lines.append(f'Example case_{k} : using_entry ({vlib.sx_gallina(fmt_job(cases[i]))}) = '
                     f'{vlib.sx_gallina(outs[i])}.')
        lines.append('Proof. vm_compute. reflexivity. Qed.')
    path = os.path.join(d, 'C19cases.v')
    open(path, 'w').write('\n'.join(lines) + '\n')
    with vlib.Lock():
        rc, out = vlib._run(['timeout', '300', 'coqc', '-Q', vlib.COQ, 'QV', '-w',
                             '-notation-overridden,-deprecated-hint-without-locality,-deprecated',
                             path], cwd=d, timeout=330)
    name = 'extracted_model_equals_vm_compute_on_sample'
    ctx.obligations.append(name)
    ctx.extra['vm_compute_rechecked_cases'] = len(pick)
    if rc == 0 and pick:
        ctx.discharged.append(name)
    else:
        ctx.broken.append('vm_compute re-check of the extracted model failed: ' + out[-400:])


# --------------------------------------------------------------------------
# case generation

def formatter_cases(tier, seed, fmts_all, kinds_of):
    quick = tier == 'quick'
    rng = random.Random(f'{seed}-A')
    cases, first_case = [], {}
    nl3, nl4 = len(NUM), 3
    for f in fmts_all:
        n = len(f)
        kinds = kinds_of.get(f)
        if n <= 3:
            lists = value_lists(kinds, nl3)
        elif n == 4:
            lists = value_lists(kinds, nl4, off=rng.randrange(len(NUM)), malformed='one')
        elif n == 5 and (kinds or rng.random() < 0.25):
            # length 5: every format with a field, a seeded quarter of the others
            lists = value_lists(kinds, 2, off=rng.randrange(len(NUM)), malformed='one')
        elif n == 6 and rng.random() < 0.2:
            # length 6: a fifth of the sampled strings
            lists = value_lists(kinds, 2, off=rng.randrange(len(NUM)), malformed='one')
        else:
            lists = [[]]        # scanner only (and the formatter without values)
        first_case[f] = len(cases)
        for vs in lists:
            cases.append({'fmt': f, 'vals': vs})
    rule = (f'formatter: PrintUsingFormatter(fmt).format(values) for every format of length <= 3 x '
            f'{nl3} matched value lists (field i gets value (j+7i) of its kind out of {len(NUM)} '
            f'numbers: zero, ties .5 1.5 2.5 .125, carries 9.995 99.5 999.5, negatives, -0.0, '
            f'too wide, SINGLE/INTEGER/LONG; 3 strings) + malformed stream (too few, too many, '
            f'any type, swapped types, empty strings); length 4: every format x {nl4} lists from a '
            f'seeded offset + 1 malformed'
            + ('' if quick else '; length 5: every format with a field (a seeded quarter of the '
               'others) x 2 lists + 1 malformed; length 6: a fifth of the sampled strings x 2 lists '
               '+ 1 malformed, the rest without values')
            + '; non-trivial = distinct (format, values)')
    return cases, first_case, rule


STACK_FORMATS = [f for f in formats(2)] + ['#.#', '##-', '+##', '& #', '!_!', '#,#', 'a#b', '## ##',
                                            '&&', '# &']


def stack_cases(tier, kinds_of):
    cases = []
    for f in STACK_FORMATS:
        for vl in value_lists(kinds_of[f], 2 if tier == 'quick' else 8):
            for end in (None, ';', ','):
                for seps in (SEPS if len(vl) > 1 else SEPS[:1]):
                    cases.append({'fmt': f, 'items': stmt_items(vl, seps, end)})
        # separators in odd places: leading, doubled, alone
        v = NUM[12][0]
        for items in ([';'], [','], [';', v], [',', v, ';', ';'], [v, ';', ',', v]):
            cases.append({'fmt': f, 'items': items})
    rule = (f'exec_print_using: real TerminalDevice._exec_print on the cells of PRINT USING for '
            f'{len(STACK_FORMATS)} formats (all of length <= 2 + 10 longer) x value lists x separators '
            f'; , mixed x ending none ; , + separators in odd places and no values')
    return cases, rule


WITNESSES = [
    ('###', [NUM[11][0]], None), ('##.##-', [['D', fb(-1.5)]], None), ('x', [], None),
    ('!', [EMPTY[0]], None), ('a_', [NUM[12][0]], None), ('#', [NUM[12][0], NUM[20][0]], ';'),
    ('# #', [NUM[12][0]], None), ('&', [NUM[12][0]], None), ('#', [STR[0][0]], None),
    ('##+', [NUM[24][0]], None), ('##-', [NUM[24][0]], ';'), ('#.', [NUM[3][0]], None),
    ('#.#,', [NUM[14][0]], ','), ('##.##', [NUM[5][0]], None), ('#,###.#', [NUM[8][0]], None),
    ('+##.#', [NUM[4][0]], None), ('& and !_!', [STR[1][0], STR[1][0]], None),
    ('##.## ##.##', [NUM[14][0], NUM[3][0]], ','), ('###-', [NUM[25][0]], None),
]
SUFFIXES = ['#', '.#', ' &', '-', ',#', '_#', '!']


def stmt_formats(tier, seed, cand):
    """the format of the i-th seeded statement (its own generator, so that the
    quick statements are the first ones of the thorough tier)"""
    n = 40 if tier == 'quick' else 400
    out = []
    for i in range(n):
        rng = random.Random(f'{seed}-C-{i}')
        f = rng.choice(cand)
        if rng.random() < 0.35:
            f = f + rng.choice(SUFFIXES)
        out.append((f, rng))
    return out


def compiled_cases(fmts_rngs, kinds_of):
    stmts = [{'fmt': f, 'items': stmt_items(v, [';'], e)} for f, v, e in WITNESSES]
    for f, rng in fmts_rngs:
        kinds = kinds_of.get(f) or []
        r = rng.random()
        vs = []
        for kd in kinds:
            pool = [p for p in (NUM if kd == 'n' else STR) if p[1] is not None]
            if r > 0.93:
                pool = [p for p in NUM + STR + [EMPTY] if p[1] is not None]
            vs.append(rng.choice(pool)[0])
        if r < 0.04 and vs:
            vs = vs[:-1]
        elif r < 0.08:
            vs = vs + [NUM[12][0]]
        end = rng.choice([None, None, ';', ','])
        seps = rng.choice(SEPS)
        stmts.append({'fmt': f, 'items': stmt_items(vs, seps, end)})
    cases = []
    for s in stmts:
        src = stmt_source(s['fmt'], s['items'])
        for level in (0, 1, 2):
            for dbg in (False, True):
                cases.append({'fmt': s['fmt'], 'items': s['items'], 'src': src,
                              'level': level, 'debug': dbg})
    rule = (f'compiled_using: {len(WITNESSES)} fixed statements (one per defect class and per guarded '
            f'feature) + {len(fmts_rngs)} seeded PRINT USING statements (formats of length <= 3 with a '
            f'field, 35% extended by a suffix; matched values, 8% wrong count, 7% any type; ending none '
            f'; ,) compiled by the real compiler at levels 0,1,2 x debug on/off, run on the real machine; '
            f'terminal_print calls judged against the model, the Coq specification and no-host-exception')
    return cases, rule


# --------------------------------------------------------------------------
# one PRINT USING statement executed several times with different formats

NUMF = ['[###.##]', '<+#.#>', '#,###.## total', '##.#', 'a_#b #.###', '-##.##', '+##.# ', 'x#.####']
STRF = ['&', '!', '[&] _!', 'x ! y', '& items']
REP_NUM = [NUM[i] for i in (2, 4, 5, 14, 22, 8, 6, 1)]     # DOUBLE values with a literal
GROW = ['#.', '##.', '+#.', 'v=#,###.']


def repeat_programs(tier):
    """programs in which ONE PRINT USING statement runs three times, each time
    with another format string: format from a string array in a FOR loop,
    format grown at run time, SUB with a format parameter.  Cases carry
    (source, [(format, value cell) per execution], end separator)."""
    progs = []
    n = 2 if tier == 'quick' else len(NUMF)
    for k in range(n):
        fs = [NUMF[(k + 3 * j) % len(NUMF)] for j in range(3)]
        v, lit = REP_NUM[k % len(REP_NUM)]
        end = [None, ';', ','][k % 3]
        src = 'DIM f$(1 TO 3)\n' + ''.join(f'f$({j + 1}) = "{f}"\n' for j, f in enumerate(fs)) + \
              f'FOR i% = 1 TO 3\nPRINT USING f$(i%); {lit}{end or ""}\nNEXT\n'
        progs.append((src, [(f, v) for f in fs], end))
        # SUB with a format parameter, another value at every call
        vs = [REP_NUM[(k + j) % len(REP_NUM)] for j in range(3)]
        calls = [f'show "{f}", {vs[j][1]}' if j != 1 else f'CALL show("{f}", {vs[j][1]})'
                 for j, f in enumerate(fs)]
        src = f'SUB show (f$, v#)\nPRINT USING f$; v#{end or ""}\nEND SUB\n' + '\n'.join(calls) + '\n'
        progs.append((src, [(f, vs[j][0]) for j, f in enumerate(fs)], end))
    for k in range(1 if tier == 'quick' else len(GROW)):
        base = GROW[k]
        v, lit = REP_NUM[(k + 2) % len(REP_NUM)]
        end = [';', None][k % 2]
        src = f'f$ = "{base}"\nFOR i% = 1 TO 3\nf$ = f$ + "#"\nPRINT USING f$; {lit}{end or ""}\nNEXT\n'
        progs.append((src, [(base + '#' * j, v) for j in (1, 2, 3)], end))
    for k in range(1 if tier == 'quick' else len(STRF)):
        fs = [STRF[(k + 2 * j) % len(STRF)] for j in range(3)]
        v, lit = STR[k % len(STR)]
        src = 'DIM f$(1 TO 3)\n' + ''.join(f'f$({j + 1}) = "{f}"\n' for j, f in enumerate(fs)) + \
              f'FOR i% = 1 TO 3\nPRINT USING f$(i%); {lit}\nNEXT\n'
        progs.append((src, [(f, v) for f in fs], None))
        src = 'SUB shows (f$, s$)\nPRINT USING f$; s$;\nEND SUB\n' + \
              '\n'.join(f'shows "{f}", {lit}' for f in fs) + '\n'
        progs.append((src, [(f, v) for f in fs], ';'))
    cases = []
    for src, execs, end in progs:
        for level in (0, 2):
            cases.append({'src': src, 'level': level, 'debug': level == 2, 'execs': execs, 'end': end})
    rule = (f'compiled_repeat: {len(progs)} programs in which one PRINT USING statement is executed three '
            f'times with three different format strings (string array element in a FOR loop, format grown '
            f'at run time, SUB with a format parameter; numeric, &, !, literal and escape formats inside '
            f'the guard) at levels 0 and 2: every terminal_print text against the model and the Coq '
            f'specification of its own format')
    return cases, rule


def repeat_jobs(c):
    """per execution: job 4 and job 3 of the statement with that format"""
    out = []
    for f, v in c['execs']:
        j4, j3 = stmt_jobs({'fmt': f, 'items': [v] + ([c['end']] if c['end'] else [])})
        out += [j4, j3]
    return out


def judge_repeat(ctx, cases, raws, outs):
    """outs: flat list, 2 model results per execution"""
    suite = 'compiled_repeat'
    verdicts = []
    if bad_results(ctx, suite, raws, outs):
        return verdicts
    pos = 0
    for c, raw in zip(cases, raws):
        k = len(c['execs'])
        mo = outs[pos:pos + 2 * k]
        pos += 2 * k
        text = f"-O{c['level']}{' -g' if c['debug'] else ''}: " + c['src'].replace('\n', ' : ')
        if 'exc' in raw and 'events' not in raw:
            verdicts.append(ctx.report(f"C19/compile-failed({raw['exc']})",
                                       {'suite': suite, 'case': c, 'raw': raw, 'text': text}, False))
            continue
        calls = [l2s(e[1]) for e in raw['events'] if e[0] == 'terminal_print']
        if 'exc' in raw:
            impl = [2, EXC.get(raw['exc'], 99)]
        elif raw['outcome'][1] is not None:
            impl = [1]
        else:
            impl = [0, calls]
        model, spec, reasons = [0, []], [], []
        for i in range(k):
            mp, m3 = mo[2 * i], mo[2 * i + 1]
            if model[0] == 0:
                if mp[0] != 0:
                    model = mp
                else:
                    model[1] += [l2s(x) for x in mp[1]]
            reasons += m3[1]
            if spec is not None and m3[2]:
                spec += [l2s(m3[2][0])] + ([] if c['end'] else ['\r\n'])
            else:
                spec = None
        verdicts.append(judge(ctx, suite, dict(c), impl, model, reasons, spec, text))
    ctx.count(suite, len(cases), set(c['src'] for c in cases))
    if cases:
        ctx.sample({'suite': suite, 'case': cases[0]['src']})
    return verdicts


def main(tier, seed):
    ctx = Ctx(PROP, tier, seed, 'proof')
    ctx.trusted_base = [
        'Coq 8.16.1 kernel (coqc, full .vo build; vm_compute only in the Examples, the _refuted witnesses '
        'and the re-check of sampled extracted results)',
        'no axioms: every theorem prints "Closed under the global context"',
        'extraction: ExtrOcamlBasic only; Z, positive kept inductive; a seeded sample of the extracted '
        "model's answers is recomputed with vm_compute on every run",
        'unverified glue: ocaml/driver.ml, tools/vlib, tools/props/c19.py, tools/implfns/usingfn.py',
        'modelled not verified: qvm/using.py PrintUsingFormatter (Models/Using.v), the USING branch of '
        'qvm/machine.py TerminalDevice._exec_print and qbee/qvm_codegen.py gen_print_stmt (Models/Print.v); '
        "Python's format(), repr(float) and str.format are re-implemented in Base/Dec.v + Models/Using.v and "
        'compared on every run; the PRINT USING grammar is inside the correspondence only',
        'the specification (Models/UsingSpec.v) takes the field boundaries from the scanner model; the '
        'scanner model carries a ghost field o_frac (number of # after the point), never read by the renderer',
    ]
    phase = ctx.extra.setdefault('phase_s', {})
    t0 = time.time()

    def mark(name):
        nonlocal t0
        phase[name] = round(time.time() - t0, 1)
        t0 = time.time()
    ctx.prove()
    exe = ctx.model('Using')
    mark('coq+extraction')

    # ---- formats: every string up to a length; parse them in the model first
    smax = 4 if tier == 'quick' else 6
    fmts_all = list(formats(min(smax, 5)))
    if smax == 6:
        # length 6 is 10^6 strings: a seeded 30% sample
        rng6 = random.Random(f'{seed}-6')
        fmts_all += [f for f in formats(6, 6) if rng6.random() < 0.3]
    extra = sorted(set(STACK_FORMATS + [w[0] for w in WITNESSES]) - set(fmts_all))
    parts_all = vlib.run_model(exe, [[2, f] for f in fmts_all + extra])
    kinds_of = {f: field_kinds(p) for f, p in zip(fmts_all + extra, parts_all)}
    # seeded statements use formats of length <= 3 with at least one field (+ a suffix)
    withf = [f for f in formats(3) if kinds_of.get(f)]
    sfr = stmt_formats(tier, seed, withf)
    more = sorted(set(f for f, _ in sfr) - set(kinds_of))
    if more:
        for f, p in zip(more, vlib.run_model(exe, [[2, f] for f in more])):
            kinds_of[f] = field_kinds(p)
    mark('model-parse')

    casesA, first_case, ruleA = formatter_cases(tier, seed, fmts_all, kinds_of)
    casesX = [{'fmt': f, 'vals': [v]} for f in SHAPES for v in EXTREME + [n[0] for n in NUM]]
    casesB, ruleB = stack_cases(tier, kinds_of)
    casesC, ruleC = compiled_cases(sfr, kinds_of)
    casesR, ruleR = repeat_programs(tier)
    ctx.rule.append(f'scanner: every format string of length <= {min(smax, 5)} over the {len(ALPHA)} '
                    f'characters {ALPHA!r}' + (' and a seeded 30% of those of length 6' if smax == 6 else '')
                    + f' ({len(fmts_all)} strings): fmt_parts of the real constructor = parse_format '
                    f'(constructor results taken from the formatter runs)')
    ctx.extra['exhaustive'] = False
    ctx.rule.append(ruleA)
    ctx.rule.append(f'formatter_extreme: {len(SHAPES)} field shapes (0..20 decimals) x '
                    f'{len(EXTREME) + len(NUM)} values incl. 5e-324, 1.8e308, 1e22, inf, nan, LONG limits, '
                    f'2^53+1')
    ctx.rule.append(ruleB)
    ctx.rule.append(ruleC)
    ctx.rule.append(ruleR)

    # ---- one implementation pass, one model pass
    impl_cases = [fmt_impl(c) for c in casesA + casesX] + [stack_impl(c) for c in casesB] + \
                 [['src', c] for c in casesC] + [['src', c] for c in casesR]
    jB, jC = [stmt_jobs(c) for c in casesB], [stmt_jobs(c) for c in casesC]
    jobs = [fmt_job(c) for c in casesA + casesX] + [j[0] for j in jB] + [j[1] for j in jB] + \
           [j[0] for j in jC] + [j[1] for j in jC] + [j for c in casesR for j in repeat_jobs(c)]
    raws, outs = run_both(exe, impl_cases, jobs)
    mark('implementation+model')
    nA, nX, nB, nC = len(casesA), len(casesX), len(casesB), len(casesC)
    rA, rX, rB, rC = (raws[:nA], raws[nA:nA + nX], raws[nA + nX:nA + nX + nB],
                      raws[nA + nX + nB:nA + nX + nB + nC])
    rR = raws[nA + nX + nB + nC:]
    oA, oX = outs[:nA], outs[nA:nA + nX]
    p = nA + nX
    oB4, oB3, oC4, oC3 = (outs[p:p + nB], outs[p + nB:p + 2 * nB],
                          outs[p + 2 * nB:p + 2 * nB + nC],
                          outs[p + 2 * nB + nC:p + 2 * nB + 2 * nC])
    oR = outs[p + 2 * nB + 2 * nC:]
    judge_formatter(ctx, 'formatter', casesA, rA, oA)
    judge_scanner(ctx, fmts_all, [rA[first_case[f]] for f in fmts_all], parts_all[:len(fmts_all)])
    judge_formatter(ctx, 'formatter_extreme', casesX, rX, oX)
    judge_stack(ctx, casesB, rB, oB4, oB3)
    judge_compiled(ctx, casesC, rC, oC4, oC3)
    judge_repeat(ctx, casesR, rR, oR)
    mark('judging')
    vm_recheck(ctx, casesA, oA)
    mark('vm_compute-recheck')
    return ctx.finish()


# --------------------------------------------------------------------------
# replay

def _ctx_keeping_replays(tier):
    """Ctx() clears the replay files of the property; a replay must not"""
    pat = os.path.join(vlib.VERIF, 'replays', f'{PROP}-*.json')
    saved = {f: open(f, 'rb').read() for f in glob.glob(pat)}
    ctx = Ctx(PROP, tier, 0, 'proof')
    for f, b in saved.items():
        open(f, 'wb').write(b)
    return ctx


def replay(path):
    """re-run the recorded case on the implementation and the model; exit 1
    when it still fails (violation or known finding), 0 when it no longer does"""
    d = json.load(open(path))
    first = d.get('first') or {}
    print(f"replay {path}: signature {d.get('signature')}")
    if d.get('no_longer_checks'):
        print('broken obligations:', d['no_longer_checks'])
        print(d.get('detail', '')[-2000:])
        ctx = _ctx_keeping_replays('replay')
        ok = ctx.prove()
        print('Coq obligations now', 'hold' if ok and not ctx.broken else 'still broken')
        return 0 if ok and not ctx.broken else 1
    suite, case = first.get('suite'), first.get('case')
    print('input   :', first.get('text'))
    print('recorded: impl', first.get('impl'), '| model', first.get('model'), '| spec', first.get('spec'),
          '| reasons', first.get('reasons'))
    ctx = _ctx_keeping_replays('replay')
    exe = ctx.model('Using')
    if suite == 'scanner':
        raws, outs = run_both(exe, [fmt_impl({'fmt': case['fmt'], 'vals': []})], [[2, case['fmt']]])
        judge_scanner(ctx, [case['fmt']], raws, outs)
    elif suite in ('formatter', 'formatter_extreme'):
        raws, outs = run_both(exe, [fmt_impl(case)], [fmt_job(case)])
        judge_formatter(ctx, suite, [case], raws, outs)
    elif suite == 'exec_print_using':
        raws, outs = run_both(exe, [stack_impl(case)], list(stmt_jobs(case)))
        judge_stack(ctx, [case], raws, outs[:1], outs[1:])
    elif suite == 'compiled_using':
        raws, outs = run_both(exe, [['src', case]], list(stmt_jobs(case)))
        judge_compiled(ctx, [case], raws, outs[:1], outs[1:])
    elif suite == 'compiled_repeat':
        raws, outs = run_both(exe, [['src', case]], repeat_jobs(case))
        judge_repeat(ctx, [case], raws, outs)
    else:
        print('no runnable case in this replay file')
        return 1
    for v in ctx.violations:
        dd = v['detail']
        print('now     : VIOLATION', v['signature'], '| impl', dd.get('impl'), '| model', dd.get('model'),
              '| spec', dd.get('spec'))
    for k, hits in ctx.known_hits.items():
        dd = hits[0]
        print('now     : known finding', k, '| impl', dd.get('impl'), '| spec', dd.get('spec'))
    if ctx.broken:
        print('harness :', ctx.broken)
    bad = bool(ctx.violations or ctx.known_hits or ctx.broken)
    print('result  :', 'still fails' if bad else 'passes now')
    return 1 if bad else 0
