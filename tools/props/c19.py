"""C19 - PRINT USING fields keep their width, rounding and overflow mark.
Theorems: coq/Props/C19.v (model Models/Using.v + the USING branch of
Models/Print.v, specification Models/UsingSpec.v).  Correspondence:
  A  the real PrintUsingFormatter (scanner result, text, host exception) on all
     format strings up to a length over a 10-character alphabet x value lists,
  B  the real TerminalDevice._exec_print USING hand-over on constructed stacks,
  C  compiled PRINT USING statements at the six configurations,
against the extracted model; every agreed result is then judged against the
Coq specification (inside the guard) and against "no host exception"."""
import itertools
import json
import struct
import vlib
from vlib import Ctx, l2s, s2l

PROP = 'C19'


def fb(x):
    return struct.unpack('>Q', struct.pack('>d', x))[0]


def sgl(x):
    return struct.unpack('>f', struct.pack('>f', x))[0]


ALPHA = '#.,+-&!_a '

# numeric values: (impl cell, source literal or None)
NUM = [
    (['D', fb(0.0)], '0#'), (['D', fb(0.5)], '.5#'), (['D', fb(1.5)], '1.5#'),
    (['D', fb(2.5)], '2.5#'), (['D', fb(-0.5)], '-.5#'), (['D', fb(9.995)], '9.995#'),
    (['D', fb(99.5)], '99.5#'), (['I', -1], '-1'), (['D', fb(1234567.0)], '1234567#'),
    (['D', fb(1e10)], '1D10'), (['D', fb(0.001)], '.001#'), (['S', fb(sgl(2.7))], '2.7'),
    (['I', 7], '7'), (['L', 100000], '100000'),
    (['D', fb(0.125)], '.125#'), (['D', fb(-0.04)], '-.04#'), (['D', fb(999.5)], '999.5#'),
    (['D', fb(1e16)], '1D16'), (['L', -1234567], '-1234567'), (['D', fb(-0.0)], None),
    (['I', 0], '0'), (['S', fb(2.0)], '2!'), (['D', fb(123456.789)], '123456.789#'),
    (['D', fb(-99.995)], '-99.995#'), (['I', 55], '55'), (['I', -55], '-55'),
]
STR = [(['$', ''], '""'), (['$', 'a'], '"a"'), (['$', 'hello'], '"hello"')]
# values far from the everyday range: only in a small separate stream (the
# extracted model does exact big-integer decimal conversion on them)
EXTREME = [['D', fb(1e22)], ['D', fb(5e-324)], ['D', fb(1.7976931348623157e308)],
           ['D', fb(float('inf'))], ['D', fb(float('-inf'))], ['D', 0x7ff8000000000000],
           ['D', fb(1e-7)], ['S', fb(sgl(16777216.0))], ['L', 2147483647], ['L', -2147483648],
           ['D', fb(9007199254740993.0)], ['D', fb(0.3)], ['D', fb(2.675)], ['D', fb(1.005)]]
MC = {'I': 1, 'L': 2, 'S': 3, 'D': 4, '$': 5}
EXC = {'IndexError': 1, 'RuntimeError': 2, 'TypeError': 3, 'OverflowError': 4,
       'ValueError': 5, 'AttributeError': 6}

REASON = {1: 'float-without-decimal-point', 2: 'trailing-sign-after-decimals',
          3: 'comma-after-point', 4: 'point-without-decimals', 5: 'trailing-sign-nonnegative',
          6: 'not-finite', 7: 'int-too-big', 10: 'trailing-underscore', 11: 'too-few-values',
          12: 'too-many-values', 13: 'number-for-string-field', 14: 'string-for-numeric-field',
          15: 'bang-empty-string', 16: 'empty-values'}
# text defects (D24 and relatives): signature by the first reason present, in this order
TEXT_SIG = [(1, 'C19/no-rounding-without-decimal-point'),
            (2, 'C19/trailing-sign-counted-as-decimal'),
            (3, 'C19/comma-after-point-counted-as-decimal'),
            (4, 'C19/decimal-point-not-printed(no-decimals)'),
            (5, 'C19/trailing-sign-nonnegative-misplaced')]
# crash classes (D16): reason -> the host exception the unchanged code raises
CRASH_EXC = {10: 'IndexError', 11: 'IndexError', 12: 'RuntimeError', 13: 'RuntimeError',
             14: 'TypeError', 15: 'IndexError', 16: 'IndexError'}


def mval(c):
    return [MC[c[0]], c[1]]


def cell_text(c):
    if c[0] in ('S', 'D'):
        return f"{c[0]}:{struct.unpack('>d', struct.pack('>Q', c[1]))[0]!r}"
    return f'{c[0]}:{c[1]!r}'


def formats(maxlen, minlen=0):
    for n in range(minlen, maxlen + 1):
        for t in itertools.product(ALPHA, repeat=n):
            yield ''.join(t)


def field_kinds(parts):
    """parts: model result of job 2 -> list of 'n' / 's' per field, or None
    when the scanner crashes"""
    if parts[0] != 0:
        return None
    return ['n' if p[0] == 2 else 's' for p in parts[1] if p[0] != 0]


def value_lists(kinds, nlists, off=0):
    """matched lists: list j gives field i the value (j + 7 i) of its own kind;
    then a too-short, a too-long and two type-rotated lists"""
    out = []
    if not kinds:
        return [[], [NUM[3][0]], [STR[2][0]]]
    k = len(kinds)
    for j in range(nlists):
        vs = []
        for i, kd in enumerate(kinds):
            pool = NUM if kd == 'n' else STR
            vs.append(pool[(off + j + 7 * i) % len(pool)][0])
        out.append(vs)
    allv = [v[0] for v in NUM] + [v[0] for v in STR]
    out.append([allv[(off + 3 * i) % len(allv)] for i in range(k - 1)])      # too few
    out.append(out[0] + [NUM[12][0]])                                       # too many
    out.append([allv[(off + 11 + 5 * i) % len(allv)] for i in range(k)])    # any type
    out.append([(STR if kd == 'n' else NUM)[(off + i) % 3][0] for i, kd in enumerate(kinds)])
    return out


# --------------------------------------------------------------------------
# judging

def first_crash_reason(reasons, novalues=False):
    """the crash class the unchanged code runs into first: scanner, then the
    empty printables list, then parts left to right, 'too many' last"""
    if 10 in reasons:
        return 10
    if novalues:
        return 16
    for r in reasons:
        if r in (11, 13, 14, 15):
            return r
    if 12 in reasons:
        return 12
    return None


def judge(ctx, suite, case, impl, model, reasons, spec, text, novalues=False, sep_end=None):
    """impl/model: [0, calls-or-text] | [2, exckind] | [1] (trap).  spec: text
    demanded by the specification or None.  Returns True when nothing was
    reported."""
    detail = {'suite': suite, 'case': case, 'impl': impl, 'model': model,
              'reasons': [REASON.get(r, r) for r in reasons], 'spec': spec, 'text': text}
    if impl != model:
        # the model no longer describes the code.  A concrete property failure
        # is exhibited when the specification speaks and is contradicted, or
        # when a host exception escapes.
        contradicts = (impl[0] == 2) or (spec is not None and impl != [0, spec])
        ctx.report(f'C19/{suite}-differs-from-model', detail, contradicts)
        return False
    if impl[0] == 2:
        r = first_crash_reason(reasons, novalues)
        exc = [k for k, v in EXC.items() if v == impl[1]]
        exc = exc[0] if exc else 'other'
        if r is None or CRASH_EXC[r] != exc:
            ctx.report(f'C19/host-exception({exc},unexplained)', detail, True)
        else:
            ctx.report(f'C19/crash({exc},{REASON[r]})', detail, True)
        return False
    if impl[0] == 1:
        ctx.report('C19/unexpected-trap', detail, True)
        return False
    if spec is None:
        return True
    if impl == [0, spec]:
        return True
    text_reasons = [r for r in reasons if r < 10]
    for r, sig in TEXT_SIG:
        if r in text_reasons:
            ctx.report(sig, detail, True)
            return False
    # inside the guard the theorem C19_using_partial says model = spec
    ctx.report('C19/specification-violated(inside-guard)', detail, True)
    return False


def run_formatter_suite(ctx, exe, suite, cases, nontrivial=True):
    """cases: {'fmt', 'vals'}.  Compares scanner parts, text/exception with the
    model, then judges against the specification."""
    raws = vlib.run_impl('usingfn.fmt_values', cases)
    mouts = vlib.run_model(exe, [[3, c['fmt'], [mval(v) for v in c['vals']]] for c in cases])
    for c, raw, mo in zip(cases, raws, mouts):
        if isinstance(raw, dict) and raw.get('harness'):
            ctx.broken.append(f'correspondence {suite}: implementation worker failed: '
                              f'{raw.get("stderr", "")[-300:]}')
            break
        if isinstance(mo, str) or mo == [-999, -999, -999]:
            ctx.broken.append(f'correspondence {suite}: model driver failed ({mo}) on {c!r}')
            break
        if 'ctor_exc' in raw:
            impl = [2, EXC.get(raw['ctor_exc'], 99)]
        elif 'exc' in raw:
            impl = [2, EXC.get(raw['exc'], 99)]
        else:
            impl = [0, raw['text']]
        m = mo[0]
        model = [0, l2s(m[1])] if m[0] == 0 else m
        spec = l2s(mo[2][0]) if mo[2] else None
        text = f"USING {c['fmt']!r}; " + ', '.join(cell_text(v) for v in c['vals'])
        ok = judge(ctx, suite, c, impl, model, mo[1], spec, text)
        ctx.bump('formatter:' + ('crash' if impl[0] == 2 else
                                 'in-guard' if not mo[1] else 'out-of-guard-text'))
    ctx.count(suite, len(cases),
              set(json.dumps([c['fmt'], c['vals']]) for c in cases) if nontrivial else ())
    if cases:
        c = cases[len(cases) // 2]
        ctx.sample({'suite': suite, 'case': f"USING {c['fmt']!r}; " +
                    ', '.join(cell_text(v) for v in c['vals'])})


def scanner_suite(ctx, exe, fmts):
    """the scanner alone: fmt_parts of the real constructor vs parse_format"""
    raws = vlib.run_impl('usingfn.fmt_values', [{'fmt': f, 'vals': []} for f in fmts])
    parts = vlib.run_model(exe, [[2, f] for f in fmts])
    for f, raw, p in zip(fmts, raws, parts):
        if isinstance(raw, dict) and raw.get('harness'):
            ctx.broken.append('correspondence scanner: implementation worker failed: '
                              f'{raw.get("stderr", "")[-300:]}')
            break
        if isinstance(p, str):
            ctx.broken.append(f'correspondence scanner: model driver failed ({p}) on {f!r}')
            break
        if 'ctor_exc' in raw:
            impl = [2, EXC.get(raw['ctor_exc'], 99)]
        else:
            impl = [0, raw['parts']]
        if impl != p:
            ctx.report('C19/scanner-differs-from-model',
                       {'suite': 'scanner', 'fmt': f, 'impl': impl, 'model': p},
                       False)
    ctx.count('scanner', len(fmts), set(fmts))
    return parts


# --------------------------------------------------------------------------
# statements (suites B and C)

def enc_stack(fmt, items):
    """what gen_print_stmt pushes: items = list of cell | ';' | ','"""
    st = [['I', 3], ['$', fmt]]
    for it in items:
        if it == ';':
            st.append(['I', 1])
        elif it == ',':
            st.append(['I', 2])
        else:
            st.append(['I', 0])
            st.append(it)
    return st


def stmt_source(fmt, items, lits):
    parts = []
    for it in items:
        if it in (';', ','):
            parts.append(it)
        else:
            parts.append(' ' + lits[json.dumps(it)] + ' ')
    return f'PRINT USING "{fmt}";' + ''.join(parts)


def stmt_items(vals, seps, end):
    items = []
    for i, v in enumerate(vals):
        if i:
            items.append(seps[i % len(seps)])
        items.append(v)
    if end:
        items.append(end)
    return items


def judge_stmt(ctx, suite, exe_out, case, impl, text):
    """exe_out = (model pout of job 4, [ures, reasons, spec] of job 3)"""
    mp, mo = exe_out
    model = [0, [l2s(x) for x in mp[1]]] if mp[0] == 0 else mp
    vals = [it for it in case['items'] if it not in (';', ',')]
    ends = bool(case['items']) and case['items'][-1] in (';', ',')
    spec = None
    if mo[2]:
        spec = [l2s(mo[2][0])] + ([] if ends else ['\r\n'])
    novalues = not case['items']
    return judge(ctx, suite, case, impl, model, mo[1], spec, text, novalues=novalues)


def main(tier, seed):
    ctx = Ctx(PROP, tier, seed, 'proof')
    ctx.trusted_base = [
        'Coq 8.16.1 kernel (coqc, full .vo build; vm_compute only in the Examples and _refuted witnesses)',
        'no axioms: every theorem prints "Closed under the global context"',
        'extraction: ExtrOcamlBasic only; Z, positive kept inductive',
        'unverified glue: ocaml/driver.ml, tools/vlib, tools/props/c19.py, tools/implfns/usingfn.py',
        'modelled not verified: qvm/using.py PrintUsingFormatter (Models/Using.v), the USING branch of '
        'qvm/machine.py TerminalDevice._exec_print and qbee/qvm_codegen.py gen_print_stmt (Models/Print.v); '
        "Python's format(), repr(float) and str.format are re-implemented in Base/Dec.v + Models/Using.v and "
        'compared on every run; the PRINT USING grammar is inside the correspondence only',
        'the specification (Models/UsingSpec.v) takes the field boundaries from the scanner; it adds a ghost '
        'field o_frac (number of # after the point) to the scanner model, never read by the renderer',
    ]
    ctx.prove()
    exe = ctx.model('Using')
    quick = tier == 'quick'

    # ---- scanner on every format string up to a length
    smax = 4 if quick else 6
    fmts_all = list(formats(smax))
    if not quick:
        # length 6 is 10^6 strings: all of them go through the scanner suite
        pass
    parts_all = scanner_suite(ctx, exe, fmts_all)
    kinds_of = {f: field_kinds(p) for f, p in zip(fmts_all, parts_all) if not isinstance(p, str)}
    ctx.rule.append(f'scanner: every format string of length <= {smax} over the {len(ALPHA)} characters '
                    f'{ALPHA!r}: fmt_parts of the real constructor = parse_format')

    # ---- suite A: formatter
    casesA = []
    nl4 = len(NUM)
    for f in fmts_all:
        n = len(f)
        kinds = kinds_of.get(f)
        if n <= 4:
            lists = value_lists(kinds, nl4)
        elif n == 5:
            lists = value_lists(kinds, 6, off=ctx.rng.randrange(len(NUM)))
        else:
            # length 6: a seeded tenth of the strings, 3 matched lists each
            if ctx.rng.random() >= 0.1:
                continue
            lists = value_lists(kinds, 3, off=ctx.rng.randrange(len(NUM)))
        for vs in lists:
            casesA.append({'fmt': f, 'vals': vs})
    ctx.rule.append(f'A: PrintUsingFormatter(fmt).format(values) for every format of length <= 4 x '
                    f'{nl4} matched value lists (field i gets value (j+7i) of its kind out of {len(NUM)} '
                    f'numbers: zero, ties .5 1.5 2.5 .125, carries 9.995 99.5 999.5, negatives, -0.0, '
                    f'too wide, SINGLE/INTEGER/LONG; 3 strings) + too few, too many, 2 type-mismatched lists'
                    + ('' if quick else '; length 5: every format x 6 seeded-offset lists + malformed; '
                       'length 6: a seeded tenth x 3 lists + malformed')
                    + '; non-trivial = distinct (format, values)')
    run_formatter_suite(ctx, exe, 'formatter', casesA)

    # extreme values on the numeric field shapes
    shapes = ['#', '###', '#.##', '##.#', '#,###.##', '+#.#', '#.#-', '##+', '-##', '#.', '#,#',
              '####################', '#.####################', '##,.#']
    casesX = [{'fmt': f, 'vals': [v]} for f in shapes for v in EXTREME + [n[0] for n in NUM]]
    run_formatter_suite(ctx, exe, 'formatter_extreme', casesX)
    ctx.rule.append(f'A2: {len(shapes)} field shapes x {len(EXTREME) + len(NUM)} values incl. 5e-324, '
                    f'1.8e308, 1e22, inf, nan, LONG limits')

    # ---- suite B: _exec_print hand-over on constructed stacks
    bf = [f for f in formats(2)] + ['#.#', '##-', '+##', '& #', '!_!', '#,#', 'a#b', '## ##', '&&', '# &']
    casesB = []
    seps_opts = [[';'], [','], [';', ',']]
    for f in bf:
        kinds = kinds_of.get(f) if f in kinds_of else None
        k = len(kinds) if kinds else 0
        for vl in value_lists(kinds, 3 if quick else 8):
            for end in (None, ';', ','):
                for seps in (seps_opts if len(vl) > 1 else seps_opts[:1]):
                    casesB.append({'fmt': f, 'items': stmt_items(vl, seps, end)})
        # separators in odd places: leading, doubled, alone
        v = NUM[12][0]
        for items in ([';'], [','], [';', v], [',', v, ';', ';'], [v, ';', ',', v]):
            casesB.append({'fmt': f, 'items': items})
    rawsB = vlib.run_impl('usingfn.exec_print',
                          [enc_stack(c['fmt'], c['items']) + [['I', len(enc_stack(c['fmt'], c['items']))]]
                           for c in casesB])
    mB = vlib.run_model(exe, [[4, [mval(x) for x in enc_stack(c['fmt'], c['items'])]] for c in casesB])
    sB = vlib.run_model(exe, [[3, c['fmt'], [mval(x) for x in c['items'] if x not in (';', ',')]]
                              for c in casesB])
    for c, raw, mp, mo in zip(casesB, rawsB, mB, sB):
        if isinstance(raw, dict) and raw.get('harness'):
            ctx.broken.append('correspondence exec_print_using: implementation worker failed')
            break
        if isinstance(mp, str) or isinstance(mo, str):
            ctx.broken.append(f'correspondence exec_print_using: model driver failed on {c!r}')
            break
        if 'exc' in raw:
            impl = [2, EXC.get(raw['exc'], 99)]
        elif raw['res'] == 'trap':
            impl = [1]
        else:
            impl = [0, [l2s(x) for x in raw['calls']]]
            if raw['stack'] != 0 or raw['others']:
                ctx.report('C19/exec-print-leaves-state', {'case': c, 'raw': raw}, True)
        text = 'stack: USING ' + repr(c['fmt']) + '; ' + \
            ' '.join(x if isinstance(x, str) else cell_text(x) for x in c['items'])
        judge_stmt(ctx, 'exec_print_using', (mp, mo), c, impl, text)
    ctx.count('exec_print_using', len(casesB), set(json.dumps(c) for c in casesB))
    ctx.sample({'suite': 'exec_print_using', 'case': json.dumps(casesB[len(casesB) // 3])})
    ctx.rule.append(f'B: real TerminalDevice._exec_print on the cells of PRINT USING for {len(bf)} formats '
                    f'(all of length <= 2 + 10 longer) x value lists x separators ; , mixed x ending '
                    f'none ; , + separators in odd places and no values')

    # ---- suite C: compiled statements
    lits = {json.dumps(c): s for c, s in NUM + STR if s is not None}
    witnesses = [
        ('###', [NUM[11][0]], None), ('##.##-', [['D', fb(-1.5)]], None), ('x', [], None),
        ('!', [STR[0][0]], None), ('a_', [NUM[12][0]], None), ('#', [NUM[12][0], NUM[20][0]], ';'),
        ('# #', [NUM[12][0]], None), ('&', [NUM[12][0]], None), ('#', [STR[1][0]], None),
        ('##+', [NUM[24][0]], None), ('##-', [NUM[24][0]], ';'), ('#.', [NUM[3][0]], None),
        ('#.#,', [NUM[14][0]], ','), ('##.##', [NUM[5][0]], None), ('#,###.#', [NUM[8][0]], None),
        ('+##.#', [NUM[4][0]], None), ('& and !_!', [STR[2][0], STR[2][0]], None),
    ]
    lits[json.dumps(['D', fb(-1.5)])] = '-1.5#'
    stmts = [{'fmt': f, 'items': stmt_items(v, [';'], e)} for f, v, e in witnesses]
    cand = [f for f in formats(3) if kinds_of.get(f)]
    nC = 60 if quick else 700
    for _ in range(nC):
        f = ctx.rng.choice(cand)
        if ctx.rng.random() < 0.35:
            f = f + ctx.rng.choice(['#', '.#', ' &', '-', ',#', '_#', '!'])
            if f not in kinds_of:
                pr = vlib.run_model(exe, [[2, f]])[0]
                kinds_of[f] = field_kinds(pr)
        kinds = kinds_of[f]
        if kinds is None:
            kinds = []
        r = ctx.rng.random()
        vs = []
        for i, kd in enumerate(kinds):
            pool = [p for p in (NUM if kd == 'n' else STR) if p[1] is not None]
            if r > 0.93:
                pool = [p for p in NUM + STR if p[1] is not None]
            vs.append(ctx.rng.choice(pool)[0])
        if r < 0.04 and vs:
            vs = vs[:-1]
        elif r < 0.08:
            vs = vs + [NUM[12][0]]
        end = ctx.rng.choice([None, None, ';', ','])
        seps = ctx.rng.choice(seps_opts)
        stmts.append({'fmt': f, 'items': stmt_items(vs, seps, end)})
    casesC = []
    for s in stmts:
        src = stmt_source(s['fmt'], s['items'], lits)
        for level in (0, 1, 2):
            for dbg in (False, True):
                casesC.append({'fmt': s['fmt'], 'items': s['items'], 'src': src,
                               'level': level, 'debug': dbg})
    rawsC = vlib.run_impl('usingfn.run_src', casesC)
    mC = vlib.run_model(exe, [[4, [mval(x) for x in enc_stack(c['fmt'], c['items'])]] for c in casesC])
    sC = vlib.run_model(exe, [[3, c['fmt'], [mval(x) for x in c['items'] if x not in (';', ',')]]
                              for c in casesC])
    for c, raw, mp, mo in zip(casesC, rawsC, mC, sC):
        if isinstance(raw, dict) and raw.get('harness'):
            ctx.broken.append('correspondence compiled_using: implementation worker failed')
            break
        if isinstance(mp, str) or isinstance(mo, str):
            ctx.broken.append(f'correspondence compiled_using: model driver failed on {c!r}')
            break
        text = f"-O{c['level']}{' -g' if c['debug'] else ''}: {c['src']}"
        if 'exc' in raw and 'events' not in raw:
            # the compiler (not the machine) raised: not a PRINT USING matter
            ctx.report(f"C19/compile-failed({raw['exc']})", {'case': c, 'raw': raw, 'text': text}, False)
            continue
        calls = [l2s(e[1]) for e in raw['events'] if e[0] == 'terminal_print']
        if 'exc' in raw:
            impl = [2, EXC.get(raw['exc'], 99)]
            if calls:
                ctx.report('C19/output-before-crash', {'case': c, 'raw': raw, 'text': text}, True)
        elif raw['outcome'][1] is not None:
            impl = [1]
        else:
            impl = [0, calls]
            if raw['stack'] != 0:
                ctx.report('C19/compiled-statement-leaves-stack', {'case': c, 'raw': raw}, True)
        judge_stmt(ctx, 'compiled_using', (mp, mo), c, impl, text)
    ctx.count('compiled_using', len(casesC), set(c['src'] for c in casesC))
    ctx.sample({'suite': 'compiled_using', 'case': casesC[len(casesC) // 2]['src']})
    ctx.rule.append(f'C: {len(witnesses)} fixed statements (one per defect class and per guarded feature) + '
                    f'{nC} seeded PRINT USING statements (formats of length <= 3 with a field, 35% extended '
                    f'by a suffix; matched values, 8% wrong count, 7% any type; ending none ; ,) compiled by '
                    f'the real compiler at levels 0,1,2 x debug on/off, run on the real machine; text of '
                    f'terminal_print judged against the model, the Coq specification and no-host-exception')
    return ctx.finish()


def replay(path):
    d = json.load(open(path))
    print(json.dumps(d, indent=1)[:6000])
    return 0
