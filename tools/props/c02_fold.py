"""C02, constant-folder half.  run(ctx, tier) is called by tools/props/c02.py.

Suites (all deterministic enumerations; VERIF_SEED only sub-samples the nested
expressions and the programs):

  fold_fn      T-fn: the real BinaryOp/UnaryOp/.. .fold(), .type and
               ArrayDimRange.static_lbound vs Models/Fold.v (fold, static_type,
               static_bound) - or, if the repository carries fixes/C02-fold.diff,
               vs fold_fixed/static_type_fixed
  fold_rt      the real gen_* + assembler + cpu on the same expression vs
               cg_expr / rt_eval / rt_bound
  fold_oracle  PROPERTY ORACLE, model-free: the real cpu running the code of the
               expression vs the real cpu running the code of what fold() returned
               (and static bound vs run-time bound)
  fold_levels  PROPERTY ORACLE, model-free: programs PRINT e / x = e / CONST c = e /
               DIM a(0 TO e) compiled by the real compiler at levels 0,1,2,3 and run
"""
import json
import struct
import vlib

PROP = 'C02'

OPS = {1: 'ADD', 2: 'SUB', 3: 'MUL', 4: 'DIV', 5: 'MOD', 6: 'INTDIV', 7: 'EXP', 8: 'CMP_EQ',
       9: 'CMP_NE', 10: 'CMP_LT', 11: 'CMP_GT', 12: 'CMP_LE', 13: 'CMP_GE', 17: 'AND',
       18: 'OR', 19: 'XOR', 20: 'EQV', 21: 'IMP'}
UOPS = {14: 'NEG', 15: 'PLUS', 16: 'NOT'}
TOK = {1: '+', 2: '-', 3: '*', 4: '/', 5: 'MOD', 6: '\\', 7: '^', 8: '=', 9: '<>', 10: '<',
       11: '>', 12: '<=', 13: '>=', 17: 'AND', 18: 'OR', 19: 'XOR', 20: 'EQV', 21: 'IMP'}
UTOK = {14: '-', 15: '+', 16: 'NOT '}
TYN = {0: 'UNKNOWN', 1: 'INTEGER', 2: 'LONG', 3: 'SINGLE', 4: 'DOUBLE', 5: 'STRING'}
KINDN = {1: 'ValueError', 2: 'TypeError', 3: 'EvalError', 4: 'error', 5: 'OverflowError',
         6: 'AssertionError', 7: 'KeyError', 8: 'ZeroDivisionError'}


def fb(x):
    return struct.unpack('>Q', struct.pack('>d', x))[0]


def bf(b):
    return struct.unpack('>d', struct.pack('>Q', b))[0]


def sgl(x):
    return struct.unpack('>f', struct.pack('>f', x))[0]


def I(v):
    return [0, 1, [0, v]]


def L(v):
    return [0, 2, [0, v]]


def S(v):
    return [0, 3, [1, fb(v)]]


def D(v):
    return [0, 4, [1, fb(v)]]


def St(s):
    return [1, [ord(c) for c in s]]


# boundary values per type; the first `q` of each list form the quick tier
V_INT = [0, 1, -1, 32767, -32768, 2, 7, -2, 3, 255, 16384, 32766, -32767, 181, 182]
V_LONG = [0, 65536, 2147483647, -2147483648, 2000000000, -1, 1, 2, 32767, 32768, -32768,
          -32769, 65535, 46340, 46341, 2147483646, -2147483647, 1073741824]
V_SNG = [0.5, 2.5, 0.1, 3e38, 1.5, 0.0, -0.5, -1.5, 1.0, -1.0, 2.0, 3.0, 32767.5, 32768.0,
         2147483648.0, 2147483520.0, 16777217.0, 1e38, 3.4e38, 3.4028234663852886e38,
         1.401298464324817e-45, -2.5, 3.5, 1e10, -0.0]
V_DBL = [0.5, 1e308, 3e10, 2.5, 0.1, 0.0, -0.5, 1.5, -1.5, 1.0, -1.0, 2.0, 32767.5, -32768.5,
         32767.49, 2147483648.0, 2147483647.5, 2147483647.0, -2147483648.5, -2147483649.0,
         9223372036854775808.0, 9223372036854774784.0, -9223372036854775808.0,
         18446744073709551616.0, 1e38, 3.4e38, 3.5e38, 1.7976931348623157e308, 5e-324, 1e-320,
         3.5, -3.5, 4294967296.0, 65536.0, -0.0, float('inf'), float('-inf'), float('nan')]
V_STR = ['a', '12', '', 'b', 'ab', '1', ' 7 ', '1.5', '1e5', 'A', 'aa']
QN = {1: 4, 2: 4, 3: 3, 4: 3, 5: 2}


def values(tier):
    full = {1: [I(v) for v in V_INT], 2: [L(v) for v in V_LONG], 3: [S(v) for v in V_SNG],
            4: [D(v) for v in V_DBL], 5: [St(s) for s in V_STR]}
    if tier == 'quick':
        return {t: full[t][:QN[t]] for t in full}
    return full


# ---------------------------------------------------------------- expressions

def lit_num(e):
    if e[0] == 0:
        return e[2][1] if e[2][0] == 0 else bf(e[2][1])
    return None


def exp_ok(l, r):
    """exclude integer powers that make the host compute astronomically large
    integers (the real folder and the real cpu both hang on them)"""
    rv = lit_num(r)
    lv = lit_num(l)
    if rv is None or lv is None:
        return False
    if rv != rv or lv != lv:
        return True
    if abs(rv) > 64 and abs(lv) >= 2 and l[1] in (1, 2) and r[1] in (1, 2):
        return False
    return True


def binary_cases(vals):
    out = []
    allv = [v for t in (1, 2, 3, 4, 5) for v in vals[t]]
    for op in OPS:
        for a in allv:
            for b in allv:
                if op == 7 and a[0] == 0 and b[0] == 0 and not exp_ok(a, b):
                    continue
                out.append([2, op, a, b])
    return out


def unary_cases(vals):
    allv = [v for t in (1, 2, 3, 4, 5) for v in vals[t]]
    return [[3, u, a] for u in UOPS for a in allv]


NEST_VALS = [I(0), I(7), I(32767), I(-32768), L(65536), L(2147483647), S(0.1), S(2.5), S(3e38),
             D(0.5), D(1e308), D(3e10), D(-0.5), St('a'), St('12')]


def nested_space():
    """(count, nth) over the two-level shapes"""
    ops = list(OPS)
    uops = list(UOPS)
    V = NEST_VALS
    nv, no, nu = len(V), len(ops), len(uops)
    sizes = [no * no * nv ** 3, no * no * nv ** 3, nu * no * nv * nv, no * nu * nv * nv,
             no * nu * nv * nv, nu * nu * nv, no * nv * nv]
    total = sum(sizes)

    def nth(i):
        s = 0
        while i >= sizes[s]:
            i -= sizes[s]
            s += 1

        def take(n):
            nonlocal i
            r = i % n
            i //= n
            return r
        if s == 0:
            o1, o2, a, b, c = ops[take(no)], ops[take(no)], V[take(nv)], V[take(nv)], V[take(nv)]
            return [2, o1, [4, [2, o2, a, b]], c]
        if s == 1:
            o1, o2, a, b, c = ops[take(no)], ops[take(no)], V[take(nv)], V[take(nv)], V[take(nv)]
            return [2, o1, a, [4, [2, o2, b, c]]]
        if s == 2:
            u, o, a, b = uops[take(nu)], ops[take(no)], V[take(nv)], V[take(nv)]
            return [3, u, [4, [2, o, a, b]]]
        if s == 3:
            o, u, a, b = ops[take(no)], uops[take(nu)], V[take(nv)], V[take(nv)]
            return [2, o, [4, [3, u, a]], b]
        if s == 4:
            o, u, a, b = ops[take(no)], uops[take(nu)], V[take(nv)], V[take(nv)]
            return [2, o, a, [4, [3, u, b]]]
        if s == 5:
            u1, u2, a = uops[take(nu)], uops[take(nu)], V[take(nv)]
            return [3, u1, [4, [3, u2, a]]]
        o, a, b = ops[take(no)], V[take(nv)], V[take(nv)]
        return [4, [2, o, a, b]]
    return total, nth


def complex_pow(e):
    """an EXP node with a negative base and a non-integer exponent: Python answers
    with a complex number or, when that overflows, OverflowError - the float power
    with a non-integer exponent is not modelled (Machine.py_pow says 'complex'
    whatever the magnitude); such expressions are left out of the model ties and
    stay in the model-free oracles"""
    k = e[0]
    if k == 2:
        if e[1] == 7 and e[2][0] == 0 and e[3][0] == 0:
            b, x = lit_num(e[2]), lit_num(e[3])
            if b == b and x == x and b < 0 and isinstance(x, float) and x not in (float('inf'), float('-inf')) \
               and x != int(x):
                return True
        return complex_pow(e[2]) or complex_pow(e[3])
    if k == 3:
        return complex_pow(e[2])
    if k == 4:
        return complex_pow(e[1])
    return False


def exp_nodes_ok(e):
    k = e[0]
    if k == 2:
        if e[1] == 7:
            if e[2][0] != 0 or e[3][0] != 0 or not exp_ok(e[2], e[3]):
                return False
        return exp_nodes_ok(e[2]) and exp_nodes_ok(e[3])
    if k == 3:
        return exp_nodes_ok(e[2])
    if k == 4:
        return exp_nodes_ok(e[1])
    return True


def strip_paren(e):
    while e[0] == 4:
        e = e[1]
    return e


def children(e):
    e = strip_paren(e)
    if e[0] == 2:
        return [e[2], e[3]]
    if e[0] == 3:
        return [e[2]]
    return []


# ---------------------------------------------------------------- source text

def num_src(ty, v):
    if ty == 1:
        return f'{v}%'
    if ty == 2:
        return f'{v}&'
    r = repr(float(v))
    if 'e' in r:
        return r.replace('e', 'E' if ty == 3 else 'D').upper().replace('E+', 'E+')
    return r + ('!' if ty == 3 else '#')


def expressible(e):
    k = e[0]
    if k == 0:
        v = lit_num(e)
        if v != v or v in (float('inf'), float('-inf')):
            return False
        if v < 0 or (isinstance(v, float) and str(v) == '-0.0'):
            return False
        if e[1] == 3:
            try:
                struct.pack('>f', v)
            except OverflowError:
                return False
        return True
    if k == 1:
        return all(32 <= c < 127 and c != 34 for c in e[1])
    if k == 2:
        # operands must be literals or parenthesised (precedence is not modelled here)
        return all(x[0] in (0, 1, 4) and expressible(x) for x in (e[2], e[3]))
    if k == 3:
        return e[2][0] in (0, 1, 4) and expressible(e[2])
    return expressible(e[1])


def src(e):
    k = e[0]
    if k == 0:
        return num_src(e[1], lit_num(e))
    if k == 1:
        return '"' + ''.join(chr(c) for c in e[1]) + '"'
    if k == 2:
        return f'{src(e[2])} {TOK[e[1]]} {src(e[3])}'
    if k == 3:
        return f'{UTOK[e[1]]}{src(e[2])}'
    return '(' + src(e[1]) + ')'


def describe(e):
    k = e[0]
    if k == 0:
        return f'{lit_num(e)!r}{"?%&!#"[e[1]]}'
    if k == 1:
        return json.dumps(''.join(chr(c) for c in e[1]))
    if k == 2:
        return f'({describe(e[2])} {OPS[e[1]]} {describe(e[3])})'
    if k == 3:
        return f'{UOPS[e[1]]}({describe(e[2])})'
    return '(' + describe(e[1]) + ')'


# ---------------------------------------------------------------- judging

def norm_fold(fr):
    """impl fold/bound result -> model format (drop the exception name)"""
    if isinstance(fr, list) and fr and fr[0] == 2:
        return [2, fr[1]]
    return fr


def root_sig(e, raw):
    """(op, lt, rt) names for the signature, from the REAL static types"""
    r = strip_paren(e)
    ct = raw['fold'][3] if len(raw['fold']) > 3 else None
    if r[0] == 2:
        return OPS[r[1]], TYN.get(ct[0], '?'), TYN.get(ct[1], '?')
    if r[0] == 3:
        return UOPS[r[1]], TYN.get(ct[0], '?'), '-'
    if r[0] == 0:
        return 'LITERAL', TYN[r[1]], '-'
    return 'STRLITERAL', 'STRING', '-'


def oracle(raw):
    """model-free comparison of unfolded vs folded evaluation on the real cpu.
    -> None (agree / not applicable) | kind"""
    cg, r0 = raw['rt'][0], raw['rt'][1]
    f = raw['folded_rt']
    if cg[0] == 'gen-exc' or not raw.get('accepted', True):
        return None                      # not a compilable expression
    if f == ['same']:
        return None
    if r0[0] == 3:
        return None                      # a literal of the expression cannot be assembled: no level compiles it
    if f[0] == 'fold-exc':
        return 'crash:' + f[1]
    if f[0] == 3:
        return 'crash:' + KINDN.get(f[1], str(f[1]))
    if r0[0] in (1, 2):
        return 'trap-lost' if f[0] == 0 else ('outcome' if f != r0 else None)
    if r0[0] == 0:
        if f[0] != 0:
            return 'outcome'
        if f == r0:
            return None
        a, b = r0[1], f[1]
        if a[0] == b[0] and a[0] in (3, 4) and {a[1], b[1]} == {0, 1 << 63}:
            return 'zero-sign'
        return 'value'
    return 'outcome'


def bound_oracle(raw):
    """static bound (layout, every level) vs the LONG the run-time conversion
    produces; only when the run-time bound exists"""
    sb = raw['fold'][2]
    rb = raw['bound_rt']
    cg = raw['rt'][0]
    ty = raw['fold'][0]
    if cg[0] != 0 or ty not in (1, 2, 3, 4) or rb[0] != 0 or not raw.get('accepted', True):
        return None
    if sb[0] == 0:
        return None if rb[1] == [2, sb[1]] else 'value'
    if sb[0] == 2:
        return 'crash:' + sb[2]
    return None


class Fn:
    """results of foldfn.all_case + both model jobs for a list of expressions"""

    def __init__(self, exe, cases):
        self.cases = cases
        self.raw = vlib.run_impl('foldfn.all_case', cases, timeout=14400)
        self.m1 = vlib.run_model(exe, [[1, c] for c in cases], timeout=14400)
        self.m2 = vlib.run_model(exe, [[2, c] for c in cases], timeout=14400)
        self.m3 = None
        self.exe = exe

    def need_fixed(self):
        if self.m3 is None:
            self.m3 = vlib.run_model(self.exe, [[3, c] for c in self.cases])


def fn_suites(ctx, exe, cases, label):
    """suites fold_fn / fold_rt / fold_oracle over `cases`"""
    fn = Fn(exe, cases)
    for raw, a, b in zip(fn.raw, fn.m1, fn.m2):
        if isinstance(raw, dict) and raw.get('harness'):
            ctx.broken.append(f'correspondence fold_fn: implementation worker failed: '
                              f'{raw.get("stderr", "")[-300:]}')
            return fn
        if isinstance(raw, dict) and 'exc' in raw and 'fold' not in raw:
            ctx.broken.append(f'correspondence fold_fn: harness function raised {raw}')
            return fn
        if isinstance(a, str) or isinstance(b, str):
            ctx.broken.append(f'correspondence fold_fn: model driver failed ({a} / {b})')
            return fn
    # ---- which folder does the repository carry?  (unchanged / with fixes/C02-fold.diff)
    mism_u = mism_f = 0
    for c, raw, a in zip(cases, fn.raw, fn.m1):
        if complex_pow(c):
            continue
        ty, fr = raw['fold'][0], norm_fold(raw['fold'][1])
        if a[1] != [9] and (ty != a[0] or fr != a[1]):
            mism_u += 1
        if a[3] != [9] and (fr != a[3] or (fr[0] == 0 and ty != a[2])):
            mism_f += 1
    fixed = mism_u > 0 and mism_f == 0
    ctx.extra.setdefault('folder_variant', {})[label] = 'fixed' if fixed else 'unchanged'
    if fixed:
        fn.need_fixed()
    n_unmod = n_ill = n_cpow = 0
    for i, (c, raw, a, b) in enumerate(zip(cases, fn.raw, fn.m1, fn.m2)):
        ty, fr, bd = raw['fold'][0], norm_fold(raw['fold'][1]), norm_fold(raw['fold'][2])
        op, lt, rt = root_sig(c, raw)
        if complex_pow(c):
            n_cpow += 1
            continue
        # ---- tie A: fold
        if fixed:
            mty, mfr = a[2], a[3]
            okA = mfr == [9] or (fr == mfr and (fr[0] != 0 or ty == mty))
        else:
            mty, mfr = a[0], a[1]
            okA = mfr == [9] or (fr == mfr and ty == mty)
        if mfr == [9]:
            n_unmod += 1
        if not okA:
            ctx.report(f'C02/fold-model-differs(op={op},lt={lt},rt={rt})',
                       {'suite': 'fold_fn', 'expr': describe(c), 'case': c, 'impl': [ty, fr],
                        'model': [mty, mfr], 'variant': 'fixed' if fixed else 'unchanged'}, False)
        elif not fixed and a[4] != [9] and bd != a[4]:
            ctx.report(f'C02/static-bound-model-differs(op={op},lt={lt},rt={rt})',
                       {'suite': 'fold_fn', 'expr': describe(c), 'case': c, 'impl': bd,
                        'model': a[4]}, False)
        # ---- tie B: generated code and its execution
        mc = fn.m3[i] if fixed else b
        mcg, mrt = mc[0], mc[1]
        icg, irt = raw['rt'][0], raw['rt'][1]
        if mcg == [8]:
            n_ill += 1
        elif mcg == [9] or mrt == [9]:
            pass
        else:
            if icg != mcg:
                ctx.report(f'C02/codegen-model-differs(op={op},lt={lt},rt={rt})',
                           {'suite': 'fold_rt', 'expr': describe(c), 'case': c, 'impl': icg,
                            'model': mcg}, False)
            elif irt != mrt:
                ctx.report(f'C02/runtime-model-differs(op={op},lt={lt},rt={rt})',
                           {'suite': 'fold_rt', 'expr': describe(c), 'case': c, 'impl': irt,
                            'model': mrt}, False)
            elif not fixed and b[3] != [9] and ty in (1, 2, 3, 4) and raw['bound_rt'] != b[3]:
                ctx.report(f'C02/runtime-bound-model-differs(op={op},lt={lt},rt={rt})',
                           {'suite': 'fold_rt', 'expr': describe(c), 'case': c,
                            'impl': raw['bound_rt'], 'model': b[3]}, False)
    ctx.count('fold_fn:' + label, len(cases), set(json.dumps(c) for c in cases))
    ctx.count('fold_rt:' + label, len(cases) - n_ill - n_cpow)
    ctx.bump('fold_fn unmodelled (float ** non-integer, // with huge quotient, non-ASCII)', n_unmod)
    ctx.bump('fold_rt ill-typed (rejected by Pass2, no code generated)', n_ill)
    ctx.bump('fold_fn/fold_rt left out: negative base ^ non-integer exponent (complex / overflow)', n_cpow)
    return fn


def lit_of_cell(cell):
    """literal expression holding exactly the value of a run-time cell"""
    ty, v = cell
    if ty in (1, 2):
        return [0, ty, [0, v]]
    if ty in (3, 4):
        return [0, ty, [1, v]]
    return [1, v]


def subst_children(c, lits):
    """c with its non-literal operands replaced by the literals in `lits`"""
    def sub(e):
        if e[0] == 4:
            return [4, sub(e[1])]
        if e[0] in (2, 3):
            return lits[json.dumps(e)]
        return e
    if c[0] == 4:
        return [4, subst_children(c[1], lits)]
    if c[0] == 2:
        return [2, c[1], sub(c[2]), sub(c[3])]
    if c[0] == 3:
        return [3, c[1], sub(c[2])]
    return c


def attribute(items, evaluate):
    """items: [(expr, raw, which)] with which in 'v' (fold value) / 'b' (static
    bound).  Names, for each, the innermost operator that misbehaves by itself:
    an expression is blamed when it still differs after its operands have been
    replaced by literals holding their RUN-TIME values; otherwise the operand
    that differs on its own is examined the same way.  -> [(expr, raw, kind)]"""
    def k_of(raw, which):
        if raw is None or 'fold' not in raw:
            return None
        return oracle(raw) if which == 'v' else bound_oracle(raw)
    cur = [[c, raw, which] for c, raw, which in items]
    done = [None] * len(cur)
    cache = {}

    def ev(exprs):
        todo, seen = [], set()
        for e in exprs:
            k = json.dumps(e)
            if k not in cache and k not in seen:
                seen.add(k)
                todo.append(e)
        for e, r in zip(todo, evaluate(todo)):
            cache[json.dumps(e)] = r
    for _ in range(4):
        active = [i for i in range(len(cur)) if done[i] is None]
        if not active:
            break
        kids = {}
        for i in active:
            kids[i] = [strip_paren(ch) for ch in children(cur[i][0]) if strip_paren(ch)[0] in (2, 3)]
        ev([k for i in active for k in kids[i]])
        subs = {}
        for i in active:
            if not kids[i]:
                continue
            rs = [cache[json.dumps(k)] for k in kids[i]]
            if all('fold' in r and r['rt'][1][0] == 0 for r in rs):
                lits = {json.dumps(k): lit_of_cell(r['rt'][1][1]) for k, r in zip(kids[i], rs)}
                subs[i] = subst_children(cur[i][0], lits)
        ev(list(subs.values()))
        for i in active:
            c, raw, which = cur[i]
            if not kids[i]:
                done[i] = (c, raw, k_of(raw, which) or oracle(raw) or bound_oracle(raw))
                continue
            # an operand whose run-time cell has another type than its static type
            # (\\ with a float operand) is the root of whatever happens above it
            conf = [k for k in kids[i]
                    if 'fold' in cache[json.dumps(k)] and cache[json.dumps(k)]['rt'][1][0] == 0
                    and cache[json.dumps(k)]['rt'][1][1][0] != cache[json.dumps(k)]['fold'][0]]
            if conf:
                rk = cache[json.dumps(conf[0])]
                cur[i] = [conf[0], rk, 'v' if k_of(rk, 'v') is not None else which]
                continue
            if i in subs:
                r2 = cache[json.dumps(subs[i])]
                if k_of(r2, which) is not None:
                    # misbehaves on correct operands: this operator is at fault,
                    # with the kind it shows on correct operands
                    done[i] = (c, raw, k_of(r2, which))
                    continue
            bad = [k for k in kids[i] if k_of(cache[json.dumps(k)], 'v') is not None
                   or (which == 'b' and k_of(cache[json.dumps(k)], 'b') is not None)]
            if bad:
                k = bad[0]
                rk = cache[json.dumps(k)]
                w2 = which if k_of(rk, which) is not None else ('v' if which == 'b' else 'b')
                cur[i] = [k, rk, w2]
            else:
                # no operand differs on its own (e.g. an unrounded intermediate)
                done[i] = (c, raw, k_of(raw, which) or oracle(raw) or bound_oracle(raw))
    for i in range(len(cur)):
        if done[i] is None:
            c, raw, which = cur[i]
            done[i] = (c, raw, k_of(raw, which) or oracle(raw) or bound_oracle(raw))
    return done


def oracle_suite(ctx, exe, fn, label):
    """model-free property oracle over the results already computed"""
    items = []
    n = 0
    for c, raw in zip(fn.cases, fn.raw):
        k = oracle(raw)
        kb = bound_oracle(raw)
        n += 1
        ctx.bump('oracle:' + ('agree' if k is None else k.split(':')[0]))
        if k is not None:
            items.append((c, raw, 'v'))
        if kb is not None:
            items.append((c, raw, 'b'))
    res = attribute(items, lambda es: vlib.run_impl('foldfn.all_case', es, timeout=14400))
    for (c, raw, which), (bc, braw, bk) in zip(items, res):
        op, lt, rt = root_sig(bc, braw)
        if which == 'v':
            ctx.report(f'C02/fold-differs(op={op},lt={lt},rt={rt},kind={bk})',
                       {'suite': 'fold_oracle', 'expr': describe(c), 'blamed': describe(bc),
                        'case': c, 'unfolded_runs_to': braw['rt'][1],
                        'fold_returns': braw['fold'][1], 'folded_runs_to': braw['folded_rt'],
                        'src': src(c) if expressible(c) else None}, True)
        else:
            ctx.report(f'C02/static-bound-differs(op={op},lt={lt},rt={rt},kind={bk})',
                       {'suite': 'fold_oracle', 'expr': describe(c), 'blamed': describe(bc),
                        'case': c, 'static_bound': braw['fold'][2],
                        'runtime_bound': braw['bound_rt']}, True)
    ctx.count('fold_oracle:' + label, n)


# ---------------------------------------------------------------- programs

def stmt_forms(e, raw, idx):
    """the statement forms for one expression; [(form, text, nlines)]"""
    s = src(e)
    ty = raw['fold'][0]
    out = [('print', f'PRINT {s}')]
    if ty in (1, 2, 3, 4):
        t1 = '%&!#'[ty - 1]
        t2 = '%' if ty != 1 else '#'
        out.append(('assign' + t1, f'v{idx}{t1} = {s}: PRINT v{idx}{t1}'))
        out.append(('assign' + t2, f'w{idx}{t2} = {s}: PRINT w{idx}{t2}'))
    elif ty == 5:
        out.append(('assign$', f'v{idx}$ = {s}: PRINT v{idx}$'))
    out.append(('const', f'CONST c{idx} = {s}: PRINT c{idx}'))
    sb, rb = raw['fold'][2], raw['bound_rt']
    small = (sb[0] == 0 and 0 <= sb[1] <= 40) or (rb[0] == 0 and 0 <= rb[1][1] <= 40)
    if ty in (1, 2, 3, 4) and small:
        out.append(('dim', f'DIM a{idx}(0 TO {s}) AS INTEGER: PRINT LBOUND(a{idx}); UBOUND(a{idx})'))
    return out


def level_kind(res):
    """compare the per-level results of one program; None | (kind, first differing level)"""
    base = res[0]
    for lv in range(1, len(res)):
        r = res[lv]
        if r == base:
            continue
        if base['accept'] != r['accept']:
            if not r['accept'] and r.get('kind') == 'crash':
                return 'crash:' + r['exc'], lv
            if not base['accept'] and base.get('kind') == 'crash':
                return 'accepts', lv
            return 'accepts', lv
        if not base['accept']:
            # both rejected: two compiler crashes count as the same verdict (which
            # exception escapes is C06's subject); two diagnostics must be the same
            if base.get('kind') == 'crash' and r.get('kind') == 'crash':
                continue
            if base.get('kind') == r.get('kind') and base.get('code') == r.get('code'):
                continue
            return ('crash:' + r['exc'] if r.get('kind') == 'crash' else 'accepts'), lv
        if base['outcome'] != r['outcome']:
            normal = ['INSTRUCTION', None]
            if base['outcome'] != normal and r['outcome'] == normal:
                return 'trap-lost', lv
            return 'outcome', lv
        if base['text'] != r['text']:
            return 'value', lv
        if base.get('frame') != r.get('frame') or base.get('others') != r.get('others'):
            return 'layout', lv
    return None


def picked(c, seed, permille):
    """seeded, tier-independent selection: quick's expressions are thorough's"""
    import hashlib
    h = hashlib.sha256((str(seed) + json.dumps(c)).encode()).digest()
    return int.from_bytes(h[:4], 'big') % 1000 < permille


def levels_suite(ctx, exe, fn, permille, batch=20):
    """programs at levels 0..3"""
    # compilable expressions, and one in seven of those the code generator refuses
    order = [i for i, c in enumerate(fn.cases)
             if expressible(c) and picked(c, ctx.seed, permille)
             and (fn.raw[i]['rt'][0][0] != 'gen-exc' or picked(c, ctx.seed + 1, 143))]
    safe, single = [], []
    for i in order:
        raw = fn.raw[i]
        ok = (raw['rt'][0][0] == 0 and raw['rt'][1][0] == 0 and raw['folded_rt'][0] in (0, 'same')
              and oracle(raw) is None and bound_oracle(raw) is None)
        for form, text in stmt_forms(fn.cases[i], raw, i):
            (safe if ok else single).append((i, form, text))
    progs = []
    for k in range(0, len(safe), batch):
        progs.append(safe[k:k + batch])
    res = vlib.run_impl('foldfn.run_levels', [{'src': '\n'.join(t for _, _, t in p)} for p in progs], timeout=14400)
    nst = 0
    for p, r in zip(progs, res):
        if isinstance(r, dict):
            ctx.broken.append(f'correspondence fold_levels: worker failed {r}')
            return
        good = level_kind(r) is None and r[0]['accept'] and r[0]['outcome'] == ['INSTRUCTION', None] \
            and r[0]['text'].count('\r\n') == len(p)
        if good:
            nst += len(p)
            ctx.bump('levels:batched statements agreeing at 4 levels', len(p))
        else:
            single.extend(p)
    res = vlib.run_impl('foldfn.run_levels', [{'src': t} for _, _, t in single], timeout=14400)
    pend = []
    for (i, form, text), r in zip(single, res):
        if isinstance(r, dict):
            ctx.broken.append(f'correspondence fold_levels: worker failed {r}')
            return
        nst += 1
        k = level_kind(r)
        ctx.bump('levels:single ' + ('agree' if k is None else k[0].split(':')[0]))
        if k is not None:
            pend.append((i, form, text, r, k))
    # the signature names the innermost subexpression whose compile-time
    # evaluation differs from its run-time evaluation (function-level oracle,
    # see attribute) and that difference; 'ctx-<kind>' = nothing differs at
    # the level of the expression, only the statement around it
    items = []
    for i, form, text, r, k in pend:
        raw = fn.raw[i]
        which = 'v' if (oracle(raw) is not None or form != 'dim') else 'b'
        items.append((fn.cases[i], raw, which))
    attr = attribute(items, lambda es: vlib.run_impl('foldfn.all_case', es, timeout=14400))
    for (i, form, text, r, (kind, lv)), (bc, braw, bk) in zip(pend, attr):
        c, raw = fn.cases[i], fn.raw[i]
        op, lt, rt = root_sig(bc, braw)
        fk = bk
        what = 'fold-differs'
        if oracle(braw) is None and form == 'dim' and bound_oracle(braw) is not None:
            what = 'static-bound-differs'
        if lv >= 2:
            what = 'level2-differs'
            fk = kind
        elif fk is None:
            fk = 'ctx-' + kind
        detail = {'suite': 'fold_levels', 'src': text, 'form': form, 'expr': describe(c),
                  'blamed': describe(bc), 'first_differing_level': lv, 'program_level_kind': kind,
                  'level0': r[0], 'levelN': r[lv]}
        if fk == 'zero-sign' or (kind == 'value' and isinstance(r[0].get('text'), str) and
                                 r[0]['text'].replace('-0 ', ' 0 ') == r[lv].get('text', '').replace('-0 ', ' 0 ')):
            fk = 'zero-sign' if lv == 1 else fk
        ctx.report(f'C02/{what}(op={op},lt={lt},rt={rt},kind={fk})', detail, True)
    # static layout vs run-time bounds at level 0 (DIM form)
    ctx.count('fold_levels', nst, set(t for _, _, t in single) | set(t for p in progs for _, _, t in p))
    if single:
        ctx.sample({'suite': 'fold_levels', 'program': single[len(single) // 2][2]})
    if progs:
        ctx.sample({'suite': 'fold_levels', 'batched program (first 3 of %d statements)' % len(progs[0]):
                    [t for _, _, t in progs[0][:3]]})


# ---------------------------------------------------------------- entry

def run(ctx, tier):
    ctx.trusted_base += [
        'fold half: Models/Fold.v models qbee/expr.py (Type.coerce/can_hold, NumericLiteral, '
        'BinaryOp/UnaryOp.type/eval, Expr.fold), stmt.ArrayDimRange.static_*bound, '
        'qvm_codegen gen_num_literal/gen_str_literal/gen_paren/gen_binary_op/gen_unary_op/'
        'gen_code_for_conv/QvmInstr.final and operand packing of QvmCode.assembled; tied by '
        'fold_fn / fold_rt on every run; float ** with a non-integer exponent, float // with a '
        'quotient >= 2^50 and int()/float() of non-ASCII strings are not modelled (excluded from '
        'the ties, still covered by the model-free oracles)',
        'fold half: the property oracles fold_oracle / fold_levels use only repository code '
        '(real fold, real code generator, real assembler, real cpu, real compiler at 4 levels)',
        'unverified glue: tools/props/c02_fold.py, tools/implfns/foldfn.py',
    ]
    exe = ctx.model('Fold')
    vals = values(tier)
    one = binary_cases(vals) + unary_cases(vals)
    lits = [v for t in (1, 2, 3, 4, 5) for v in vals[t]]
    one += lits
    total, nth = nested_space()
    nn = 1500 if tier == 'quick' else 90000
    # a fixed permutation prefix: quick's sample is a prefix of thorough's
    perm = ctx.rng.sample(range(total), 90000)
    nested = []
    for i in perm[:nn]:
        e = nth(i)
        if exp_nodes_ok(e):
            nested.append(e)
    ctx.rule.append(
        f'fold_fn/fold_rt/fold_oracle: every operator (18 binary, 3 unary) x every pair of operand '
        f'literals from the boundary sets ({", ".join(f"{TYN[t]}:{len(vals[t])}" for t in vals)} values) '
        f'= {len(one)} one-level expressions, plus {len(nested)} of the {total} two-level shapes '
        f'(op(op(a,b),c), op(a,op(b,c)), u(op(a,b)), op(u(a),b), op(a,u(b)), u(u(a)), (op(a,b))) over '
        f'{len(NEST_VALS)} values, seeded; integer ^ with exponent > 64 excluded (the host hangs); '
        f'non-trivial = distinct expression')
    fn1 = fn_suites(ctx, exe, one, 'one-level')
    if ctx.broken:
        return
    oracle_suite(ctx, exe, fn1, 'one-level')
    fn2 = fn_suites(ctx, exe, nested, 'two-level')
    if ctx.broken:
        return
    oracle_suite(ctx, exe, fn2, 'two-level')
    mid = one[len(one) // 3]
    ctx.sample({'suite': 'fold_fn', 'expr': describe(mid)})
    ctx.sample({'suite': 'fold_fn', 'expr': describe(nested[len(nested) // 2])})
    # programs
    n1, n2 = (20, 15) if tier == 'quick' else (40, 30)
    ctx.rule.append(
        f'fold_levels: {n1} per mille of the one-level and {n2} per mille of the two-level source-expressible '
        f'expressions above (selected by a seeded hash of the expression, so quick is a subset of thorough), '
        f'each in the forms PRINT e / v<T> = e: PRINT v / w<T2> = e: PRINT w / CONST c = e: PRINT c / '
        f'DIM a(0 TO e) (bounds 0..40), compiled at levels 0,1,2,3 and run; statements whose '
        f'function-level evaluation neither traps nor differs are batched 20 per program, every '
        f'batch that is not perfectly uniform and every other statement runs alone')
    levels_suite(ctx, exe, fn1, n1)
    if ctx.broken:
        return
    levels_suite(ctx, exe, fn2, n2)
