"""C18 - INPUT assigns only well-typed values and re-prompts on bad lines.

Theorems: coq/Props/C18.v.  Correspondence:
  numerals   NumFmt.py_int / py_float (the numeral readers the model uses) vs Python int()/float()
  single / lines / histories / malformed
             the real TerminalDevice._exec_input (device.execute('input') on a real QvmMachine,
             scripted peripherals) vs Models/Input.v exec_input: every peripherals call, final
             stack, trap; every implementation result is also judged against the Coq
             SPECIFICATION (spec_run, strict)
  compiled   INPUT statements compiled by the real compiler (levels 0,1,2 x debug on/off) and run
             on the real machine, judged against the Coq specification only.

C18_VARIANT=fixed selects exec_input_fixed (the model of the code after fixes/C18-D13.diff)."""
import itertools
import json
import os
import re
import struct
import zlib

import sys
import time

import vlib
from vlib import Ctx
from vlib import run_impl as _run_impl, run_model as _run_model

TIMING = bool(os.environ.get('C18_TIMING'))


def _timed(name, fn, *a, **k):
    t = time.time()
    r = fn(*a, **k)
    if TIMING:
        print(f'  [{name} n={len(a[1])} {time.time() - t:.1f}s]', file=sys.stderr)
    return r


# cost of one case, in worker start-ups' worth: a worker process imports the whole compiler
# (seconds), one _exec_input call costs 0.2 ms, one compiled program 0.2 s, one model job ~1 ms.
# Small batches therefore use few processes.
PER_WORKER = {'inputfn.exec_input': 2500, 'numfmt.op': 30000, 'inputfn.run_prog': 8}


def run_impl(fn, cases, **k):
    k.setdefault('par', max(1, min(vlib.NPROC, len(cases) // PER_WORKER.get(fn, 32))))
    return _timed('impl ' + fn, _run_impl, fn, cases, **k)


def run_model(exe, jobs, **k):
    k.setdefault('par', max(1, min(vlib.NPROC, len(jobs) // 400)))
    return _timed('model ' + os.path.basename(os.path.dirname(exe)), _run_model, exe, jobs, **k)

PROP = 'C18'
VARIANT = 0 if os.environ.get('C18_VARIANT', '') == 'unfixed' else 1   # /repo carries the fix commit for D13: the model is exec_input_fixed

TYNAME = {1: 'INTEGER', 2: 'LONG', 3: 'SINGLE', 4: 'DOUBLE', 5: 'STRING'}
SUFFIX = {1: '%', 2: '&', 3: '!', 4: '#', 5: '$'}
ASNAME = {1: 'INTEGER', 2: 'LONG', 3: 'SINGLE', 4: 'DOUBLE', 5: 'STRING'}
REDO = 'Redo from start\r\n'

# the field alphabet (no commas inside a field)
FIELDS = [
    '0', '7', '-5', '+3', '007', '32767', '32768', '-32768', '-32769',
    '2147483647', '2147483648', '-2147483648', '-2147483649', '99999999999999999999',
    '1.5', '.5', '5.', '-0.25', '+.5e1', '1e5', '1E5', '1e+5', '2.5e-3', '1d5', '1D5',
    '3.4e38', '3.5e38', '1e39', '-1e39', '1e-50', '1e308', '1e400', '-1e400', '1e-400',
    '16777217', '0.1', '123456789.125',
    '', ' ', '-', '+', '.', 'e5', '1e', '1e+', '--1', '+-1', '1 2', '1.2.3',
    ' 7 ', '  42', '7\t', '\t-7 ', '\xa07', ' 1.5 ',
    'abc', '12abc', 'x', '&h10', '&H10', '0x10', '"5"', '"q"', 'hello world', ' a b ',
    '1_0', '1__0', '_1', '1_', '1_0.5', '1_000_000', '1e1_0',
    'nan', 'NaN', '-nan', '+NAN', 'inf', '-inf', 'Inf', 'infinity', '-Infinity', '+infinity', 'infinit',
]
FIELDS = list(dict.fromkeys(FIELDS))


def fb(x):
    return struct.unpack('>Q', struct.pack('>d', x))[0]


def h(obj, seed=0):
    return zlib.crc32((json.dumps(obj, sort_keys=True) + f'#{seed}').encode())


def l2s(l):
    return ''.join(chr(c) for c in l)


# ---------------------------------------------------------------- encoders

MC = {'I': 1, 'L': 2, 'S': 3, 'D': 4, '$': 5}


def mcell(c):
    return [MC[c[0]], c[1]]


def ccell(c):
    """harness cell -> the canonical form results come back in (strings as code points)"""
    return [MC[c[0]], [ord(x) for x in c[1]] if c[0] == '$' else c[1]]


def enc_stack(sl, prompt, q, tys):
    """what gen_input pushes, bottom -> top (harness copy; the model's
    encode_input is compared with the real code generator in suite compiled)"""
    return ([['I', -1 if sl else 0], ['$', prompt], ['I', -1 if q else 0]]
            + [['I', t] for t in tys] + [['I', len(tys)]])


def form_of(prompt, q):
    """prompt form of the specification for a (prompt, question flag) pair"""
    if q:
        return [0] if prompt == '' else [1, prompt]
    return [2, prompt]


def norm_events(evs):
    """join adjacent terminal_print calls (the Coq function norm)"""
    out, acc = [], []
    for e in evs:
        if e[0] == 'terminal_print':
            acc = acc + e[1]
        elif e[0] == 'terminal_input':
            out.append([0, acc])
            out.append([1, e[1], e[2]])
            acc = []
        else:
            out.append(['?', e[0]])
    out.append([0, acc])
    return out


def model_events(evs):
    return [[0, e[1]] if e[0] == 'terminal_print' else
            ([1, e[1], e[2]] if e[0] == 'terminal_input' else ['?', e[0]]) for e in evs]


TRAPS = {'TYPE_MISMATCH': 1, 'STACK_EMPTY': 2, 'DEVICE_ERROR': 3}


def norm_exec(raw):
    if 'exc' in raw:
        return ['exc', raw['exc'], raw.get('where')]
    evs = model_events(raw['events'])
    if raw['res'] == 'ok':
        return [0, evs, raw['stack']]
    if raw['res'] == 'trap':
        return [1, TRAPS.get(raw['code'], raw['code']), evs, raw['stack']]
    return [2, evs, raw['stack']]


# ---------------------------------------------------------------- specification oracle

class Oracle:
    """answers of the Coq specification, batched and cached"""

    def __init__(self, exe):
        self.exe = exe
        self.acc = {}      # (strict, tys, line) -> None | [cells]
        self.run = {}      # (sl, form, tys, lines) -> spec_run result

    @staticmethod
    def k(*a):
        return json.dumps(a)

    def need_accept(self, pairs):
        todo = []
        for strict, tys, line in pairs:
            k = self.k(strict, tys, line)
            if k not in self.acc:
                self.acc[k] = 'pending'
                todo.append((k, [5, strict, list(tys), line]))
        outs = run_model(self.exe, [j for _, j in todo])
        for (k, _), o in zip(todo, outs):
            if isinstance(o, str):
                raise RuntimeError('model driver: ' + o)
            self.acc[k] = o[1] if o[0] == 1 else None

    def need_lines(self, pairs):
        """everything the judges ask about a (types, line) pair, in one batch"""
        want = []
        for tys, line in pairs:
            tys = list(tys)
            want += [(0, tys, line), (1, tys, line)]
            fs = split_fields(line)
            if len(fs) == len(tys):
                for t, f in zip(tys, fs):
                    want += [(0, [t], f), (1, [t], f)]
        self.need_accept(want)

    def accept(self, strict, tys, line):
        k = self.k(strict, tys, line)
        if k not in self.acc:
            self.need_accept([(strict, tys, line)])
        return self.acc[k]

    def need_run(self, items):
        todo = []
        for sl, form, tys, lines in items:
            k = self.k(sl, form, tys, lines)
            if k not in self.run:
                self.run[k] = 'pending'
                todo.append((k, [2, 1, 1 if sl else 0, form, list(tys), list(lines)]))
        outs = run_model(self.exe, [j for _, j in todo])
        for (k, _), o in zip(todo, outs):
            if isinstance(o, str):
                raise RuntimeError('model driver: ' + o)
            self.run[k] = o

    def spec_run(self, sl, form, tys, lines):
        k = self.k(sl, form, tys, lines)
        if k not in self.run:
            self.need_run([(sl, form, tys, lines)])
        return self.run[k]


def split_fields(line):
    return [f.strip() for f in line.split(',')]


def classify_accept(orc, tys, line):
    """the implementation accepted a line the strict specification rejects:
    name the failure class"""
    fs = split_fields(line)
    if len(fs) != len(tys):
        return f'C18/accepts-wrong-field-count(fields={len(fs)},variables={len(tys)})'
    for t, f in zip(tys, fs):
        if orc.accept(1, [t], f) is None:
            low = f.lower()
            len_val = orc.accept(0, [t], f)
            if '_' in f:
                form = 'underscore'
            elif 'nan' in low:
                form = 'nan'
            elif 'inf' in low:
                form = 'inf'
            elif len_val is not None and t in (3, 4) and \
                    (len_val[0][1] & 0x7fffffffffffffff) == 0x7ff0000000000000:
                form = 'overflow-to-inf'
            else:
                form = 'other:' + f
            return f'C18/accepts-illformed-number(form={form},type={TYNAME[t]})'
    return 'C18/accepts-line-spec-rejects(no-field-identified)'


def stale_expected(orc, tys, line):
    """does the defect class D13 apply to this rejected line: right number of
    fields and a convertible rightmost field (so something was pushed before
    the bad field was reached)"""
    fs = split_fields(line)
    if len(fs) != len(tys) or len(tys) < 2:
        return False
    if orc.accept(0, list(tys), line) is not None:
        return False
    return orc.accept(0, [tys[-1]], fs[-1]) is not None


def judge_against_spec(orc, sl, prompt, q, tys, lines, base, res):
    """res: normalised implementation result of one well-formed INPUT
    ([0|2, events, stack]).  Returns None (meets the specification) or a
    signature."""
    spec = orc.spec_run(sl, form_of(prompt, q), tys, lines)
    if res[0] not in (0, 2):
        return f'C18/traps-on-wellformed-statement({res[1]})'
    consumed = [l2s(e[2]) for e in res[1] if e[0] == 1]
    if consumed != list(lines[:len(consumed)]):
        return 'C18/lines-not-read-in-order'
    done = res[0] == 0
    for i, line in enumerate(consumed):
        impl_acc = done and i == len(consumed) - 1
        strict = orc.accept(1, list(tys), line)
        if impl_acc and strict is None:
            return classify_accept(orc, tys, line)
        if not impl_acc and strict is not None:
            return f'C18/rejects-wellformed-line(types={"".join(SUFFIX[t] for t in tys)})'
    if not done and len(consumed) != len(lines):
        return 'C18/stops-reading-lines'
    # decisions agree with the specification: texts, then values, then residue
    nev = norm_events([['terminal_print', e[1]] if e[0] == 0 else ['terminal_input', e[1], e[2]]
                       for e in res[1]])
    if nev != spec[1]:
        return 'C18/shown-text-differs'
    vals = spec[2] if spec[0] == 0 else []
    want = base + list(reversed(vals))
    if res[2] == want:
        return None
    top = res[2][len(res[2]) - len(vals):] if vals else []
    if vals and top != list(reversed(vals)):
        return 'C18/assigned-values-differ'
    if res[2][:len(base)] == base and len(res[2]) > len(want):
        rejected = consumed[:-1] if done else consumed
        if any(stale_expected(orc, tys, l) for l in rejected):
            return 'C18/stale-stack(rejected-field-index<last)'
        return 'C18/stale-stack(unexplained)'
    return 'C18/stack-damaged'


# ---------------------------------------------------------------- suites on _exec_input

BASES = [[], [['L', 5]], [['L', 5], ['$', 'keep'], ['I', 1]]]
PROMPTS = [('', True), ('n', True), ('n', False), ('', False), ('What, now? ', True),
           ('Redo', False)]


def variant_of(key, seed):
    x = h(key, seed)
    prompt, q = PROMPTS[x % len(PROMPTS)]
    sl = bool((x >> 8) & 1)
    base = BASES[(x >> 12) % len(BASES)]
    return sl, prompt, q, base


class ExecBatch:
    """all cases for the real _exec_input, run in one implementation batch and
    one model batch.  Statement cases are compared model vs implementation and
    implementation vs specification; malformed stacks model vs implementation."""

    def __init__(self, ctx, orc, exe):
        self.ctx, self.orc, self.exe = ctx, orc, exe
        self.cases = []       # (suite, case) ; case has 'stack' for malformed, 'tys' otherwise

    def add(self, suite, items):
        for tys, lines, key in items:
            sl, prompt, q, base = variant_of(key, self.ctx.seed)
            self.cases.append((suite, {'tys': list(tys), 'lines': list(lines), 'sl': sl,
                                       'prompt': prompt, 'q': q, 'base': base}))

    def add_malformed(self, suite, stacks, lines):
        for st in stacks:
            self.cases.append((suite, {'stack': st, 'lines': lines}))

    @staticmethod
    def stack_of(c):
        return c['stack'] if 'stack' in c else c['base'] + enc_stack(c['sl'], c['prompt'], c['q'], c['tys'])

    def run(self):
        ctx, orc = self.ctx, self.orc
        cs = [c for _, c in self.cases]
        raws = run_impl('inputfn.exec_input', [{'stack': self.stack_of(c), 'lines': c['lines']} for c in cs])
        mouts = run_model(self.exe, [[1, VARIANT, [mcell(x) for x in self.stack_of(c)], c['lines']] for c in cs])
        if any(isinstance(r, dict) and r.get('harness') for r in raws):
            bad = [r for r in raws if isinstance(r, dict) and r.get('harness')][0]
            ctx.broken.append('correspondence exec_input: implementation worker failed: '
                              + bad.get('stderr', '')[-300:])
            return
        if any(isinstance(m, str) for m in mouts):
            ctx.broken.append('correspondence exec_input: model driver failed')
            return
        stmts = [c for c in cs if 'tys' in c]
        orc.need_run([(c['sl'], form_of(c['prompt'], c['q']), c['tys'], c['lines']) for c in stmts])
        orc.need_lines([(c['tys'], l) for c in stmts for l in c['lines']])
        keys, counts, mid = {}, {}, {}
        for (suite, c), raw, mo in zip(self.cases, raws, mouts):
            ni = norm_exec(raw)
            counts[suite] = counts.get(suite, 0) + 1
            if 'stack' in c:
                keys.setdefault(suite, set()).add(json.dumps(c['stack']))
                if ni != mo:
                    # an ill-formed argument stack is not an INPUT statement: no C18 claim is at
                    # stake unless the machine lets a host exception escape
                    ctx.report(f'C18/exec_input-model-differs({suite})',
                               {'suite': suite, 'case': c, 'impl': ni, 'model': mo}, ni[0] == 'exc')
                ctx.bump('malformed-' + {0: 'done', 1: 'trap', 2: 'exhausted',
                                         'exc': 'host-exception'}[ni[0]])
                continue
            keys.setdefault(suite, set()).add(json.dumps([c['tys'], c['lines']]))
            mid.setdefault(suite, []).append(c)
            if ni[0] == 'exc':
                sig = f'C18/host-exception({ni[1]},{ni[2]})'
            else:
                sig = judge_against_spec(orc, c['sl'], c['prompt'], c['q'], c['tys'], c['lines'],
                                         [ccell(x) for x in c['base']], ni)
            detail = {'suite': suite, 'case': c, 'impl': ni, 'model': mo, 'text': desc_exec(c)}
            if sig is not None:
                ctx.report(sig, detail, True)
                ctx.bump('spec-failure:' + re.sub(r'\(.*', '', sig))
            if ni != mo and sig is None:
                # the model no longer describes the code, no property failure exhibited
                ctx.report(f'C18/exec_input-model-differs({suite})', detail, False)
            if ni[0] == 0:
                ctx.bump('accepted-after-%d-rejections' % (sum(1 for e in ni[1] if e[0] == 1) - 1))
            elif ni[0] == 2:
                ctx.bump('never-accepted')
        for suite, n in counts.items():
            ctx.count(suite, n, keys.get(suite, ()))
            if suite in mid:
                ctx.sample({'suite': suite, 'case': desc_exec(mid[suite][len(mid[suite]) // 2])})


def desc_exec(c):
    return (f"INPUT{' ;' if c['sl'] else ''} {json.dumps(c['prompt'])}{';' if c['q'] else ','} "
            f"{','.join('v' + SUFFIX[t] for t in c['tys'])}  <- {json.dumps(c['lines'])}  "
            f"on stack {json.dumps(c['base'])}")


def representatives(orc, tier):
    """per type: fields chosen from the alphabet by what the specification
    says about them (accepted strictly / only leniently / rejected)"""
    reps = {}
    orc.need_accept([(s, [t], f) for t in TYNAME for f in FIELDS for s in (0, 1)])
    for t in TYNAME:
        good = [f for f in FIELDS if orc.accept(1, [t], f) is not None]
        d29 = [f for f in FIELDS if orc.accept(1, [t], f) is None and orc.accept(0, [t], f) is not None]
        bad = [f for f in FIELDS if orc.accept(0, [t], f) is None]
        reps[t] = {'good': good, 'd29': d29, 'bad': bad}
    return reps


def pick(lst, n, key):
    """n elements of lst spread deterministically"""
    if len(lst) <= n:
        return list(lst)
    step = len(lst) / n
    off = h(key) % max(1, int(step))
    return [lst[min(len(lst) - 1, int(i * step) + off)] for i in range(n)]


def small_reps(reps, t, n):
    """the first n of a fixed interleaving good, rejected, Python-only, good, rejected, ...
    (a prefix, so that the quick choice is contained in the thorough one)"""
    r = reps[t]
    g, b, d = pick(r['good'], 4, ['g', t]), pick(r['bad'], 3, ['b', t]), pick(r['d29'], 2, ['d', t])
    order = []
    for i in range(4):
        for lst in (g, b, d):
            if i < len(lst):
                order.append(lst[i])
    return list(dict.fromkeys(order))[:n]


def line_pool(reps, tys):
    """lines for histories over one type tuple: accepted ones, clean
    rejections (count, last field) and rejections at earlier fields"""
    k = len(tys)
    good = [reps[t]['good'][h(['lp', tys, i]) % len(reps[t]['good'])] for i, t in enumerate(tys)]
    good2 = [reps[t]['good'][h(['lq', tys, i]) % len(reps[t]['good'])] for i, t in enumerate(tys)]
    pool = [','.join(good), ' , '.join(good2)]
    pool.append(','.join(good[:-1]))            # too few ('' when k = 1)
    pool.append(','.join(good + ['1']))         # too many
    for i, t in enumerate(tys):
        if reps[t]['bad']:
            b = reps[t]['bad'][h(['lb', tys, i]) % len(reps[t]['bad'])]
            pool.append(','.join(good[:i] + [b] + good[i + 1:]))
    for i, t in enumerate(tys):
        if reps[t]['d29']:
            d = reps[t]['d29'][h(['ld', tys, i]) % len(reps[t]['d29'])]
            pool.append(','.join(good[:i] + [d] + good[i + 1:]))
            break
    return list(dict.fromkeys(pool))


def type_tuples(maxk):
    for k in range(1, maxk + 1):
        yield from itertools.product((1, 2, 3, 4, 5), repeat=k)


# ---------------------------------------------------------------- compiled programs

KINDS = ('scalar', 'elem', 'field', 'relem')


def target(kind, t, i):
    """(declarations, lvalue text) of the i-th INPUT target"""
    if kind == 'scalar':
        return [], f'v{i}{SUFFIX[t]}'
    if kind == 'elem':
        return [f'DIM a{i}{SUFFIX[t]}(3)'], f'a{i}{SUFFIX[t]}({i + 1})'
    if kind == 'field':
        return [f'DIM r{i} AS rec'], f'r{i}.f{t}'
    return [f'DIM q{i}(2) AS rec'], f'q{i}({i % 3}).f{t}'


TYPE_DECL = ['TYPE rec', ' f1 AS INTEGER', ' f2 AS LONG', ' f3 AS SINGLE', ' f4 AS DOUBLE',
             ' f5 AS STRING', 'END TYPE']


def build_prog(shape, sl, form, targets):
    """targets: [(kind, type)].  CLS before and after the INPUT statement is a
    probe for the operand stack depth; afterwards every variable is printed."""
    decls, lvs = [], []
    for i, (kind, t) in enumerate(targets):
        d, lv = target(kind, t, i)
        decls += d
        lvs.append(lv)
    stmt = 'INPUT ' + ('; ' if sl else '')
    if form[0] == 1:
        stmt += f'"{form[1]}"; '
    elif form[0] == 2:
        stmt += f'"{form[1]}", '
    stmt += ', '.join(lvs)
    body = decls + ['CLS', stmt, 'CLS']
    for (kind, t), lv in zip(targets, lvs):
        body.append(f'PRINT "[" + {lv} + "]"' if t == 5 else f'PRINT {lv}')
    need_type = any(k in ('field', 'relem') for k, _ in targets)
    head = TYPE_DECL if need_type else []
    if shape == 'main':
        lines = head + body + ['PRINT "end"']
    elif shape == 'sub':
        lines = head + ['DECLARE SUB s ()', 'CALL s', 'PRINT "end"', 'SUB s'] + body + ['END SUB']
    else:
        lines = head + ['GOSUB 10', 'PRINT "end"', 'END', '10 x9% = 1'] + body + ['RETURN']
    return '\n'.join(lines), stmt


def main(tier, seed):
    ctx = Ctx(PROP, tier, seed, 'proof')
    ctx.trusted_base = [
        'Coq 8.16.1 kernel (coqc, full .vo build); vm_compute only in the two _refuted witnesses and the Examples',
        'no axioms: every theorem prints "Closed under the global context"',
        'extraction: ExtrOcamlBasic only; Z, positive, nat kept inductive',
        'unverified glue: ocaml/driver.ml, tools/vlib, tools/props/c18.py (generators, event normalisation, '
        'classification of a disagreement into a signature), tools/implfns/inputfn.py, tools/implfns/common.py',
        'modelled, not verified: qvm/machine.py TerminalDevice._exec_input + cpu.pop/push + CellValue (Models/Input.v '
        'exec_input), qbee/qvm_codegen.py gen_input and qbee/grammar.py parse_input (encode_input, stmt_of_form, '
        'do_stores); the stores themselves (gen_lvalue_write, storeref, storeidx) and the pyparsing grammar are '
        'inside the compiled-program correspondence only',
        'Python int()/float()/str.strip are re-implemented (NumFmt.py_int, py_float, Strs.py_strip: ASCII digits, '
        'white space set of Strs.is_py_space) and compared with Python in suite numerals; non-ASCII digits and '
        'other Unicode white space are outside the explored alphabet',
        'specification choices (Models/Input.v part 1): white space trimmed = what str.strip trims; the numeral '
        'grammar is plain decimal (no D exponent, no fraction for integer variables, no &H): the statement is '
        'one-directional (accepted only if well-formed), and the code rejects those forms too',
    ]
    ctx.extra['model_variant'] = 'exec_input_fixed' if VARIANT else 'exec_input'
    ctx.prove()
    exe = ctx.model('Input')
    exe_num = ctx.model('NumFmt')
    orc = Oracle(exe)
    quick = tier == 'quick'

    # ---- numerals: the readers the model (and the lenient specification) rest on
    chars = ['1', '0', '_', '.', 'e', '-', '+', ' ', 'n', 'a', 'i', 'f']
    maxlen = 3 if quick else 4
    strs = list(FIELDS)
    for n in range(1, maxlen + 1):
        strs += [''.join(p) for p in itertools.product(chars, repeat=n)]
    strs = list(dict.fromkeys(strs))
    ncases = [[5, s] for s in strs] + [[6, s] for s in strs]
    ri = run_impl('numfmt.op', ncases)
    rm = run_model(exe_num, ncases)
    nacc = 0
    for c, a, b in zip(ncases, ri, rm):
        if a != b:
            ctx.report(f'C18/numeral-reader-differs({"int" if c[0] == 5 else "float"})',
                       {'suite': 'numerals', 'case': c, 'impl': a, 'model': b}, False)
        if a:
            nacc += 1
    ctx.count('numerals', len(ncases), set(json.dumps(c) for c in ncases))
    ctx.bump('numerals-accepted-by-python', nacc)
    ctx.rule.append(f'numerals: int() and float() on the {len(FIELDS)} alphabet fields and on every string of '
                    f'length <= {maxlen} over {len(chars)} characters (digits, _ . e sign blank n a i f)')
    ctx.sample({'suite': 'numerals', 'case': 'float("1_0.5")'})

    reps = representatives(orc, tier)
    for t in TYNAME:
        ctx.bump(f'alphabet-{TYNAME[t]}-strictly-wellformed', len(reps[t]['good']))
        ctx.bump(f'alphabet-{TYNAME[t]}-python-only(D29)', len(reps[t]['d29']))
        ctx.bump(f'alphabet-{TYNAME[t]}-rejected', len(reps[t]['bad']))

    # ---- single: one variable, every type x every field of the alphabet
    items = []
    for t in TYNAME:
        for f in FIELDS:
            items.append(((t,), [f, reps[t]['good'][0]], ['single', t, f]))
            items.append(((t,), [f], ['single1', t, f]))
    batch = ExecBatch(ctx, orc, exe)
    batch.add('single', items)
    ctx.rule.append(f'single: 1 variable of each of the 5 types x each of the {len(FIELDS)} alphabet fields '
                    f'(alone, and followed by an acceptable line); prompt text, question flag, same-line flag '
                    f'and the cells underneath vary with a hash of the case and the seed')

    # ---- lines: 2 and 3 variables, every type tuple x tuples of representative fields
    items = []
    n2 = 4 if quick else 7
    n3 = 2 if quick else 5
    for tys in type_tuples(3):
        if len(tys) == 1:
            continue
        n = n2 if len(tys) == 2 else n3
        sets = [small_reps(reps, t, n) for t in tys]
        good = ','.join(reps[t]['good'][1] for t in tys)
        for fs in itertools.product(*sets):
            items.append((tys, [','.join(fs), good], ['lines', tys, fs]))
        one = [s[0] for s in sets]
        for extra in ([], one[:-1], one + ['5'], one + ['', ''], [''] * len(tys)):
            items.append((tys, [','.join(extra), good], ['linesc', tys, extra]))
    batch.add('lines', items)
    ctx.rule.append(f'lines: every type tuple of 2 and 3 variables (150) x every tuple of representative fields '
                    f'({n2} per type for pairs, {n3} for triples: strictly well-formed, rejected, Python-only) '
                    f'+ lines with too few / too many / only empty fields')

    # ---- histories: every type tuple x every sequence of pool lines
    items = []
    hl = 2 if quick else 3
    ntup = 0
    for tys in type_tuples(3):
        if quick and len(tys) == 3 and h(['hq', tys]) % 5 != 0:
            continue      # quick: a fifth of the triples (a fixed subset, independent of the seed)
        ntup += 1
        pool = line_pool(reps, tys)
        for n in range(1, hl + 1):
            for hist in itertools.product(pool, repeat=n):
                items.append((tys, list(hist), ['hist', tys, hist]))
    batch.add('histories', items)
    ctx.rule.append(f'histories: {ntup} of the 155 type tuples of 1..3 variables x every sequence of length <= {hl} over '
                    f'a pool of 6..9 lines (2 acceptable, too few, too many, one bad field at each position, one '
                    f'Python-only numeral); non-trivial = distinct (types, history)')

    # ---- malformed: ill-typed and short stacks
    tags = [['I', 0], ['I', 1], ['I', 2], ['I', -1], ['I', 5], ['I', 9], ['L', 1],
            ['S', fb(1.0)], ['$', ''], ['$', 'p']]
    mal = []
    for n in range(0, (3 if quick else 4) + 1):
        for tup in itertools.product(range(len(tags)), repeat=n):
            mal.append([tags[i] for i in tup])
    mlines = ['x,1', '1', '1,2']
    # complete argument frames with ill-typed / unknown content: these reach the retry loop
    frames = []
    for k in (1, 2):
        for tys in itertools.product((1, 5, 9, 0, -1, 6, 7), repeat=k):
            for qc in (['I', 0], ['I', -1], ['I', 2], ['L', 0], ['$', '']):
                for pc in (['$', 'p'], ['I', 0]):
                    for sc in (['I', 0], ['I', 7], ['$', '']):
                        frames.append([['L', 5], sc, pc, qc] + [['I', t] for t in tys] + [['I', k]])
    batch.add_malformed('malformed', mal + frames, mlines)
    batch.run()
    ctx.rule.append(f'malformed: every stack of <= {3 if quick else 4} cells over {len(tags)} cells (counts 0,1,2,-1, '
                    f'type ids 5,9, LONG / SINGLE / STRING cells in INTEGER positions, short stacks) + {len(frames)} complete frames of 1..2 variables with type ids from 1,5,9,0,-1,6,7 and ill-typed flag / prompt cells')
    ctx.sample({'suite': 'malformed', 'case': 'stack (bottom->top) ' + json.dumps(frames[len(frames) // 3])})

    # ---- compiled programs
    run_compiled(ctx, orc, exe, exe_num, reps, quick)
    return ctx.finish('C18_VARIANT=fixed: model of the repaired code' if VARIANT else '')


FORMS = [[0], [1, 'n'], [2, 'n'], [1, ''], [2, 'Your name, please: '], [1, 'a;b']]
SHAPES = ('main', 'sub', 'gosub')
CONFIGS = [(lv, dbg) for lv in (0, 1, 2) for dbg in (False, True)]


def gen_programs(ctx, reps, quick):
    """deterministic core + a seeded sample; quick takes a prefix of every part"""
    progs = []
    # core 1: one target of every kind x type x prompt form (x leading ';'), one bad line then a good one
    i = 0
    for kind in KINDS:
        for t in TYNAME:
            for fi, form in enumerate(FORMS):
                for sl in (False, True):
                    i += 1
                    shape = SHAPES[i % 3]
                    good = reps[t]['good'][i % len(reps[t]['good'])]
                    bad = reps[t]['bad'][i % len(reps[t]['bad'])] if reps[t]['bad'] else good + ',1'
                    progs.append((shape, sl, form, [(kind, t)], [bad, '', good] if t != 5 else [bad, good]))
    core1 = progs
    # core 2: every type pair and 25 triples, histories from the pool (clean and stale rejections, D29)
    core2 = []
    for tys in type_tuples(3):
        if len(tys) == 1:
            continue
        if len(tys) == 3 and h(['c2', tys]) % 5 != 0:
            continue
        pool = line_pool(reps, tys)
        for j, bad in enumerate(pool[2:]):
            i += 1
            kinds = [KINDS[(i + x) % len(KINDS)] for x in range(len(tys))]
            core2.append((SHAPES[i % 3], bool(i & 1), FORMS[i % len(FORMS)], list(zip(kinds, tys)),
                          [bad, pool[j % 2]]))
    # sample: seeded
    nrand = 300
    samp = []
    rng = ctx.rng
    tups = list(type_tuples(3))
    for _ in range(nrand):
        tys = rng.choice(tups)
        pool = line_pool(reps, tys)
        n = rng.randint(1, 3)
        hist = [rng.choice(pool) for _ in range(n)]
        if rng.random() < 0.8:
            hist.append(pool[rng.randint(0, 1)])
        kinds = [rng.choice(KINDS) for _ in tys]
        samp.append((rng.choice(SHAPES), rng.random() < 0.5, rng.choice(FORMS), list(zip(kinds, tys)), hist))
    if quick:
        return core1[::8] + core2[::6] + samp[:20]
    return core1 + core2 + samp


def fmt_job(c):
    return [1, c[1]] if c[0] in (1, 2) else [2, 1 if c[0] == 3 else 0, c[1]]


def number_texts(exe_num, cells):
    """cell -> text of the number as PRINT shows it (NumFmt model of format_number)"""
    uniq = {}
    for c in cells:
        if c[0] != 5:
            uniq[json.dumps(c)] = c
    ks = list(uniq)
    outs = run_model(exe_num, [fmt_job(uniq[k]) for k in ks])
    return dict(zip(ks, outs))


def expected_print(fmt, vals):
    """text the continuation prints for the assigned values (PRINT v / PRINT "[" + v$ + "]")"""
    text = []
    for c in vals:
        if c[0] == 5:
            text += [91] + c[1] + [93, 13, 10]
        else:
            text += fmt[json.dumps(c)] + [32, 13, 10]
    return text


def run_compiled(ctx, orc, exe, exe_num, reps, quick):
    progs = gen_programs(ctx, reps, quick)
    cases = []
    for pi, (shape, sl, form, targets, hist) in enumerate(progs):
        src, stmt = build_prog(shape, sl, form, targets)
        # all six configurations for a third of the programs, two (one per debug setting,
        # different levels) for the others; chosen by a hash of the program, not by the tier
        x = h(['cfg', src, hist])
        cfgs = CONFIGS if x % 3 == 0 else [CONFIGS[(x >> 4) % 6], CONFIGS[((x >> 4) + 3) % 6]]
        for lv, dbg in cfgs:
            cases.append({'src': src, 'stmt': stmt, 'shape': shape, 'sl': sl, 'form': form,
                          'tys': [t for _, t in targets], 'kinds': [k for k, _ in targets],
                          'lines': hist, 'level': lv, 'debug': dbg})
    # reference runs: the same program answered with the accepted line alone (the line the
    # specification accepts; a run that accepts another line is reported before the reference
    # is looked at)
    orc.need_run([(c['sl'], c['form'], c['tys'], c['lines']) for c in cases])
    orc.need_lines([(c['tys'], l) for c in cases for l in c['lines']])
    refcases, refidx = [], {}
    for i, c in enumerate(cases):
        acc = [l for l in c['lines'] if orc.accept(1, c['tys'], l) is not None]
        if acc and c['lines'][0] != acc[0]:
            refidx[i] = len(refcases)
            refcases.append(dict(c, lines=[acc[0]]))
    # each reference run directly after its case: the worker compiles the program once
    order, pos_case, pos_ref = [], {}, {}
    for i, c in enumerate(cases):
        pos_case[i] = len(order)
        order.append(c)
        if i in refidx:
            pos_ref[i] = len(order)
            order.append(refcases[refidx[i]])
    allraws = run_impl('inputfn.run_prog', order, timeout=3000)
    raws = [allraws[pos_case[i]] for i in range(len(cases))]
    refs = [None] * len(refcases)
    for i, j in refidx.items():
        refs[j] = allraws[pos_ref[i]]
    # specification-side encoding of the statement (ties encode_input / stmt_of_form to gen_input / parse_input)
    encs = run_model(exe, [[3, 1 if c['sl'] else 0, c['form'], c['tys']] for c in cases])
    allvals = []
    for c in cases:
        sp = orc.spec_run(c['sl'], c['form'], c['tys'], c['lines'])
        if sp[0] == 0:
            allvals += sp[2]
    fmt = number_texts(exe_num, allvals)
    keys = set()
    for i, (c, raw, enc) in enumerate(zip(cases, raws, encs)):
        if isinstance(raw, dict) and raw.get('harness'):
            ctx.broken.append('correspondence compiled: implementation worker failed: '
                              + raw.get('stderr', '')[-300:])
            break
        keys.add(json.dumps([c['src'], c['lines']]))
        ctx.bump('compiled-shape-' + c['shape'])
        for k in c['kinds']:
            ctx.bump('compiled-target-' + k)
        sig = judge_compiled(ctx, orc, fmt, c, raw, refs[refidx[i]] if i in refidx else None, enc)
        if sig is not None:
            ctx.report(sig[0], {'suite': 'compiled', 'case': c, 'impl_raw': raw, 'why': sig[1],
                                'text': desc_prog(c)}, sig[2])
            ctx.bump('spec-failure:' + re.sub(r'\(.*', '', sig[0]))
    ctx.count('compiled', len(cases) + len(refcases), keys)
    ctx.rule.append(f'compiled: {len(progs)} programs (core: 1 target of every kind scalar/array element/record '
                    f'field/element-of-record-array x type x 6 prompt forms x leading ";", every type pair and a '
                    f'fifth of the triples x every pool rejection; + seeded sample) in shapes main / SUB / GOSUB, '
                    f'compiled at levels 0,1,2 x debug on/off (all six for a third of the programs, two for the others) and run on the real machine; CLS probes give the '
                    f'operand stack depth before and after the statement; each history with a rejection is also '
                    f'compared with the run answered by the accepted line alone')
    if cases:
        ctx.sample({'suite': 'compiled', 'case': desc_prog(cases[len(cases) // 2])})


def desc_prog(c):
    return f"-O{c['level']}{' -g' if c['debug'] else ''} [{c['shape']}] {c['stmt']}  <- {json.dumps(c['lines'])}"


def judge_compiled(ctx, orc, fmt, c, raw, ref, enc):
    """None or (signature, why, found_input).  The events between the first and
    the second CLS probe are the INPUT statement; what follows the second probe is
    the continuation."""
    if 'exc' in raw:
        return (f"C18/compiled-host-exception({raw['exc']},{raw.get('where')})", raw.get('msg'), True)
    tys, lines = c['tys'], c['lines']
    spec = orc.spec_run(c['sl'], c['form'], tys, lines)
    evs = raw['events']
    cls_at = [i for i, e in enumerate(evs) if e[0] == 'terminal_cls']
    # 1. the argument protocol: what the compiled code pushed = encode_input
    if not raw['at_io'] or not cls_at:
        return ('C18/compiled-no-input-executed', None, True)
    depth0 = evs[cls_at[0]][1]
    pushed = raw['at_io'][0][depth0:]
    if pushed != enc:
        return ('C18/gen_input-differs-from-encode_input', {'pushed': pushed, 'model': enc}, False)
    done = len(cls_at) >= 2            # the statement completed: the probe after it was reached
    stmt_evs = evs[cls_at[0] + 1:cls_at[1]] if done else evs[cls_at[0] + 1:]
    rest_evs = evs[cls_at[1] + 1:] if done else []
    if any(e[0] not in ('terminal_print', 'terminal_input') for e in stmt_evs):
        return ('C18/unexpected-device-call-in-statement', None, True)
    # 2. decisions
    consumed = [l2s(e[2]) for e in stmt_evs if e[0] == 'terminal_input']
    if consumed != list(lines[:len(consumed)]):
        return ('C18/lines-not-read-in-order', None, True)
    if not done and raw['status'] != 'exhausted':
        return ('C18/statement-does-not-complete', [raw['status'], raw['outcome'], raw.get('host_exc')], True)
    for i, line in enumerate(consumed):
        impl_acc = done and i == len(consumed) - 1
        strict = orc.accept(1, list(tys), line)
        if impl_acc and strict is None:
            return (classify_accept(orc, tys, line), f'line {line!r} accepted', True)
        if not impl_acc and strict is not None:
            return (f'C18/rejects-wellformed-line(types={"".join(SUFFIX[t] for t in tys)})', line, True)
    nev = norm_events(stmt_evs)
    if spec[0] == 1:
        if done:
            return ('C18/accepts-after-history-spec-rejects', None, True)
        if nev != spec[1]:
            return ('C18/shown-text-differs', {'impl': nev, 'spec': spec[1]}, True)
        return None
    if not done:
        return ('C18/stops-reading-lines', None, True)
    # 3. texts of the statement, then the values the continuation prints
    if nev != spec[1]:
        return ('C18/shown-text-differs', {'impl': nev, 'spec': spec[1]}, True)
    vals = spec[2]
    cont = expected_print(fmt, vals)
    after = []
    for e in rest_evs:
        if e[0] != 'terminal_print':
            break
        after += e[1]
    if after[:len(cont)] != cont:
        return ('C18/assigned-values-differ', {'printed': l2s(after), 'expected': l2s(cont)}, True)
    # 4. nothing left behind: stack depth, normal end, same final state as the accepted line alone
    symptoms = []
    depth1 = evs[cls_at[1]][1]
    if depth1 != depth0:
        symptoms.append(f'operand stack depth {depth0} before, {depth1} after the statement')
    if raw['outcome'][1] is not None or raw['status'] != 'halt':
        symptoms.append(f"program ended with {raw['outcome']} ({raw['status']}"
                        f"{' ' + str(raw['host_exc']) if raw.get('host_exc') else ''})")
    if after[len(cont):] != [101, 110, 100, 13, 10]:
        symptoms.append(f'continuation printed {l2s(after[len(cont):])!r} instead of "end"')
    if any(e[0] != 'terminal_print' for e in rest_evs):
        symptoms.append('the program went on to ' + ', '.join(
            sorted(set(e[0] for e in rest_evs if e[0] != 'terminal_print'))) + ' after its last statement')
    if ref is not None:
        if 'exc' in ref:
            symptoms.append('reference run raised ' + ref['exc'])
        else:
            if ref['stack'] != raw['stack'] or ref['outcome'] != raw['outcome']:
                symptoms.append(f"final stack/outcome {raw['stack']} {raw['outcome']} differ from those of the "
                                f"accepted line alone {ref['stack']} {ref['outcome']}")
    if not symptoms:
        return None
    rejected = consumed[:-1]
    if any(stale_expected(orc, tys, l) for l in rejected):
        return ('C18/stale-stack(rejected-field-index<last)', symptoms, True)
    return ('C18/leaves-something-behind(unexplained)', symptoms, True)


def replay(path):
    """re-run the recorded case on the implementation, the model and the
    specification; exit 1 while it still fails"""
    d = json.load(open(path))
    print(f"property {d.get('property')}  signature {d.get('signature')}  "
          f"(seen {d.get('count')} times, tier {d.get('tier')}, seed {d.get('seed')})")
    if d.get('no_longer_checks') or not d.get('first'):
        print('no concrete input recorded; broken obligations / ties:')
        print(json.dumps(d.get('no_longer_checks') or d.get('broken_obligations'), indent=1))
        print(str(d.get('detail', ''))[-1500:])
        return 1
    first = d['first']
    c, suite = first['case'], first.get('suite')
    print('case:', first.get('text') or json.dumps(c)[:600])
    with vlib.Lock():
        exe = vlib.build_model('Input')
        exe_num = vlib.build_model('NumFmt')
    orc = Oracle(exe)
    failing = False
    if suite == 'numerals':
        a = run_impl('numfmt.op', [c])[0]
        b = run_model(exe_num, [c])[0]
        print('python:', a, ' model:', b)
        failing = a != b
    elif suite == 'compiled':
        raw = run_impl('inputfn.run_prog', [c])[0]
        acc = [l for l in c['lines'] if orc.accept(1, c['tys'], l) is not None]
        ref = None
        if acc and c['lines'][0] != acc[0]:
            ref = run_impl('inputfn.run_prog', [dict(c, lines=[acc[0]])])[0]
        enc = run_model(exe, [[3, 1 if c['sl'] else 0, c['form'], c['tys']]])[0]
        sp = orc.spec_run(c['sl'], c['form'], c['tys'], c['lines'])
        fmt = number_texts(exe_num, sp[2] if sp[0] == 0 else [])
        print(c['src'])
        if 'events' in raw:
            for e in raw['events']:
                print('   ', e[0], repr(l2s(e[-1])) if isinstance(e[-1], list) else e[1:])
            print('    ->', raw['status'], raw['outcome'], raw.get('host_exc'), 'stack', raw['stack'])
        else:
            print('   ', raw)
        sig = judge_compiled(None, orc, fmt, c, raw, ref, enc)
        print('verdict now:', sig if sig else 'meets the specification')
        failing = sig is not None
    else:
        st = c['stack'] if 'stack' in c else c['base'] + enc_stack(c['sl'], c['prompt'], c['q'], c['tys'])
        raw = run_impl('inputfn.exec_input', [{'stack': st, 'lines': c['lines']}])[0]
        mo = run_model(exe, [[1, VARIANT, [mcell(x) for x in st], c['lines']]])[0]
        ni = norm_exec(raw)
        print('implementation:', json.dumps(ni)[:1500])
        print('model         :', json.dumps(mo)[:1500])
        sig = None
        if 'tys' in c and ni[0] != 'exc':
            sig = judge_against_spec(orc, c['sl'], c['prompt'], c['q'], c['tys'], c['lines'],
                                     [ccell(x) for x in c['base']], ni)
            print('specification :', json.dumps(orc.spec_run(c['sl'], form_of(c['prompt'], c['q']),
                                                              c['tys'], c['lines']))[:1500])
        print('verdict now:', sig if sig else ('model and implementation differ' if ni != mo
                                               else 'agrees with the model and meets the specification'))
        failing = sig is not None or ni != mo
    return 1 if failing else 0
