"""Regenerates MANIFEST.json from the per-property table below."""
import json, os, sys
HERE = os.path.dirname(os.path.dirname(os.path.abspath(__file__)))

CHECKS = {
 'C17': dict(
    category='proof',
    text=('Rocq theorems about the executable model of PRINT (Models/Print.v): number text + blank, strings verbatim, '
          'semicolon adds nothing, comma pads 1..14 blanks to the next multiple of 14, newline rule, left-to-right compositionality, '
          'and decode(encode) = identity for the argument protocol for all cell values; the model is tied to the code by a '
          'correspondence check running the real TerminalDevice._exec_print (all item sequences up to a length over a 12-symbol '
          'alphabet) and compiled PRINT statements at the six configurations against the extracted model.'),
    design_ref='DESIGN.md 5/C17',
    note=('Trusted: Coq kernel; extraction (ExtrOcamlBasic); OCaml driver and Python harness (unverified glue). '
          'Modelled, not verified: _exec_print, gen_print_stmt, format_number. The PRINT grammar is covered by the correspondence only.'),
    technique='Rocq proof over hand-written Gallina model + differential correspondence against the implementation'),
 'C07': dict(
    category='proof',
    text=('Rocq theorems about an executable model of the whole QVM (Models/Machine.v, Cpu.v: every _exec_*, tick, _trap, all devices; every host exception of the Python is an explicit Crash outcome): '
          'an interrupt raised at ANY state with no handler armed halts with KEYBOARD_INTERRUPT leaving pc, stack, memory and device trace untouched (for every module and state, hence every instruction boundary); '
          'a trap with no handler halts with its code; cause->category lemmas (division by zero, overflow, illegal argument, out of DATA); the full statement "no Crash is reachable" is refuted by witness on the faithful model (known findings). '
          'The model is tied to qvm/cpu.py by T-isa (one tick of every opcode on constructed states, all operand-type tuples incl. ill-typed, boundary values, handler/interrupt matrix: complete final state compared) and T-run '
          '(corpus + error-provoking programs at six configurations, interrupt injected at every instruction boundary), with the direct oracle "no host exception escapes tick(), trap code = cause".'),
    design_ref='DESIGN.md 5/C07',
    note=('Trusted: Coq kernel, extraction (ExtrOcamlBasic), OCaml driver, Python harness incl. state construction on the real QvmCpu. Modelled, not verified: qvm/cpu.py, cell.py, machine.py. '
          'Not modelled: OS signal delivery (the flag is set directly), float ** with non-integer/large exponents (excluded, counted). The unguarded totality statement is false on the unchanged tree: see KNOWN_FINDINGS.'),
    technique='Rocq proof over a hand-written executable machine model + differential correspondence (single-step and whole-run) against the implementation'),
 'C09': dict(
    category='proof',
    text=('Rocq theorems over executable models of the assembler, section writer/reader, machine decoder, disassembler and listing: decode(encode) = id for every instruction '
          '(floats on bit patterns), for code sections and for the module sections under explicit field widths; disassembly of assembled items = listing after label/variable/device/literal '
          'resolution; soundness of the target/frame checker that is run (extracted) on every compiled module; the instruction table is REGENERATED from qvm/instrs.py on every run '
          '(tools/gen_tables.py -> coq/Gen/Instrs.v) with unique-opcode, unique-mnemonic and decoder-agreement obligations by vm_compute; all tied to the real bytes(code), QModule.parse, '
          'disassemble(), str(code), assembled and get_instruction_at on corpus + feature programs x 6 configurations and synthetic modules at the width limits.'),
    design_ref='DESIGN.md 5/C09',
    note=('Trusted: Coq kernel (coqchk: no axioms), extraction, gen_tables.py translator, OCaml driver, Python harness. Modelled, not verified: QvmCode.__bytes__/assembled/__str__ (code part), qvm/module.py, get_instruction_at. '
          'Variable indices are taken from the real memlayout as a certificate; frame exactness is harness-checked per module; the debug section is outside the model; guarded by D30 field widths.'),
    technique='Rocq proof over generated + hand-written Gallina models; finite table obligations by vm_compute; translation validation of every module; differential correspondence'),
 'C11': dict(
    category='proof',
    text=('Rocq theorems about the executable model of the debug map (collector + assembler offsets, add_node, finalize, find_stmt, line/column conversion) for every well-nested marker stream: no collector assertion failure; '
          'all recorded offsets on instruction boundaries; collected ranges laminar; routine records exact; find_stmt sound, complete, innermost, first in table order and equal to the machine model lookup used by RESUME; '
          'every address inside a block of a generator-shaped stream covered by a record inside that block (_partial: needs code in a child or an in-range empty-block marker); line = 1 + newlines before the offset; '
          'machine-checked counter-examples for what the unchanged code violates (final table not laminar, unrecorded block, misattributed jump). Tied to the real DebugInfoCollector/add_node/finalize/find_stmt by bounded-exhaustive '
          'differential tests and to the real compiler marker stream and tables on the corpus, a statement-kind x context x position family and generated programs at levels 0/1/2; an independent oracle checks the property on the real artefacts '
          '(boundaries, laminarity, coverage, innermost lookup, line and source extract of every record, io/trap attribution at run time).'),
    design_ref='DESIGN.md 5/C11',
    note=('Trusted: Coq kernel, extraction, OCaml driver, Python harness (stream extraction from code._instrs, decoder, oracle). wf_markers/good are hypotheses checked on every compiled program, not proved about qvm_codegen.py; '
          'pyparsing source locations are inside the correspondence only; the peephole pass is checked via the level-1 vs level-2 marker comparison, not proved. Open findings D45m D46m D47m (debug map) and D19.'),
    technique='Rocq proof over a hand-written Gallina model, differential correspondence, property oracle on implementation artefacts'),
 'C12': dict(
    category='proof',
    text=('Rocq theorems over the executable debugger model (Models/Debugger.v) on the machine model: every command history only ticks the machine (equality up to halted/reason); device events form a chain and are a prefix of the free run; '
          'the final state is the free run state as long as the debugger never drives a finished machine; continue stops only at, and at the first, user breakpoint; break resolves to the first executable statement at or after the line; '
          'delbr removes exactly one occurrence; step stops at the first statement change; vm_compute refutations for next on recursion (D25) and resume-after-trap. Tied to the code by T-dbg: the real qvm.dbg.Cmd over compiled programs '
          'x {-O0,-O2} x all short + seeded long command histories against the extracted model, snapshots after every command, plus direct property judges against a free run.'),
    design_ref='DESIGN.md 5/C12',
    note=('Trusted: Coq kernel (incl. vm_compute), ExtrOcamlBasic, ocaml/driver.ml, Python harness. Modelled, not verified: the dbg.py commands listed, cpu.run/next, find_stmt. Not covered: routine/address breakpoints, print/bt/cur, OS signals, VAL. '
          'The transparency theorem is guarded (mres = false) on the unchanged tree because of D25b/D25c.'),
    technique='Rocq proof over a hand-written Gallina model + differential correspondence against the implementation'),
 'C15': dict(
    category='proof',
    text=('23 closed Rocq theorems: parse_data returns items iff the text is generated by the item grammar (split at commas outside quotes, unquoted trimmed, quoted verbatim, empty = Empty) and never an empty list; for all non-empty parts the k-th READ is the k-th flattened item converted; '
          'Empty reads 0 or ""; text into a numeric variable and reading past the end are DEVICE_ERROR; for every placement of labels, SUB-local labels and DATA the data section flattens to source order; RESTORE l is exact whenever a DATA directly follows l (D12 guard); '
          'compiled programs without bare RESTORE (D11 guard) equal the specification, as does the D11-fixed model without that guard; _refuted witnesses for D11, D12, D44, D44b. Tied to the code on every run: real parse_data and data_stmt on all texts over {a,1,blank,comma,quote,colon} up to a length, '
          'real DataDevice on all READ/RESTORE sequences up to a length, compiled programs with DATA/labels in all orders at the six configurations, judged by the extracted Coq specification.'),
    design_ref='DESIGN.md 5/C15',
    note=('Trusted: Coq kernel, ExtrOcamlBasic, OCaml driver, Python harness (generators, renderer, classifier). Modelled, not verified: parse_data, data_stmt + action (one line, no TAB), Pass1 grouping, get_data_label_index/gen_read/gen_restore, DataDevice; int()/float() through Models/NumFmt.v. '
          'Inside the correspondence only: grammar of labels/READ/RESTORE/SUB, data section encoding, PRINT. Guards: plain_text, parts non-empty, type ids 1..5.'),
    technique='Rocq proof over hand-written Gallina models + differential correspondence judged by an extracted Coq specification'),
 'C18': dict(
    category='proof',
    text=('Rocq theorems about the executable model of INPUT (Models/Input.v): prompt text, accept-iff (relative to the numerals int()/float() read) and soundness for the strict numeral grammar, retry for every number of rejected lines (induction), '
          'assignment order consumed by the generated stores, decode(encode) of the argument protocol; no-effect-of-rejection proved for clean rejections (_partial) and refuted in general (D13), proved in full for the repaired variant exec_input_fixed; D29 refutation witnesses. '
          'Tied to the code by a differential correspondence with the real _exec_input (all types x 83-field alphabet x histories <= 3, malformed stacks) and with compiled INPUT statements at 6 configurations judged against the Coq specification.'),
    design_ref='DESIGN.md 5/C18',
    note=('Trusted: Coq kernel, ExtrOcamlBasic, OCaml driver, Python harness (event normalisation, signature classification). Modelled, not verified: _exec_input, gen_input, parse_input; stores, arrays/records and the grammar only through the compiled-program correspondence. '
          'Specification choices: trimming = str.strip white space; plain decimal numerals only.'),
    technique='Rocq proof over hand-written Gallina model + differential correspondence against the implementation'),
 'C19': dict(
    category='proof',
    text=('21 closed Rocq theorems on the model of PrintUsingFormatter and the USING hand-over of _exec_print. Unguarded, for every field and value: rendered length >= width and = width unless the text starts with "%", "%" leads exactly when the length exceeds the width; '
          'literal/escape copying; & and ! fields; left-to-right consumption; newline rule. Under decidable guards: equality with an independent specification (round half-even on the exact binary value, proved to be a nearest rounding; right alignment; sign position; thousands separators) and no host exception. '
          'The unguarded statements are refuted by 6 witness theorems (D16/D24). Tied to the code by the real PrintUsingFormatter on all format strings up to a length over {#,.,comma,+,-,&,!,_,a,blank} x value lists, extreme values, the real _exec_print hand-over and compiled PRINT USING statements at 6 configurations; '
          '16 sampled extracted results are re-evaluated by vm_compute inside Coq on every run.'),
    design_ref='DESIGN.md 5/C19',
    note=('Trusted: Coq kernel; ExtrOcamlBasic extraction (sample re-checked by vm_compute every run); OCaml driver and Python harness. Modelled, not verified: qvm/using.py and the USING branch of _exec_print. Python format/repr are re-implemented in Base/Dec.v and compared every run. Field boundaries come from the scanner.'),
    technique='Rocq proof over a hand-written Gallina model + differential correspondence against the implementation'),
 'C04': dict(
    category='proof',
    text=('33 closed Rocq theorems over Models/Layout.v (a faithful model of memlayout.py, the array header and the element index of _exec_arridx), for every record environment, declaration list, rank and bounds: every well-formed access path lies inside the frame or array segment; '
          'distinct paths denote distinct cells (mixed-radix injectivity of row-major indexing); fields and elements are disjoint; STATIC names are distinct per (routine, name). Over the machine model Models/Cpu.v: store/storeidx/storeref change exactly one cell of one segment, reads change nothing, '
          'an unset cell reads 0 or "", frame allocates a fresh segment whose locals are unset, by-value arguments become temporaries of the new frame and reference arguments stay the caller (segment, cell); arridx returns exactly elem_index. D14 and D15 are stated as _partial/_refuted theorems. '
          'Tied to the code by the real memlayout functions on all declaration sequences of length <= 3/4 over 12 shapes, the real tick on constructed states for every memory instruction, and sentinel programs (write a distinct value to every location, read all back, by-reference chains, recursion) compiled by the real compiler at the six configurations and judged against an independent reference semantics.'),
    design_ref='DESIGN.md 5/C04',
    note=('Trusted: Coq kernel, ExtrOcamlBasic, OCaml driver, Python harness and its reference interpreter. Modelled, not verified: memlayout.py and the read*/readidx*/store*/deref*/refidx/arridx/frame instructions of cpu.py. '
          'The code generator (gen_lvalue_ref, gen_code_for_args, gen_array_pass) is covered only by the sentinel correspondence. Open findings: D14, D15, D45-array-argument-reference.'),
    technique='Rocq proof over hand-written Gallina model + differential correspondence (T-fn, T-isa, T-run sentinel programs)'),
 'C08': dict(
    category='proof',
    text=('Rocq theorems over the executable model of QvmCode.optimize and of the assembler offset computation (Models/Peephole.v): the assembler offsets, label addresses and code length ignore debug markers; optimize never moves or removes a marker and never rewrites across one; '
          'with and without markers the level-2 code is reachable from the same unoptimised list by the seven (machine-level sound) rewrites, hence rewrite-equivalent. Per explored program, on the REAL artefacts: erase_marks(code with -g) = code without -g at levels 0/1, sections 1-3 byte-identical at every level, '
          'acceptance identical, device events and outcome identical on the real machine (RESUME programs are the permitted exception), and the extracted model reproduces both real level-2 outputs from the real marked list.'),
    design_ref='DESIGN.md 5/C08',
    note=('Trusted: Coq kernel, extraction, OCaml driver, Python harness. The code generator is not modelled: that markers are the only difference between -g and no -g generation is checked per program (translation validation), not proved. Serialisation of the debug section is outside the model.'),
    technique='Rocq proof over a hand-written model of the peephole pass/assembler offsets + per-program validation and differential correspondence'),
 'C14': dict(
    category='proof',
    text=('Rocq theorems about a lossless lexer for QBASIC text as qbee cuts it (Models/Lex.v): text and valid token layouts are in bijection; the canonical respelling canon is invariant under letter case of words, blanks and tabs between tokens (exact side condition), comment and empty-line changes and alternative relational spellings, '
          'under all finite compositions of these in both directions (induction over compositions), and canon is idempotent. Tied to the code on every run: compile(t) and compile(canon t) have the same verdict and identical sections 1-4 at -O0 and -O2 over corpus + generated programs; seeded compositions of token-level and structural respellings '
          '(including the unproved ones: colon join/split, LET, CALL forms, NEXT v, label renaming, renumbering, trailing colon, case in numbers) keep sections or device traces.'),
    design_ref='DESIGN.md 5/C14',
    note=('Trusted: Coq kernel, ExtrOcamlBasic, driver and Python harness. The pyparsing grammar is not modelled; that it factors through the tokens is tested, not proved. DATA payload and TAB handling carry known findings.'),
    technique='Rocq proof over hand-written Gallina model + differential correspondence against the implementation'),
 'C13': dict(
    category='proof',
    text=('19 closed Rocq theorems over the executable model of the debugger evaluator (Models/DbgEval.v) on the machine model: purity (the evaluator is a function of heap and current frame and returns no state), unknown names, scalar locals/SHARED/parameters return the cell IRead (or read@ + deref) pushes for every declaration list, '
          'array elements of every rank agree with IArridx + IDeref (nested-list indexing = row-major cell), unset elements read 0/"", record fields along any path read the cell at base + dotted_index, out-of-range and wrong-rank subscripts are evaluation errors, debugger arithmetic = the folder on the values read, INTEGER operators equal the run-time cell (guarded as fold_sound_int); '
          'vm_compute refutations for D01, D43, STATIC, types-resolved-in-main, evaluation after finish, paths on scalars. Tied to the code by T-dbg: the real qvm.dbg.Cmd print inside generated programs x {-O0,-O2} that PRINT every probe themselves (reference = the typed cell handed to PRINT), full machine-state equality around every print, '
          'and the extracted model on the same debug tables, memory and parsed tree.'),
    design_ref='DESIGN.md 5/C13',
    note=('Trusted: Coq kernel (incl. vm_compute), ExtrOcamlBasic, ocaml/driver.ml, Python harness (generator, typed-cell capture, state_out). Modelled, not verified: qvm/eval.py, find_routine, the evaluation half of do_print, Lvalue.type; arithmetic via Models/Fold.v, layout via Models/Layout.v. '
          'Not modelled: the expression parser (the model receives the real tree), float text, QStruct/QArray dumps, function calls. Scalar/element/field theorems carry the premise "the type the debugger assigns is the declared one", false in general inside procedures (D49). Partial exactly where C02 is partial.'),
    technique='Rocq proof over a hand-written Gallina model + differential correspondence judged against the program own values'),
 'C16': dict(
    category='proof',
    text=('19 closed Rocq theorems. Integers, for EVERY z (unbounded): the text is blank or "-" followed by the plain decimal digits of |z| without leading zeros; Python int() of that text (READ, INPUT) gives z back; the READ/INPUT device models return the cell z in range; VAL of the text is exactly z in the LONG range (and a host SyntaxError beyond: refuted/finding D61). '
          'Floats, conditional form: the shortest-digit search only returns a candidate that it converted back and found equal (or the exact expansion), at most 17 digits unless the fall-back is taken; PRINT and STR$ show the same text; a DOUBLE and its negation show the same digits; _refuted witnesses for SINGLE negation (D22), SINGLE exponent forms with 17 digits (D22), the D marker (D23), VAL beyond LONG, and half-unit at powers of two. '
          'Tied to the code: all 65 536 INTEGER values every run, LONG/SINGLE/DOUBLE families (powers of 2 and 10 with neighbours, limits, subnormals, rounding boundaries, random bit patterns) through the real format_number/_exec_ntos/_exec_print and the real READ/INPUT/VAL paths, judged against the property with exact rational arithmetic; compiled programs at 6 configurations.'),
    design_ref='DESIGN.md 5/C16',
    note=('Trusted: Coq kernel, ExtrOcamlBasic, OCaml driver, Python harness incl. the Fraction-based oracle. Not proved: the 17-digit existence theorem and correctness of dec_to_fl (checked on every explored value). The numeric_literal grammar is modelled by hand (ASCII). The extracted float model is evaluated on a CPU-budgeted subset of the floats while every value is judged on the real code.'),
    technique='Rocq proof over hand-written Gallina model + differential correspondence + exact-rational property oracle'),
 'C02': dict(
    category='proof',
    text=('Two Rocq developments. (1) Constant folder (Models/Fold.v, 22 theorems): faithful model of Expr.fold/BinaryOp.eval/UnaryOp.eval, of the code the generators emit for a constant expression and of its run-time evaluation on the machine model; folding is sound as-is for all INTEGER pairs (16 operators, every value pair, by proof), LONG logical/MOD/comparisons and DOUBLE + - * /; '
          'refuted with kernel-checked witnesses for 12 defect classes (D01-D04, D32-D34 and new ones); the folder after fixes/C02-fold.diff is proved sound for EVERY constant expression with no guard (induction over expressions with instruction-level lemmas over Cpu.exec); static array bounds agree. '
          '(2) Peephole pass (Models/Peephole.v, 22 theorems): every output of optimize is a finite sequence of the seven rewrites on windows without labels or markers, markers are preserved, the loop terminates; each rewrite is sound on every machine state or refuted by witness where the compile-time evaluator is wrong. '
          'Ties on every run: real fold/.type/static bounds and real gen_*+assembler+cpu vs the model on every operator x type pair x boundary value; the real optimize() vs the model on all instruction windows up to a length over a 76-symbol alphabet; model-free oracles: the real cpu on an expression vs on what fold() returned, every changed window executed on the real machine before/after, '
          'and whole programs (corpus + generated) compiled at levels 0-3 whose acceptance, device events and outcome must equal level 0.'),
    design_ref='DESIGN.md 5/C02',
    note=('Trusted: Coq kernel, ExtrOcamlBasic, OCaml driver, Python harnesses. Modelled, not verified: qbee/expr.py fold/eval/type, gen_binary_op & co., QvmCode.optimize. Float ** with non-integer exponents and float // with huge quotients are not modelled (excluded, counted). '
          'No const_subst theorem (CONST is covered by the level comparison only). The property is false on the unchanged tree in the listed defect classes (KNOWN_FINDINGS).'),
    technique='Rocq proofs over Gallina models of the folder and the peephole pass + differential correspondence + model-free level/run-time oracles'),
 'C06': dict(
    category='proof',
    text=('Rocq theorems (9) about an executable model (Models/Tokens.v) of the two arity-assuming grammar parse actions (parse_left_assoc_binary_expr / parse_right_assoc_binary_expr: total exactly on the well-shaped token lists, nesting and in-order results, complete characterisation of the shapes exponent_expr hands over, the `2 ^ -1` crash refuted by witness) '
          'and of the diagnostic position arithmetic (domain of convert_index_to_line_col and display_with_context), tied to the real functions by exhaustive T-fn suites and a spy on the real grammar. EVERYTHING ELSE of "any text yields a module or a located diagnostic; bytes()/str() succeed" is decided by SEARCH only: a deterministic malformed-input stream '
          '(170 statement forms x operand faults, token mutations, block keyword skeletons/pairs/triples, expression families, grammar-directed programs, corpus mutations) at 3 levels x 2 debug settings with per-run CPU limits and the direct oracle "only a located qbee SyntaxError/CompileError may escape".'),
    design_ref='DESIGN.md 5/C06',
    note=('The pyparsing stage on arbitrary strings, Pass1-3, folding, the code generator, optimize and the assembler are NOT modelled in Gallina (DESIGN 5/C06 says why): for them this check is exploration, not proof. The property is false on the unchanged tree: 31 known findings with witnesses record where. '
          'Trusted: Coq kernel, extraction, OCaml driver, Python harness (generators, exception-site classification, delta-debugging shrinker).'),
    technique='small Rocq model + differential T-fn for the parse actions and position arithmetic; seeded deterministic malformed-input search with exception-site signatures for the rest'),
 'C01': dict(
    category='proof',
    text=('Rocq development: coq/Src/Sem.v is an executable SPECIFICATION of the QBASIC core language (typed values, implicit conversions, all 18 binary operators, builtins, assignment, PRINT, IF, WHILE, DO/LOOP, FOR/STEP, SELECT CASE, EXIT, GOTO, GOSUB/RETURN, procedures with by-reference/by-value arguments and recursion, arrays, records, CONST/SHARED/STATIC/DEFtype, INPUT/READ/RND, error classes with the failing line), '
          'with the proof that its pure evaluator equals it. Theorems about the code-generator model for pure scalar expressions (Models/ExprCodegen.v) against that specification: for the INTEGER/LONG expression fragment (literals, local variables, unary ops, + - *, six comparisons, AND OR XOR EQV IMP, implicit INTEGER->LONG) the generated code pushes exactly the reference value with the static type, or traps with the matching code; '
          'the heap changes only by default materialisation and the rest of the state is untouched; stack discipline for every pure expression; result-type lemma for all operators; `\`, MOD and `^` refuted by witness (D06, D32). Everything else of the property is decided by running generated programs (operator x type x boundary-value matrix with operands in variables, a fixed seeded program family, hand-built probes) '
          'through the REAL compiler at the six configurations and the REAL machine against the EXTRACTED reference interpreter (events, outcome, failing line), with per-defect attribution: a disagreement is a known finding only if the reference with exactly that qbee quirk switched on reproduces the run.'),
    design_ref='DESIGN.md 5/C01',
    note=('Trusted: Rocq kernel, extraction, and the reference semantics as the meaning of QBASIC; number text from NumFmt, PRINT layout from Print. Unverified glue: generator, pretty printer, harness. NOT proved: statements, floats, strings, division-like operators, -O1/-O2 and debug equivalences (C02/C08): those are exploration against the extracted specification. '
          'Not explored: graphics/sound/memory/file statements, ON ERROR (C10), dynamic arrays, array passing, record parameters, corpus programs.'),
    technique='Rocq proof over a hand-written code-generator and machine model + differential testing of the real pipeline against an extracted executable reference semantics'),
 'C05': dict(
    category='proof',
    text=('30 closed Rocq theorems. (a) Block assembler (parse_string block stack, Block.create, create_block methods; Models/Blocks.v): it returns a tree iff the statement stream is generated by the block grammar, the parse is unique, the tree flattens back to the stream; every diagnostic is on the line of a statement of the program; each bracket error class '
          '(terminator without opener, wrong terminator, unclosed block at the innermost opener line, NEXT with the wrong variable) is characterised in both directions; the whole front against the strict grammar holds under an explicit guard with five refutation witnesses (second ELSE, stray CASE, CASE ELSE forms: D28). '
          '(b) Translator tie: the operator typing decision (BinaryOp.type/UnaryOp.type on all operators x type pairs) and is_coercible_to are REGENERATED from the imported code on every run (coq/Gen/TypeTable.v) and proved to satisfy the declarative typing rule entry by entry (vm_compute over 882 entries). '
          'All other static-error rules are decided by FAULT ENUMERATION: 64 valid programs x every applicable site x 62 fault kinds against Compiler.compile at the six configurations (never accepted, never an internal exception, expected category, position on the injected line), valid programs with an unrelated statement still accepted, the repository compile-error tests.'),
    design_ref='DESIGN.md 5/C05',
    note=('Trusted: Coq kernel, ExtrOcamlBasic, OCaml driver, Python harness including the fault catalogue oracle, gen_c05_tables.py translator. The pyparsing grammar is not modelled; Pass1-3 checks other than the block checks and literal parsing have no theorem (fault enumeration only). '
          'The thorough tier was not soaked to completion during the build.'),
    technique='Rocq proof over a hand-written Gallina model and a generated finite table + fault enumeration / differential correspondence against the real compiler'),
 'C03': dict(
    category='proof',
    text=('Rocq theorems (Proofs/VerifierProofs.v) about the machine model: for EVERY stack instruction (arithmetic, logic, comparison, conversion, constants, string functions, stack shuffles, jz/jmp: about 60 opcodes, the domain of the abstract typing function eff) and EVERY machine state whose operand-stack types satisfy the instruction typing rule, execution never raises TYPE_MISMATCH / STACK_EMPTY / any host exception, '
          'leaves memory and devices untouched and produces exactly the abstract result types (eff_sound); lifted by induction to straight-line blocks of any length (block_safe); the only traps possible are value errors. Control flow (Models/VerifierCfg.v, Proofs/VerifierCtl.v, VerifierCfgProofs.v): stack instructions move the program counter only through jmp/jz and leave halt/interrupt flags alone (eff_ctl); a certificate of stack types per code address that passes the local executable check check_cert against the DECODED code bytes is an invariant of every execution inside the certified region, through jumps and loops, for any number of instructions (cfg_step, cfg_run, cfg_no_type_confusion: tick returns exactly the state exec produced, memory/frame/trace untouched, never a type trap or host exception). The whole-program part is decided per module and per run by the EXTRACTED monitor (Models/Monitor.v) replaying the real run (tie: complete final state equality with the real machine): '
          'static linear decode and jump targets on instruction boundaries, and at every tick the premise of eff_sound, no forbidden trap, every cell holding a value of its declared type (layout certificate from the compiler symbol tables), pc on a boundary, operand-stack depth at statement starts = entry depth + active GOSUBs. '
          'Programs: corpus, the operator x type-pair matrix with operands in variables, control/memory programs, argument/parameter/assignment type pairs (run only if the compiler accepts them), at the configurations.'),
    design_ref='DESIGN.md 5/C03 and 11.1',
    note=('Trusted: Coq kernel, extraction, OCaml driver, Python harness incl. build_cert (layout certificate via qvm.memlayout). NOT proved: a whole-program verifier soundness theorem (the certificate theorem covers regions of stack instructions with their jumps and joins; memory typing, frames, calls and reference opcodes are outside it and no certificate is computed for compiled modules yet): that part is a run-time monitor, i.e. exploration of the paths actually run. Open findings: D08, D14, D21, D26.'),
    technique='Rocq proof of instruction/block type safety over the machine model + extracted run-time monitor (translation validation of each run)'),
 'C10': dict(
    category='proof',
    text=('12 closed Rocq theorems about the machine model (tick, do_trap = QvmCpu._trap, exec_errres = RESUME/RESUME NEXT, find_stmt = DebugInfo.find_stmt): armed and not already handling, ANY trap transfers control to the handler, marks it active and records the code; ERR pushes that code; the address of the failing instruction is recorded for every error source incl. division by zero; '
          'the statement lookup returns an innermost record containing the address and finds one iff one exists (induction over the table); RESUME sets pc to the start and RESUME NEXT to the end of that statement, both leave the handler and change nothing else; ON ERROR RESUME NEXT skips the failing statement without entering a handler; ON ERROR GOTO 0 disarms; an error inside the handler halts; '
          '"as if the failed statement had not been started" is REFUTED for the operand stack (no unwinding: D21). The model describes the tree after the fix commits for D19/D20/D45h. Tied to the code by a deterministic program family (6 statement shapes x 4 error kinds x {RESUME NEXT, RESUME after repair, ON ERROR RESUME NEXT, GOTO 0} x {module level, inside GOSUB}, a second failing statement, errors in SUBs, out of DATA) x levels with debug info, '
          'judged against the device trace expected by construction and replayed by the extracted monitor (final-state tie + stack depth at statement starts).'),
    design_ref='DESIGN.md 5/C10',
    note=('Trusted: Coq kernel, extraction, OCaml driver, Python harness (generator and its expected traces). Modelled, not verified: qvm/cpu.py tick/_trap/_exec_err*, find_stmt; code generation of ON ERROR/RESUME and the debug map are exercised through the real compiler only. Open finding: D21 (no unwinding) - the depth>0 classes.'),
    technique='Rocq proof over the machine model + differential correspondence with expected-by-construction traces and the extracted monitor'),
 'C20': dict(
    category='other',
    text=('Functional model + perturbed correspondence. Rocq theorems (closed): in the machine model the result of a run (state, event list, tick count) is independent of the tick limit once the machine stops by itself, and two machines under any tick schedule behave as alone; in the model of the compiler order-sensitive containers the DEFtype letter set may be enumerated in any permutation, the label set is observed through membership only, DATA parts and the literal table are first-occurrence functions of the source order. '
          'The property itself is established by exploration: every target (repository programs + generated programs stressing DEFtype ranges, labels, literals, DATA, SUB/FUNCTION, SHARED, CONST, TYPE; six configurations) is observed in a pristine interpreter with hash seed 0 and again under other hash seeds, after histories of other compilations in the same process (incl. failing programs and the same program at another level), in another cwd, later, in a fresh interpreter, with two Compiler instances alive, in a thread, with machines run repeatedly and interleaved tick by tick; '
          'sections 1-4, listing, debug-map offsets, event trace, outcome and tick count must equal the single reference, and the reference run must equal the extracted machine model.'),
    design_ref='DESIGN.md 5/C20',
    note=('Trusted: Coq kernel, ExtrOcamlBasic, OCaml driver, Python harness. That a Gallina function has no hidden inputs is meta-theory, so the theorem content is thin; coverage of hash seeds, histories and schedules is finite. The quick tier is a VERIF_SEED-rotating sample of the thorough one (every target under one of four other hash seeds, a sixth to a half of the targets per perturbation, one ordered pair per same-name variant family, a third of the dead-code programs under two hash seeds: about 1500 observations, 5 minutes); the thorough tier runs every target under every perturbation, all ordered pairs and all dead-code programs under eight hash seeds. Out of scope: the debug section (gzip+pickle) as bytes, OS signal delivery, real-time devices (scripted).'),
    technique='Rocq proofs over small Gallina models + differential testing of the implementation against itself under perturbed environments and against the extracted machine model'),
}

ALL = ['C%02d' % i for i in range(1, 21)]
PENDING = 'check under construction in this round; not claimed yet'


def main():
    checks = []
    for pid in ALL:
        if pid not in CHECKS:
            continue
        c = CHECKS[pid]
        checks.append({
            'property_id': pid,
            'quick_cmd': f'./check {pid} --tier quick',
            'thorough_cmd': f'./check {pid} --tier thorough',
            'evidence_file': f'/verif/evidence/{pid}.json',
            'replay_cmd_template': f'./check {pid} --replay {{path}}',
            'engine': 'rocq-model',
            'level_claimed': {'category': c['category'], 'text': c['text'], 'design_ref': c['design_ref']},
            'level_note': c['note'],
            'technique': c['technique'],
        })
    m = {
        'version': 1,
        'setup_cmd': './setup.sh',
        'hooks': {
            'guard': 'QBEE_VERIF',
            'enable': 'none needed: checks observe the repository through its public Python API (Compiler, QModule, QvmMachine with a peripherals object); QBEE_VERIF=1 is set for the implementation worker but no source hook exists',
            'baseline_off_cmd': 'cd /repo && /venv/bin/python -m pytest -ra -q -p no:cacheprovider --timeout=900 --continue-on-collection-errors',
            'source_commits': [],
            'add_only': True,
        },
        'engines': [{
            'name': 'rocq-model',
            'path': '/verif/coq',
            'serves_properties': [c['property_id'] for c in checks],
            'kind_free_text': 'Coq 8.16.1 development (models, proofs, property theorems) + OCaml extraction + Python correspondence harness',
        }],
        'checks': checks,
        'not_applicable': [{'property_id': p, 'reason': NA.get(p, PENDING)} for p in ALL if p not in CHECKS],
        'notes': 'See DESIGN.md. Known genuine defects of the unchanged tree are listed in KNOWN_FINDINGS.json.',
    }
    json.dump(m, open(os.path.join(HERE, 'MANIFEST.json'), 'w'), indent=1)


NA = {}

if __name__ == '__main__':
    main()
