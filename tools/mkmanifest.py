"""Regenerates MANIFEST.json from the per-property table below."""
import json, os, sys
HERE = os.path.dirname(os.path.dirname(os.path.abspath(__file__)))

CHECKS = {
 'C17': dict(
    category='proof',
    text=('Rocq theorems about the executable model of PRINT (Models/Print.v): number text + blank, strings verbatim, '
          'semicolon adds nothing, comma pads 1..14 blanks to the next multiple of 14, newline rule, left-to-right compositionality, '
          'and decode(encode) = identity for the argument protocol for all cell values; the model is tied to the code by a '
          'correspondence check running the real TerminalDevice._exec_print (all item sequences up to a length over a 12-symbol '
          'alphabet) and compiled PRINT statements at the six configurations against the extracted model.'),
    design_ref='DESIGN.md 5/C17',
    note=('Trusted: Coq kernel; extraction (ExtrOcamlBasic); OCaml driver and Python harness (unverified glue). '
          'Modelled, not verified: _exec_print, gen_print_stmt, format_number. The PRINT grammar is covered by the correspondence only.'),
    technique='Rocq proof over hand-written Gallina model + differential correspondence against the implementation'),
 'C07': dict(
    category='proof',
    text=('Rocq theorems about an executable model of the whole QVM (Models/Machine.v, Cpu.v: every _exec_*, tick, _trap, all devices; every host exception of the Python is an explicit Crash outcome): '
          'an interrupt raised at ANY state with no handler armed halts with KEYBOARD_INTERRUPT leaving pc, stack, memory and device trace untouched (for every module and state, hence every instruction boundary); '
          'a trap with no handler halts with its code; cause->category lemmas (division by zero, overflow, illegal argument, out of DATA); the full statement "no Crash is reachable" is refuted by witness on the faithful model (known findings). '
          'The model is tied to qvm/cpu.py by T-isa (one tick of every opcode on constructed states, all operand-type tuples incl. ill-typed, boundary values, handler/interrupt matrix: complete final state compared) and T-run '
          '(corpus + error-provoking programs at six configurations, interrupt injected at every instruction boundary), with the direct oracle "no host exception escapes tick(), trap code = cause".'),
    design_ref='DESIGN.md 5/C07',
    note=('Trusted: Coq kernel, extraction (ExtrOcamlBasic), OCaml driver, Python harness incl. state construction on the real QvmCpu. Modelled, not verified: qvm/cpu.py, cell.py, machine.py. '
          'Not modelled: OS signal delivery (the flag is set directly), float ** with non-integer/large exponents (excluded, counted). The unguarded totality statement is false on the unchanged tree: see KNOWN_FINDINGS.'),
    technique='Rocq proof over a hand-written executable machine model + differential correspondence (single-step and whole-run) against the implementation'),
 'C09': dict(
    category='proof',
    text=('Rocq theorems over executable models of the assembler, section writer/reader, machine decoder, disassembler and listing: decode(encode) = id for every instruction '
          '(floats on bit patterns), for code sections and for the module sections under explicit field widths; disassembly of assembled items = listing after label/variable/device/literal '
          'resolution; soundness of the target/frame checker that is run (extracted) on every compiled module; the instruction table is REGENERATED from qvm/instrs.py on every run '
          '(tools/gen_tables.py -> coq/Gen/Instrs.v) with unique-opcode, unique-mnemonic and decoder-agreement obligations by vm_compute; all tied to the real bytes(code), QModule.parse, '
          'disassemble(), str(code), assembled and get_instruction_at on corpus + feature programs x 6 configurations and synthetic modules at the width limits.'),
    design_ref='DESIGN.md 5/C09',
    note=('Trusted: Coq kernel (coqchk: no axioms), extraction, gen_tables.py translator, OCaml driver, Python harness. Modelled, not verified: QvmCode.__bytes__/assembled/__str__ (code part), qvm/module.py, get_instruction_at. '
          'Variable indices are taken from the real memlayout as a certificate; frame exactness is harness-checked per module; the debug section is outside the model; guarded by D30 field widths.'),
    technique='Rocq proof over generated + hand-written Gallina models; finite table obligations by vm_compute; translation validation of every module; differential correspondence'),
}

ALL = ['C%02d' % i for i in range(1, 21)]
PENDING = 'check under construction in this round; not claimed yet'


def main():
    checks = []
    for pid in ALL:
        if pid not in CHECKS:
            continue
        c = CHECKS[pid]
        checks.append({
            'property_id': pid,
            'quick_cmd': f'./check {pid} --tier quick',
            'thorough_cmd': f'./check {pid} --tier thorough',
            'evidence_file': f'/verif/evidence/{pid}.json',
            'replay_cmd_template': f'./check {pid} --replay {{path}}',
            'engine': 'rocq-model',
            'level_claimed': {'category': c['category'], 'text': c['text'], 'design_ref': c['design_ref']},
            'level_note': c['note'],
            'technique': c['technique'],
        })
    m = {
        'version': 1,
        'setup_cmd': './setup.sh',
        'hooks': {
            'guard': 'QBEE_VERIF',
            'enable': 'none needed: checks observe the repository through its public Python API (Compiler, QModule, QvmMachine with a peripherals object); QBEE_VERIF=1 is set for the implementation worker but no source hook exists',
            'baseline_off_cmd': 'cd /repo && /venv/bin/python -m pytest -ra -q -p no:cacheprovider --timeout=900 --continue-on-collection-errors',
            'source_commits': [],
            'add_only': True,
        },
        'engines': [{
            'name': 'rocq-model',
            'path': '/verif/coq',
            'serves_properties': [c['property_id'] for c in checks],
            'kind_free_text': 'Coq 8.16.1 development (models, proofs, property theorems) + OCaml extraction + Python correspondence harness',
        }],
        'checks': checks,
        'not_applicable': [{'property_id': p, 'reason': NA.get(p, PENDING)} for p in ALL if p not in CHECKS],
        'notes': 'See DESIGN.md. Known genuine defects of the unchanged tree are listed in KNOWN_FINDINGS.json.',
    }
    json.dump(m, open(os.path.join(HERE, 'MANIFEST.json'), 'w'), indent=1)


NA = {}

if __name__ == '__main__':
    main()
