"""Hand-built probe programs for C01: one per known semantic difference between
qbee and the reference semantics (each must be reproduced by the check before its
finding is announced) and a few feature probes."""
from vlib.proggen import *

TY = {'%': I, '&': L, '!': S, '#': D, '$': STR}


class B:
    def __init__(self, name, expect_probe=False):
        self.p = Program()
        self.name = name
        self.expect_probe = expect_probe
        self.vars = {}
        self.script = {'lines': [], 'rnd': [], 'timer': []}

    def v(self, name):
        if name not in self.vars:
            self.vars[name] = self.p.new_var(name, TY.get(name[-1], S))
        return self.vars[name]

    def V(self, name):
        return var(self.v(name))

    def let(self, name, e):
        return s_assign([1, self.v(name)], e)

    def done(self, main):
        self.p.main = main
        src = self.p.layout()
        return {'src': src, 'sx': self.p.sx(), 'script': self.script, 'name': self.name,
                'expect_probe': self.expect_probe, 'stats': {}, 'hazards': []}


def P(*items):
    out = []
    for it in items:
        out.append(it if it in (1, 2) else pe(it))
    return s_print(out)


def probes():
    out = []
    # ---- D06
    b = B('intdiv-mod-negative')
    out.append(b.done([b.let('a%', int_lit(-7)), b.let('b%', int_lit(2)),
                       P(bin_(5, b.V('a%'), b.V('b%')), 1, bin_(6, b.V('a%'), b.V('b%')))]))
    # ---- D07
    b = B('right$-zero')
    out.append(b.done([b.let('s$', lit(STR, 'abc')), b.let('n%', int_lit(0)),
                       P(builtin(9, b.V('s$'), b.V('n%')), 1, lit(STR, '|'))]))
    # ---- D08
    b = B('do-until-nonboolean')
    out.append(b.done([b.let('x%', int_lit(2)), b.let('n%', int_lit(0)),
                       s_do([2, b.V('x%')], [b.let('n%', bin_(1, b.V('n%'), int_lit(1))),
                                             s_ifline(bin_(11, b.V('n%'), int_lit(3)), [s_exit(2)], [])], 0),
                       P(b.V('n%'))]))
    b = B('loop-while-nonboolean')
    out.append(b.done([b.let('x%', int_lit(2)), b.let('n%', int_lit(0)),
                       s_do(0, [b.let('n%', bin_(1, b.V('n%'), int_lit(1))),
                                s_ifline(bin_(11, b.V('n%'), int_lit(3)), [s_exit(2)], [])],
                            [1, b.V('x%')]),
                       P(b.V('n%'))]))
    b = B('loop-while-long-condition')
    out.append(b.done([b.let('x&', int_lit(1)),
                       s_do(0, [P(lit(STR, 'b')), b.let('x&', int_lit(0))], [1, b.V('x&')]),
                       P(lit(STR, 'done'))]))
    # ---- D10
    b = B('for-range-wider-than-type')
    out.append(b.done([s_for(b.v('i%'), int_lit(-32768), int_lit(32767), int_lit(32767),
                             [P(b.V('i%'))]), P(lit(STR, 'done'))]))
    b = B('for-down-to-minimum')
    out.append(b.done([s_for(b.v('i%'), int_lit(-32767), int_lit(-32768), int_lit(-1),
                             [P(b.V('i%')), s_ifline(bin_(8, b.V('i%'), int_lit(-32768)), [s_exit(1)], [])]),
                       P(lit(STR, 'done'))]))
    # ---- D31
    b = B('mid$-start-beyond-end')
    out.append(b.done([b.let('s$', lit(STR, 'abc')), b.let('n%', int_lit(5)),
                       P(builtin(10, b.V('s$'), b.V('n%')), 1, lit(STR, '|'))]))
    # ---- D32
    b = B('pow-negative-integer-exponent')
    out.append(b.done([b.let('x%', int_lit(2)), b.let('y%', int_lit(-1)),
                       P(bin_(7, b.V('x%'), b.V('y%')))]))
    b = B('pow-integer-result-beyond-integer')
    out.append(b.done([b.let('x%', int_lit(2)), b.let('y%', int_lit(15)),
                       P(bin_(7, b.V('x%'), b.V('y%')))]))
    # ---- conditions
    b = B('if-fraction-condition')
    out.append(b.done([b.let('x!', lit(S, 0.25)),
                       s_ifline(b.V('x!'), [P(lit(STR, 'yes'))], [P(lit(STR, 'no'))])]))
    b = B('if-long-condition')
    out.append(b.done([b.let('x&', int_lit(100000)),
                       s_ifline(b.V('x&'), [P(lit(STR, 'yes'))], [P(lit(STR, 'no'))])]))
    b = B('while-fraction-condition')
    out.append(b.done([b.let('x!', lit(S, 0.25)), b.let('n%', int_lit(0)),
                       s_while(b.V('x!'), [b.let('n%', bin_(1, b.V('n%'), int_lit(1))),
                                           b.let('x!', int_lit(0))]),
                       P(b.V('n%'))]))
    # ---- CONST
    b = B('const-type-suffix')
    out.append(b.done([s_const(b.v('c%'), lit(S, 1.5)), b.let('x%', int_lit(3)),
                       P(b.V('c%'), 1, bin_(3, b.V('c%'), b.V('x%')))]))
    # ---- builtin result types
    b = B('int-beyond-long')
    out.append(b.done([b.let('a#', lit(D, 1e10)), P(builtin(2, b.V('a#')))]))
    b = B('len-times-integer')
    out.append(b.done([b.let('s$', lit(STR, 'abc')), b.let('k%', int_lit(20000)),
                       P(bin_(3, builtin(5, b.V('s$')), b.V('k%')))]))
    # ---- DOUBLE overflow
    b = B('double-overflow')
    out.append(b.done([b.let('a#', lit(D, 1e308)), b.let('a#', bin_(3, b.V('a#'), int_lit(10))),
                       P(lit(STR, 'after'))]))
    b = B('read-fraction-into-integer')
    out.append(b.done([s_data(['2.5', '1E3']), s_read([[1, b.v('a%')]]), P(b.V('a%')),
                       s_read([[1, b.v('b&')]]), P(b.V('b&'))]))
    # ---- host exceptions in place of run-time errors (C07's D17)
    b = B('pow-negative-base-fraction')
    out.append(b.done([b.let('a#', un(1, lit(D, 8.0))), b.let('b#', lit(D, 0.5)),
                       P(bin_(7, b.V('a#'), b.V('b#')))]))
    # ---- differences no switch of the reference models
    b = B('pow-associativity', expect_probe=True)
    b.p.bracket_pow = False
    b.p.minimal = True
    out.append(b.done([b.let('a!', lit(S, 2.0)), b.let('b!', lit(S, 3.0)), b.let('c!', lit(S, 2.0)),
                       P(bin_(7, bin_(7, b.V('a!'), b.V('b!')), b.V('c!')))]))
    b = B('intdiv-float-operand-then-conversion', expect_probe=True)
    out.append(b.done([b.let('a!', lit(S, 7.0)), b.let('b!', lit(S, 2.0)),
                       b.let('z%', bin_(5, b.V('a!'), b.V('b!'))), P(b.V('z%'))]))
    b = B('unset-record-field-read', expect_probe=True)
    b.p.types.append(('rt', [('fa', I), ('fb', I)]))
    r = b.p.new_var('r', I)
    b.p.vrec[r] = 0
    out.append(b.done([b.let('x$', lit(STR, 'first')), b.let('y$', lit(STR, 'hello')),
                       s_dim(False, [[r, [], [1, 0]]]),
                       P(fld(r, 1)), P(b.V('y$'))]))
    # ---- feature probes (expected to agree)
    # assignments between fields of one record (also r.b = r.b) at every level
    b = B('record-field-to-field')
    b.p.types.append(('ft', [('fa', I), ('fb', I), ('fc', I), ('fd', L)]))
    r = b.p.new_var('q', I)
    b.p.vrec[r] = len(b.p.types) - 1
    out.append(b.done([s_dim(False, [[r, [], [1, len(b.p.types) - 1]]]),
                       s_assign([3, r, 0], int_lit(1)), s_assign([3, r, 1], int_lit(5)),
                       s_assign([3, r, 2], int_lit(7)), s_assign([3, r, 3], num(L, 70000)),
                       s_assign([3, r, 1], fld(r, 2)), P(fld(r, 0), 1, fld(r, 1), 1, fld(r, 2)),
                       s_assign([3, r, 2], fld(r, 0)), s_assign([3, r, 0], fld(r, 0)),
                       P(fld(r, 0), 1, fld(r, 1), 1, fld(r, 2), 1, fld(r, 3))]))
    # a rank-3 array: elements differing in each index are distinct cells
    b = B('array-rank3')
    a3 = b.p.new_var('c3%', I)
    body = [s_dim(False, [[a3, [[1, 2], [0, 2], [-1, 1]], [0, I]]])]
    k = 0
    for i in (1, 2):
        for j in (0, 1, 2):
            for l in (-1, 0, 1):
                k += 1
                body.append(s_assign([2, a3, [int_lit(i), int_lit(j), int_lit(l)]], int_lit(100 + k)))
    body.append(P(idx(a3, [int_lit(1), int_lit(0), int_lit(-1)]), 1, idx(a3, [int_lit(2), int_lit(0), int_lit(-1)]), 1,
                  idx(a3, [int_lit(1), int_lit(2), int_lit(1)]), 1, idx(a3, [int_lit(1), int_lit(1), int_lit(0)]), 1,
                  idx(a3, [int_lit(2), int_lit(2), int_lit(1)])))
    out.append(b.done(body))
    b = B('byref-aliasing')
    p = b.p
    n = p.new_var('n%', I)
    p.routines.append('inc')
    p.rtypes.append(I)
    p.rbodies.append([False, [(n, I)], I, [s_assign([1, n], bin_(1, var(n), int_lit(1)))]])
    a = p.new_var('arr%', I)
    out.append(b.done([s_dim(False, [[a, [[0, 3]], [0, I]]]), b.let('x%', int_lit(1)),
                       s_call(0, [b.V('x%')]), P(b.V('x%')),
                       s_call(0, [par(b.V('x%'))]), P(b.V('x%')),
                       b.let('i%', int_lit(2)), s_call(0, [idx(a, [b.V('i%')])]),
                       P(idx(a, [int_lit(2)])), s_call(0, [bin_(1, b.V('x%'), int_lit(0))]),
                       P(b.V('x%'))]))
    b = B('select-case-boundaries')
    i = b.V('i%')
    out.append(b.done([s_for(b.v('i%'), int_lit(-1), int_lit(7), None, [
        s_select(i, [([[2, int_lit(1), int_lit(3)]], [P(lit(STR, 'r'), 1)]),
                     ([[3, 11, int_lit(5)]], [P(lit(STR, 'g'), 1)]),
                     ([[1, int_lit(4)], [1, int_lit(0)]], [P(lit(STR, 'l'), 1)]),
                     ([[3, 12, int_lit(-1)]], [P(lit(STR, 'n'), 1)])],
                 [P(lit(STR, 'e'), 1)])]), P()]))
    b = B('select-case-strings-and-floats')
    out.append(b.done([b.let('s$', lit(STR, 'b')), b.let('x!', lit(S, 2.5)),
                       s_select(b.V('s$'), [([[2, lit(STR, 'a'), lit(STR, 'b')]], [P(lit(STR, 'in'))])],
                                [P(lit(STR, 'out'))]),
                       s_select(b.V('x!'), [([[2, int_lit(1), int_lit(2)]], [P(lit(STR, 'low'))]),
                                            ([[3, 10, int_lit(3)]], [P(lit(STR, 'mid'))])],
                                [P(lit(STR, 'high'))])]))
    b = B('nested-exit-for')
    out.append(b.done([s_for(b.v('i%'), int_lit(1), int_lit(3), None, [
        s_for(b.v('j%'), int_lit(1), int_lit(3), None, [
            s_ifline(bin_(8, b.V('j%'), int_lit(2)), [s_exit(1)], []),
            P(b.V('i%'), 1, b.V('j%'), 1)]),
        P(lit(STR, 'o'), 1)]), P(b.V('i%'), 1, b.V('j%'))]))
    b = B('nested-exit-do')
    out.append(b.done([b.let('i%', int_lit(0)),
                       s_do(0, [b.let('i%', bin_(1, b.V('i%'), int_lit(1))), b.let('j%', int_lit(0)),
                                s_do([1, bin_(10, b.V('j%'), int_lit(5))],
                                     [b.let('j%', bin_(1, b.V('j%'), int_lit(1))),
                                      s_for(b.v('k%'), int_lit(1), int_lit(2), None,
                                            [s_ifline(bin_(8, b.V('j%'), int_lit(2)), [s_exit(2)], []),
                                             P(b.V('k%'), 1)])], 0),
                                P(lit(STR, '|'), 1),
                                s_ifline(bin_(13, b.V('i%'), int_lit(2)), [s_exit(2)], [])], 0),
                       P(b.V('i%'), 1, b.V('j%'))]))
    b = B('for-negative-step')
    out.append(b.done([s_for(b.v('i%'), int_lit(3), int_lit(1), int_lit(-1), [P(b.V('i%'), 1)]),
                       s_for(b.v('x!'), lit(S, 1.0), int_lit(0), un(1, lit(S, 0.25)), [P(b.V('x!'), 1)]),
                       s_for(b.v('n&'), int_lit(1), int_lit(0), None, [P(lit(STR, 'never'))]),
                       P(b.V('i%'), 1, b.V('x!'), 1, b.V('n&'))]))
    b = B('gosub-in-loop')
    b.p.labels = ['sr']
    out.append(b.done([s_for(b.v('i%'), int_lit(1), int_lit(3), None, [s_gosub(0)]),
                       s_end(), s_label(0), P(b.V('i%'), 1), s_return()]))
    b = B('input-redo')
    b.script['lines'] = ['1,2,3', 'x', '7', 'abc, 2.5']
    out.append(b.done([s_input('n', True, False, [[1, b.v('a%')]]),
                       s_input('', True, False, [[1, b.v('b$')], [1, b.v('c!')]]),
                       P(b.V('a%'), 1, b.V('b$'), 1, b.V('c!'))]))
    b = B('read-restore-out-of-data')
    out.append(b.done([s_data(['1', 'x y', '2.5']), s_read([[1, b.v('a%')], [1, b.v('b$')], [1, b.v('c!')]]),
                       P(b.V('a%'), 1, b.V('b$'), 1, b.V('c!')), s_restore(),
                       s_read([[1, b.v('d&')]]), P(b.V('d&')),
                       s_read([[1, b.v('e$')], [1, b.v('f#')], [1, b.v('g%')]])]))
    return out
