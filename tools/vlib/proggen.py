"""Typed QBASIC program generator for C01 (and users of Src/Sem.v).

A program is built as the sx structure that coq/Src/SemEntry.v decodes (python
lists of ints; see the tag tables there) plus a name table.  `layout` walks the
program in source order, assigns a source line to every statement (written
into the structure) and produces the QBASIC text, one statement per line.
Deterministic in (seed, index): every random choice comes from
random.Random(f'{seed}:{index}').
"""
import random
import struct

I, L, S, D, STR = 1, 2, 3, 4, 5
SUFFIX = {I: '%', L: '&', S: '!', D: '#', STR: '$'}
TYNAME = {I: 'INTEGER', L: 'LONG', S: 'SINGLE', D: 'DOUBLE', STR: 'STRING'}

OPS = {1: '+', 2: '-', 3: '*', 4: '/', 5: '\\', 6: 'MOD', 7: '^', 8: '=', 9: '<>', 10: '<',
       11: '>', 12: '<=', 13: '>=', 14: 'AND', 15: 'OR', 16: 'XOR', 17: 'EQV', 18: 'IMP'}
OPNAME = {1: 'ADD', 2: 'SUB', 3: 'MUL', 4: 'DIV', 5: 'IDIV', 6: 'MOD', 7: 'POW', 8: 'EQ',
          9: 'NE', 10: 'LT', 11: 'GT', 12: 'LE', 13: 'GE', 14: 'AND', 15: 'OR', 16: 'XOR',
          17: 'EQV', 18: 'IMP'}
PREC = {7: 14, 3: 12, 4: 12, 5: 11, 6: 10, 1: 9, 2: 9, 8: 8, 9: 8, 10: 8, 11: 8, 12: 8, 13: 8,
        14: 6, 15: 5, 16: 4, 17: 3, 18: 2}
UNPREC = {1: 13, 2: 7, 3: 13}
BUILTIN = {1: 'ABS', 2: 'INT', 3: 'CINT', 4: 'CLNG', 5: 'LEN', 6: 'ASC', 7: 'CHR$', 8: 'LEFT$',
           9: 'RIGHT$', 10: 'MID$', 11: 'UCASE$', 12: 'LCASE$', 13: 'LTRIM$', 14: 'RTRIM$',
           15: 'SPACE$', 16: 'STRING$', 17: 'STR$', 18: 'INSTR', 19: 'RND', 20: 'TIMER'}


def fbits(x):
    return struct.unpack('>Q', struct.pack('>d', float(x)))[0]


def bits2f(b):
    return struct.unpack('>d', struct.pack('>Q', b))[0]


def sgl(x):
    return struct.unpack('>f', struct.pack('>f', x))[0]


# ---------------------------------------------------------------- expressions

def lit(ty, v):
    """non-negative literal of the given type (negative values: neg(lit))"""
    if ty in (I, L):
        return [1, [ty, int(v)]]
    if ty == S:
        return [1, [S, fbits(sgl(v))]]
    if ty == D:
        return [1, [D, fbits(v)]]
    return [1, [STR, v]]


def num(ty, v):
    """literal expression with value v (negative -> unary minus on the literal)"""
    if ty == STR:
        return lit(STR, v)
    if v < 0 or (v == 0 and str(v).startswith('-')):
        return [6, 1, lit(ty, -v)]
    return lit(ty, v)


def int_lit(v):
    """an integer literal the way QBASIC types it: INTEGER if it fits else LONG"""
    return num(I if -32768 < v <= 32767 else L, v) if v >= 0 else \
        [6, 1, lit(I if -v <= 32767 else L, -v)]


def var(v):
    return [2, v]


def idx(v, es):
    return [3, v, list(es)]


def fld(v, f):
    return [4, v, f]


def idxfld(v, es, f):
    return [5, v, list(es), f]


def un(op, e):
    return [6, op, e]


def bin_(op, a, b):
    return [7, op, a, b]


def par(e):
    return [8, e]


def builtin(b, *args):
    return [9, b, list(args)]


def call(fid, args):
    return [10, fid, list(args)]


def lv_of(e):
    """lvalue with the shape of a variable expression"""
    t = e[0]
    if t == 2:
        return [1, e[1]]
    if t == 3:
        return [2, e[1], e[2]]
    if t == 4:
        return [3, e[1], e[2]]
    if t == 5:
        return [4, e[1], e[2], e[3]]
    raise ValueError('not an lvalue')


class Names:
    """variable ids -> (source name, scalar type); routine ids; record types; labels"""

    def __init__(self):
        self.vars = []        # (name, ty)
        self.types = []       # (name, [(field name, ty)])
        self.routines = []    # name (functions carry their suffix)
        self.rtypes = []      # return type per routine
        self.labels = []      # name

    def new_var(self, name, ty):
        self.vars.append((name, ty))
        return len(self.vars) - 1

    def vname(self, v):
        return self.vars[v][0]

    def vty(self, v):
        return self.vars[v][1]


def single_text(x):
    """shortest decimal that reads back (through a double, as qbee does) as the float32 x"""
    for p in range(1, 10):
        t = '%.*g' % (p, x)
        if sgl(float(t)) == x:
            return t
    return repr(x)


def fmt_float_lit(x, ty):
    """source text of a non-negative float literal"""
    if ty == S:
        t = single_text(x)
        if 'e' in t:
            m, e = t.split('e')
            return f'{m}E{int(e):+d}'
        if '.' in t:
            return t.lstrip('0') if t.startswith('0.') else t
        if 'inf' in t or 'nan' in t:
            raise ValueError(t)
        return t + '!'
    t = repr(float(x))
    if 'e' in t:
        m, e = t.split('e')
        if m.endswith('.0'):
            m = m[:-2]
        return f'{m}D{int(e):+d}'
    if t.endswith('.0'):
        t = t[:-2]
    elif t.startswith('0.'):
        t = t[1:]
    return t + '#'


def sty(e, nm):
    """static type of an expression by the reference typing rules (SemBase.binop_ty);
    nm gives variable / routine types"""
    t = e[0]
    if t == 1:
        return e[1][0]
    if t in (2, 3):
        return nm.vty(e[1])
    if t == 4:
        return nm.types[nm.vrec[e[1]]][1][e[2]][1]
    if t == 5:
        return nm.types[nm.vrec[e[1]]][1][e[3]][1]
    if t == 6:
        a = sty(e[2], nm)
        return (I if a == I else L) if e[1] == 2 else a
    if t == 7:
        op, a, b = e[1], sty(e[2], nm), sty(e[3], nm)
        if 8 <= op <= 13:
            return I
        if a == STR:
            return STR
        if op in (5, 6) or op >= 14:
            return I if (a == I and b == I) else L
        if op in (4, 7):
            return D if D in (a, b) else S
        return max(a, b)
    if t == 8:
        return sty(e[1], nm)
    if t == 9:
        b = e[1]
        if b in (1, 2):
            return sty(e[2][0], nm)
        if b in (3, 5, 6, 18):
            return I
        if b == 4:
            return L
        if b in (19, 20):
            return S
        return STR
    if t == 10:
        return nm.rtypes[e[1]]
    raise ValueError(e)


def is_atom(e):
    return e[0] in (1, 2, 3, 4, 5, 8, 9, 10)


def pp_expr(e, nm, minimal=False):
    t = e[0]
    bracket_pow = getattr(nm, 'bracket_pow', True)
    if t == 1:
        ty, v = e[1]
        if ty == I:
            return str(v)
        if ty == L:
            return str(v) if v > 32767 else f'{v}&'
        if ty in (S, D):
            return fmt_float_lit(bits2f(v), ty)
        return '"' + v + '"'
    if t == 2:
        return nm.vname(e[1])
    if t == 3:
        return nm.vname(e[1]) + '(' + ', '.join(pp_expr(x, nm, minimal) for x in e[2]) + ')'
    if t == 4:
        return nm.vname(e[1]) + '.' + nm.fieldname(e[1], e[2])
    if t == 5:
        return (nm.vname(e[1]) + '(' + ', '.join(pp_expr(x, nm, minimal) for x in e[2]) + ').' +
                nm.fieldname(e[1], e[3]))
    if t == 6:
        op, a = e[1], e[2]
        s = pp_expr(a, nm, minimal)
        if minimal:
            need = (a[0] == 7 and PREC[a[1]] < UNPREC[op]) or (a[0] == 6 and op != 2 and a[1] == 2)
        else:
            need = not is_atom(a)
        if need:
            s = '(' + s + ')'
        return {1: '-', 2: 'NOT ', 3: '+'}[op] + s
    if t == 7:
        op, a, b = e[1], e[2], e[3]
        sa, sb = pp_expr(a, nm, minimal), pp_expr(b, nm, minimal)
        if minimal:
            pa = PREC[a[1]] if a[0] == 7 else (UNPREC[a[1]] if a[0] == 6 else 99)
            pb = PREC[b[1]] if b[0] == 7 else (UNPREC[b[1]] if b[0] == 6 else 99)
            na = pa < PREC[op] or (op == 7 and bracket_pow and pa <= PREC[op])   # ^ chains are bracketed
            nb = pb <= PREC[op]
            if b[0] == 6 and op == 7:
                nb = True            # a ^ -b is not accepted by the grammar (D05)
        else:
            na, nb = not is_atom(a), not is_atom(b)
        if na:
            sa = '(' + sa + ')'
        if nb:
            sb = '(' + sb + ')'
        return f'{sa} {OPS[op]} {sb}'
    if t == 8:
        return '(' + pp_expr(e[1], nm, minimal) + ')'
    if t == 9:
        name = BUILTIN[e[1]]
        if not e[2]:
            return name
        return name + '(' + ', '.join(pp_expr(x, nm, minimal) for x in e[2]) + ')'
    if t == 10:
        name = nm.routines[e[1]]
        if not e[2]:
            return name
        return name + '(' + ', '.join(pp_expr(x, nm, minimal) for x in e[2]) + ')'
    raise ValueError(e)


def pp_lval(lv, nm):
    t = lv[0]
    if t == 1:
        return nm.vname(lv[1])
    if t == 2:
        return nm.vname(lv[1]) + '(' + ', '.join(pp_expr(x, nm) for x in lv[2]) + ')'
    if t == 3:
        return nm.vname(lv[1]) + '.' + nm.fieldname(lv[1], lv[2])
    return (nm.vname(lv[1]) + '(' + ', '.join(pp_expr(x, nm) for x in lv[2]) + ').' +
            nm.fieldname(lv[1], lv[3]))


# ---------------------------------------------------------------- program container

class Program(Names):
    def __init__(self):
        super().__init__()
        self.main = []
        self.rbodies = []      # [isfn, params[(v, ty)], ret ty, body]
        self.vrec = {}         # var id -> record type id (record variables and arrays of records)
        self.deftypes = []     # (keyword, letters) lines printed first
        self.minimal = False   # print expressions with minimal parentheses
        self.lines = []
        self.stats = {}

    def fieldname(self, v, f):
        return self.types[self.vrec[v]][1][f][0]

    def bump(self, k, n=1):
        self.stats[k] = self.stats.get(k, 0) + n

    # ---- sx
    def sx(self):
        return [[ty for _, ty in self.vars],
                [[ty for _, ty in fs] for _, fs in self.types],
                self.main,
                [[1 if r[0] else 0, [[v, ty] for v, ty in r[1]], r[2], r[3]] for r in self.rbodies]]

    # ---- text
    def layout(self):
        out = []

        def emit(text):
            out.append(text)
            return len(out)

        def ex(e):
            return pp_expr(e, self, self.minimal)

        def decl_text(d):
            v, bounds, elt = d
            name = self.vname(v)
            s = name
            if bounds:
                s += '(' + ', '.join(f'{lo} TO {hi}' if lo != 0 else f'{hi}' for lo, hi in bounds) + ')'
            if elt[0] == 1:
                s += ' AS ' + self.types[elt[1]][0]
            elif name[-1] not in '%&!#$':
                s += ' AS ' + TYNAME[elt[1]]
            return s

        def simple(s):
            """text of a statement that fits on one line (for single-line IF), or None"""
            k = s[0]
            if k == 1:
                return f'{pp_lval(s[2], self)} = {ex(s[3])}'
            if k == 2:
                return ('PRINT ' + ''.join(
                    (';' if it == 1 else ',' if it == 2 else ' ' + ex(it[1]) + ' ')
                    for it in s[2])).rstrip()
            if k == 9:
                return 'EXIT ' + {1: 'FOR', 2: 'DO', 3: 'SUB', 4: 'FUNCTION'}[s[1]]
            if k == 10:
                return 'GOTO ' + self.labels[s[2]]
            if k == 11:
                return 'GOSUB ' + self.labels[s[2]]
            if k == 12:
                return 'RETURN'
            if k == 14:
                name = self.routines[s[2]]
                callform = (s[2] + len(s[3])) % 2 == 1
                if not s[3]:
                    return 'CALL ' + name if callform else name
                if callform:
                    return 'CALL ' + name + '(' + ', '.join(ex(a) for a in s[3]) + ')'
                return name + ' ' + ', '.join(ex(a) for a in s[3])
            if k == 15:
                return ('DIM SHARED ' if s[2] else 'DIM ') + ', '.join(decl_text(d) for d in s[3])
            if k == 16:
                return 'STATIC ' + ', '.join(decl_text(d) for d in s[2])
            if k == 17:
                return f'CONST {self.vname(s[2])} = {ex(s[3])}'
            if k == 18:
                p = ''
                if s[2] or not s[3]:
                    p = '"' + s[2] + '"' + (';' if s[3] else ',') + ' '
                return ('INPUT ' + ('; ' if s[4] else '') + p +
                        ', '.join(pp_lval(lv, self) for lv in s[5]))
            if k == 19:
                return 'READ ' + ', '.join(pp_lval(lv, self) for lv in s[2])
            if k == 20:
                return 'RESTORE' + (' ' + self.labels[s[2][0]] if s[2] else '')
            if k == 21:
                return 'RANDOMIZE ' + ex(s[2])
            if k == 22:
                return 'END'
            if k == 23:
                return f'{self.cur_fn} = {ex(s[2])}'
            if k == 24:
                return 'DATA ' + ', '.join(
                    '' if not it else ('"' + it[0] + '"' if (' ' in it[0] or it[0] == '')
                                       else it[0]) for it in s[1])
            return None

        def block(stmts):
            for s in stmts:
                stmt(s)

        def stmt(s):
            k = s[0]
            self.bump('stmt:' + KIND[k])
            t = simple(s)
            if t is not None:
                ln = emit(t)
                if k not in (9, 13, 24):
                    s[1] = ln
                return
            if k == 13:
                emit(self.labels[s[1]] + ':')
            elif k == 3:
                first = True
                for arm in s[1]:
                    arm[0] = emit(('IF ' if first else 'ELSEIF ') + ex(arm[1]) + ' THEN')
                    first = False
                    block(arm[2])
                if s[2]:
                    emit('ELSE')
                    block(s[2])
                emit('END IF')
            elif k == 4:
                th = ': '.join(simple(x) for x in s[3])
                el = ': '.join(simple(x) for x in s[4])
                ln = emit(f'IF {ex(s[2])} THEN {th}' + (f' ELSE {el}' if s[4] else ''))
                s[1] = ln
                for x in s[3] + s[4]:
                    self.bump('stmt:' + KIND[x[0]])
                    if x[0] not in (9, 13, 24):
                        x[1] = ln
            elif k == 5:
                s[1] = emit('WHILE ' + ex(s[2]))
                block(s[3])
                emit('WEND')
            elif k == 6:
                pre, post = s[2], s[5]
                s[1] = emit('DO' + ('' if pre == 0 else
                                    (' WHILE ' if pre[0] == 1 else ' UNTIL ') + ex(pre[1])))
                block(s[3])
                s[4] = emit('LOOP' + ('' if post == 0 else
                                      (' WHILE ' if post[0] == 1 else ' UNTIL ') + ex(post[1])))
            elif k == 7:
                s[1] = emit(f'FOR {self.vname(s[2])} = {ex(s[3])} TO {ex(s[4])}' +
                            (f' STEP {ex(s[5][0])}' if s[5] else ''))
                block(s[6])
                s[7] = emit('NEXT' + (' ' + self.vname(s[2]) if s[2] % 2 else ''))
            elif k == 8:
                s[1] = emit('SELECT CASE ' + ex(s[2]))
                for c in s[3]:
                    cl = []
                    for x in c[1]:
                        if x[0] == 1:
                            cl.append(ex(x[1]))
                        elif x[0] == 2:
                            cl.append(f'{ex(x[1])} TO {ex(x[2])}')
                        else:
                            cl.append(f'IS {OPS[x[1]]} {ex(x[2])}')
                    c[0] = emit('CASE ' + ', '.join(cl))
                    block(c[2])
                if s[4]:
                    emit('CASE ELSE')
                    block(s[4][0])
                emit('END SELECT')
            else:
                raise ValueError(s)

        for kw, letters in self.deftypes:
            emit(f'{kw} {letters}')
        for name, fs in self.types:
            emit('TYPE ' + name)
            for fn, ty in fs:
                emit(f'{fn} AS {TYNAME[ty]}')
            emit('END TYPE')
        self.cur_fn = None
        block(self.main)
        for rid, r in enumerate(self.rbodies):
            name = self.routines[rid]
            ps = ', '.join(self.vname(v) if self.vname(v)[-1] in '%&!#$'
                           else f'{self.vname(v)} AS {TYNAME[ty]}' for v, ty in r[1])
            emit(('FUNCTION ' if r[0] else 'SUB ') + name + (f' ({ps})' if r[1] else ''))
            self.cur_fn = name if r[0] else None
            block(r[3])
            emit('END FUNCTION' if r[0] else 'END SUB')
        self.lines = out
        return '\n'.join(out) + '\n'


KIND = {1: 'assign', 2: 'print', 3: 'if-block', 4: 'if-line', 5: 'while', 6: 'do', 7: 'for',
        8: 'select', 9: 'exit', 10: 'goto', 11: 'gosub', 12: 'return', 13: 'label', 14: 'call',
        15: 'dim', 16: 'static', 17: 'const', 18: 'input', 19: 'read', 20: 'restore',
        21: 'randomize', 22: 'end', 23: 'retset', 24: 'data'}


# statement constructors (line fields are filled by layout)
def s_assign(lv, e): return [1, 0, lv, e]
def s_print(items): return [2, 0, list(items)]
def s_if(arms, els): return [3, [[0, c, b] for c, b in arms], list(els)]
def s_ifline(c, th, el): return [4, 0, c, list(th), list(el)]
def s_while(c, body): return [5, 0, c, list(body)]
def s_do(pre, body, post): return [6, 0, pre, list(body), 0, post]
def s_for(v, a, b, step, body): return [7, 0, v, a, b, [step] if step is not None else [], list(body), 0]
def s_select(e, cases, els): return [8, 0, e, [[0, cl, b] for cl, b in cases], [list(els)] if els is not None else []]
def s_exit(k): return [9, k]
def s_goto(l): return [10, 0, l]
def s_gosub(l): return [11, 0, l]
def s_return(): return [12, 0]
def s_label(l): return [13, l]
def s_call(sid, args): return [14, 0, sid, list(args)]
def s_dim(shared, decls): return [15, 0, 1 if shared else 0, list(decls)]
def s_static(decls): return [16, 0, list(decls)]
def s_const(v, e): return [17, 0, v, e]
def s_input(prompt, question, sameline, lvs): return [18, 0, prompt, 1 if question else 0, 1 if sameline else 0, list(lvs)]
def s_read(lvs): return [19, 0, list(lvs)]
def s_restore(l=None): return [20, 0, [] if l is None else [l]]
def s_randomize(e): return [21, 0, e]
def s_end(): return [22, 0]
def s_retset(e): return [23, 0, e]
def s_data(items): return [24, [[] if it is None else [it] for it in items]]
def pe(e): return [0, e]
