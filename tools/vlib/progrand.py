"""Seeded random programs over the statement forms of Src/Sem.v (see proggen.py
for the representation).  Well-typed by construction; every loop is bounded by
construction (FOR over literal bounds with a protected variable, WHILE/DO with
a dedicated counter conjunct, forward GOTO only, recursion on a decreasing
depth parameter); device inputs are scripted."""
import random
from vlib.proggen import *

DEFAULT = dict(procs=1, arrays=1, records=1, strings=1, goto=1, gosub=1, input=1, data=1,
               rnd=1, select=1, const=1, shared=1, static=1, deftype=1,
               risky=0.06, numcond=0.0, hazards=0, minimal=1, size=6, depth=2)

NUM = (I, L, S, D)
# SINGLE literals are dyadic rationals (exact in binary32, so the text means one value
# whichever precision it is read in)
LITS = {I: [0, 1, 2, 3, 5, 7, 10, 100, 255], L: [1, 4, 70000, 100000, 65536],
        S: [0.5, 1.5, 2.5, 0.25, 3.75, 10.5, 2.0, 7.0], D: [0.1, 1.5, 2.25, 3.14159, 12345.678, 2.0]}
RISKY_LITS = {I: [32767, 32000, 20000], L: [2147483647, 2000000000, 50000],
              S: [1e10, 3e38, 32767.5, 16777216.0], D: [1e10, 1e300, 2147483647.5, 32767.5]}
WORDS = ['', 'a', 'abc', 'Hello', ' x ', 'QB', 'zz top']


class Scope:
    def __init__(self, rid):
        self.rid = rid
        self.scalars = {I: [], L: [], S: [], D: [], STR: []}
        self.arrays = []       # (v, bounds, elt) elt = ty | ('rec', tid)
        self.records = []      # (v, tid)
        self.consts = []       # (v, ty)
        self.protected = set()
        self.is_fn = False
        self.loops = []        # 'for' | 'do'
        self.callable_subs = []
        self.callable_fns = []
        self.in_gosub = False
        self.top = False
        self.depth_param = None


class Gen:
    def __init__(self, seed, index, features=None):
        self.f = dict(DEFAULT)
        if features:
            self.f.update(features)
        self.r = random.Random(f'{seed}:{index}')
        self.p = Program()
        self.p.minimal = bool(self.f['minimal'])
        self.script = {'lines': [], 'rnd': [], 'timer': []}
        self.nnames = 0
        self.shared = Scope(-2)
        self.sigs = []          # routine id -> (isfn, [param tys], ret ty, recursive)
        self.fwd_labels = []
        self.gosubs = []
        self.ndata = 0
        self.hazards = []

    # ---- names
    def fresh(self, ty, suffixed=True, prefix='v'):
        self.nnames += 1
        base = f'{prefix}{self.nnames}'
        return self.p.new_var(base + (SUFFIX[ty] if suffixed else ''), ty)

    def chance(self, x):
        return self.r.random() < x

    def pick(self, l):
        return l[self.r.randrange(len(l))]

    def visible(self, sc, ty):
        return sc.scalars[ty] + self.shared.scalars[ty]

    def new_scalar(self, sc, ty):
        v = self.fresh(ty)
        sc.scalars[ty].append(v)
        return v

    # ---- expressions
    def literal(self, ty, risky=False):
        if ty == STR:
            return lit(STR, self.pick(WORDS))
        pool = RISKY_LITS[ty] if risky else LITS[ty]
        v = self.pick(pool)
        e = lit(ty, v)
        if self.chance(0.2) and (self.f['hazards'] or ty in (I, L) or v < 2 ** 31):
            e = un(1, e)
        return e

    def is_const(self, e):
        t = e[0]
        if t == 1:
            return True
        if t == 2:
            return any(e[1] == c for c, _ in self.shared.consts)
        if t == 6:
            return self.is_const(e[2])
        if t == 7:
            return self.is_const(e[2]) and self.is_const(e[3])
        if t == 8:
            return self.is_const(e[1])
        return False

    def fixe(self, e):
        """rewrite operator nodes whose operands are all constant (the folder would
        evaluate them at -O1/-O2: C02's subject) unless hazards are requested"""
        if self.f['hazards']:
            self.tag_hazards(e)
            return e
        t = e[0]
        if t in (3, 5):
            e[2] = [self.fixe(x) for x in e[2]]
        elif t == 6:
            e[2] = self.fixe(e[2])
        elif t == 7:
            e[2], e[3] = self.fixe(e[2]), self.fixe(e[3])
            if self.is_const(e[2]) and self.is_const(e[3]):
                if sty(e[2], self.p) == STR:
                    e[2] = builtin(13, e[2])      # LTRIM$(..) is not folded
                else:
                    e[2] = builtin(1, e[2])       # ABS(..) is not folded
        elif t == 8:
            e[1] = self.fixe(e[1])
        elif t in (9, 10):
            e[2] = [self.fixe(x) for x in e[2]]
        return e

    def tag_hazards(self, e):
        t = e[0]
        if t == 7:
            if self.is_const(e[2]) and self.is_const(e[3]):
                self.hazards.append('const-expr')
            self.tag_hazards(e[2])
            self.tag_hazards(e[3])
        elif t == 6:
            if self.is_const(e[2]):
                if e[1] == 2:
                    self.hazards.append('const-expr')
                elif e[2][0] == 1 and e[2][1][0] in (S, D) and bits2f(e[2][1][1]) >= 2 ** 31:
                    self.hazards.append('neg-float-literal')
            self.tag_hazards(e[2])
        elif t == 8:
            self.tag_hazards(e[1])
        elif t in (3, 5, 9, 10):
            for x in e[2]:
                self.tag_hazards(x)

    def num_leaf(self, sc, want=None):
        ty = want or self.pick(NUM)
        k = self.r.random()
        vs = self.visible(sc, ty)
        if k < 0.45 and vs:
            return var(self.pick(vs))
        if k < 0.55 and self.f['arrays']:
            cands = [a for a in sc.arrays + self.shared.arrays]
            if cands:
                return self.elem(sc, self.pick(cands), numeric=True)
        if k < 0.62 and self.f['records']:
            cands = sc.records + self.shared.records
            if cands:
                v, tid = self.pick(cands)
                fs = [i for i, (_, t) in enumerate(self.p.types[tid][1]) if t != STR]
                if fs:
                    return fld(v, self.pick(fs))
        if k < 0.68 and self.shared.consts:
            cs = [c for c, t in self.shared.consts if t != STR]
            if cs:
                return var(self.pick(cs))
        if vs and self.chance(0.5):
            return var(self.pick(vs))
        return self.literal(ty, self.chance(self.f['risky']))

    def index_expr(self, sc, lo, hi):
        if self.chance(0.75):
            return int_lit(self.r.randint(lo, hi))
        if self.chance(self.f['risky']):
            return int_lit(self.pick([lo - 1, hi + 1]))
        vs = self.visible(sc, I)
        if vs:
            # ABS(v) MOD n + lo stays in range
            return bin_(1, bin_(6, builtin(1, var(self.pick(vs))), int_lit(hi - lo + 1)), int_lit(lo))
        return int_lit(lo)

    def elem(self, sc, arr, numeric=None, fieldty=None):
        v, bounds, elt = arr
        ix = [self.index_expr(sc, lo, hi) for lo, hi in bounds]
        if isinstance(elt, tuple):
            fs = self.p.types[elt[1]][1]
            cands = [i for i, (_, t) in enumerate(fs)
                     if (fieldty is None or t == fieldty) and
                     (numeric is None or (t != STR) == numeric)]
            if not cands:
                return None
            return idxfld(v, ix, self.pick(cands))
        if fieldty is not None and elt != fieldty:
            return None
        if numeric is not None and (elt != STR) != numeric:
            return None
        return idx(v, ix)

    def num(self, sc, depth, want=None):
        return self.fixe(self.num0(sc, depth, want))

    def string(self, sc, depth):
        return self.fixe(self.string0(sc, depth))

    def cond(self, sc, depth):
        return self.fixe(self.cond0(sc, depth))

    def num0(self, sc, depth, want=None):
        """numeric expression; `want` biases the leaf type"""
        if depth <= 0 or self.chance(0.3):
            e = self.num_leaf(sc, want)
            return e if e is not None else self.literal(want or I)
        k = self.r.random()
        risky = self.chance(self.f['risky'])
        if k < 0.45:
            op = self.pick([1, 1, 2, 2, 3])
            a, b = self.num(sc, depth - 1, want), self.num(sc, depth - 1, want)
        elif k < 0.55:
            op = self.pick([4, 5, 6])
            a = self.num(sc, depth - 1, want)
            b = self.num(sc, depth - 1) if risky else self.literal(self.pick([I, I, L, S]))
            if not risky and b[0] == 1 and b[1][1] == 0:
                b = lit(I, 3)
        elif k < 0.60:
            op = 7
            a = self.num(sc, depth - 1, self.pick([S, D]))
            b = int_lit(self.r.randint(0, 3)) if not risky else self.num(sc, 0, I)
        elif k < 0.72:
            return self.cond(sc, depth - 1)
        elif k < 0.78:
            op = self.pick([14, 15, 16, 17, 18])
            a, b = self.num(sc, depth - 1, self.pick([I, L])), self.num(sc, depth - 1, self.pick([I, L]))
        elif k < 0.84:
            return un(self.pick([1, 1, 2]), self.num(sc, depth - 1, want))
        elif k < 0.93:
            return self.num_builtin(sc, depth - 1)
        else:
            fs = sc.callable_fns
            fs = [f for f in fs if self.sigs[f][2] != STR]
            if fs and self.f['procs']:
                return self.fcall(sc, self.pick(fs), depth - 1)
            return self.num_leaf(sc, want) or self.literal(I)
        if self.is_const(a) and self.is_const(b) and not self.f['hazards']:
            vs = [v for t in NUM for v in self.visible(sc, t)]
            if vs:
                a = var(self.pick(vs))
            else:
                a = builtin(1, a)       # ABS(..) is not folded
        elif self.is_const(a) and self.is_const(b):
            self.hazards.append('const-expr')
        if op == 5 and not self.f.get('idivfloat'):
            # x \\ y with a float operand is statically mistyped by qbee (probed separately)
            if sty(a, self.p) not in (I, L):
                a = builtin(4, a)
            if sty(b, self.p) not in (I, L):
                b = builtin(4, b)
        return bin_(op, a, b)

    def num_builtin(self, sc, depth):
        k = self.r.random()
        if k < 0.2:
            return builtin(1, self.num(sc, depth))
        if k < 0.4:
            return builtin(2, self.num(sc, depth, self.pick([S, D])))
        if k < 0.5:
            return builtin(self.pick([3, 4]), self.num(sc, depth))
        if not self.f['strings']:
            return builtin(1, self.num(sc, depth))
        if k < 0.7:
            return builtin(5, self.string(sc, depth))
        if k < 0.8:
            s = self.string(sc, depth) if self.chance(self.f['risky']) else \
                bin_(1, lit(STR, self.pick(['A', 'z', '0'])), self.string(sc, depth))
            return builtin(6, s)
        needle = lit(STR, self.pick(['a', 'l', 'b', 'zz', 'x']))
        if self.chance(0.5):
            return builtin(18, self.string(sc, depth), needle)
        return builtin(18, int_lit(self.r.randint(1, 3)), self.string(sc, depth), needle)

    def string0(self, sc, depth):
        vs = self.visible(sc, STR)
        if depth <= 0 or self.chance(0.35):
            k = self.r.random()
            if k < 0.5 and vs:
                return var(self.pick(vs))
            if k < 0.6:
                cands = [a for a in sc.arrays + self.shared.arrays]
                self.r.shuffle(cands)
                for a in cands:
                    e = self.elem(sc, a, numeric=False)
                    if e is not None:
                        return e
            if k < 0.7:
                cands = sc.records + self.shared.records
                for v, tid in cands:
                    fs = [i for i, (_, t) in enumerate(self.p.types[tid][1]) if t == STR]
                    if fs:
                        return fld(v, self.pick(fs))
            return lit(STR, self.pick(WORDS))
        k = self.r.random()
        risky = self.chance(self.f['risky'])
        n = self.num(sc, 0, I) if risky else int_lit(self.r.randint(1 if True else 0, 4))
        if k < 0.25:
            a, b = self.string(sc, depth - 1), self.string(sc, depth - 1)
            if self.is_const(a) and self.is_const(b) and not self.f['hazards']:
                if vs:
                    a = var(self.pick(vs))
                else:
                    a = builtin(11, a)
            return bin_(1, a, b)
        if k < 0.35:
            return builtin(8, self.string(sc, depth - 1), n)
        if k < 0.45:
            return builtin(9, self.string(sc, depth - 1), n)
        if k < 0.55:
            if self.chance(0.5):
                return builtin(10, self.string(sc, depth - 1), n)
            return builtin(10, self.string(sc, depth - 1), n, int_lit(self.r.randint(0, 3)))
        if k < 0.65:
            return builtin(self.pick([11, 12, 13, 14]), self.string(sc, depth - 1))
        if k < 0.72:
            return builtin(17, self.num(sc, depth - 1))
        if k < 0.78:
            return builtin(7, bin_(1, int_lit(65), bin_(6, builtin(1, self.num(sc, 0, I)), int_lit(26)))
                           if not risky else self.num(sc, 0, I))
        if k < 0.84:
            return builtin(15, int_lit(self.r.randint(0, 3)) if not risky else self.num(sc, 0, I))
        if k < 0.9:
            if self.chance(0.5):
                return builtin(16, int_lit(self.r.randint(0, 3)), lit(STR, self.pick(['ab', '*'])))
            return builtin(16, int_lit(self.r.randint(0, 3)), int_lit(self.r.randint(33, 126)))
        fs = [f for f in sc.callable_fns if self.sigs[f][2] == STR]
        if fs and self.f['procs']:
            return self.fcall(sc, self.pick(fs), depth - 1)
        return lit(STR, self.pick(WORDS))

    def cond0(self, sc, depth):
        """INTEGER-typed -1/0 expression"""
        k = self.r.random()
        if depth > 0 and k < 0.25:
            return bin_(self.pick([14, 15]), self.cond(sc, depth - 1), self.cond(sc, depth - 1))
        if depth > 0 and k < 0.32:
            return un(2, self.cond(sc, depth - 1))
        op = self.pick([8, 9, 10, 11, 12, 13])
        if self.f['strings'] and self.chance(0.2):
            a, b = self.string(sc, min(depth, 1)), self.string(sc, 0)
            if self.is_const(a) and self.is_const(b):
                a = builtin(11, a)
            return bin_(op, a, b)
        a, b = self.num(sc, min(depth, 1)), self.num(sc, 0)
        if self.is_const(a) and self.is_const(b) and not self.f['hazards']:
            a = builtin(1, a)
        return bin_(op, a, b)

    def condition(self, sc, depth):
        """what goes after IF / WHILE / UNTIL"""
        if self.chance(self.f['numcond']):
            return self.num(sc, depth)
        return self.cond(sc, depth)

    # ---- lvalues and calls
    def lvalue(self, sc, ty=None, numeric=None):
        """assignable location (expr form) of exactly type ty, or of any numeric type"""
        tys = [ty] if ty else ([t for t in NUM] if numeric else [I, L, S, D, STR])
        for _ in range(6):
            k = self.r.random()
            t = self.pick(tys)
            if k < 0.6:
                vs = [v for v in self.visible(sc, t) if v not in sc.protected]
                if vs:
                    return var(self.pick(vs)), t
                if sc.rid != -2 and not (sc.is_fn and False):
                    return var(self.new_scalar(sc, t)), t
            elif k < 0.8 and self.f['arrays']:
                cands = sc.arrays + self.shared.arrays
                if cands:
                    e = self.elem(sc, self.pick(cands), fieldty=t)
                    if e is not None:
                        return e, t
            elif self.f['records']:
                cands = sc.records + self.shared.records
                if cands:
                    v, tid = self.pick(cands)
                    fs = [i for i, (_, ft) in enumerate(self.p.types[tid][1]) if ft == t]
                    if fs:
                        return fld(v, self.pick(fs)), t
        t = self.pick(tys)
        return var(self.new_scalar(sc, t)), t

    def args_for(self, sc, tys, depth, rec_arg=None):
        args = []
        for i, t in enumerate(tys):
            if rec_arg is not None and i == len(tys) - 1:
                args.append(rec_arg)
                continue
            k = self.r.random()
            if k < 0.45:
                e, _ = self.lvalue(sc, ty=t)
                args.append(e)
                self.p.bump('arg:byref')
            elif k < 0.6:
                e, _ = self.lvalue(sc, ty=t)
                args.append(par(e))
                self.p.bump('arg:paren')
            else:
                e = self.string(sc, depth) if t == STR else self.num(sc, depth, t)
                if e[0] in (2, 3, 4, 5):
                    e = par(e)       # a bare variable of another type would be a by-reference mismatch
                args.append(e)
                self.p.bump('arg:byval')
        return args

    def fcall(self, sc, fid, depth):
        isfn, tys, ret, rec = self.sigs[fid]
        rec_arg = None
        if rec:
            if sc.rid == fid and sc.depth_param is not None:
                rec_arg = bin_(2, var(sc.depth_param), int_lit(1))
            else:
                rec_arg = int_lit(self.r.randint(0, 3))
        return call(fid, self.args_for(sc, tys, min(depth, 1), rec_arg))

    # ---- statements
    def assign(self, sc):
        e, t = self.lvalue(sc)
        rhs = self.string(sc, 2) if t == STR else self.num(sc, self.f['depth'], t)
        return s_assign(lv_of(e), rhs)

    def print_(self, sc):
        items = []
        n = self.r.randint(0, 4)
        for i in range(n):
            if self.chance(0.3) and self.f['strings']:
                items.append(pe(self.string(sc, 2)))
            else:
                items.append(pe(self.num(sc, self.f['depth'])))
            if i < n - 1 or self.chance(0.25):
                items.append(self.pick([1, 1, 2]))
        if not items and self.chance(0.3):
            items.append(self.pick([1, 2]))
        return s_print(items)

    def block(self, sc, depth, n):
        out = []
        for _ in range(n):
            out.extend(self.stmt(sc, depth))
        return out

    def counter_loop(self, sc, depth):
        c = self.new_scalar(sc, I)
        sc.protected.add(c)
        k = self.r.randint(1, 4)
        bound = bin_(10, var(c), int_lit(k))                 # c < k
        extra = self.condition(sc, 1)
        kind = self.pick(['while', 'do_while', 'do_until', 'loop_while', 'loop_until', 'do'])
        sc.loops.append('do' if kind != 'while' else 'while')
        body = self.block(sc, depth - 1, self.r.randint(1, 3))
        sc.loops.pop()
        incr = s_assign([1, c], bin_(1, var(c), int_lit(1)))
        init = s_assign([1, c], int_lit(0))
        pos = bin_(14, bound, extra) if self.chance(0.5) else bound
        neg = bin_(15, bin_(13, var(c), int_lit(k)), extra) if self.chance(0.5) else \
            bin_(13, var(c), int_lit(k))
        if kind == 'while':
            return [init, s_while(pos, body + [incr])]
        if kind == 'do_while':
            return [init, s_do([1, pos], body + [incr], 0)]
        if kind == 'do_until':
            return [init, s_do([2, neg], body + [incr], 0)]
        if kind == 'loop_while':
            return [init, s_do(0, body + [incr], [1, pos])]
        if kind == 'loop_until':
            return [init, s_do(0, body + [incr], [2, neg])]
        ex = s_if([(bin_(13, var(c), int_lit(k)), [s_exit(2)])], []) if self.chance(0.5) else \
            s_ifline(bin_(13, var(c), int_lit(k)), [s_exit(2)], [])
        return [init, s_do(0, body + [incr, ex], 0)]

    def for_loop(self, sc, depth):
        ty = self.pick([I, I, I, L, S, D])
        v = self.new_scalar(sc, ty) if sc.rid != -2 else None
        sc.protected.add(v)
        risky = self.chance(self.f['risky'])
        if ty in (I, L):
            if risky:
                hi = 32767 if ty == I else 2147483646
                a, b, st = self.pick([(hi - 2, hi, 1), (-hi + 1, -hi - 1, -1), (-hi - 1, hi, hi),
                                      (hi - 3, hi, 2)])
            else:
                a = self.r.randint(-3, 5)
                st = self.pick([1, 1, 1, 2, -1, -2, 3])
                n = self.r.randint(0, 4)
                b = a + st * n + (self.pick([0, 0, 1]) if st > 0 else -self.pick([0, 0, 1]))
                if self.chance(0.1):
                    b = a - st        # empty loop
            ea, eb, es = int_lit(a), int_lit(b), int_lit(st)
        else:
            a = self.pick([0, 1, 0.5, -1.5])
            st = self.pick([0.5, 0.25, 1, -0.5, 1.5])
            n = self.r.randint(0, 4)
            b = a + st * n
            ea, eb, es = num(ty, a), num(ty, b), num(ty, st)
        step = es if (st != 1 or self.chance(0.3)) else None
        sc.loops.append('for')
        body = self.block(sc, depth - 1, self.r.randint(1, 3))
        if self.chance(0.2):
            body.append(s_ifline(self.cond(sc, 1), [s_exit(1)], []))
        sc.loops.pop()
        return [s_for(v, ea, eb, step, body)]

    def select(self, sc, depth):
        if self.f['strings'] and self.chance(0.2):
            sel = self.string(sc, 1)

            def val():
                return lit(STR, self.pick(WORDS))
        else:
            ty = self.pick(NUM)
            vs = self.visible(sc, ty)
            sel = var(self.pick(vs)) if vs and self.chance(0.6) else self.num(sc, 1, ty)
            # case values are INTEGER literals: exactly representable in every selector type
            def val():
                return int_lit(self.r.randint(-2, 6))
            # the static type of sel may be anything numeric; INTEGER literals convert exactly
        cases = []
        for _ in range(self.r.randint(1, 3)):
            cl = []
            for _ in range(self.r.randint(1, 2)):
                k = self.r.random()
                if k < 0.5:
                    cl.append([1, val()])
                elif k < 0.75:
                    a, b = val(), val()
                    cl.append([2, a, b])
                else:
                    cl.append([3, self.pick([8, 9, 10, 11, 12, 13]), val()])
            cases.append((cl, self.block(sc, depth - 1, self.r.randint(1, 2))))
        return [s_select(sel, cases, self.block(sc, depth - 1, self.r.randint(0, 2)))]

    def if_(self, sc, depth):
        if self.chance(0.35):
            th = [self.simple_stmt(sc) for _ in range(self.r.randint(1, 2))]
            el = [self.simple_stmt(sc) for _ in range(self.r.randint(0, 2))]
            last = th[-1]
            if el and last[0] == 2 and (not last[2] or last[2][-1] in (1, 2)):
                last[2].append(pe(self.num(sc, 0)))
            return [s_ifline(self.condition(sc, 2), th, el)]
        arms = [(self.condition(sc, 2), self.block(sc, depth - 1, self.r.randint(0, 3)))]
        for _ in range(self.pick([0, 0, 1, 2])):
            arms.append((self.condition(sc, 1), self.block(sc, depth - 1, self.r.randint(1, 2))))
        els = self.block(sc, depth - 1, self.r.randint(1, 2)) if self.chance(0.5) else []
        return [s_if(arms, els)]

    def simple_stmt(self, sc):
        """a statement that fits in a single-line IF"""
        k = self.r.random()
        if k < 0.5 or sc.is_fn:
            return self.assign(sc)
        if k < 0.85:
            return self.print_(sc)
        if sc.loops and sc.loops[-1] in ('for', 'do'):
            return s_exit(1 if sc.loops[-1] == 'for' else 2)
        return self.print_(sc)

    def call_stmt(self, sc, depth):
        subs = sc.callable_subs
        if not subs:
            return [self.assign(sc)]
        sid = self.pick(subs)
        isfn, tys, ret, rec = self.sigs[sid]
        rec_arg = None
        if rec:
            if sc.rid == sid and sc.depth_param is not None:
                rec_arg = bin_(2, var(sc.depth_param), int_lit(1))
            else:
                rec_arg = int_lit(self.r.randint(0, 3))
        return [s_call(sid, self.args_for(sc, tys, 1, rec_arg))]

    def stmt(self, sc, depth):
        k = self.r.random()
        if depth <= 0:
            return [self.simple_stmt(sc)] if k < 0.8 or not sc.callable_subs else self.call_stmt(sc, 0)
        if k < 0.25:
            return [self.assign(sc)]
        if k < 0.40 and not sc.is_fn:
            return [self.print_(sc)]
        if k < 0.52:
            return self.if_(sc, depth)
        if k < 0.60:
            return self.for_loop(sc, depth)
        if k < 0.68:
            return self.counter_loop(sc, depth)
        if k < 0.74 and self.f['select']:
            return self.select(sc, depth)
        if k < 0.82 and self.f['procs']:
            return self.call_stmt(sc, depth)
        if k < 0.86 and self.f['data'] and self.ndata and not sc.is_fn:
            lvs = []
            for _ in range(self.r.randint(1, 2)):
                e, t = self.lvalue(sc)
                lvs.append(lv_of(e))
            return [s_read(lvs)]
        if k < 0.88 and self.f['data'] and self.ndata and sc.rid == -1 and self.chance(0.5):
            return [s_restore()]
        if k < 0.91 and sc.rid == -1 and self.fwd_labels and self.f['goto'] and not sc.in_gosub:
            return [s_ifline(self.cond(sc, 1), [s_goto(self.pick(self.fwd_labels))], [])]
        if k < 0.94 and sc.rid == -1 and self.gosubs and self.f['gosub'] and not sc.in_gosub:
            return [s_gosub(self.pick(self.gosubs))]
        if k < 0.96 and self.f['rnd'] and not sc.is_fn:
            e, t = self.lvalue(sc, numeric=True)
            self.script['rnd'].append(self.pick([0.25, 0.5, 0.75, 0.125]))
            self.script['timer'].append(self.pick([1.5, 100.25, 86399.0]))
            return [s_assign(lv_of(e), builtin(self.pick([19, 20])))]
        if k < 0.97 and sc.rid >= 0 and not sc.loops:
            return [s_ifline(self.cond(sc, 1), [s_exit(4 if sc.is_fn else 3)], [])]
        return [self.assign(sc)]

    # ---- declarations
    def declare(self, sc, shared=False, allow_static=False):
        out = []
        tgt = self.shared if shared else sc
        if self.f['arrays'] and self.chance(0.7):
            for _ in range(self.r.randint(1, 2)):
                if self.f['records'] and self.p.types and self.chance(0.3):
                    tid = self.r.randrange(len(self.p.types))
                    self.nnames += 1
                    v = self.p.new_var(f'ra{self.nnames}', I)
                    self.p.vrec[v] = tid
                    elt, eltsx = ('rec', tid), [1, tid]
                else:
                    ty = self.pick([I, L, S, D, STR] if self.f['strings'] else NUM)
                    v = self.fresh(ty, suffixed=self.chance(0.7), prefix='ar')
                    elt, eltsx = ty, [0, ty]
                bounds = [(self.pick([0, 0, 1, -2]), self.r.randint(2, 4))
                          for _ in range(self.pick([1, 1, 2]))]
                tgt.arrays.append((v, bounds, elt))
                out.append(s_dim(shared, [[v, [list(b) for b in bounds], eltsx]]))
        if self.f['records'] and self.p.types and self.chance(0.6):
            tid = self.r.randrange(len(self.p.types))
            self.nnames += 1
            v = self.p.new_var(f'rc{self.nnames}', I)
            self.p.vrec[v] = tid
            tgt.records.append((v, tid))
            out.append(s_dim(shared, [[v, [], [1, tid]]]))
            for fi, (_, fty) in enumerate(self.p.types[tid][1]):
                out.append(s_assign([3, v, fi], lit(STR, self.pick(WORDS)) if fty == STR
                                    else lit(fty, self.pick(LITS[fty]))))
        if shared or self.chance(0.3):
            ty = self.pick(NUM)
            v = self.fresh(ty, suffixed=self.chance(0.6), prefix='g' if shared else 'd')
            tgt.scalars[ty].append(v)
            out.append(s_dim(shared, [[v, [], [0, ty]]]))
        return out

    def routine(self, rid):
        isfn, tys, ret, rec = self.sigs[rid]
        sc = Scope(rid)
        sc.is_fn = isfn
        sc.callable_subs = [i for i in range(rid) if not self.sigs[i][0]]
        sc.callable_fns = [i for i in range(rid) if self.sigs[i][0]]
        params = []
        for i, t in enumerate(tys):
            v = self.fresh(t, suffixed=self.chance(0.8), prefix='p')
            params.append((v, t))
            sc.scalars[t].append(v)
            if rec and i == len(tys) - 1:
                sc.depth_param = v
                sc.protected.add(v)
        body = []
        if self.f['static'] and self.chance(0.4):
            ty = self.pick([I, L])
            v = self.fresh(ty, prefix='st')
            sc.scalars[ty].append(v)
            body.append(s_static([[v, [], [0, ty]]]))
            body.append(s_assign([1, v], bin_(1, var(v), int_lit(1))))
        if self.chance(0.3):
            body += self.declare(sc)
        for t in (I, S):
            self.new_scalar(sc, t)
        n = self.r.randint(2, 4)
        inner = self.block(sc, 2, n)
        if rec:
            me = (call(rid, self.args_for(sc, tys, 1, bin_(2, var(sc.depth_param), int_lit(1))))
                  if isfn else None)
            if isfn:
                e, t = self.lvalue(sc, ty=ret) if ret == STR else self.lvalue(sc, numeric=True)
                rstmt = [s_assign(lv_of(e), me)]
            else:
                rstmt = [s_call(rid, self.args_for(sc, tys, 1, bin_(2, var(sc.depth_param), int_lit(1))))]
            inner.append(s_if([(bin_(11, var(sc.depth_param), int_lit(0)), rstmt)], []))
        ndecl = len(body)      # declarations and their initialisation come first
        body += inner
        if isfn:
            body.append(s_retset(self.string(sc, 2) if ret == STR else self.num(sc, 2, ret)))
            if self.chance(0.3):
                body.insert(max(ndecl, self.r.randint(0, len(body) - 1)),
                            s_retset(self.string(sc, 1) if ret == STR else self.num(sc, 1, ret)))
        self.p.rbodies.append([isfn, params, ret if isfn else I, body])

    def build(self):
        f = self.f
        p = self.p
        if f['records'] and self.chance(0.6):
            for k in range(self.r.randint(1, 2)):
                fs = [(f'f{chr(97 + i)}', self.pick([I, L, S, D, STR] if f['strings'] else NUM))
                      for i in range(self.r.randint(2, 3))]
                p.types.append((f'rt{k}', fs))
        main = Scope(-1)
        main.top = True
        pro = []
        if f['deftype'] and self.chance(0.3):
            kw, ty = self.pick([('DEFINT', I), ('DEFLNG', L), ('DEFDBL', D), ('DEFSNG', S)])
            p.deftypes.append((kw, 'I-K'))
            for nm in ('i', 'j', 'k'):
                v = p.new_var(nm + 'dv', ty)
                main.scalars[ty].append(v)
        if f['data'] and self.chance(0.6):
            for _ in range(self.r.randint(1, 2)):
                items = []
                for _ in range(self.r.randint(1, 4)):
                    k = self.r.random()
                    if k < 0.5:
                        items.append(str(self.r.randint(-5, 300)))
                    elif k < 0.7:
                        items.append(self.pick(['1.5', '-2.25', '40000', '.5', '1E3']))
                    elif k < 0.8:
                        items.append(None)
                    else:
                        items.append(self.pick(['abc', 'x y', 'Q']))
                self.ndata += len(items)
                pro.append(s_data(items))
        if f['const'] and self.chance(0.5):
            for _ in range(self.r.randint(1, 2)):
                ty = self.pick([I, L, S, D, STR] if f['strings'] else NUM)
                v = self.fresh(ty, prefix='c')
                e = lit(STR, self.pick(WORDS[1:])) if ty == STR else lit(ty, self.pick(LITS[ty]))
                self.shared.consts.append((v, ty))
                pro.append(s_const(v, e))
        if f['shared'] and self.chance(0.7):
            pro += self.declare(main, shared=True)
        pro += self.declare(main)
        for t in (I, I, L, S, D) + ((STR, STR) if f['strings'] else ()):
            v = self.new_scalar(main, t)
            pro.append(s_assign([1, v], self.literal(t) if t != STR else lit(STR, self.pick(WORDS))))
        # procedures
        if f['procs']:
            for rid in range(self.r.randint(0, 3)):
                isfn = self.chance(0.5)
                tys = [self.pick([I, L, S, D, STR] if f['strings'] else NUM)
                       for _ in range(self.r.randint(0, 3))]
                rec = self.chance(0.3)
                if rec:
                    tys.append(I)
                ret = self.pick([I, L, S, D, STR] if f['strings'] else NUM)
                self.sigs.append((isfn, tys, ret, rec))
                name = f'fn{rid}' + SUFFIX[ret] if isfn else f'sb{rid}'
                p.routines.append(name)
                p.rtypes.append(ret)
            for rid in range(len(self.sigs)):
                self.routine(rid)
        main.callable_subs = [i for i, s in enumerate(self.sigs) if not s[0]]
        main.callable_fns = [i for i, s in enumerate(self.sigs) if s[0]]
        # INPUT in the prologue
        if f['input'] and self.chance(0.4):
            for _ in range(self.r.randint(1, 2)):
                lvs, fields, bad = [], [], []
                for _ in range(self.r.randint(1, 3)):
                    e, t = self.lvalue(main)
                    lvs.append(lv_of(e))
                    if t == STR:
                        fields.append(self.pick(['abc', 'x', 'Hi there']))
                    elif t in (I, L):
                        fields.append(str(self.r.randint(-99, 999)))
                    else:
                        fields.append(self.pick(['1.5', '-0.25', '3', '2E3']))
                    last_t = t
                if self.chance(0.35):
                    k = self.r.random()
                    if k < 0.5:
                        self.script['lines'].append(','.join(fields + ['1']))
                    elif last_t != STR:
                        self.script['lines'].append(','.join(fields[:-1] + ['zz']))
                    else:
                        self.script['lines'].append(','.join(fields[:-1]) if len(fields) > 1 else 'a,b')
                self.script['lines'].append(','.join(fields))
                pro.append(s_input(self.pick(['', 'n', 'Value']), self.chance(0.6),
                                   self.chance(0.2), lvs))
        if f['rnd'] and self.chance(0.2):
            pro.append(s_randomize(self.num(main, 1)))
        # main body in segments separated by labels (forward GOTO targets)
        nseg = self.r.randint(1, 3) if f['goto'] else 1
        ngs = self.r.randint(0, 2) if f['gosub'] else 0
        p.labels = [f'lb{i}' for i in range(nseg - 1)] + [f'gs{i}' for i in range(ngs)]
        self.gosubs = list(range(nseg - 1, nseg - 1 + ngs))
        body = []
        per = max(1, f['size'] // nseg)
        for sgi in range(nseg):
            self.fwd_labels = list(range(sgi, nseg - 1))
            body += self.block(main, f['depth'], self.r.randint(max(1, per - 2), per + 1))
            if sgi < nseg - 1:
                body.append(s_label(sgi))
        if ngs or self.chance(0.3):
            body.append(s_end())
        main.in_gosub = True
        for g in self.gosubs:
            body.append(s_label(g))
            body += self.block(main, 1, self.r.randint(1, 3))
            body.append(s_return())
        p.main = pro + body
        return p


def random_program(seed, index, features=None):
    g = Gen(seed, index, features)
    p = g.build()
    src = p.layout()
    script = {'lines': g.script['lines'],
              'rnd': [fbits(x) for x in g.script['rnd']] + [fbits(0.5), fbits(0.25)] * 40,
              'timer': [fbits(x) for x in g.script['timer']] + [fbits(1.0), fbits(2.5)] * 40}
    return {'src': src, 'sx': p.sx(), 'script': script, 'stats': p.stats,
            'hazards': sorted(set(g.hazards)), 'index': index}
